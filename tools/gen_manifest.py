#!/usr/bin/env python3
"""Regenerates /verif/MANIFEST.json from harness/props.d (claimed) and
properties.jsonl (everything else goes to not_applicable with its reason)."""
import json, os, sys
V = os.path.dirname(os.path.dirname(os.path.abspath(__file__)))
sys.path.insert(0, os.path.join(V, "harness"))
import props as P
ids = [json.loads(l)["id"] for l in open(os.path.join(V, "properties.jsonl"))]
na_reasons = {}
nap = os.path.join(V, "harness", "not_applicable.json")
if os.path.exists(nap):
    na_reasons = json.load(open(nap))
claimed = set(open(os.path.join(V, "harness", "claimed.txt")).read().split())
checks, na = [], []
for i in ids:
    if i in P.PROPS and i in claimed:
        p = P.PROPS[i]
        checks.append(dict(
            property_id=i, quick_cmd="./check %s --tier quick" % i, thorough_cmd="./check %s --tier thorough" % i,
            evidence_file="evidence/%s.json" % i, replay_cmd_template="./check %s --replay {path}" % i,
            engine="check", level_claimed=dict(category=p["level"], text=p["level_text"], design_ref=p.get("design_ref", "DESIGN.md §3 " + i)),
            level_note=p["level_note"], technique=p["technique"]))
    else:
        na.append(dict(property_id=i, reason=na_reasons.get(i, "no generated-input check is registered for this property yet (harness not built in the time available); no claim is made")))
man = dict(
    version=1, setup_cmd="./check --setup",
    hooks=dict(guard="verif", enable="no hooks: harness code is injected at build time with go's -overlay/-modfile (see DESIGN.md §1.1); nothing under /repo is compiled differently",
               baseline_off_cmd="cd /repo && go build ./... && go test -vet=off -count=1 -timeout 25m ./...", source_commits=[], add_only=True),
    engines=[dict(name="check", path="check", serves_properties=[c["property_id"] for c in checks],
                  kind_free_text="python driver: builds in-package rapid/enumeration harnesses from harness/overlay against /repo's working tree via go -overlay, shards them, merges statistics into evidence, classifies known findings")],
    checks=checks, not_applicable=na,
    notes="All checks are generated-input searches against explicit oracles (property-based testing / fuzzing). exit 2 = inconclusive (never a violation).")
json.dump(man, open(os.path.join(V, "MANIFEST.json"), "w"), indent=1)
print("claimed", len(checks), "not_applicable", len(na))
