#!/usr/bin/env python3
"""usage: tools/mkmutant.py <ID> <name> <repo-relative file> <old text> <new text> [<file> <old> <new> ...]
Creates mutants/<ID>/<name>.diff by textual replacement in a scratch worktree (removed afterwards)."""
import os, subprocess, sys, tempfile
pid, name, rest = sys.argv[1], sys.argv[2], sys.argv[3:]
wt = tempfile.mkdtemp(prefix="vmk-", dir="/tmp")
os.rmdir(wt)
subprocess.check_call(["git", "-C", "/repo", "worktree", "add", "-q", "--detach", wt, "HEAD"])
try:
    for i in range(0, len(rest), 3):
        f, old, new = rest[i:i + 3]
        p = open(os.path.join(wt, f)).read()
        if p.count(old) != 1:
            sys.exit("pattern occurs %d times in %s" % (p.count(old), f))
        open(os.path.join(wt, f), "w").write(p.replace(old, new))
    d = subprocess.check_output(["git", "-C", wt, "diff"], text=True)
    os.makedirs("/verif/mutants/%s" % pid, exist_ok=True)
    open("/verif/mutants/%s/%s.diff" % (pid, name), "w").write(d)
    print("wrote mutants/%s/%s.diff (%d lines)" % (pid, name, d.count("\n")))
finally:
    subprocess.call(["git", "-C", "/repo", "worktree", "remove", "--force", wt])
