#!/bin/bash
# usage: tools/batch_check.sh <outfile> <tier> ID...
out=$1; tier=$2; shift 2
for id in "$@"; do
  s=$(date +%s); /verif/check $id --tier $tier > /tmp/batch-$id.log 2>&1; rc=$?
  echo "$id rc=$rc wall=$(( $(date +%s)-s ))s $(grep -E '^OK|^VIOLATION|^INCONCLUSIVE' /tmp/batch-$id.log | head -2 | cut -c1-200 | tr '\n' ' ')" >> $out
done
echo DONE >> $out
