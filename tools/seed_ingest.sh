#!/bin/bash
# usage: tools/seed_ingest.sh <ID> [check-id ...]   — verifies and stores an independently produced seeded change from /tmp/seed-<ID>
set -u
id=$1; shift; base=$(echo $id | sed "s/[a-z]*$//"); checks=${@:-$base}
wt=/tmp/seed-$id; dst=/verif/seeded/$id
[ -f $wt/patch.diff ] || { echo "no patch in $wt"; exit 3; }
mkdir -p $dst; cp $wt/patch.diff $dst/patch.diff; cp $wt/meta.json $dst/meta.agent.json 2>/dev/null; cp $wt/demo_test.go.txt $dst/ 2>/dev/null
export GOFLAGS=-mod=mod GOPROXY=off GOSUMDB=off GOTOOLCHAIN=local
demo=$(python3 -c "import json;print(json.load(open('$wt/meta.json'))['demo_cmd'])")
tests=$(python3 -c "import json;print(json.load(open('$wt/meta.json')).get('existing_tests_cmd',''))")
cd $wt
git apply -R --check patch.diff 2>/dev/null && patched=1 || patched=0
[ $patched = 1 ] || git apply patch.diff
git apply -R patch.diff; (eval "$demo") > $dst/demo.unpatched.log 2>&1; r0=$?
git apply patch.diff;    (eval "$demo") > $dst/demo.patched.log 2>&1; r1=$?
echo "demo: unpatched rc=$r0 patched rc=$r1"
res=""
for c in $checks; do
  /verif/check $c --repo $wt > $dst/check.$c.quick.log 2>&1; rc=$?
  v=quick:$rc
  if [ $rc = 0 ]; then VERIF_JOBS=8 /verif/check $c --tier thorough --repo $wt > $dst/check.$c.thorough.log 2>&1; rc=$?; v="$v thorough:$rc"; fi
  grep -h "violation in engine" $dst/check.$c.*.log | head -2 | cut -c1-300
  res="$res $c=[$v]"
done
echo "checks:$res"
python3 - <<PY
import json
m={}
try: m=json.load(open("$dst/meta.agent.json"))
except Exception: pass
m.update({"property":"$base","round":"$id","demo_rc_unpatched":$r0,"demo_rc_patched":$r1,"confirmed":($r0==0 and $r1!=0),"checks_run":"$res".strip(),
 "what_i_ran":"demo with and without patch.diff in a scratch worktree; ./check <id> --repo <worktree> (quick, then thorough if quick passed)"})
json.dump(m,open("$dst/meta.json","w"),indent=1)
PY
rm -f $dst/meta.agent.json
