#!/usr/bin/env python3
"""prints the prompt for an independent seeded-breakage agent for property <ID> (no /verif access)"""
import json, sys
pid = sys.argv[1]
for l in open('/verif/properties.jsonl'):
    p = json.loads(l)
    if p['id'] == pid:
        break
wt = "/tmp/seed-%s" % pid
print(f"""You are helping to evaluate a verification effort for snapcore/snapd (Go). Work ONLY inside your own scratch git worktree {wt} (create it with: git -C /repo worktree add --detach {wt} HEAD). Do NOT read or write anything under /verif, and do not modify /repo itself. The sandbox is offline; for go commands use: export GOFLAGS=-mod=mod GOPROXY=off GOSUMDB=off GOTOOLCHAIN=local

The property under study:
  Title: {p['title']}
  Statement: {p['statement']}
  Quantified over: {p['quantifier']['text']}
  Relevant files: {', '.join(p['anchors']['files'])}

Task: produce ONE realistic change to snapd's non-test source code (the kind of slip a developer could make in a refactor or an optimisation: off-by-one, dropped branch, reordered steps, a missing restore/undo, a wrong comparison, two cooperating sites that each look fine alone) that BREAKS this property while the code still compiles and the package's existing unit tests still pass. It must need something specific to manifest — a particular interleaving, a crash or fault at a particular point, a multi-step sequence of operations, an unusual input — not something ordinary use or the existing tests would expose at once. Do not touch test files in the patch. Keep it small (a few lines).

Deliver, inside {wt}:
  1. the change applied to the worktree, and saved as {wt}/patch.diff (output of `git diff` for the non-test source change only);
  2. a demonstration: a NEW Go test file (e.g. <pkg>/seeddemo_test.go, NOT part of patch.diff) or a small program that FAILS with the change and PASSES without it, and shows the property being violated through the public/observable behaviour; save a copy as {wt}/demo_test.go.txt with a first-line comment saying in which package directory it must be placed and how to run it;
  3. evidence that the existing tests of the touched package(s) still pass with the change (run them; some packages have tests that fail in this sandbox even without any change — compare against the unchanged tree and report only differences);
  4. {wt}/meta.json: {{"property": "{pid}", "summary": "...what the change does...", "needs": "...what is needed for the violation to manifest...", "files": [...], "demo_cmd": "...", "existing_tests_cmd": "..."}}.

Then report briefly: the patch, why it breaks the property, what it takes to manifest, and the outputs of the demo with/without the patch. Leave the worktree in place (patched) for inspection. Never use `git stash` (the stash is shared between all worktrees of the repository and other agents work in parallel): to compare patched vs unpatched use `git apply -R patch.diff` / `git apply patch.diff`. The machine is heavily loaded: keep go test runs targeted (-run / -check.f filters) and expect builds to be slow.""")
