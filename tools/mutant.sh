#!/bin/bash
# usage: tools/mutant.sh <property id> <patch file> [tier]
# Applies the patch to a scratch worktree of /repo, runs the check against it,
# prints the verdict, removes the worktree.  Never touches /repo's working tree.
set -u
id=$1; patch=$(readlink -f "$2"); tier=${3:-quick}
wt=/tmp/vmut-$id-$$
git -C /repo worktree add -q --detach "$wt" HEAD || exit 3
trap 'git -C /repo worktree remove --force "$wt" >/dev/null 2>&1; rm -rf "$wt"' EXIT
if ! git -C "$wt" apply "$patch"; then echo "MUTANT-RESULT $id $(basename $patch): PATCH-DOES-NOT-APPLY"; exit 3; fi
export GOFLAGS=-mod=mod GOPROXY=off GOSUMDB=off GOTOOLCHAIN=local
/verif/check "$id" --tier "$tier" --repo "$wt" > "/tmp/vmut-$id-$$.log" 2>&1
rc=$?
grep -E "violation in engine|VIOLATION|INCONCLUSIVE|^OK" "/tmp/vmut-$id-$$.log" | cut -c1-400 | head -8
case $rc in 1) v=KILLED;; 0) v=SURVIVED;; *) v=INCONCLUSIVE;; esac
echo "MUTANT-RESULT $id $(basename $patch): $v (exit $rc)"
rm -f "/tmp/vmut-$id-$$.log"
