"""Property table: engines, budgets, evidence texts (DESIGN.md §0/§3).

Each property lives in harness/props.d/<ID>.py which must define PROP (a dict with
keys level, rule, assumptions, engines, and the MANIFEST texts level_text,
level_note, technique, design_ref).  Helper gt() builds a go-test engine entry."""
import glob, os

def gt(name, pkg, test, quick, thorough, **kw):
    d = dict(name=name, kind="gotest", pkg=pkg, test=test, quick=quick, thorough=thorough)
    d.update(kw)
    return d

PROPS = {}
_here = os.path.dirname(os.path.abspath(__file__))
for _f in sorted(glob.glob(os.path.join(_here, "props.d", "C*.py"))):
    _ns = {"gt": gt, "__file__": _f}
    exec(compile(open(_f).read(), _f, "exec"), _ns)
    PROPS[os.path.basename(_f)[:-3]] = _ns["PROP"]

# quick-tier multipliers (see quick_scale.json)
import json as _json
_sp = os.path.join(_here, "quick_scale.json")
if os.path.exists(_sp):
    _scale = _json.load(open(_sp))
    for _id, _p in PROPS.items():
        _k = _scale.get(_id, 1)
        for _e in _p["engines"]:
            if _e.get("kind", "gotest") == "gotest" and _e.get("rapid", True) and "checks" in _e.get("quick", {}):
                _e["quick"] = dict(_e["quick"], checks=int(_e["quick"]["checks"] * _k))
