"""Property table: engines, budgets, evidence texts (DESIGN.md §0/§3)."""

def gt(name, pkg, test, quick, thorough, **kw):
    d = dict(name=name, kind="gotest", pkg=pkg, test=test, quick=quick, thorough=thorough)
    d.update(kw)
    return d

PROPS = {}

PROPS["C33"] = dict(
    level="exploration",
    rule="exhaustive: every ordered pair of strings of length<=L (L=3 quick, 4 thorough) over the covering alphabet "
         "{0,1,9,a,Z,.,+,~,-,:} and every triple of length<=2; random: rapid-generated version-like strings with derived "
         "near neighbours (pairs and triples); dpkg: pairs cross-checked with dpkg --compare-versions. "
         "Non-trivial = the two versions differ and share a non-empty common prefix; distinct by hash of the case.",
    assumptions=["reference model = deb-version(7) ordering as implemented in the harness, itself cross-checked against dpkg in every run",
                 "validity domain for the Debian-order claim: non-empty strings over [A-Za-z0-9.+~-] without ':'"],
    engines=[
        gt("exhaustive", "strutil", "TestVerifC33Exhaustive", dict(shards=1), dict(shards=16), rapid=False),
        gt("random", "strutil", "TestVerifC33Random", dict(checks=60000, shards=1), dict(checks=400000, shards=12)),
        gt("dpkg", "strutil", "TestVerifC33Dpkg", dict(checks=600, shards=2), dict(checks=6000, shards=8)),
    ],
)
