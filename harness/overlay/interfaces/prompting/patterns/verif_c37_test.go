package patterns

// C37 — path patterns: matching equals expansions; counts; rejection of invalid
// patterns; precedence is order-independent.
//
// Unexported identifiers used: parsePatternVariant (only to bring the harness's
// own raw brace expansions into the package's variant spelling, and to attribute
// a violation to a known defect), maxExpandedPatterns is NOT used (the limit 1000
// is taken from the documentation).
//
// Engines
//   match       rapid: grammar-generated patterns (valid and invalid family) with
//               paths derived from the pattern's own expansions.  Oracles:
//               (v)  validity model (verif_c37_model_test.go) <=> ParsePathPattern accepts
//               (n)  NumVariants == #RenderAllVariants callbacks == model count
//                    (documented optimisations applied) <= 1000; indices 0..n-1
//               (e)  multiset of rendered variants == multiset of the independent
//                    expansion; as a set also == the un-optimised expansion
//               (m)  p.Match(path) <=> exists rendered variant v with
//                    PathPatternMatches(v.String(), path)      [property sentence 1]
//               (t)  documented trailing-slash laws of PathPatternMatches on every
//                    rendered variant (see c37SlashLaws)
//   precedence  rapid: a path, 2-6 variants that all match it (abstractions of
//               the path sharing a literal prefix, partly rendered from one brace
//               pattern).  Oracles: HighestPrecedencePattern gives the same variant
//               for every order (all permutations up to 4 members; identity,
//               reverse, rotations and generated permutations above), Compare is
//               antisymmetric, ties only between equal variants, the winner is
//               not beaten by any member, and the all-literal spelling of the path
//               wins when present (componentType doc: "A literal exactly matches
//               the next characters in the path, so it has the highest precedence").

import (
	"fmt"
	"sort"
	"strings"
	"testing"

	doublestar "github.com/bmatcuk/doublestar/v4"

	"github.com/snapcore/snapd/verifkit"
	"pgregory.net/rapid"
)

// ---------------------------------------------------------------------------
// model self-test on the worked examples of the package's own documentation
// (TestPathPatternRenderAllVariants / TestParsePathPatternHappy tables)

func c37ModelSelfTest(t *testing.T) {
	type ex struct {
		pattern string
		count   int64
		first   string
	}
	for _, e := range []ex{
		{`/foo`, 1, `/foo`},
		{`/{foo,bar/}`, 2, `/foo`},
		{`/{a,b}c{d,e}f{g,h}`, 8, `/acdfg`},
		{`/a{{b,c},d,{e{f,{,g}}}}h`, 6, `/abh`},
		{`/a{{b,c},d,\{e{f,{,g\}}}}h`, 6, `/abh`},
		{`/foo/{a,{b,{c,{d,{e,{f,{g,{h,{i,{j,k}}}}}}}}}}`, 11, `/foo/a`},
		{`/foo,bar,baz`, 1, `/foo,bar,baz`},
		{`/{foo,/bar,bar,/baz}`, 4, `/foo`},
		{`/foo/{a,b}{c,d}{e,f}{g,h,i,j,k}{l,m,n,o,p}{q,r,s,t,u},1,2,3`, 1000, `/foo/acegl` + `q,1,2,3`},
		{"/" + strings.Repeat("{a,", 999) + "a" + strings.Repeat("}", 999), 1, "/a"},
		{"/" + strings.Repeat("{", 999) + "a" + strings.Repeat(",a}", 999), 1, "/a"},
		{`/foo/{a,b,c,d,e,f,g}{h,i,j,k,l,m,n,o,p,q,r}{s,t,u,v,w,x,y,z,1,2,3,4,5}`, 1001, `/foo/ahs`},
	} {
		n, why := mParse(e.pattern)
		if n == nil {
			t.Fatalf("HARNESS: model rejects documented valid pattern %.60q: %s", e.pattern, why)
		}
		o := n.optimised()
		if o.count() != e.count {
			t.Fatalf("HARNESS: model count for %.60q is %d, documentation says %d", e.pattern, o.count(), e.count)
		}
		if got := o.expand()[0]; got != e.first {
			t.Fatalf("HARNESS: model first expansion for %.60q is %q, want %q", e.pattern, got, e.first)
		}
	}
	for _, bad := range []string{``, `file.txt`, `{/,/foo}`, `/foo{bar`, `/foo}bar`, `/foo/bar\`, `/foo/bar{`, `/foo/bar{baz\`, `/foo/bar{baz{`, `/foo/ba[rz]`,
		"/" + strings.Repeat("{a,", 1000) + "a" + strings.Repeat("}", 1000), "/" + strings.Repeat("{", 1200)} {
		if n, _ := mParse(bad); n != nil {
			t.Fatalf("HARNESS: model accepts documented invalid pattern %.60q", bad)
		}
	}
}

// ---------------------------------------------------------------------------
// generators

var (
	c37Lits  = []string{"foo", "bar", "baz", "a", "b", "c", "x", ".txt", "ab", "f", "é", "⁑", "a b", "1", "fo", "o"}
	c37Escs  = []string{`\{`, `\}`, `\,`, `\*`, `\?`, `\\`, `\[`, `\]`, `\a`, `\⁑`}
	c37Tails = []string{"", "", "", "", "", "/", "/", "/**", "/**", "/**", "/**/", "{,/}", "/*", "*", "/{,*}", "/{foo,bar}"}
)

// c37Out writes pattern text; unless double is set it avoids producing repeated
// separators, also across group boundaries (they are a recorded defect of
// their own, F-C37-3, and would otherwise dominate).
type c37Out struct {
	sb     strings.Builder
	slash  bool // the text so far may end in '/'
	double bool
}

func (w *c37Out) emit(s string) {
	if w.slash && !w.double {
		s = strings.TrimPrefix(s, "/")
	}
	if s == "" {
		return
	}
	w.sb.WriteString(s)
	w.slash = strings.HasSuffix(s, "/")
}

func c37GenSeq(t *rapid.T, depth int, w *c37Out) {
	min, max := 0, 4
	if depth == 0 {
		min, max = 2, 7
	}
	n := rapid.IntRange(min, max).Draw(t, "pieces")
	for i := 0; i < n; i++ {
		k := rapid.IntRange(0, 99).Draw(t, "piece")
		switch {
		case k < 26:
			w.emit(rapid.SampledFrom(c37Lits).Draw(t, "lit"))
		case k < 44:
			w.emit("/")
		case k < 50:
			w.emit("*")
		case k < 54:
			w.emit("?")
		case k < 57:
			w.emit("**")
		case k < 62:
			w.emit("/**/")
		case k < 70:
			w.emit(rapid.SampledFrom(c37Escs).Draw(t, "esc"))
		case k < 72:
			w.emit(",")
		case k < 73:
			w.emit("/")
			w.emit("/") // a repeated separator only when w.double
		case k < 74:
			w.emit("***")
		default:
			if depth >= 3 {
				w.emit(rapid.SampledFrom(c37Lits).Draw(t, "lit"))
				continue
			}
			before, after := w.slash, false
			w.sb.WriteString("{")
			alts := rapid.IntRange(1, 4).Draw(t, "alts")
			prev := ""
			for a := 0; a < alts; a++ {
				if a > 0 {
					w.sb.WriteString(",")
				}
				w.slash = before
				start := w.sb.Len()
				switch k := rapid.IntRange(0, 11).Draw(t, "altkind"); {
				case k < 2:
					// empty alternative
				case k < 5 && a > 0 && prev != "":
					// a near copy of the previous alternative: identical (the
					// documented optimisation removes it), or differing at one end
					alt := prev
					last := alt[len(alt)-1]
					switch rapid.IntRange(0, 5).Draw(t, "nearcopy") {
					case 4, 5:
						// the previous alternative with one of its nested groups
						// extended by one more alternative (added after an
						// independently produced change went unnoticed: a
						// de-duplication that treats a longer group as equal)
						if i := strings.LastIndex(alt, "}"); i > 0 && alt[i-1] != '\\' {
							alt = alt[:i] + "," + rapid.SampledFrom([]string{"c", "x", "zz", "*"}).Draw(t, "extend") + alt[i:]
						}
					case 1:
						alt += rapid.SampledFrom([]string{"x", "y", "foo", "*"}).Draw(t, "append")
					case 2:
						if (last >= 'a' && last <= 'z') && !strings.HasSuffix(alt, `\`+string(last)) {
							alt = alt[:len(alt)-1] + rapid.SampledFrom([]string{"y", "z", "q"}).Draw(t, "replace")
						}
					case 3:
						if !strings.HasPrefix(alt, "/") {
							alt = rapid.SampledFrom([]string{"x", "y", "b"}).Draw(t, "prepend") + alt
						}
					}
					w.sb.WriteString(alt)
					w.slash = strings.HasSuffix(alt, "/")
				default:
					c37GenSeq(t, depth+1, w)
				}
				prev = w.sb.String()[start:]
				after = after || w.slash
			}
			w.sb.WriteString("}")
			w.slash = after
		}
	}
}

func c37GenValidish(t *rapid.T) string {
	w := &c37Out{slash: true, double: rapid.IntRange(0, 11).Draw(t, "allow-repeated-slashes") == 0}
	w.sb.WriteString("/")
	c37GenSeq(t, 0, w)
	tail := rapid.SampledFrom(c37Tails).Draw(t, "tail")
	if w.slash && !w.double && strings.HasPrefix(tail, "{,/}") {
		tail = ""
	}
	w.emit(tail)
	return w.sb.String()
}

// c37GenBlowup: a product of groups whose size is near the documented limit.
func c37GenBlowup(t *rapid.T) string {
	var sb strings.Builder
	sb.WriteString("/foo/")
	if rapid.Bool().Draw(t, "exact") {
		// group sizes whose product sits exactly on or next to the limit
		factors := rapid.SampledFrom([][]int{
			{10, 10, 10}, {8, 125}, {2, 2, 2, 5, 5, 5}, {1000}, {2, 500}, {4, 250}, {7, 11, 13}, {1001}, {3, 333}, {27, 37}, {999},
			{2, 501}, {3, 334}, {2, 2, 2, 2, 2, 2, 2, 2, 2, 2}, {5, 200}, {25, 40}, {1, 1000}, {31, 32}, {10, 100},
		}).Draw(t, "factors")
		letter := 0
		for _, f := range factors {
			sb.WriteString("{")
			for i := 0; i < f; i++ {
				if i > 0 {
					sb.WriteString(",")
				}
				sb.WriteString(fmt.Sprintf("%c%d", 'a'+letter%26, letter/26))
				letter++
			}
			sb.WriteString("}")
			if rapid.Bool().Draw(t, "sep") {
				sb.WriteString("/")
			}
		}
		return sb.String()
	}
	groups := rapid.IntRange(2, 10).Draw(t, "groups")
	letter := 0
	for g := 0; g < groups; g++ {
		sz := rapid.IntRange(2, 13).Draw(t, "gsize")
		if groups > 5 {
			sz = rapid.IntRange(1, 3).Draw(t, "gsize-small")
		}
		dup := rapid.IntRange(0, 6).Draw(t, "dup") == 0
		sb.WriteString("{")
		for i := 0; i < sz; i++ {
			if i > 0 {
				sb.WriteString(",")
			}
			if dup && i == sz-1 && sz > 1 {
				letter-- // repeat the previous alternative: the documented optimisation removes it
			}
			sb.WriteString(fmt.Sprintf("%c%d", 'a'+letter%26, letter/26))
			letter++
		}
		sb.WriteString("}")
		if rapid.Bool().Draw(t, "sep") {
			sb.WriteString("/")
		}
	}
	return sb.String()
}

// c37GenPattern never yields an escaped '/' (outside the generated domain, see
// props.d/C37.py assumptions): damage to a pattern can leave a '\\' in front of
// a '/', which is then spelled as a plain '/'.
func c37GenPattern(t *rapid.T) string {
	var sb strings.Builder
	for _, tk := range c37Tokens(c37GenPattern0(t)) {
		if tk == `\/` {
			tk = "/"
		}
		sb.WriteString(tk)
	}
	return sb.String()
}

func c37GenPattern0(t *rapid.T) string {
	k := rapid.IntRange(0, 99).Draw(t, "family")
	switch {
	case k < 81:
		return c37GenValidish(t)
	case k < 85:
		return c37GenBlowup(t)
	case k < 86:
		// nesting depth around the documented bound
		d := rapid.SampledFrom([]int{998, 999, 1000, 1001}).Draw(t, "depth")
		if rapid.Bool().Draw(t, "left") {
			return "/" + strings.Repeat("{", d) + "a" + strings.Repeat(",a}", d)
		}
		return "/" + strings.Repeat("{a,", d) + "a" + strings.Repeat("}", d)
	}
	// invalid family: damage a valid-looking pattern
	p := c37GenValidish(t)
	pos := func() int { return rapid.IntRange(0, len(p)).Draw(t, "pos") }
	ins := func(s string) string {
		i := pos()
		for i > 0 && i < len(p) && (p[i]&0xC0) == 0x80 { // stay on a rune boundary
			i--
		}
		return p[:i] + s + p[i:]
	}
	switch rapid.IntRange(0, 8).Draw(t, "damage") {
	case 0:
		return p[1:] // no leading '/'
	case 1:
		return rapid.SampledFrom([]string{"foo", "{/,/foo}", "*", "\\/", " /"}).Draw(t, "lead") + p
	case 2:
		return ins("{")
	case 3:
		return ins("}")
	case 4:
		return ins(rapid.SampledFrom([]string{"[", "]", "[a]", "[!a-z]"}).Draw(t, "class"))
	case 5:
		return p + `\`
	case 6:
		return ""
	case 7:
		if i := strings.LastIndexByte(p, '}'); i >= 0 {
			return p[:i] + p[i+1:]
		}
		return ins("{")
	default:
		return ins("{") + `\`
	}
}

var c37Fill = []string{"", "a", "xy", "foo", ".txt", "b", "é"}

// c37Instantiate derives a path from one brace-free expansion by substituting
// the wildcards.
func c37Instantiate(t *rapid.T, e string) string {
	comps := c37Components(e)
	var out []string
	for ci, comp := range comps {
		if comp == "**" && ci > 0 {
			nd := rapid.IntRange(0, 2).Draw(t, "dirs")
			for d := 0; d < nd; d++ {
				out = append(out, rapid.SampledFrom([]string{"d", "foo", "a", "x.txt"}).Draw(t, "dir"))
			}
			if nd == 0 && ci == len(comps)-1 && rapid.Bool().Draw(t, "keepslash") {
				out = append(out, "")
			}
			continue
		}
		var sb strings.Builder
		toks := c37Tokens(comp)
		for i := 0; i < len(toks); i++ {
			switch tk := toks[i]; {
			case tk == "?":
				sb.WriteString(rapid.SampledFrom([]string{"a", "x", "o", ".", "é", "r"}).Draw(t, "qm"))
			case tk == "*":
				for i+1 < len(toks) && toks[i+1] == "*" {
					i++
				}
				sb.WriteString(rapid.SampledFrom(c37Fill).Draw(t, "star"))
			case len(tk) > 1 && tk[0] == '\\':
				sb.WriteString(tk[1:])
			default:
				sb.WriteString(tk)
			}
		}
		out = append(out, sb.String())
	}
	return strings.Join(out, "/")
}

func c37Perturb(t *rapid.T, p string) string {
	switch rapid.IntRange(0, 13).Draw(t, "perturb") {
	case 0, 1:
		if strings.HasSuffix(p, "/") {
			return strings.TrimSuffix(p, "/")
		}
		return p + "/"
	case 2:
		return strings.TrimSuffix(p, "/") + "/" + rapid.SampledFrom([]string{"x", "foo", "a/b", "bar/"}).Draw(t, "extra")
	case 3:
		q := strings.TrimSuffix(p, "/")
		if i := strings.LastIndexByte(q, '/'); i > 0 {
			return q[:i] + rapid.SampledFrom([]string{"", "/"}).Draw(t, "cutslash")
		}
	case 4:
		if len(p) > 1 {
			rs := []rune(p)
			i := rapid.IntRange(1, len(rs)-1).Draw(t, "chpos")
			rs[i] = rapid.SampledFrom([]rune{'a', 'x', '/', 'o', 'z'}).Draw(t, "ch")
			return string(rs)
		}
	case 5:
		rs := []rune(p)
		i := rapid.IntRange(1, len(rs)).Draw(t, "inspos")
		return string(rs[:i]) + rapid.SampledFrom([]string{"a", "x", "/", "foo/", "o"}).Draw(t, "ins") + string(rs[i:])
	case 6:
		rs := []rune(p)
		if len(rs) > 2 {
			i := rapid.IntRange(1, len(rs)-1).Draw(t, "delpos")
			return string(rs[:i]) + string(rs[i+1:])
		}
	}
	return p
}

type c37MatchCase struct {
	Pattern string
	Paths   []string
}

func c37GenMatchCase(t *rapid.T) c37MatchCase {
	c := c37MatchCase{Pattern: c37GenPattern(t)}
	var exps []string
	if n, _ := mParse(c.Pattern); n != nil {
		if o := n.optimised(); o.count() <= 2*c37Limit {
			exps = o.expand()
		}
	}
	np := 5
	if len(c.Pattern) > 600 {
		np = 1
	}
	for i := 0; i < np; i++ {
		if len(exps) == 0 {
			c.Paths = append(c.Paths, c37CleanPath(rapid.SampledFrom([]string{"/", "/foo", "/foo/bar/", "/a"}).Draw(t, "anypath")))
			continue
		}
		e := exps[rapid.IntRange(0, len(exps)-1).Draw(t, "exp")]
		c.Paths = append(c.Paths, c37CleanPath(c37Perturb(t, c37CleanPath(c37Instantiate(t, e)))))
	}
	return c
}

// ---------------------------------------------------------------------------
// match engine

// c37SlashLaws checks the documented trailing-slash behaviour of
// PathPatternMatches for one brace-free pattern (doc comment of
// PathPatternMatches and TestPathPatternMatches):
//
//	T1 "patterns with trailing slashes should not match paths without trailing
//	    slashes" (this includes "/foo/**/ not match /foo")
//	T2 "patterns without trailing slashes match paths with trailing slashes":
//	    if v matches P (P without trailing '/') then v matches P+"/"
//	T3 a pattern without wildcards matches exactly its own text, and that text
//	    followed by '/' when the pattern has no trailing '/' ("/foo match /foo/")
//	T4 for a wildcard-free X: X+"/**" matches X, X+"/" and everything below
//	    ("/foo/** ... match /foo and /foo/"), X+"/**/" matches X+"/" and every
//	    path below that ends in '/' ("/foo/**/ not match /foo"), as tabulated in
//	    TestPathPatternMatches for /home/test/Documents/**[/]
func c37SlashLaws(v, path string, got bool) error {
	pSlash := strings.HasSuffix(path, "/")
	vSlash := strings.HasSuffix(v, "/")
	if vSlash && !pSlash && got {
		return verifkit.Violatef("trailing-slash law T1: pattern %q (ends in '/') matches %q (no trailing '/')", v, path)
	}
	if got && !pSlash && !vSlash {
		if m, err := PathPatternMatches(v, path+"/"); err != nil || !m {
			return verifkit.Violatef("trailing-slash law T2: pattern %q matches %q but not %q (err %v)", v, path, path+"/", err)
		}
	}
	if !c37HasWildcard(v) {
		lit := c37Unescape(v)
		want := path == lit || (!vSlash && path == lit+"/")
		if got != want {
			return verifkit.Violatef("literal law T3: wildcard-free pattern %q vs path %q: got %v want %v", v, path, got, want)
		}
	}
	for _, tail := range []string{"/**", "/**/"} {
		if !strings.HasSuffix(v, tail) {
			continue
		}
		base := v[:len(v)-len(tail)]
		if c37HasWildcard(base) || strings.HasSuffix(base, `\`) || strings.HasSuffix(base, "/") {
			continue
		}
		lit := c37Unescape(base)
		want := path == lit || strings.HasPrefix(path, lit+"/")
		if tail == "/**/" {
			want = strings.HasPrefix(path, lit+"/") && pSlash
		}
		if got != want {
			return verifkit.Violatef("doublestar law T4: pattern %q vs path %q: got %v want %v", v, path, got, want)
		}
	}
	return nil
}

func c37AnyMatch(pats []string, suffix, path string, f func(string, string) (bool, error)) bool {
	for _, e := range pats {
		if m, err := f(e+suffix, path); err == nil && m {
			return true
		}
	}
	return false
}

// c37Attribute decides whether a violation of (m) is one of the recorded
// defects.  exps are the harness's own raw expansions of pattern.
func c37Attribute(pattern string, exps []string, path string, mOrig, mVar bool) error {
	msg := fmt.Sprintf("pattern %q path %q: Match=%v but some rendered variant matches=%v", pattern, path, mOrig, mVar)
	mExp := c37AnyMatch(exps, "", path, PathPatternMatches)
	if mOrig != mExp {
		// The original (with its groups) is matched differently from the OR over
		// its brace expansions.  Counterfactual: what PathPatternMatches would
		// answer if doublestar.Match treated groups as plain expansion.
		cf := false
		pSlash, oSlash := strings.HasSuffix(path, "/"), strings.HasSuffix(pattern, "/")
		switch {
		case oSlash && !pSlash:
			cf = false
		case c37AnyMatch(exps, "", path, doublestar.Match):
			cf = true
		case oSlash:
			cf = false
		default:
			cf = c37AnyMatch(exps, "/", path, doublestar.Match)
		}
		dsFact := false
		for _, suffix := range []string{"", "/"} {
			d, _ := doublestar.Match(pattern+suffix, path)
			if d != c37AnyMatch(exps, suffix, path, doublestar.Match) {
				dsFact = true
			}
		}
		if cf != mOrig && dsFact && strings.ContainsAny(pattern, "{") {
			return verifkit.Knownf("F-C37-1", "%s (doublestar.Match on the pattern with groups differs from the OR over its brace expansions)", msg)
		}
		someSlash := false
		for _, e := range exps {
			if strings.HasSuffix(e, "/") {
				someSlash = true
			}
		}
		if !oSlash && someSlash && strings.HasSuffix(pattern, "}") {
			return verifkit.Knownf("F-C37-2", "%s (trailing-'/' rule applied to the last character of the unexpanded pattern, an alternative ends in '/')", msg)
		}
		return verifkit.Violatef("%s; OR over raw expansions=%v", msg, mExp)
	}
	// mOrig == mExp != mVar: some rendered variant matches differently from the
	// raw expansion it spells.  Every expansion that shows the discrepancy in the
	// observed direction must be a recorded defect.
	var known error
	for _, e := range exps {
		pv, err := parsePatternVariant(e)
		if err != nil {
			continue
		}
		n := pv.String()
		me, _ := PathPatternMatches(e, path)
		mn, _ := PathPatternMatches(n, path)
		if me != mExp || mn != mVar {
			continue
		}
		fp, diag := c37NormalisationDefect(e, n, path, me, mn)
		if fp == "" {
			return verifkit.Violatef("%s; expansion %q matches=%v, rendered as %q matches=%v; %s", msg, e, me, n, mn, diag)
		}
		if known == nil {
			known = verifkit.Knownf(fp, "%s (expansion %q is rendered as %q which matches differently: %s)", msg, e, n, diag)
		}
	}
	if known != nil {
		return known
	}
	return verifkit.Violatef("%s; OR over raw expansions=%v, no single expansion explains it", msg, mExp)
}

// c37NormalisationDefect: narrow predicates for the recorded ways in which a
// rendered variant n matches differently from the raw expansion e it spells.
// Returns a fingerprint ("" = not a recorded defect) and a diagnosis.
func c37NormalisationDefect(e, n, path string, me, mn bool) (string, string) {
	match := func(p string) bool { m, _ := PathPatternMatches(p, path); return m }
	// F-C37-3: repeated separators are collapsed in the variant but are matched
	// literally by Match/doublestar.  Confirmed by experiment: with the separators
	// collapsed in the raw expansion the two agree.
	if c := c37CollapseSlashes(e); c != e {
		if match(c) == mn {
			return "F-C37-3", "repeated '/' collapsed in the variant only"
		}
		e, me = c, match(c)
	}
	re, rn := c37RefMatch(e, path), c37RefMatch(n, path)
	diag := fmt.Sprintf("documented semantics: expansion %v, variant %v", re, rn)
	dm := func(p string) bool { m, _ := doublestar.Match(p, path); return m }
	comps := c37Components(e)
	switch {
	case re && rn:
		// The two spellings mean the same and by the documented semantics both
		// match: it is doublestar.Match that misses one of them.
		// F-C37-4: neither doublestar.Match(x) nor doublestar.Match(x+"/") matches
		// although some head of x consumes the whole path and the rest consists
		// only of '*' and '/' (so can match the empty string).
		missed := e
		if me {
			missed = n
		}
		if !dm(missed) && !dm(missed+"/") {
			mt := c37Tokens(missed)
			for i := len(mt) - 1; i >= 1; i-- {
				if mt[i] != "*" && mt[i] != "/" {
					break
				}
				if dm(strings.Join(mt[:i], "")) {
					return "F-C37-4", diag + fmt.Sprintf("; doublestar.Match(%q) does not see that the remainder %q can match the empty string", missed, strings.Join(mt[i:], ""))
				}
			}
		}
		return "", diag + "; doublestar.Match departs from it"
	case re == me && rn == mn:
		// The variant spelling changes the documented meaning.  Three recorded
		// causes, told apart by re-spelling the raw expansion in ways that keep
		// the documented meaning and looking at how the package renders those.
		//
		// e2: every component that merely starts with "**" (a run of 3+ stars, or
		// "**x") spelled with one '*' ("a mid-pattern doublestar behaves like
		// bash's globstar ... the same results as *").
		afterDS, evenStars := false, false
		fixed := append([]string(nil), comps...)
		for i := 1; i < len(comps); i++ {
			if strings.HasPrefix(comps[i], "**") && comps[i] != "**" {
				// directly after a "**" component, or after "**" and some "*"
				// components (the package reorders "/**/*/" to "/*/**/" first)
				j := i - 1
				for j > 1 && comps[j] == "*" {
					j--
				}
				if comps[j] == "**" {
					afterDS = true
				}
				if strings.Trim(comps[i], "*") == "" && len(comps[i])%2 == 0 {
					evenStars = true
				}
				fixed[i] = "*" + strings.TrimLeft(comps[i], "*")
			}
		}
		e2 := strings.Join(fixed, "/")
		pv2, err := parsePatternVariant(e2)
		if err != nil || match(e2) != me {
			return "", diag + "; re-spelt expansion " + e2 + " behaves differently"
		}
		n2 := pv2.String()
		// e3: "/**/*/" reordered to "/*/**/" (what the package itself documents
		// as equivalent).
		for changed := true; changed; {
			changed = false
			for i := 1; i+2 < len(fixed); i++ {
				if fixed[i] == "**" && fixed[i+1] == "*" {
					fixed[i], fixed[i+1] = "*", "**"
					changed = true
				}
			}
		}
		// F-C37-6: a final "/**/*" is rendered as "/**", which additionally
		// matches what the part before it matches (the directory itself).
		tail6 := false
		if k := len(fixed); k >= 3 && fixed[k-1] == "*" && fixed[k-2] == "**" && !me && strings.HasSuffix(n2, "/**") {
			j := k - 2
			for j > 1 && fixed[j-1] == "**" {
				j-- // "/**/**/*" means the same as "/**/*"
			}
			if base := strings.Join(fixed[:j], "/"); base != "" && match(base) && match(n2) {
				tail6 = true
			}
		}
		switch {
		case n2 != n && (afterDS || evenStars) && (match(n2) == me || tail6):
			// The star-run spelling is rendered differently from the single-'*'
			// spelling, and the latter is either right or only wrong by F-C37-6.
			if evenStars {
				// F-C37-7: a component made of 4, 6, ... stars is rendered as a
				// "**" doublestar.
				return "F-C37-7", diag + "; a component of an even number (>2) of stars is rendered as \"**\" (single-star spelling renders as " + n2 + ")"
			}
			// F-C37-5: "/**" followed by a component starting with "**" ("/**/**x",
			// "/**/***"): the rendering drops the real doublestar.
			return "F-C37-5", diag + "; \"/**\" followed by a component starting with \"**\" loses the doublestar (single-star spelling renders as " + n2 + ")"
		case n2 == n && tail6:
			return "F-C37-6", diag + "; final \"/**/*\" rendered as \"/**\" also matches the directory itself"
		}
		return "", diag + "; the variant spelling changes the documented meaning"
	}
	return "", diag
}

func c37RunMatch(c c37MatchCase) (verifkit.Outcome, error) {
	o := verifkit.Outcome{Desc: fmt.Sprintf("%.300q paths=%q", c.Pattern, c.Paths)}
	tree, why := mParse(c.Pattern)
	p, err := ParsePathPattern(c.Pattern)
	if tree == nil {
		o.Labels = append(o.Labels, "invalid", "invalid:"+why)
		if err == nil {
			return o, verifkit.Violatef("invalid pattern %.200q (%s) accepted", c.Pattern, why)
		}
		if p != nil {
			return o, verifkit.Violatef("invalid pattern %.200q: error %v but non-nil result", c.Pattern, err)
		}
		return o, nil
	}
	opt := tree.optimised()
	want := opt.count()
	if want > c37Limit {
		o.Labels = append(o.Labels, "invalid", "invalid:over-limit")
		if err == nil {
			return o, verifkit.Violatef("pattern %.200q with %d expansions (limit %d) accepted, NumVariants=%d", c.Pattern, want, c37Limit, p.NumVariants())
		}
		return o, nil
	}
	if err != nil {
		return o, verifkit.Violatef("valid pattern %.200q (%d expansions) rejected: %v", c.Pattern, want, err)
	}
	groups := tree.groups()
	hasDS := strings.Contains(c.Pattern, "**")
	o.NonTrivial = groups >= 2 || hasDS
	o.Labels = append(o.Labels, "valid")
	if groups >= 2 {
		o.Labels = append(o.Labels, "groups>=2")
	}
	if hasDS {
		o.Labels = append(o.Labels, "doublestar")
	}
	if strings.Contains(c.Pattern, `\`) {
		o.Labels = append(o.Labels, "escape")
	}
	if strings.Contains(c.Pattern, "{,") || strings.Contains(c.Pattern, ",}") || strings.Contains(c.Pattern, ",,") || strings.Contains(c.Pattern, "{}") {
		o.Labels = append(o.Labels, "empty-alt")
	}
	if want != tree.count() {
		o.Labels = append(o.Labels, "dedup")
	}

	// (n) counts
	n := p.NumVariants()
	var variants []PatternVariant
	idxOK := true
	p.RenderAllVariants(func(i int, v PatternVariant) {
		if i != len(variants) {
			idxOK = false
		}
		variants = append(variants, v)
	})
	if !idxOK {
		return o, verifkit.Violatef("pattern %.200q: RenderAllVariants indices are not 0..n-1 in order", c.Pattern)
	}
	if n != len(variants) {
		return o, verifkit.Violatef("pattern %.200q: NumVariants=%d but RenderAllVariants enumerated %d", c.Pattern, n, len(variants))
	}
	if n > c37Limit {
		return o, verifkit.Violatef("pattern %.200q accepted with NumVariants=%d > %d", c.Pattern, n, c37Limit)
	}
	if int64(n) != want {
		return o, verifkit.Violatef("pattern %.200q: NumVariants=%d, independent expansion (documented optimisations applied) has %d", c.Pattern, n, want)
	}

	// (e) multiset of variants
	exps := opt.expand()
	cache := map[string]string{}
	canon := func(list []string) ([]string, error) {
		out := make([]string, 0, len(list))
		for _, e := range list {
			cs, ok := cache[e]
			if !ok {
				pv, err := parsePatternVariant(e)
				if err != nil {
					return nil, verifkit.Violatef("pattern %.200q: expansion %q cannot be parsed as a variant: %v", c.Pattern, e, err)
				}
				cs = pv.String()
				cache[e] = cs
			}
			out = append(out, cs)
		}
		sort.Strings(out)
		return out, nil
	}
	wantStrs, cerr := canon(exps)
	if cerr != nil {
		return o, cerr
	}
	gotStrs := make([]string, len(variants))
	for i, v := range variants {
		gotStrs[i] = v.String()
	}
	sort.Strings(gotStrs)
	for i := range wantStrs {
		if wantStrs[i] != gotStrs[i] {
			return o, verifkit.Violatef("pattern %.200q: rendered variants differ from independent expansion: at sorted position %d got %q want %q\n got  %.400q\n want %.400q", c.Pattern, i, gotStrs[i], wantStrs[i], gotStrs, wantStrs)
		}
	}
	if tree.count() <= 4*c37Limit && tree.count() != want {
		full, cerr := canon(tree.expand())
		if cerr != nil {
			return o, cerr
		}
		set := func(s []string) []string {
			var out []string
			for i, x := range s {
				if i == 0 || s[i-1] != x {
					out = append(out, x)
				}
			}
			return out
		}
		a, b := set(full), set(gotStrs)
		if strings.Join(a, "\x00") != strings.Join(b, "\x00") {
			return o, verifkit.Violatef("pattern %.200q: set of rendered variants %.300q differs from set of plain brace expansions %.300q", c.Pattern, b, a)
		}
	}

	// (m), (t) matching
	var known error
	for _, path := range c.Paths {
		mOrig, err := p.Match(path)
		if err != nil {
			return o, verifkit.Violatef("accepted pattern %.200q: Match(%q) fails: %v", c.Pattern, path, err)
		}
		mVar := false
		for _, v := range variants {
			m, err := PathPatternMatches(v.String(), path)
			if err != nil {
				return o, verifkit.Violatef("pattern %.200q: variant %q: PathPatternMatches(%q) fails: %v", c.Pattern, v.String(), path, err)
			}
			if lerr := c37SlashLaws(v.String(), path, m); lerr != nil {
				return o, lerr
			}
			mVar = mVar || m
		}
		if mVar {
			o.Labels = append(o.Labels, "some-path-matches")
		} else {
			o.Labels = append(o.Labels, "some-path-differs")
		}
		if mOrig != mVar {
			verr := c37Attribute(c.Pattern, exps, path, mOrig, mVar)
			if v, ok := verr.(*verifkit.Violation); ok && v.Fingerprint != "" {
				if known == nil {
					known = verr
				}
				continue
			}
			return o, verr
		}
	}
	o.Labels = c37Dedup(o.Labels)
	return o, known
}

func c37Dedup(l []string) []string {
	seen := map[string]bool{}
	var out []string
	for _, x := range l {
		if !seen[x] {
			seen[x] = true
			out = append(out, x)
		}
	}
	return out
}

func TestVerifC37Match(t *testing.T) {
	c37ModelSelfTest(t)
	verifkit.Check(t, verifkit.Spec[c37MatchCase]{
		ID: "C37", Engine: "match",
		Gen: c37GenMatchCase,
		Run: c37RunMatch,
		Floors: map[string]float64{
			"invalid": 0.05, "valid": 0.5, "groups>=2": 0.15, "doublestar": 0.2, "escape": 0.08,
			"empty-alt": 0.08, "some-path-matches": 0.4, "some-path-differs": 0.2, "dedup": 0.01,
		},
		NonTrivialFloor: 0.4,
	})
}

// ---------------------------------------------------------------------------
// precedence engine

type c37PrecCase struct {
	Path     string
	Patterns []string // each is parsed with ParsePathPattern and rendered
	Perms    [][]int  // generated orders (used above 4 members), entries are sort keys
}

var c37Names = []string{"foo", "bar", "baz", "a", "ab", "x.txt", "bar.tar.gz", "aaa", "fizz", "b"}

// c37Abstract spells a pattern that (normally) matches the path made of comps,
// keeping the first keep components literal.
func c37Abstract(t *rapid.T, comps []string, dir bool, keep int) string {
	var sb strings.Builder
	for i := 0; i < len(comps); i++ {
		comp := comps[i]
		if i < keep {
			sb.WriteString("/" + comp)
			continue
		}
		switch k := rapid.IntRange(0, 19).Draw(t, "abs"); {
		case k < 4:
			sb.WriteString("/" + comp)
		case k < 8: // some characters as '?'
			rs := []rune(comp)
			j := rapid.IntRange(0, len(rs)-1).Draw(t, "qpos")
			rs[j] = '?'
			if len(rs) > 1 && rapid.Bool().Draw(t, "q2") {
				rs[rapid.IntRange(0, len(rs)-1).Draw(t, "qpos2")] = '?'
			}
			sb.WriteString("/" + string(rs))
		case k < 12: // '*' for a substring
			rs := []rune(comp)
			a := rapid.IntRange(0, len(rs)).Draw(t, "sa")
			b := rapid.IntRange(a, len(rs)).Draw(t, "sb")
			star := rapid.SampledFrom([]string{"*", "*", "*", "**", "*?", "?*"}).Draw(t, "star")
			if strings.Contains(star, "?") && b == a {
				star = "*"
			}
			sb.WriteString("/" + string(rs[:a]) + star + string(rs[b:]))
		case k < 13: // two stars
			rs := []rune(comp)
			a := rapid.IntRange(0, len(rs)-1).Draw(t, "ta")
			sb.WriteString("/*" + string(rs[a:a+1]) + "*")
		case k < 16: // '**' swallowing this and some following components
			skip := rapid.IntRange(0, len(comps)-i).Draw(t, "skip")
			sb.WriteString("/**")
			i += skip - 1
			if i < keep-1 {
				i = keep - 1
			}
		case k < 18: // stop here
			sb.WriteString(rapid.SampledFrom([]string{"/**", "/**/", "/**/*", "*/**"}).Draw(t, "stop"))
			return sb.String()
		default: // component-wide star
			sb.WriteString("/*")
		}
	}
	if sb.Len() == 0 {
		sb.WriteString("/")
	}
	s := sb.String()
	if dir {
		s += rapid.SampledFrom([]string{"/", "/", "", "/**", "*"}).Draw(t, "dirtail")
	} else {
		s += rapid.SampledFrom([]string{"", "", "", "*", "/**"}).Draw(t, "filetail")
	}
	return s
}

func c37GenPrecCase(t *rapid.T) c37PrecCase {
	nc := rapid.IntRange(1, 4).Draw(t, "ncomp")
	comps := make([]string, nc)
	for i := range comps {
		comps[i] = rapid.SampledFrom(c37Names).Draw(t, "name")
	}
	dir := rapid.IntRange(0, 2).Draw(t, "dir") == 0
	path := "/" + strings.Join(comps, "/")
	if dir {
		path += "/"
	}
	c := c37PrecCase{Path: path}
	keep := rapid.IntRange(0, nc).Draw(t, "keep")
	n := rapid.IntRange(2, 6).Draw(t, "members")
	var members []string
	for i := 0; i < n; i++ {
		switch rapid.IntRange(0, 23).Draw(t, "member") {
		case 0:
			members = append(members, c37EscapePath(path))
		case 1:
			members = append(members, c37EscapePath(strings.TrimSuffix(path, "/")))
		default:
			members = append(members, c37Abstract(t, comps, dir, keep))
		}
	}
	// Sometimes fold members that share the literal prefix into one brace pattern,
	// so that the set is what RenderAllVariants yields for a single pattern.
	if keep > 0 && rapid.IntRange(0, 2).Draw(t, "fold") == 0 {
		prefix := "/" + strings.Join(comps[:keep], "/")
		var rest, other []string
		for _, m := range members {
			if strings.HasPrefix(m, prefix) && !strings.Contains(m[len(prefix):], ",") {
				rest = append(rest, m[len(prefix):])
			} else {
				other = append(other, m)
			}
		}
		if len(rest) >= 2 {
			members = append(other, prefix+"{"+strings.Join(rest, ",")+"}")
		}
	}
	c.Patterns = members
	for i := 0; i < 8; i++ {
		c.Perms = append(c.Perms, rapid.SliceOfN(rapid.IntRange(0, 1000), 6, 6).Draw(t, "perm"))
	}
	return c
}

func c37Permutations(n int) [][]int {
	if n == 1 {
		return [][]int{{0}}
	}
	var out [][]int
	for _, p := range c37Permutations(n - 1) {
		for i := 0; i <= len(p); i++ {
			q := append(append(append([]int(nil), p[:i]...), n-1), p[i:]...)
			out = append(out, q)
		}
	}
	return out
}

func c37RunPrec(c c37PrecCase) (verifkit.Outcome, error) {
	o := verifkit.Outcome{}
	var set []PatternVariant
	for _, ps := range c.Patterns {
		p, err := ParsePathPattern(ps)
		if err != nil {
			continue
		}
		p.RenderAllVariants(func(i int, v PatternVariant) {
			if m, err := PathPatternMatches(v.String(), c.Path); err == nil && m && len(set) < 6 {
				set = append(set, v)
			}
		})
	}
	if len(set) < 2 {
		o.Skip = true
		return o, nil
	}
	strs := make([]string, len(set))
	for i, v := range set {
		strs[i] = v.String()
	}
	o.Desc = fmt.Sprintf("path=%q variants=%q", c.Path, strs)
	distinct := map[string]bool{}
	for _, s := range strs {
		distinct[s] = true
	}
	o.NonTrivial = len(distinct) >= 2 && c37CommonPrefix(strs) >= 2
	o.Labels = append(o.Labels, fmt.Sprintf("members=%d", len(set)))
	if len(distinct) < len(strs) {
		o.Labels = append(o.Labels, "duplicates")
	}
	if strings.Contains(strings.Join(strs, " "), "**") {
		o.Labels = append(o.Labels, "doublestar")
	}
	if strings.HasSuffix(c.Path, "/") {
		o.Labels = append(o.Labels, "dir-path")
	}

	// pairwise laws from the doc comment of Compare
	for i := range set {
		for j := range set {
			r1, err1 := set[i].Compare(set[j], c.Path)
			r2, err2 := set[j].Compare(set[i], c.Path)
			if err1 != nil || err2 != nil {
				return o, verifkit.Violatef("path %q: Compare(%q,%q) fails although both match: %v / %v", c.Path, strs[i], strs[j], err1, err2)
			}
			if r1 != -r2 {
				return o, verifkit.Violatef("path %q: Compare(%q,%q)=%d but Compare(%q,%q)=%d", c.Path, strs[i], strs[j], r1, strs[j], strs[i], r2)
			}
			if (r1 == 0) != (strs[i] == strs[j]) {
				return o, verifkit.Violatef("path %q: Compare(%q,%q)=%d (0 is only possible between equal variants)", c.Path, strs[i], strs[j], r1)
			}
		}
	}

	n := len(set)
	var orders [][]int
	if n <= 4 {
		orders = c37Permutations(n)
	} else {
		id := make([]int, n)
		for i := range id {
			id[i] = i
		}
		for r := 0; r < n; r++ {
			rot := append(append([]int(nil), id[r:]...), id[:r]...)
			orders = append(orders, rot)
			rev := make([]int, n)
			for i := range rot {
				rev[n-1-i] = rot[i]
			}
			orders = append(orders, rev)
		}
		for _, keys := range c.Perms {
			if len(keys) < n {
				continue
			}
			p := append([]int(nil), id...)
			k := keys
			sort.SliceStable(p, func(a, b int) bool { return k[p[a]] < k[p[b]] })
			orders = append(orders, p)
		}
	}
	best := ""
	for oi, ord := range orders {
		list := make([]PatternVariant, n)
		for i, j := range ord {
			list[i] = set[j]
		}
		w, err := HighestPrecedencePattern(list, c.Path)
		if err != nil {
			return o, verifkit.Violatef("path %q: HighestPrecedencePattern(%q in order %v) fails: %v", c.Path, strs, ord, err)
		}
		if oi == 0 {
			best = w.String()
			continue
		}
		if w.String() != best {
			return o, verifkit.Violatef("path %q variants %q: order %v selects %q, order %v selects %q", c.Path, strs, orders[0], best, ord, w.String())
		}
	}
	for i := range set {
		if strs[i] == best {
			for j := range set {
				if r, _ := set[i].Compare(set[j], c.Path); r < 0 {
					return o, verifkit.Violatef("path %q: selected %q has lower precedence than member %q", c.Path, best, strs[j])
				}
			}
			break
		}
	}
	if lit := c37EscapePath(c.Path); distinct[lit] {
		o.Labels = append(o.Labels, "literal-member")
		if best != lit {
			return o, verifkit.Violatef("path %q variants %q: %q selected although the all-literal variant %q is a member", c.Path, strs, best, lit)
		}
	}
	return o, nil
}

func TestVerifC37Precedence(t *testing.T) {
	verifkit.Check(t, verifkit.Spec[c37PrecCase]{
		ID: "C37", Engine: "precedence",
		Gen: c37GenPrecCase,
		Run: c37RunPrec,
		Floors: map[string]float64{"doublestar": 0.2, "dir-path": 0.15, "literal-member": 0.03},
		NonTrivialFloor: 0.4,
	})
}
