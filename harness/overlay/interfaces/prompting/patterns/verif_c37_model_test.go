package patterns

// C37 — reference model of the path-pattern language: validity, brace expansion
// with the *documented* renderer optimisations, and helpers for deriving paths.
//
// Written from:
//   - the error texts / test tables of ParsePathPattern (what is invalid),
//   - the doc comments of seq.optimize ("joins adjacent literals into a single
//     node, reduces an empty seq to a literal "", and reduces a seq with one
//     element to that element"), alt.optimize ("eliminates equivalent items and
//     reduces alts with one item to that item") and nodeEqual ("recursively
//     equal") in render.go,
//   - ordinary shell brace expansion for everything else.
//
// It is a character-level recursive descent producing canonical *key strings*
// for node equality; it shares no code or data types with scan.go/parse.go/
// render.go.

import (
	"regexp"
	"sort"
	"strconv"
	"strings"
	"unicode/utf8"
)

const (
	c37Limit    = 1000 // documented: maxExpandedPatterns
	c37CountCap = int64(1) << 40
)

const (
	mLit = iota
	mSeq
	mAlt
)

type mNode struct {
	kind int
	text string // mLit
	kids []*mNode
}

type mParser struct {
	s      string
	i      int
	reason string
}

// mParse returns the raw (unoptimised) tree, or nil and the reason the pattern
// is invalid.
func mParse(pattern string) (*mNode, string) {
	if pattern == "" {
		return nil, "empty"
	}
	if pattern[0] != '/' {
		return nil, "no-leading-slash"
	}
	// Character classes are not supported anywhere, whatever else is wrong.
	for i := 0; i < len(pattern); i++ {
		switch pattern[i] {
		case '\\':
			i++
			if i >= len(pattern) {
				return nil, "trailing-backslash"
			}
			_, sz := utf8.DecodeRuneInString(pattern[i:])
			i += sz - 1
		case '[', ']':
			return nil, "class"
		}
	}
	p := &mParser{s: pattern}
	n := p.seq(0)
	if p.reason != "" {
		return nil, p.reason
	}
	if p.i != len(p.s) {
		return nil, "unmatched-close"
	}
	return n, ""
}

// seq parses a sequence until end of input, or (inside a group) until an
// unescaped ',' or '}' which is left unread.
func (p *mParser) seq(depth int) *mNode {
	n := &mNode{kind: mSeq}
	var lit strings.Builder
	flush := func() {
		if lit.Len() > 0 {
			n.kids = append(n.kids, &mNode{kind: mLit, text: lit.String()})
			lit.Reset()
		}
	}
	for p.i < len(p.s) && p.reason == "" {
		c := p.s[p.i]
		switch {
		case c == '\\':
			_, sz := utf8.DecodeRuneInString(p.s[p.i+1:])
			lit.WriteString(p.s[p.i : p.i+1+sz])
			p.i += 1 + sz
		case c == '{':
			flush()
			n.kids = append(n.kids, p.alt(depth+1))
		case c == '}':
			if depth == 0 {
				p.reason = "unmatched-close"
				return n
			}
			flush()
			return n
		case c == ',':
			if depth > 0 {
				flush()
				return n
			}
			lit.WriteByte(c) // a comma outside any group is an ordinary character
			p.i++
		default:
			lit.WriteByte(c)
			p.i++
		}
	}
	flush()
	return n
}

func (p *mParser) alt(depth int) *mNode {
	n := &mNode{kind: mAlt}
	if depth >= c37Limit {
		p.reason = "depth"
		return n
	}
	p.i++ // '{'
	for p.reason == "" {
		n.kids = append(n.kids, p.seq(depth))
		if p.reason != "" {
			return n
		}
		if p.i >= len(p.s) {
			p.reason = "unmatched-open"
			return n
		}
		c := p.s[p.i]
		p.i++
		if c == '}' {
			return n
		}
		// c == ','
	}
	return n
}

func mulCap(a, b int64) int64 {
	if a == 0 || b == 0 {
		return 0
	}
	if a > c37CountCap/b {
		return c37CountCap
	}
	return a * b
}

func addCap(a, b int64) int64 {
	if a+b > c37CountCap {
		return c37CountCap
	}
	return a + b
}

// count is the number of strings expand() would yield (capped).
func (n *mNode) count() int64 {
	switch n.kind {
	case mLit:
		return 1
	case mSeq:
		c := int64(1)
		for _, k := range n.kids {
			c = mulCap(c, k.count())
		}
		return c
	default:
		c := int64(0)
		for _, k := range n.kids {
			c = addCap(c, k.count())
		}
		return c
	}
}

// expand enumerates the brace expansion, leftmost group varying slowest.
func (n *mNode) expand() []string {
	switch n.kind {
	case mLit:
		return []string{n.text}
	case mSeq:
		out := []string{""}
		for _, k := range n.kids {
			ke := k.expand()
			next := make([]string, 0, len(out)*len(ke))
			for _, a := range out {
				for _, b := range ke {
					next = append(next, a+b)
				}
			}
			out = next
		}
		return out
	default:
		var out []string
		for _, k := range n.kids {
			out = append(out, k.expand()...)
		}
		return out
	}
}

// key is a canonical serialisation: two nodes are "recursively equal" exactly
// when their keys are equal.
func (n *mNode) key() string {
	switch n.kind {
	case mLit:
		return "L" + strconv.Quote(n.text)
	case mSeq:
		parts := make([]string, len(n.kids))
		for i, k := range n.kids {
			parts[i] = k.key()
		}
		return "S(" + strings.Join(parts, " ") + ")"
	default:
		parts := make([]string, len(n.kids))
		for i, k := range n.kids {
			parts[i] = k.key()
		}
		return "A(" + strings.Join(parts, " ") + ")"
	}
}

// optimised applies the documented optimisations bottom-up.
func (n *mNode) optimised() *mNode {
	switch n.kind {
	case mLit:
		return n
	case mSeq:
		var kids []*mNode
		var lit strings.Builder
		flush := func() {
			if lit.Len() > 0 {
				kids = append(kids, &mNode{kind: mLit, text: lit.String()})
				lit.Reset()
			}
		}
		for _, k := range n.kids {
			o := k.optimised()
			if o.kind == mLit {
				lit.WriteString(o.text) // joins adjacent literals; empty ones vanish
				continue
			}
			flush()
			kids = append(kids, o)
		}
		flush()
		switch len(kids) {
		case 0:
			return &mNode{kind: mLit, text: ""}
		case 1:
			return kids[0]
		}
		return &mNode{kind: mSeq, kids: kids}
	default:
		seen := map[string]bool{}
		var kids []*mNode
		for _, k := range n.kids {
			o := k.optimised()
			ky := o.key()
			if seen[ky] {
				continue // equivalent item eliminated
			}
			seen[ky] = true
			kids = append(kids, o)
		}
		if len(kids) == 1 {
			return kids[0]
		}
		return &mNode{kind: mAlt, kids: kids}
	}
}

func (n *mNode) groups() int {
	g := 0
	if n.kind == mAlt {
		g = 1
	}
	for _, k := range n.kids {
		g += k.groups()
	}
	return g
}

// ---- brace-free pattern helpers ---------------------------------------------

// c37Tokens splits a brace-free pattern into tokens: "/" separators, escapes
// (two runes, kept together) and single runes.
func c37Tokens(e string) []string {
	var out []string
	for i := 0; i < len(e); {
		if e[i] == '\\' && i+1 < len(e) {
			_, sz := utf8.DecodeRuneInString(e[i+1:])
			out = append(out, e[i:i+1+sz])
			i += 1 + sz
			continue
		}
		_, sz := utf8.DecodeRuneInString(e[i:])
		out = append(out, e[i:i+sz])
		i += sz
	}
	return out
}

// c37Components splits a brace-free pattern on unescaped '/'.
func c37Components(e string) []string {
	var out []string
	var cur strings.Builder
	for _, t := range c37Tokens(e) {
		if t == "/" {
			out = append(out, cur.String())
			cur.Reset()
			continue
		}
		cur.WriteString(t)
	}
	return append(out, cur.String())
}

// c37HasWildcard: an unescaped '*' or '?' is present.
func c37HasWildcard(e string) bool {
	for _, t := range c37Tokens(e) {
		if t == "*" || t == "?" {
			return true
		}
	}
	return false
}

// c37Unescape removes escaping backslashes of a brace-free pattern.
func c37Unescape(e string) string {
	var sb strings.Builder
	for _, t := range c37Tokens(e) {
		if len(t) > 1 && t[0] == '\\' {
			sb.WriteString(t[1:])
		} else {
			sb.WriteString(t)
		}
	}
	return sb.String()
}

// c37EscapePath spells a path as a pattern that has no special characters.
func c37EscapePath(p string) string {
	var sb strings.Builder
	for _, r := range p {
		switch r {
		case '*', '?', '[', ']', '{', '}', '\\', ',':
			sb.WriteByte('\\')
		}
		sb.WriteRune(r)
	}
	return sb.String()
}

// c37CollapseSlashes removes repeated unescaped separators.
func c37CollapseSlashes(e string) string {
	var sb strings.Builder
	prev := ""
	for _, t := range c37Tokens(e) {
		if t == "/" && prev == "/" {
			continue
		}
		sb.WriteString(t)
		prev = t
	}
	return sb.String()
}

// c37CleanPath makes a generated path absolute and free of empty components
// (paths reach the prompting code from the kernel in that form; a trailing '/'
// marks a directory and is kept).
func c37CleanPath(p string) string {
	for strings.Contains(p, "//") {
		p = strings.ReplaceAll(p, "//", "/")
	}
	if !strings.HasPrefix(p, "/") {
		p = "/" + p
	}
	return p
}

func c37SortedCopy(s []string) []string {
	c := append([]string(nil), s...)
	sort.Strings(c)
	return c
}

func c37CommonPrefix(ss []string) int {
	if len(ss) == 0 {
		return 0
	}
	n := len(ss[0])
	for _, s := range ss[1:] {
		i := 0
		for i < n && i < len(s) && s[i] == ss[0][i] {
			i++
		}
		n = i
	}
	return n
}

// ---- documented glob semantics for ONE brace-free pattern ---------------------
//
// c37RefMatch is used only to *attribute* a violation (is it the third-party
// matcher that departs from the documented semantics on the raw expansion, or
// does the variant spelling change the meaning?), never as a pass/fail oracle.
// Semantics, from the doublestar.Match and PathPatternMatches doc comments:
// '*' any sequence of non-separators, '?' one non-separator, a component that is
// exactly "**" matches zero or more directories, a final "/**" matches the
// directory itself and everything below, any other run of stars is one '*';
// a pattern without trailing '/' also matches the path with a '/' appended; a
// pattern with trailing '/' matches only paths with trailing '/'.
// Paths are assumed to have no empty components.
func c37RefMatch(e, path string) bool {
	if c37refOne(e, path) {
		return true
	}
	if !strings.HasSuffix(e, "/") {
		return c37refOne(e+"/", path)
	}
	return false
}

func c37refOne(e, path string) bool {
	comps := c37Components(e)
	if len(comps) < 2 || comps[0] != "" {
		return false
	}
	var re strings.Builder
	re.WriteString(`(?s)^`)
	k := len(comps) - 1
	for i := 1; i <= k; i++ {
		comp := comps[i]
		if comp == "**" {
			switch {
			case i == k:
				re.WriteString(`(?:/.*)?`)
			case i == k-1 && comps[k] == "":
				re.WriteString(`/(?:[^/]+/)*`)
				i = k
			default:
				re.WriteString(`(?:/[^/]+)*`)
			}
			continue
		}
		re.WriteString("/")
		toks := c37Tokens(comp)
		for j := 0; j < len(toks); j++ {
			switch tk := toks[j]; {
			case tk == "*":
				for j+1 < len(toks) && toks[j+1] == "*" {
					j++
				}
				re.WriteString(`[^/]*`)
			case tk == "?":
				re.WriteString(`[^/]`)
			case len(tk) > 1 && tk[0] == '\\':
				re.WriteString(regexp.QuoteMeta(tk[1:]))
			default:
				re.WriteString(regexp.QuoteMeta(tk))
			}
		}
	}
	re.WriteString(`$`)
	rx, err := regexp.Compile(re.String())
	if err != nil {
		panic("HARNESS: reference regexp does not compile: " + re.String())
	}
	return rx.MatchString(path)
}
