package policy_test

// C21 — declaration AST, its rendering to assertion text, and the reference
// evaluator.  The reference evaluator works on the AST only; it never looks at
// snapd's compiled rule structures.
//
// Where each clause of the reference comes from:
//  precedence      property statement: plug snap's declaration, then slot snap's
//                  declaration, then the base declaration's plug rule, then its slot
//                  rule; no rule at all = allowed (policy_test TestBaselineDefaultIsAllow)
//  deny-over-allow property statement: a matching deny constraint always refuses,
//                  otherwise at least one alternative allow constraint must fully match
//  defaults        asserts/ifacedecls.go defaultOutcome/invertedOutcome: absent allow-* =
//                  "true", absent deny-* = "false"; rule "true"/"false" shortcuts
//  constraints     one constraints map = AND of its entries; every entry is checked
//                  against the obvious subject (plug-names -> plug name, slot-snap-type
//                  -> type of the slot's snap, plug-publisher-id -> publisher of the
//                  plug's snap ...) regardless of which side the rule is on
//  names/attrs     regular expressions anchored at both ends; $INTERFACE = interface
//                  name; $MISSING = attribute unset; $SLOT(a)/$PLUG(a) = equal to that
//                  attribute of the other side; $PLUG_PUBLISHER_ID/$SLOT_PUBLISHER_ID;
//                  list values: every element must match; attribute alternatives: OR
//  ids             unset ids never match (helpers.go checkID comment); os and snapd
//                  snaps count as type "core" (helpers.go checkSnapType comment)
//  on-classic      true/false/list of distribution ids (policy_test on-classic tables)
//  device scope    on-store/on-brand/on-model ANDed, need a model; on-store also
//                  accepts a friendly store of the device's store assertion

import (
	"fmt"
	"sort"
	"strconv"
	"strings"
)

// ---- patterns (a regular expression subset with an obvious meaning) ----------

type c21Atom struct {
	K string `json:"k"` // lit | prefix | suffix | lower | digits
	S string `json:"s,omitempty"`
}

// c21Pat is an alternation of atoms, rendered as a|b|c.
type c21Pat struct {
	Atoms []c21Atom `json:"atoms"`
}

func (a c21Atom) regex() string {
	switch a.K {
	case "lit":
		return a.S
	case "prefix":
		return a.S + ".*"
	case "suffix":
		return ".*" + a.S
	case "lower":
		return "[a-z]+"
	case "digits":
		return "[0-9]+"
	}
	panic("HARNESS: bad atom kind " + a.K)
}

func (a c21Atom) matches(s string) bool {
	switch a.K {
	case "lit":
		return s == a.S
	case "prefix":
		return strings.HasPrefix(s, a.S)
	case "suffix":
		return strings.HasSuffix(s, a.S)
	case "lower":
		if s == "" {
			return false
		}
		for i := 0; i < len(s); i++ {
			if s[i] < 'a' || s[i] > 'z' {
				return false
			}
		}
		return true
	case "digits":
		if s == "" {
			return false
		}
		for i := 0; i < len(s); i++ {
			if s[i] < '0' || s[i] > '9' {
				return false
			}
		}
		return true
	}
	panic("HARNESS: bad atom kind " + a.K)
}

func (p c21Pat) regex() string {
	parts := make([]string, len(p.Atoms))
	for i, a := range p.Atoms {
		parts[i] = a.regex()
	}
	return strings.Join(parts, "|")
}

// matches: the whole string matches one of the alternatives.
func (p c21Pat) matches(s string) bool {
	for _, a := range p.Atoms {
		if a.matches(s) {
			return true
		}
	}
	return false
}

// ---- attribute values -----------------------------------------------------------

type c21KV struct {
	Key string `json:"key"`
	V   c21Val `json:"v"`
}

type c21Val struct {
	K string   `json:"k"` // s | b | i | l | m
	S string   `json:"s,omitempty"`
	B bool     `json:"b,omitempty"`
	I int64    `json:"i,omitempty"`
	L []string `json:"l,omitempty"`
	M []c21KV  `json:"m,omitempty"`
}

func c21Lookup(m []c21KV, key string) *c21Val {
	for i := range m {
		if m[i].Key == key {
			return &m[i].V
		}
	}
	return nil
}

func c21ValEqual(a, b c21Val) bool {
	if a.K != b.K {
		return false
	}
	switch a.K {
	case "s":
		return a.S == b.S
	case "b":
		return a.B == b.B
	case "i":
		return a.I == b.I
	case "l":
		if len(a.L) != len(b.L) {
			return false
		}
		for i := range a.L {
			if a.L[i] != b.L[i] {
				return false
			}
		}
		return true
	case "m":
		if len(a.M) != len(b.M) {
			return false
		}
		for _, kv := range a.M {
			w := c21Lookup(b.M, kv.Key)
			if w == nil || !c21ValEqual(kv.V, *w) {
				return false
			}
		}
		return true
	}
	panic("HARNESS: bad value kind " + a.K)
}

// ---- attribute constraints --------------------------------------------------------

type c21ACEntry struct {
	Key string `json:"key"`
	C   c21AC  `json:"c"`
}

type c21AC struct {
	K    string       `json:"k"` // re | map | alt | missing | slot | plug | plugpub | slotpub
	Pat  *c21Pat      `json:"pat,omitempty"`
	Map  []c21ACEntry `json:"map,omitempty"`
	Alts []c21AC      `json:"alts,omitempty"`
	Arg  string       `json:"arg,omitempty"`
}

func (c c21AC) hasDollar() bool {
	switch c.K {
	case "missing", "slot", "plug", "plugpub", "slotpub":
		return true
	case "map":
		for _, e := range c.Map {
			if e.C.hasDollar() {
				return true
			}
		}
	case "alt":
		for _, a := range c.Alts {
			if a.hasDollar() {
				return true
			}
		}
	}
	return false
}

// ---- constraints, sub-rules, rules, declarations ----------------------------------

type c21Name struct {
	Special string  `json:"special,omitempty"` // "$INTERFACE"
	Pat     *c21Pat `json:"pat,omitempty"`
}

type c21OnClassic struct {
	Classic bool     `json:"classic"`
	Distros []string `json:"distros,omitempty"` // non empty: list form (implies classic)
}

type c21Cons struct {
	PlugNames     []c21Name     `json:"plug_names,omitempty"`
	SlotNames     []c21Name     `json:"slot_names,omitempty"`
	PlugAttrs     *c21AC        `json:"plug_attrs,omitempty"`
	SlotAttrs     *c21AC        `json:"slot_attrs,omitempty"`
	PlugSnapTypes []string      `json:"plug_snap_types,omitempty"`
	SlotSnapTypes []string      `json:"slot_snap_types,omitempty"`
	PlugSnapIDs   []string      `json:"plug_snap_ids,omitempty"`
	SlotSnapIDs   []string      `json:"slot_snap_ids,omitempty"`
	PlugPubIDs    []string      `json:"plug_pub_ids,omitempty"`
	SlotPubIDs    []string      `json:"slot_pub_ids,omitempty"`
	OnClassic     *c21OnClassic `json:"on_classic,omitempty"`
	OnCoreDesktop string        `json:"on_core_desktop,omitempty"` // "", "true", "false"
	OnStore       []string      `json:"on_store,omitempty"`
	OnBrand       []string      `json:"on_brand,omitempty"`
	OnModel       []string      `json:"on_model,omitempty"`
	SlotsPerPlug  string        `json:"slots_per_plug,omitempty"` // decoration only, not part of C21
	PlugsPerSlot  string        `json:"plugs_per_slot,omitempty"`
}

func (c c21Cons) hasDollar() bool {
	for _, l := range [][]c21Name{c.PlugNames, c.SlotNames} {
		for _, n := range l {
			if n.Special != "" {
				return true
			}
		}
	}
	for _, a := range []*c21AC{c.PlugAttrs, c.SlotAttrs} {
		if a != nil && a.hasDollar() {
			return true
		}
	}
	for _, l := range [][]string{c.PlugPubIDs, c.SlotPubIDs} {
		for _, s := range l {
			if strings.HasPrefix(s, "$") {
				return true
			}
		}
	}
	return false
}

type c21Sub struct {
	Form string    `json:"form"` // "true" | "false" | "map" | "list"   (absent = not in the rule's map)
	Alts []c21Cons `json:"alts,omitempty"`
}

var c21SubNames = []string{"allow-installation", "deny-installation", "allow-connection", "deny-connection", "allow-auto-connection", "deny-auto-connection"}

type c21Rule struct {
	Form string            `json:"form"` // "true" | "false" | "map"
	Sub  map[string]c21Sub `json:"sub,omitempty"`
}

func (r c21Rule) hasDollar() bool {
	for _, s := range r.Sub {
		for _, c := range s.Alts {
			if c.hasDollar() {
				return true
			}
		}
	}
	return false
}

type c21Decl struct {
	SnapID    string             `json:"snap_id,omitempty"`
	Publisher string             `json:"publisher,omitempty"`
	Plugs     map[string]c21Rule `json:"plugs,omitempty"`
	Slots     map[string]c21Rule `json:"slots,omitempty"`
}

// ---- candidates -------------------------------------------------------------------

type c21End struct {
	Name  string  `json:"name"`
	Iface string  `json:"iface"`
	Attrs []c21KV `json:"attrs,omitempty"`
}

type c21Snap struct {
	Type  string   `json:"type"` // snap.yaml type: app gadget kernel os snapd base
	Plugs []c21End `json:"plugs,omitempty"`
	Slots []c21End `json:"slots,omitempty"`
}

type c21Cand struct {
	PlugSnap    c21Snap `json:"plug_snap"` // Plugs[0] is the candidate plug
	SlotSnap    c21Snap `json:"slot_snap"` // Slots[0] is the candidate slot
	Classic     bool    `json:"classic"`
	Distro      string  `json:"distro"`
	CoreDesktop bool    `json:"core_desktop"`
	Model       int     `json:"model"` // 0 = no model assertion, 1..3 = c21Models
	Store       bool    `json:"store"` // pass the store assertion of the model's store (model 3 only)
}

type c21Case struct {
	Iface    string   `json:"iface"`
	Base     c21Decl  `json:"base"`
	PlugDecl *c21Decl `json:"plug_decl,omitempty"`
	SlotDecl *c21Decl `json:"slot_decl,omitempty"`
	Cand     c21Cand  `json:"cand"`
	Mut      *c21Mut  `json:"mut,omitempty"` // metamorphic engine only
}

type c21Mut struct {
	Op    string  `json:"op"`    // add-deny | remove-allow
	Level int     `json:"level"` // 0 plug decl plug rule, 1 slot decl slot rule, 2 base plug rule, 3 base slot rule
	Kind  string  `json:"kind"`  // installation | connection | auto-connection
	Cons  c21Cons `json:"cons"`  // add-deny: the alternative to add
	Index int     `json:"index"` // remove-allow: alternative to drop (modulo length)
}

// device facts the reference needs about the fixed model/store assertions
type c21ModelInfo struct {
	Brand, Model, Store string
	Friendly            []string // friendly stores of the store assertion (when passed)
}

var c21ModelInfos = []c21ModelInfo{
	{},
	{Brand: "my-brand", Model: "my-model1", Store: "store1"},
	{Brand: "other-brand", Model: "other-model", Store: ""},
	{Brand: "my-brand", Model: "my-model3", Store: "substore1", Friendly: []string{"a-store", "store1", "store2"}},
}

// ---- rendering ----------------------------------------------------------------------

type c21Node interface{} // string | []c21Node | c21NMap
type c21NKV struct {
	K string
	V c21Node
}
type c21NMap []c21NKV

func c21Indent(n int) string { return strings.Repeat(" ", n) }

func c21RenderEntry(sb *strings.Builder, key string, v c21Node, indent int) {
	switch x := v.(type) {
	case string:
		fmt.Fprintf(sb, "%s%s: %s\n", c21Indent(indent), key, x)
	case c21NMap:
		if len(x) == 0 {
			panic("HARNESS: empty map has no assertion syntax at " + key)
		}
		fmt.Fprintf(sb, "%s%s:\n", c21Indent(indent), key)
		for _, kv := range x {
			c21RenderEntry(sb, kv.K, kv.V, indent+2)
		}
	case []c21Node:
		if len(x) == 0 {
			panic("HARNESS: empty list has no assertion syntax at " + key)
		}
		fmt.Fprintf(sb, "%s%s:\n", c21Indent(indent), key)
		for _, it := range x {
			switch y := it.(type) {
			case string:
				fmt.Fprintf(sb, "%s- %s\n", c21Indent(indent+2), y)
			case c21NMap:
				fmt.Fprintf(sb, "%s-\n", c21Indent(indent+2))
				for _, kv := range y {
					c21RenderEntry(sb, kv.K, kv.V, indent+4)
				}
			default:
				panic("HARNESS: unsupported list item")
			}
		}
	default:
		panic(fmt.Sprintf("HARNESS: unsupported node %T", v))
	}
}

func c21StrList(l []string) []c21Node {
	out := make([]c21Node, len(l))
	for i, s := range l {
		out[i] = s
	}
	return out
}

func c21NamesNode(l []c21Name) []c21Node {
	out := make([]c21Node, len(l))
	for i, n := range l {
		if n.Special != "" {
			out[i] = n.Special
		} else {
			out[i] = n.Pat.regex()
		}
	}
	return out
}

func c21ACNode(c c21AC) c21Node {
	switch c.K {
	case "re":
		return c.Pat.regex()
	case "missing":
		return "$MISSING"
	case "slot":
		return "$SLOT(" + c.Arg + ")"
	case "plug":
		return "$PLUG(" + c.Arg + ")"
	case "plugpub":
		return "$PLUG_PUBLISHER_ID"
	case "slotpub":
		return "$SLOT_PUBLISHER_ID"
	case "map":
		m := make(c21NMap, len(c.Map))
		for i, e := range c.Map {
			m[i] = c21NKV{e.Key, c21ACNode(e.C)}
		}
		return m
	case "alt":
		l := make([]c21Node, len(c.Alts))
		for i, a := range c.Alts {
			l[i] = c21ACNode(a)
		}
		return l
	}
	panic("HARNESS: bad attribute constraint kind " + c.K)
}

func c21ConsNode(c c21Cons) c21NMap {
	var m c21NMap
	add := func(k string, v c21Node) { m = append(m, c21NKV{k, v}) }
	if len(c.PlugNames) > 0 {
		add("plug-names", c21NamesNode(c.PlugNames))
	}
	if len(c.SlotNames) > 0 {
		add("slot-names", c21NamesNode(c.SlotNames))
	}
	if c.PlugAttrs != nil {
		add("plug-attributes", c21ACNode(*c.PlugAttrs))
	}
	if c.SlotAttrs != nil {
		add("slot-attributes", c21ACNode(*c.SlotAttrs))
	}
	for _, f := range []struct {
		k string
		l []string
	}{
		{"plug-snap-type", c.PlugSnapTypes}, {"slot-snap-type", c.SlotSnapTypes},
		{"plug-snap-id", c.PlugSnapIDs}, {"slot-snap-id", c.SlotSnapIDs},
		{"plug-publisher-id", c.PlugPubIDs}, {"slot-publisher-id", c.SlotPubIDs},
	} {
		if len(f.l) > 0 {
			add(f.k, c21StrList(f.l))
		}
	}
	if c.OnClassic != nil {
		if len(c.OnClassic.Distros) > 0 {
			add("on-classic", c21StrList(c.OnClassic.Distros))
		} else {
			add("on-classic", strconv.FormatBool(c.OnClassic.Classic))
		}
	}
	if c.OnCoreDesktop != "" {
		add("on-core-desktop", c.OnCoreDesktop)
	}
	if len(c.OnStore) > 0 {
		add("on-store", c21StrList(c.OnStore))
	}
	if len(c.OnBrand) > 0 {
		add("on-brand", c21StrList(c.OnBrand))
	}
	if len(c.OnModel) > 0 {
		add("on-model", c21StrList(c.OnModel))
	}
	if c.SlotsPerPlug != "" {
		add("slots-per-plug", c.SlotsPerPlug)
	}
	if c.PlugsPerSlot != "" {
		add("plugs-per-slot", c.PlugsPerSlot)
	}
	return m
}

func c21RuleNode(r c21Rule) c21Node {
	if r.Form == "true" || r.Form == "false" {
		return r.Form
	}
	var m c21NMap
	for _, name := range c21SubNames {
		s, ok := r.Sub[name]
		if !ok {
			continue
		}
		switch s.Form {
		case "true", "false":
			m = append(m, c21NKV{name, s.Form})
		case "map":
			m = append(m, c21NKV{name, c21ConsNode(s.Alts[0])})
		case "list":
			l := make([]c21Node, len(s.Alts))
			for i, a := range s.Alts {
				l[i] = c21ConsNode(a)
			}
			m = append(m, c21NKV{name, l})
		default:
			panic("HARNESS: bad sub-rule form " + s.Form)
		}
	}
	return m
}

func c21SortedKeys(m map[string]c21Rule) []string {
	ks := make([]string, 0, len(m))
	for k := range m {
		ks = append(ks, k)
	}
	sort.Strings(ks)
	return ks
}

func c21RulesNode(m map[string]c21Rule) c21NMap {
	var out c21NMap
	for _, k := range c21SortedKeys(m) {
		out = append(out, c21NKV{k, c21RuleNode(m[k])})
	}
	return out
}

const c21Trailer = "timestamp: 2016-09-30T12:00:00Z\n" +
	"sign-key-sha3-384: Jv8_JiHiIzJVcO9M55pPdqSDWUvuhfDIBJUS-3VW7F_idjix7Ffn5qMxB21ZQuij\n" +
	"\n" +
	"AXNpZw=="

func c21RenderDecl(d c21Decl, snapName string) string {
	var sb strings.Builder
	if snapName == "" {
		sb.WriteString("type: base-declaration\nauthority-id: canonical\nseries: 16\n")
	} else {
		fmt.Fprintf(&sb, "type: snap-declaration\nauthority-id: canonical\nseries: 16\nsnap-name: %s\nsnap-id: %s\npublisher-id: %s\n", snapName, d.SnapID, d.Publisher)
	}
	if len(d.Plugs) > 0 {
		c21RenderEntry(&sb, "plugs", c21RulesNode(d.Plugs), 0)
	}
	if len(d.Slots) > 0 {
		c21RenderEntry(&sb, "slots", c21RulesNode(d.Slots), 0)
	}
	sb.WriteString(c21Trailer)
	return sb.String()
}

func c21YamlVal(sb *strings.Builder, key string, v c21Val, indent int) {
	switch v.K {
	case "s":
		fmt.Fprintf(sb, "%s%s: %q\n", c21Indent(indent), key, v.S)
	case "b":
		fmt.Fprintf(sb, "%s%s: %v\n", c21Indent(indent), key, v.B)
	case "i":
		fmt.Fprintf(sb, "%s%s: %d\n", c21Indent(indent), key, v.I)
	case "l":
		q := make([]string, len(v.L))
		for i, s := range v.L {
			q[i] = strconv.Quote(s)
		}
		fmt.Fprintf(sb, "%s%s: [%s]\n", c21Indent(indent), key, strings.Join(q, ", "))
	case "m":
		fmt.Fprintf(sb, "%s%s:\n", c21Indent(indent), key)
		for _, kv := range v.M {
			c21YamlVal(sb, kv.Key, kv.V, indent+2)
		}
	default:
		panic("HARNESS: bad value kind " + v.K)
	}
}

func c21SnapYaml(name string, s c21Snap) string {
	var sb strings.Builder
	fmt.Fprintf(&sb, "name: %s\nversion: 0\ntype: %s\n", name, s.Type)
	for _, side := range []struct {
		k string
		l []c21End
	}{{"plugs", s.Plugs}, {"slots", s.Slots}} {
		if len(side.l) == 0 {
			continue
		}
		fmt.Fprintf(&sb, "%s:\n", side.k)
		for _, e := range side.l {
			fmt.Fprintf(&sb, "  %s:\n    interface: %s\n", e.Name, e.Iface)
			for _, kv := range e.Attrs {
				c21YamlVal(&sb, kv.Key, kv.V, 4)
			}
		}
	}
	return sb.String()
}

// ---- reference evaluator ----------------------------------------------------------

// c21Env is what one constraints map is evaluated against.
type c21Env struct {
	iface                  string
	conn                   bool // both sides known (connection); false: installation of one snap
	plugName, slotName     string
	plugAttrs, slotAttrs   []c21KV
	havePlug, haveSlot     bool
	plugType, slotType     string // snap.yaml types
	plugSnapID, slotSnapID string // "" = no snap-declaration
	plugPub, slotPub       string
	classic                bool
	distro                 string
	coreDesktop            bool
	model                  *c21ModelInfo // nil = no model
	storeGiven             bool

	// statistics for the non-triviality rule
	altExactlyOne bool
}

func c21DeclType(yamlType string) string {
	if yamlType == "os" || yamlType == "snapd" {
		return "core"
	}
	return yamlType
}

func c21In(l []string, s string) bool {
	for _, x := range l {
		if x == s {
			return true
		}
	}
	return false
}

func (e *c21Env) namesMatch(l []c21Name, name string) bool {
	for _, n := range l {
		if n.Special == "$INTERFACE" {
			if name == e.iface {
				return true
			}
		} else if n.Special == "" && n.Pat.matches(name) {
			return true
		}
	}
	return false
}

func c21ScalarText(v c21Val) (string, bool) {
	switch v.K {
	case "s":
		return v.S, true
	case "b":
		return strconv.FormatBool(v.B), true
	case "i":
		return strconv.FormatInt(v.I, 10), true
	}
	return "", false
}

// acEntry: constraint c for an attribute whose value is v (nil = unset).
func (e *c21Env) acEntry(c c21AC, v *c21Val) bool {
	if c.K == "missing" {
		return v == nil
	}
	if v == nil {
		return false
	}
	return e.acMatch(c, *v)
}

func (e *c21Env) acMatch(c c21AC, v c21Val) bool {
	switch c.K {
	case "missing":
		return false // v is set
	case "slot", "plug":
		if !e.conn {
			panic("HARNESS: $SLOT()/$PLUG() outside connection constraints is outside the modelled subset")
		}
		attrs := e.slotAttrs
		if c.K == "plug" {
			attrs = e.plugAttrs
		}
		w := c21Lookup(attrs, c.Arg)
		return w != nil && c21ValEqual(v, *w)
	case "plugpub", "slotpub":
		if !e.conn {
			panic("HARNESS: publisher reference outside connection constraints is outside the modelled subset")
		}
		pub := e.plugPub
		if c.K == "slotpub" {
			pub = e.slotPub
		}
		return v.K == "s" && v.S == pub
	case "re":
		if v.K == "l" {
			for _, el := range v.L {
				if !c.Pat.matches(el) {
					return false
				}
			}
			return true
		}
		s, ok := c21ScalarText(v)
		return ok && c.Pat.matches(s)
	case "map":
		switch v.K {
		case "m":
			for _, en := range c.Map {
				if !e.acEntry(en.C, c21Lookup(v.M, en.Key)) {
					return false
				}
			}
			return true
		case "l":
			// every element would have to be a map; list elements are strings here
			return len(v.L) == 0
		}
		return false
	case "alt":
		if v.K == "l" {
			for _, el := range v.L {
				if !e.acMatch(c, c21Val{K: "s", S: el}) {
					return false
				}
			}
			return true
		}
		for _, a := range c.Alts {
			if e.acMatch(a, v) {
				return true
			}
		}
		return false
	}
	panic("HARNESS: bad attribute constraint kind " + c.K)
}

func (e *c21Env) idMatch(id string, l []string, specialName, specialVal string) bool {
	if id == "" {
		return false
	}
	for _, cand := range l {
		if strings.HasPrefix(cand, "$") {
			if cand != specialName {
				panic("HARNESS: unknown special id is outside the modelled subset: " + cand)
			}
			if specialVal != "" && id == specialVal {
				return true
			}
			continue
		}
		if id == cand {
			return true
		}
	}
	return false
}

func (e *c21Env) consMatch(c c21Cons) bool {
	if len(c.PlugNames) > 0 {
		if !e.havePlug {
			panic("HARNESS: plug-names without a plug")
		}
		if !e.namesMatch(c.PlugNames, e.plugName) {
			return false
		}
	}
	if len(c.SlotNames) > 0 {
		if !e.haveSlot {
			panic("HARNESS: slot-names without a slot")
		}
		if !e.namesMatch(c.SlotNames, e.slotName) {
			return false
		}
	}
	if c.PlugAttrs != nil {
		if !e.havePlug {
			panic("HARNESS: plug-attributes without a plug")
		}
		if !e.acMatch(*c.PlugAttrs, c21Val{K: "m", M: e.plugAttrs}) {
			return false
		}
	}
	if c.SlotAttrs != nil {
		if !e.haveSlot {
			panic("HARNESS: slot-attributes without a slot")
		}
		if !e.acMatch(*c.SlotAttrs, c21Val{K: "m", M: e.slotAttrs}) {
			return false
		}
	}
	if len(c.PlugSnapTypes) > 0 {
		if !e.havePlug {
			panic("HARNESS: plug-snap-type without a plug")
		}
		if !c21In(c.PlugSnapTypes, c21DeclType(e.plugType)) {
			return false
		}
	}
	if len(c.SlotSnapTypes) > 0 {
		if !e.haveSlot {
			panic("HARNESS: slot-snap-type without a slot")
		}
		if !c21In(c.SlotSnapTypes, c21DeclType(e.slotType)) {
			return false
		}
	}
	if len(c.PlugSnapIDs) > 0 && !e.idMatch(e.plugSnapID, c.PlugSnapIDs, "", "") {
		return false
	}
	if len(c.SlotSnapIDs) > 0 && !e.idMatch(e.slotSnapID, c.SlotSnapIDs, "", "") {
		return false
	}
	if len(c.PlugPubIDs) > 0 && !e.idMatch(e.plugPub, c.PlugPubIDs, "$SLOT_PUBLISHER_ID", e.slotPub) {
		return false
	}
	if len(c.SlotPubIDs) > 0 && !e.idMatch(e.slotPub, c.SlotPubIDs, "$PLUG_PUBLISHER_ID", e.plugPub) {
		return false
	}
	if oc := c.OnClassic; oc != nil {
		if len(oc.Distros) > 0 {
			if !e.classic || !c21In(oc.Distros, e.distro) {
				return false
			}
		} else if oc.Classic != e.classic {
			return false
		}
	}
	if c.OnCoreDesktop != "" && (c.OnCoreDesktop == "true") != e.coreDesktop {
		return false
	}
	if len(c.OnStore) > 0 || len(c.OnBrand) > 0 || len(c.OnModel) > 0 {
		if e.model == nil {
			return false
		}
		if len(c.OnStore) > 0 {
			ok := e.model.Store != "" && c21In(c.OnStore, e.model.Store)
			if !ok && e.storeGiven {
				for _, s := range c.OnStore {
					if c21In(e.model.Friendly, s) {
						ok = true
					}
				}
			}
			if !ok {
				return false
			}
		}
		if len(c.OnBrand) > 0 && !c21In(c.OnBrand, e.model.Brand) {
			return false
		}
		if len(c.OnModel) > 0 && !c21In(c.OnModel, e.model.Brand+"/"+e.model.Model) {
			return false
		}
	}
	// slots-per-plug / plugs-per-slot never take part in matching
	return true
}

// subOf resolves the sub-rule named name of rule r, applying the documented
// defaults: rule "true" = everything default, rule "false" = allow nothing and
// deny everything, absent allow-* = "true", absent deny-* = "false".
func c21SubOf(r c21Rule, name string) c21Sub {
	allow := strings.HasPrefix(name, "allow-")
	switch r.Form {
	case "true":
		if allow {
			return c21Sub{Form: "true"}
		}
		return c21Sub{Form: "false"}
	case "false":
		if allow {
			return c21Sub{Form: "false"}
		}
		return c21Sub{Form: "true"}
	}
	if s, ok := r.Sub[name]; ok {
		return s
	}
	if allow {
		return c21Sub{Form: "true"}
	}
	return c21Sub{Form: "false"}
}

// anyAlt: does some alternative of the sub-rule fully match?
func (e *c21Env) anyAlt(s c21Sub) bool {
	switch s.Form {
	case "true":
		return true
	case "false":
		return false
	}
	n := 0
	for _, c := range s.Alts {
		if e.consMatch(c) {
			n++
		}
	}
	if len(s.Alts) >= 2 && n == 1 {
		e.altExactlyOne = true
	}
	return n > 0
}

// ruleAllows: a matching deny alternative always refuses, otherwise one allow
// alternative must match.
func (e *c21Env) ruleAllows(r c21Rule, kind string) bool {
	denied := e.anyAlt(c21SubOf(r, "deny-"+kind))
	allowed := e.anyAlt(c21SubOf(r, "allow-"+kind))
	return !denied && allowed
}

func c21RuleIn(d *c21Decl, plugSide bool, iface string) *c21Rule {
	if d == nil {
		return nil
	}
	m := d.Slots
	if plugSide {
		m = d.Plugs
	}
	if r, ok := m[iface]; ok {
		return &r
	}
	return nil
}

// c21Levels returns the four candidate rules for a connection in precedence order.
func c21Levels(c *c21Case) [4]*c21Rule {
	return [4]*c21Rule{
		c21RuleIn(c.PlugDecl, true, c.Iface),
		c21RuleIn(c.SlotDecl, false, c.Iface),
		c21RuleIn(&c.Base, true, c.Iface),
		c21RuleIn(&c.Base, false, c.Iface),
	}
}

func (c *c21Case) baseEnv() c21Env {
	e := c21Env{classic: c.Cand.Classic, distro: c.Cand.Distro, coreDesktop: c.Cand.CoreDesktop}
	if c.Cand.Model > 0 {
		mi := c21ModelInfos[c.Cand.Model]
		e.model = &mi
		e.storeGiven = c.Cand.Store && len(mi.Friendly) > 0
	}
	return e
}

func (c *c21Case) connEnv() c21Env {
	e := c.baseEnv()
	p, s := c.Cand.PlugSnap.Plugs[0], c.Cand.SlotSnap.Slots[0]
	e.iface = c.Iface
	e.conn = true
	e.havePlug, e.haveSlot = true, true
	e.plugName, e.slotName = p.Name, s.Name
	e.plugAttrs, e.slotAttrs = p.Attrs, s.Attrs
	e.plugType, e.slotType = c.Cand.PlugSnap.Type, c.Cand.SlotSnap.Type
	if c.PlugDecl != nil {
		e.plugSnapID, e.plugPub = c.PlugDecl.SnapID, c.PlugDecl.Publisher
	}
	if c.SlotDecl != nil {
		e.slotSnapID, e.slotPub = c.SlotDecl.SnapID, c.SlotDecl.Publisher
	}
	return e
}

type c21ConnVerdict struct {
	Allowed       bool
	Level         int // deciding level, -1 = no rule
	Disagree      bool
	AltExactlyOne bool
	Dollar        bool
}

// refConnection: the most specific existing rule decides.
func (c *c21Case) refConnection(kind string) c21ConnVerdict {
	levels := c21Levels(c)
	v := c21ConnVerdict{Allowed: true, Level: -1}
	first := false
	for i, r := range levels {
		if r == nil {
			continue
		}
		e := c.connEnv()
		a := e.ruleAllows(*r, kind)
		if v.Level == -1 {
			v.Level, v.Allowed = i, a
			v.AltExactlyOne = e.altExactlyOne
			v.Dollar = r.hasDollar()
			first = a
		} else if a != first {
			v.Disagree = true
		}
	}
	return v
}

type c21InstVerdict struct {
	Allowed       bool
	AltExactlyOne bool
	Dollar        bool
	Rules         int // endpoints that had a rule
}

// refInstall: every slot and plug of the snap must pass its most specific rule
// (the snap's own declaration first, then the base declaration).
func (c *c21Case) refInstall(s c21Snap, d *c21Decl) c21InstVerdict {
	v := c21InstVerdict{Allowed: true}
	for _, plugSide := range []bool{false, true} {
		ends := s.Slots
		if plugSide {
			ends = s.Plugs
		}
		for _, en := range ends {
			r := c21RuleIn(d, plugSide, en.Iface)
			if r == nil {
				r = c21RuleIn(&c.Base, plugSide, en.Iface)
			}
			if r == nil {
				continue
			}
			e := c.baseEnv()
			e.iface = en.Iface
			if plugSide {
				e.havePlug = true
				e.plugName, e.plugAttrs, e.plugType = en.Name, en.Attrs, s.Type
				if d != nil {
					e.plugSnapID = d.SnapID
				}
			} else {
				e.haveSlot = true
				e.slotName, e.slotAttrs, e.slotType = en.Name, en.Attrs, s.Type
				if d != nil {
					e.slotSnapID = d.SnapID
				}
			}
			if !e.ruleAllows(*r, "installation") {
				v.Allowed = false
			}
			v.Rules++
			v.AltExactlyOne = v.AltExactlyOne || e.altExactlyOne
			v.Dollar = v.Dollar || r.hasDollar()
		}
	}
	return v
}

// refMinimal: the documented weaker rule of InstallCandidateMinimalCheck: only the
// base declaration's slot rules, only allow-installation, only alternatives that
// say something about slot-snap-type/on-classic/on-core-desktop, judged on those
// three alone.  defined=false when allow-installation is the "false" shortcut
// (the documentation does not say what the minimal check does with it).
func (c *c21Case) refMinimal(s c21Snap) (allowed, defined bool) {
	allowed, defined = true, true
	for _, en := range s.Slots {
		r := c21RuleIn(&c.Base, false, en.Iface)
		if r == nil {
			continue
		}
		sub := c21SubOf(*r, "allow-installation")
		if sub.Form == "false" {
			return false, false
		}
		if sub.Form == "true" {
			continue
		}
		considered, matched := 0, false
		for _, alt := range sub.Alts {
			if len(alt.SlotSnapTypes) == 0 && alt.OnClassic == nil && alt.OnCoreDesktop == "" {
				continue
			}
			considered++
			e := c.baseEnv()
			e.haveSlot = true
			e.slotType = s.Type
			if e.consMatch(c21Cons{SlotSnapTypes: alt.SlotSnapTypes, OnClassic: alt.OnClassic, OnCoreDesktop: alt.OnCoreDesktop}) {
				matched = true
			}
		}
		if considered > 0 && !matched {
			allowed = false
		}
	}
	return allowed, defined
}
