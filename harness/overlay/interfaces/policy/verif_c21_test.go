package policy_test

// C21 — interface connection decisions follow the declared policy rules.
//
// Engines:
//  model        generated declaration ASTs (base-declaration, plug snap-declaration,
//               slot snap-declaration) rendered to assertion text, decoded with
//               asserts.Decode (the real rule compiler is in the loop), and generated
//               candidates; ConnectCandidate.Check / CheckAutoConnect,
//               InstallCandidate.Check (both snaps) and
//               InstallCandidateMinimalCheck.Check must agree in verdict with the
//               reference evaluator of verif_c21_model_test.go
//  metamorphic  same cases plus one mutation of a rule that already exists at its
//               level: add one deny alternative / drop one allow alternative; no
//               verdict may go from refused to allowed (and both sides are also
//               compared with the reference)
//
// Only exported API of interfaces/policy is used.

import (
	"encoding/json"
	"fmt"
	"os"
	"strings"
	"sync"
	"testing"

	"github.com/snapcore/snapd/asserts"
	"github.com/snapcore/snapd/interfaces"
	"github.com/snapcore/snapd/interfaces/policy"
	"github.com/snapcore/snapd/release"
	"github.com/snapcore/snapd/snap"
	"github.com/snapcore/snapd/verifkit"
	"pgregory.net/rapid"
)

// ---- fixed device assertions --------------------------------------------------------

var (
	c21Once     sync.Once
	c21SelfOnce sync.Once
	c21Models   [4]*asserts.Model
	c21Store  *asserts.Store
)

func c21MustDecode(text string) asserts.Assertion {
	a, err := asserts.Decode([]byte(text))
	if err != nil {
		panic(fmt.Sprintf("HARNESS: cannot decode fixed assertion: %v\n%s", err, text))
	}
	return a
}

func c21Init() {
	c21InitFixed()
	c21SelfOnce.Do(c21SelfTest)
}

func c21InitFixed() {
	c21Once.Do(func() {
		c21Models[1] = c21MustDecode("type: model\nauthority-id: my-brand\nseries: 16\nbrand-id: my-brand\nmodel: my-model1\nstore: store1\narchitecture: armhf\nkernel: krnl\ngadget: gadget\n" + c21Trailer).(*asserts.Model)
		c21Models[2] = c21MustDecode("type: model\nauthority-id: other-brand\nseries: 16\nbrand-id: other-brand\nmodel: other-model\nclassic: true\ngadget: gadget\n" + c21Trailer).(*asserts.Model)
		c21Models[3] = c21MustDecode("type: model\nauthority-id: my-brand\nseries: 16\nbrand-id: my-brand\nmodel: my-model3\nstore: substore1\narchitecture: armhf\nkernel: krnl\ngadget: gadget\n" + c21Trailer).(*asserts.Model)
		c21Store = c21MustDecode("type: store\nstore: substore1\nauthority-id: canonical\noperator-id: canonical\nfriendly-stores:\n  - a-store\n  - store1\n  - store2\n" + c21Trailer).(*asserts.Store)
		for i := 1; i <= 3; i++ {
			mi := c21ModelInfos[i]
			if c21Models[i].BrandID() != mi.Brand || c21Models[i].Model() != mi.Model || c21Models[i].Store() != mi.Store {
				panic("HARNESS: model table out of sync with the fixed model assertions")
			}
		}
		if strings.Join(c21Store.FriendlyStores(), ",") != strings.Join(c21ModelInfos[3].Friendly, ",") {
			panic("HARNESS: store table out of sync")
		}
	})
}

// ---- running one case against snapd ---------------------------------------------------

type c21Verdicts struct {
	Conn, Auto, InstPlug, InstSlot, MinPlug, MinSlot bool
	Errs                                             [6]string
}

func (v c21Verdicts) list() [6]bool {
	return [6]bool{v.Conn, v.Auto, v.InstPlug, v.InstSlot, v.MinPlug, v.MinSlot}
}

var c21VerdictNames = [6]string{"connection", "auto-connection", "installation of plug snap", "installation of slot snap", "minimal installation check of plug snap", "minimal installation check of slot snap"}

func c21DecodeDecl(d *c21Decl, snapName string) (asserts.Assertion, string) {
	if d == nil {
		return nil, ""
	}
	text := c21RenderDecl(*d, snapName)
	a, err := asserts.Decode([]byte(text))
	if err != nil {
		// every generated declaration is inside the documented grammar
		panic(fmt.Sprintf("HARNESS: generated declaration does not compile: %v\n%s", err, text))
	}
	return a, text
}

func c21Evaluate(c c21Case) c21Verdicts {
	c21InitFixed()
	restore := snap.MockSanitizePlugsSlots(func(*snap.Info) {})
	defer restore()
	defer release.MockOnClassic(c.Cand.Classic)()
	defer release.MockReleaseInfo(&release.OS{ID: c.Cand.Distro})()
	defer release.MockOnCoreDesktop(c.Cand.CoreDesktop)()

	a, _ := c21DecodeDecl(&c.Base, "")
	baseDecl := a.(*asserts.BaseDeclaration)
	var plugDecl, slotDecl *asserts.SnapDeclaration
	if a, _ := c21DecodeDecl(c.PlugDecl, "plug-snap"); a != nil {
		plugDecl = a.(*asserts.SnapDeclaration)
	}
	if a, _ := c21DecodeDecl(c.SlotDecl, "slot-snap"); a != nil {
		slotDecl = a.(*asserts.SnapDeclaration)
	}
	plugYaml := c21SnapYaml("plug-snap", c.Cand.PlugSnap)
	plugInfo, err := snap.InfoFromSnapYaml([]byte(plugYaml))
	if err != nil {
		panic(fmt.Sprintf("HARNESS: plug snap.yaml: %v\n%s", err, plugYaml))
	}
	slotYaml := c21SnapYaml("slot-snap", c.Cand.SlotSnap)
	slotInfo, err := snap.InfoFromSnapYaml([]byte(slotYaml))
	if err != nil {
		panic(fmt.Sprintf("HARNESS: slot snap.yaml: %v\n%s", err, slotYaml))
	}
	if len(plugInfo.Plugs) != len(c.Cand.PlugSnap.Plugs) || len(plugInfo.Slots) != len(c.Cand.PlugSnap.Slots) ||
		len(slotInfo.Plugs) != len(c.Cand.SlotSnap.Plugs) || len(slotInfo.Slots) != len(c.Cand.SlotSnap.Slots) {
		panic("HARNESS: snap.yaml lost plugs or slots")
	}
	plugSet, err := interfaces.NewSnapAppSet(plugInfo, nil)
	if err != nil {
		panic("HARNESS: " + err.Error())
	}
	slotSet, err := interfaces.NewSnapAppSet(slotInfo, nil)
	if err != nil {
		panic("HARNESS: " + err.Error())
	}
	var model *asserts.Model
	var store *asserts.Store
	if c.Cand.Model > 0 {
		model = c21Models[c.Cand.Model]
		if c.Cand.Store && c.Cand.Model == 3 {
			store = c21Store
		}
	}

	var v c21Verdicts
	note := func(i int, err error) bool {
		if err != nil {
			v.Errs[i] = err.Error()
			if strings.Contains(v.Errs[i], "internal error") || strings.Contains(v.Errs[i], "mismatched") {
				panic("HARNESS: candidate not well formed: " + v.Errs[i])
			}
		}
		return err == nil
	}
	mk := func() *policy.ConnectCandidate {
		return &policy.ConnectCandidate{
			Plug:                interfaces.NewConnectedPlug(plugInfo.Plugs[c.Cand.PlugSnap.Plugs[0].Name], plugSet, nil, nil),
			PlugSnapDeclaration: plugDecl,
			Slot:                interfaces.NewConnectedSlot(slotInfo.Slots[c.Cand.SlotSnap.Slots[0].Name], slotSet, nil, nil),
			SlotSnapDeclaration: slotDecl,
			BaseDeclaration:     baseDecl,
			Model:               model,
			Store:               store,
		}
	}
	v.Conn = note(0, mk().Check())
	_, err = mk().CheckAutoConnect()
	v.Auto = note(1, err)
	v.InstPlug = note(2, (&policy.InstallCandidate{Snap: plugInfo, SnapDeclaration: plugDecl, BaseDeclaration: baseDecl, Model: model, Store: store}).Check())
	v.InstSlot = note(3, (&policy.InstallCandidate{Snap: slotInfo, SnapDeclaration: slotDecl, BaseDeclaration: baseDecl, Model: model, Store: store}).Check())
	v.MinPlug = note(4, (&policy.InstallCandidateMinimalCheck{Snap: plugInfo, BaseDeclaration: baseDecl, Model: model, Store: store}).Check())
	v.MinSlot = note(5, (&policy.InstallCandidateMinimalCheck{Snap: slotInfo, BaseDeclaration: baseDecl, Model: model, Store: store}).Check())
	return v
}

type c21RefResult struct {
	Want    [6]bool
	Defined [6]bool
	Conn    c21ConnVerdict
	Auto    c21ConnVerdict
	IP, IS  c21InstVerdict
}

func c21Reference(c c21Case) c21RefResult {
	var r c21RefResult
	r.Conn = c.refConnection("connection")
	r.Auto = c.refConnection("auto-connection")
	r.IP = c.refInstall(c.Cand.PlugSnap, c.PlugDecl)
	r.IS = c.refInstall(c.Cand.SlotSnap, c.SlotDecl)
	r.Want = [6]bool{r.Conn.Allowed, r.Auto.Allowed, r.IP.Allowed, r.IS.Allowed}
	r.Defined = [6]bool{true, true, true, true}
	r.Want[4], r.Defined[4] = c.refMinimal(c.Cand.PlugSnap)
	r.Want[5], r.Defined[5] = c.refMinimal(c.Cand.SlotSnap)
	return r
}

func c21Word(allowed bool) string {
	if allowed {
		return "allowed"
	}
	return "refused"
}

func c21Texts(c c21Case) string {
	var sb strings.Builder
	sb.WriteString("--- base-declaration\n" + c21RenderDecl(c.Base, "") + "\n")
	if c.PlugDecl != nil {
		sb.WriteString("--- plug snap-declaration\n" + c21RenderDecl(*c.PlugDecl, "plug-snap") + "\n")
	}
	if c.SlotDecl != nil {
		sb.WriteString("--- slot snap-declaration\n" + c21RenderDecl(*c.SlotDecl, "slot-snap") + "\n")
	}
	sb.WriteString("--- plug snap\n" + c21SnapYaml("plug-snap", c.Cand.PlugSnap))
	sb.WriteString("--- slot snap\n" + c21SnapYaml("slot-snap", c.Cand.SlotSnap))
	fmt.Fprintf(&sb, "--- classic=%v distro=%s core-desktop=%v model=%d store=%v interface=%s\n", c.Cand.Classic, c.Cand.Distro, c.Cand.CoreDesktop, c.Cand.Model, c.Cand.Store, c.Iface)
	return strings.ReplaceAll(sb.String(), c21Trailer, "(trailer)")
}

// c21Compare checks snapd's verdicts against the reference.
func c21Compare(c c21Case, got c21Verdicts, ref c21RefResult) error {
	g := got.list()
	for i := range g {
		if !ref.Defined[i] {
			continue
		}
		if g[i] != ref.Want[i] {
			return verifkit.Violatef("%s is %s by snapd (%q) but the declared rules say %s\n%s", c21VerdictNames[i], c21Word(g[i]), got.Errs[i], c21Word(ref.Want[i]), c21Texts(c))
		}
	}
	return nil
}

func c21Labels(ref c21RefResult) (labels []string, nontrivial bool) {
	disagree := ref.Conn.Disagree || ref.Auto.Disagree
	altOne := ref.Conn.AltExactlyOne || ref.Auto.AltExactlyOne || ref.IP.AltExactlyOne || ref.IS.AltExactlyOne
	dollar := ref.Conn.Dollar || ref.Auto.Dollar || ref.IP.Dollar || ref.IS.Dollar
	if disagree {
		labels = append(labels, "levels-disagree")
	}
	if altOne {
		labels = append(labels, "alt-exactly-one-matches")
	}
	if dollar {
		labels = append(labels, "dollar-reference")
	}
	labels = append(labels, fmt.Sprintf("deciding-level-%d", ref.Conn.Level))
	labels = append(labels, "connection-"+c21Word(ref.Conn.Allowed), "auto-connection-"+c21Word(ref.Auto.Allowed))
	if ref.IP.Rules+ref.IS.Rules > 0 {
		labels = append(labels, "installation-ruled")
		if !ref.IP.Allowed || !ref.IS.Allowed {
			labels = append(labels, "installation-refused")
		}
	}
	return labels, disagree || altOne || dollar
}

func c21RunModel(c c21Case) (verifkit.Outcome, error) {
	ref := c21Reference(c)
	labels, nt := c21Labels(ref)
	o := verifkit.Outcome{NonTrivial: nt, Labels: labels}
	got := c21Evaluate(c)
	return o, c21Compare(c, got, ref)
}

// ---- metamorphic mutation -------------------------------------------------------------

func c21Clone(c c21Case) c21Case {
	raw, err := json.Marshal(c)
	if err != nil {
		panic("HARNESS: " + err.Error())
	}
	var out c21Case
	if err := json.Unmarshal(raw, &out); err != nil {
		panic("HARNESS: " + err.Error())
	}
	return out
}

// c21LevelRule returns the rule map and key of a precedence level of case c.
func c21LevelRule(c *c21Case, level int) (map[string]c21Rule, bool) {
	var d *c21Decl
	switch level {
	case 0:
		d = c.PlugDecl
	case 1:
		d = c.SlotDecl
	default:
		d = &c.Base
	}
	if d == nil {
		return nil, false
	}
	m := d.Slots
	if level == 0 || level == 2 {
		m = d.Plugs
	}
	_, ok := m[c.Iface]
	return m, ok
}

// c21MutApplicable: the mutation can be expressed in the declaration syntax and
// changes something.
func c21MutApplicable(r c21Rule, op, kind string) bool {
	if r.Form == "false" {
		return false // deny-* already "true", allow-* already "false"
	}
	if op == "add-deny" {
		return c21SubOf(r, "deny-"+kind).Form != "true"
	}
	return c21SubOf(r, "allow-"+kind).Form != "false"
}

// c21ApplyMut returns the mutated case (ok=false: not applicable).
func c21ApplyMut(c c21Case) (c21Case, bool) {
	out := c21Clone(c)
	out.Mut = nil
	m := c.Mut
	rules, ok := c21LevelRule(&out, m.Level)
	if !ok {
		return out, false
	}
	r := rules[c.Iface]
	if !c21MutApplicable(r, m.Op, m.Kind) {
		return out, false
	}
	if r.Form == "true" {
		// "true" is the rule with every sub-rule at its default
		r = c21Rule{Form: "map", Sub: map[string]c21Sub{}}
	}
	if r.Sub == nil {
		r.Sub = map[string]c21Sub{}
	}
	switch m.Op {
	case "add-deny":
		name := "deny-" + m.Kind
		cur := c21SubOf(r, name)
		switch cur.Form {
		case "false": // absent or "false": never matches
			r.Sub[name] = c21Sub{Form: "map", Alts: []c21Cons{m.Cons}}
		case "map", "list":
			alts := append(append([]c21Cons{}, cur.Alts...), m.Cons)
			r.Sub[name] = c21Sub{Form: "list", Alts: alts}
		default:
			return out, false
		}
	case "remove-allow":
		name := "allow-" + m.Kind
		cur := c21SubOf(r, name)
		switch cur.Form {
		case "true", "map": // the only alternative goes away
			r.Sub[name] = c21Sub{Form: "false"}
		case "list":
			i := m.Index % len(cur.Alts)
			alts := append(append([]c21Cons{}, cur.Alts[:i]...), cur.Alts[i+1:]...)
			if len(alts) == 0 {
				r.Sub[name] = c21Sub{Form: "false"}
			} else {
				r.Sub[name] = c21Sub{Form: "list", Alts: alts}
			}
		default:
			return out, false
		}
	default:
		panic("HARNESS: bad mutation " + m.Op)
	}
	rules[c.Iface] = r
	return out, true
}

func c21RunMeta(c c21Case) (verifkit.Outcome, error) {
	if c.Mut == nil {
		return verifkit.Outcome{Skip: true}, nil
	}
	mutated, ok := c21ApplyMut(c)
	if !ok {
		return verifkit.Outcome{Skip: true}, nil
	}
	orig := c21Clone(c)
	orig.Mut = nil
	refB, refA := c21Reference(orig), c21Reference(mutated)
	labels, nt := c21Labels(refB)
	labels = append(labels, c.Mut.Op, "mutated-"+c.Mut.Kind)
	before, after := c21Evaluate(orig), c21Evaluate(mutated)
	b, a := before.list(), after.list()
	flipped := false
	for i := 0; i < 4; i++ { // the minimal check ignores deny rules and skips alternatives: not monotone by design
		if !b[i] && a[i] {
			return verifkit.Outcome{NonTrivial: nt, Labels: labels}, verifkit.Violatef("%s of level %d %s: %s went from refused (%q) to allowed\n=== before\n%s=== after\n%s",
				c.Mut.Op, c.Mut.Level, c.Mut.Kind, c21VerdictNames[i], before.Errs[i], c21Texts(orig), c21Texts(mutated))
		}
		if b[i] && !a[i] {
			flipped = true
		}
	}
	if flipped {
		labels = append(labels, "verdict-flipped")
	}
	o := verifkit.Outcome{NonTrivial: nt || flipped, Labels: labels}
	if os.Getenv("VERIF_C21_RELATION_ONLY") != "" {
		// machinery validation only: shows what the relation catches on its own
		return o, nil
	}
	if err := c21Compare(orig, before, refB); err != nil {
		return o, err
	}
	return o, c21Compare(mutated, after, refA)
}

// ---- generators -----------------------------------------------------------------------

var (
	c21Ifaces    = []string{"iface", "other"}
	c21PlugNames = []string{"iface", "other", "p1", "p12"}
	c21SlotNames = []string{"iface", "other", "s1", "s12"}
	c21Strs      = []string{"x", "xy", "y", "pub-a", "pub-b", "1", "12", "true"}
	c21Pubs      = []string{"pub-a", "pub-b", "canonical"}
	c21IDs       = []string{c21ID("plugsnap"), c21ID("slotsnap"), c21ID("thirdsnap"), c21ID("fourthsnap")}
	c21Distros   = []string{"ubuntu", "debian", "fedora"}
	c21YamlTypes = []string{"app", "app", "app", "gadget", "kernel", "os", "snapd", "base"}
	c21DeclTypes = []string{"app", "gadget", "kernel", "core"}
	c21Stores    = []string{"store1", "store2", "substore1", "other-store"}
	c21Brands    = []string{"my-brand", "other-brand", "third-brand"}
	c21BrandMods = []string{"my-brand/my-model1", "my-brand/my-model3", "other-brand/other-model", "my-brand/other-model"}
	c21AttrKeys  = []string{"a", "b", "l", "m"}
)

func c21ID(prefix string) string {
	return prefix + strings.Repeat("id", 16)[:32-len(prefix)]
}

// c21Uniform draws uniformly from [0,n).  rapid's integer generators favour small
// values on purpose; probabilities here are meant literally, so the number is
// assembled from fair coin flips (rapid.Bool) with rejection.
func c21Uniform(t *rapid.T, label string, n int) int {
	if n <= 1 {
		return 0
	}
	bits := 0
	for (1 << uint(bits)) < n {
		bits++
	}
	for {
		v := 0
		for i := 0; i < bits; i++ {
			v <<= 1
			if rapid.Bool().Draw(t, label) {
				v |= 1
			}
		}
		if v < n {
			return v
		}
	}
}

// c21Weighted draws an index with the given weights.
func c21Weighted(t *rapid.T, label string, weights ...int) int {
	sum := 0
	for _, w := range weights {
		sum += w
	}
	n := c21Uniform(t, label, sum)
	for i, w := range weights {
		if n < w {
			return i
		}
		n -= w
	}
	return len(weights) - 1
}

// c21Chance: true with the given probability, in steps of 5 percent.
func c21Chance(t *rapid.T, label string, percent int) bool {
	return c21Uniform(t, label, 20) < (percent+2)/5
}

func c21Sample(t *rapid.T, label string, pool []string) string {
	return pool[c21Uniform(t, label, len(pool))]
}

// c21Biased returns target (when set) with the given probability, else a pool value.
func c21Biased(t *rapid.T, label string, target string, pool []string, percent int) string {
	if target != "" && c21Chance(t, label+"-hit", percent) {
		return target
	}
	return c21Sample(t, label, pool)
}

func c21GenVal(t *rapid.T, key string) c21Val {
	switch key {
	case "l":
		n := rapid.IntRange(1, 3).Draw(t, "llen")
		v := c21Val{K: "l"}
		for i := 0; i < n; i++ {
			v.L = append(v.L, c21Sample(t, "lel", c21Strs))
		}
		return v
	case "m":
		v := c21Val{K: "m"}
		for _, k := range []string{"j", "k"} {
			if c21Chance(t, "mkey", 65) {
				v.M = append(v.M, c21KV{k, c21Val{K: "s", S: c21Sample(t, "mval", c21Strs)}})
			}
		}
		if len(v.M) == 0 {
			v.M = append(v.M, c21KV{"k", c21Val{K: "s", S: c21Sample(t, "mval", c21Strs)}})
		}
		return v
	}
	switch c21Weighted(t, "valkind", 7, 1, 1) {
	case 1:
		return c21Val{K: "b", B: rapid.Bool().Draw(t, "bool")}
	case 2:
		return c21Val{K: "i", I: rapid.SampledFrom([]int64{1, 12, 0}).Draw(t, "int")}
	}
	return c21Val{K: "s", S: c21Sample(t, "str", c21Strs)}
}

func c21GenAttrs(t *rapid.T) []c21KV {
	var out []c21KV
	for _, k := range c21AttrKeys {
		if c21Chance(t, "attr-"+k, 60) {
			out = append(out, c21KV{k, c21GenVal(t, k)})
		}
	}
	return out
}

func c21GenSnap(t *rapid.T, iface string, plugSide bool) c21Snap {
	s := c21Snap{Type: c21Sample(t, "snaptype", c21YamlTypes)}
	used := map[string]bool{}
	mainPool, otherPool := c21PlugNames, c21SlotNames
	if !plugSide {
		mainPool, otherPool = c21SlotNames, c21PlugNames
	}
	main := c21End{Name: c21Biased(t, "name", iface, mainPool, 25), Iface: iface, Attrs: c21GenAttrs(t)}
	used[main.Name] = true
	mains, others := []c21End{main}, []c21End(nil)
	if c21Chance(t, "extra-same-side", 35) {
		e := c21End{Name: c21Sample(t, "xname", mainPool), Iface: c21Sample(t, "xiface", c21Ifaces), Attrs: c21GenAttrs(t)}
		if !used[e.Name] {
			used[e.Name] = true
			mains = append(mains, e)
		}
	}
	if c21Chance(t, "extra-other-side", 35) {
		e := c21End{Name: c21Sample(t, "yname", otherPool), Iface: c21Sample(t, "yiface", c21Ifaces), Attrs: c21GenAttrs(t)}
		if !used[e.Name] {
			used[e.Name] = true
			others = append(others, e)
		}
	}
	if plugSide {
		s.Plugs, s.Slots = mains, others
	} else {
		s.Slots, s.Plugs = mains, others
	}
	return s
}

// c21Bias is what constraint generation aims at so that alternatives match often.
type c21Bias struct {
	iface                  string
	plugName, slotName     string
	plugAttrs, slotAttrs   []c21KV
	plugType, slotType     string
	plugID, slotID         string
	plugPub, slotPub       string
	classic                bool
	distro                 string
	coreDesktop            bool
	store, brand, brandMod string
}

func c21GenPat(t *rapid.T, target string, pool []string) c21Pat {
	n := 1
	if c21Chance(t, "two-atoms", 30) {
		n = 2
	}
	var p c21Pat
	for i := 0; i < n; i++ {
		s := c21Biased(t, "pat", target, pool, 50)
		var a c21Atom
		switch c21Weighted(t, "atom", 6, 2, 2, 1, 1) {
		case 0:
			a = c21Atom{K: "lit", S: s}
		case 1:
			a = c21Atom{K: "prefix", S: s[:1]}
		case 2:
			a = c21Atom{K: "suffix", S: s[len(s)-1:]}
		case 3:
			a = c21Atom{K: "lower"}
		default:
			a = c21Atom{K: "digits"}
		}
		p.Atoms = append(p.Atoms, a)
	}
	return p
}

func c21GenNames(t *rapid.T, target string, pool []string) []c21Name {
	n := 1
	if c21Chance(t, "two-names", 30) {
		n = 2
	}
	var out []c21Name
	for i := 0; i < n; i++ {
		if c21Chance(t, "special", 30) {
			out = append(out, c21Name{Special: "$INTERFACE"})
		} else {
			p := c21GenPat(t, target, pool)
			out = append(out, c21Name{Pat: &p})
		}
	}
	return out
}

// c21ValText: a string a pattern should aim at to match v.
func c21ValText(t *rapid.T, v *c21Val) string {
	if v == nil {
		return ""
	}
	if v.K == "l" {
		return v.L[rapid.IntRange(0, len(v.L)-1).Draw(t, "lidx")]
	}
	s, _ := c21ScalarText(*v)
	return s
}

func c21GenRe(t *rapid.T, v *c21Val) c21AC {
	p := c21GenPat(t, c21ValText(t, v), c21Strs)
	return c21AC{K: "re", Pat: &p}
}

func c21GenACEntry(t *rapid.T, key string, own, other []c21KV, ownIsPlug, conn bool) c21AC {
	v := c21Lookup(own, key)
	wMissing, wRef, wPub, wMap := 1, 0, 0, 0
	if v == nil {
		wMissing = 3
	}
	if conn {
		wRef, wPub = 3, 1
	}
	if key == "m" {
		wMap = 6
	}
	switch c21Weighted(t, "ackind", 5, 2, wMissing, wRef, wPub, wMap) {
	case 0:
		return c21GenRe(t, v)
	case 1:
		return c21AC{K: "alt", Alts: []c21AC{c21GenRe(t, v), c21GenRe(t, v)}}
	case 2:
		return c21AC{K: "missing"}
	case 3:
		// equal to an attribute of the other side (mostly) or of the same side
		k := "slot"
		if !ownIsPlug {
			k = "plug"
		}
		if c21Chance(t, "self-ref", 15) {
			if k == "slot" {
				k = "plug"
			} else {
				k = "slot"
			}
		}
		return c21AC{K: k, Arg: c21Biased(t, "refarg", key, c21AttrKeys, 70)}
	case 4:
		if rapid.Bool().Draw(t, "whichpub") {
			return c21AC{K: "plugpub"}
		}
		return c21AC{K: "slotpub"}
	default:
		var m c21AC
		m.K = "map"
		for _, nk := range []string{"j", "k"} {
			if !c21Chance(t, "nested-"+nk, 55) {
				continue
			}
			var nv *c21Val
			if v != nil && v.K == "m" {
				nv = c21Lookup(v.M, nk)
			}
			var c c21AC
			switch c21Weighted(t, "nestedkind", 5, 2, 2) {
			case 0:
				c = c21GenRe(t, nv)
			case 1:
				c = c21AC{K: "alt", Alts: []c21AC{c21GenRe(t, nv), c21GenRe(t, nv)}}
			default:
				c = c21AC{K: "missing"}
			}
			m.Map = append(m.Map, c21ACEntry{nk, c})
		}
		if len(m.Map) == 0 {
			m.Map = append(m.Map, c21ACEntry{"k", c21GenRe(t, nil)})
		}
		return m
	}
}

func c21GenACMap(t *rapid.T, own, other []c21KV, ownIsPlug, conn bool) c21AC {
	m := c21AC{K: "map"}
	for _, k := range []string{"a", "b", "l", "m", "z"} {
		pct := 30
		if k == "z" {
			pct = 8
		}
		if c21Chance(t, "ackey-"+k, pct) {
			m.Map = append(m.Map, c21ACEntry{k, c21GenACEntry(t, k, own, other, ownIsPlug, conn)})
		}
	}
	if len(m.Map) == 0 {
		k := c21Sample(t, "ackey", c21AttrKeys)
		m.Map = append(m.Map, c21ACEntry{k, c21GenACEntry(t, k, own, other, ownIsPlug, conn)})
	}
	return m
}

func c21GenACTop(t *rapid.T, own, other []c21KV, ownIsPlug, conn bool) *c21AC {
	if c21Chance(t, "top-alt", 15) {
		return &c21AC{K: "alt", Alts: []c21AC{c21GenACMap(t, own, other, ownIsPlug, conn), c21GenACMap(t, own, other, ownIsPlug, conn)}}
	}
	m := c21GenACMap(t, own, other, ownIsPlug, conn)
	return &m
}

func c21GenList(t *rapid.T, label, target string, pool []string, percent int) []string {
	n := 1
	if c21Chance(t, label+"-two", 35) {
		n = 2
	}
	var out []string
	for i := 0; i < n; i++ {
		s := c21Biased(t, label, target, pool, percent)
		if !c21In(out, s) {
			out = append(out, s)
		}
	}
	return out
}

// legal constraint keys per rule side and phase (asserts/ifacedecls.go compile*Constraints)
var c21Legal = map[string][]string{
	"plug/inst": {"pn", "pa", "pst", "psid", "oc", "ocd", "dev"},
	"plug/conn": {"pn", "sn", "pa", "sa", "sst", "spub", "ssid", "oc", "ocd", "dev"},
	"slot/inst": {"sn", "sa", "sst", "ssid", "oc", "ocd", "dev"},
	"slot/conn": {"pn", "sn", "pa", "sa", "sst", "pst", "ppub", "psid", "oc", "ocd", "dev"},
}

var c21FieldWeight = map[string]int{"pn": 3, "sn": 3, "pa": 5, "sa": 5, "pst": 2, "sst": 2, "psid": 2, "ssid": 2, "ppub": 4, "spub": 4, "oc": 2, "ocd": 1, "dev": 1, "arity": 1}

func c21GenCons(t *rapid.T, side, phase string, allow bool, b *c21Bias) c21Cons {
	legal := append([]string{}, c21Legal[side+"/"+phase]...)
	if allow && phase == "conn" {
		legal = append(legal, "arity")
	}
	weights := make([]int, len(legal))
	for i, f := range legal {
		weights[i] = c21FieldWeight[f]
	}
	k := 1 + c21Weighted(t, "nfields", 5, 3, 1)
	chosen := map[string]bool{}
	for i := 0; i < k; i++ {
		chosen[legal[c21Weighted(t, "field", weights...)]] = true
	}
	conn := phase == "conn"
	var c c21Cons
	for _, f := range legal { // fixed order: draws do not depend on map iteration
		if !chosen[f] {
			continue
		}
		switch f {
		case "pn":
			c.PlugNames = c21GenNames(t, b.plugName, c21PlugNames)
		case "sn":
			c.SlotNames = c21GenNames(t, b.slotName, c21SlotNames)
		case "pa":
			c.PlugAttrs = c21GenACTop(t, b.plugAttrs, b.slotAttrs, true, conn)
		case "sa":
			c.SlotAttrs = c21GenACTop(t, b.slotAttrs, b.plugAttrs, false, conn)
		case "pst":
			c.PlugSnapTypes = c21GenList(t, "pst", b.plugType, c21DeclTypes, 55)
		case "sst":
			c.SlotSnapTypes = c21GenList(t, "sst", b.slotType, c21DeclTypes, 55)
		case "psid":
			c.PlugSnapIDs = c21GenList(t, "psid", b.plugID, c21IDs, 55)
		case "ssid":
			c.SlotSnapIDs = c21GenList(t, "ssid", b.slotID, c21IDs, 55)
		case "ppub":
			c.PlugPubIDs = c21GenList(t, "ppub", b.plugPub, append([]string{"$SLOT_PUBLISHER_ID", "$SLOT_PUBLISHER_ID"}, c21Pubs...), 30)
		case "spub":
			c.SlotPubIDs = c21GenList(t, "spub", b.slotPub, append([]string{"$PLUG_PUBLISHER_ID", "$PLUG_PUBLISHER_ID"}, c21Pubs...), 30)
		case "oc":
			switch c21Weighted(t, "ocform", 1, 1, 2) {
			case 0:
				c.OnClassic = &c21OnClassic{Classic: true}
			case 1:
				c.OnClassic = &c21OnClassic{Classic: false}
			default:
				c.OnClassic = &c21OnClassic{Classic: true, Distros: c21GenList(t, "distro", b.distro, c21Distros, 50)}
			}
		case "ocd":
			c.OnCoreDesktop = c21Sample(t, "ocd", []string{"true", "false"})
		case "dev":
			switch c21Weighted(t, "devkind", 3, 2, 2, 1) {
			case 0:
				c.OnStore = c21GenList(t, "onstore", b.store, c21Stores, 50)
			case 1:
				c.OnBrand = c21GenList(t, "onbrand", b.brand, c21Brands, 50)
			case 2:
				c.OnModel = c21GenList(t, "onmodel", b.brandMod, c21BrandMods, 50)
			default:
				c.OnStore = c21GenList(t, "onstore", b.store, c21Stores, 60)
				c.OnBrand = c21GenList(t, "onbrand", b.brand, c21Brands, 60)
			}
		case "arity":
			if rapid.Bool().Draw(t, "which-arity") {
				c.SlotsPerPlug = c21Sample(t, "spp", []string{"*", "1", "2"})
			} else {
				c.PlugsPerSlot = c21Sample(t, "pps", []string{"*", "1"})
			}
		}
	}
	return c
}

func c21GenSub(t *rapid.T, side, name string, b *c21Bias) c21Sub {
	phase := "conn"
	if strings.HasSuffix(name, "-installation") {
		phase = "inst"
	}
	allow := strings.HasPrefix(name, "allow-")
	switch c21Weighted(t, "subform", 1, 1, 5, 5) {
	case 0:
		return c21Sub{Form: "true"}
	case 1:
		return c21Sub{Form: "false"}
	case 2:
		return c21Sub{Form: "map", Alts: []c21Cons{c21GenCons(t, side, phase, allow, b)}}
	}
	n := rapid.IntRange(2, 3).Draw(t, "nalts")
	s := c21Sub{Form: "list"}
	for i := 0; i < n; i++ {
		s.Alts = append(s.Alts, c21GenCons(t, side, phase, allow, b))
	}
	return s
}

func c21GenRule(t *rapid.T, side string, b *c21Bias) c21Rule {
	switch c21Weighted(t, "ruleform", 1, 1, 14) {
	case 0:
		return c21Rule{Form: "true"}
	case 1:
		return c21Rule{Form: "false"}
	}
	r := c21Rule{Form: "map", Sub: map[string]c21Sub{}}
	present := make([]bool, len(c21SubNames))
	any := false
	for i := range c21SubNames {
		present[i] = c21Chance(t, "sub-present", 45)
		any = any || present[i]
	}
	if !any {
		present[rapid.IntRange(0, len(c21SubNames)-1).Draw(t, "forced-sub")] = true
	}
	for i, name := range c21SubNames {
		if present[i] {
			r.Sub[name] = c21GenSub(t, side, name, b)
		}
	}
	return r
}

func c21GenRules(t *rapid.T, label, side, iface, other string, pctMain, pctOther int, b *c21Bias) map[string]c21Rule {
	m := map[string]c21Rule{}
	if c21Chance(t, label+"-main", pctMain) {
		m[iface] = c21GenRule(t, side, b)
	}
	if c21Chance(t, label+"-other", pctOther) {
		m[other] = c21GenRule(t, side, b)
	}
	return m
}

func c21GenCase(t *rapid.T) c21Case {
	var c c21Case
	c.Iface = c21Sample(t, "iface", c21Ifaces)
	other := "other"
	if c.Iface == "other" {
		other = "iface"
	}
	c.Cand = c21Cand{
		PlugSnap:    c21GenSnap(t, c.Iface, true),
		SlotSnap:    c21GenSnap(t, c.Iface, false),
		Classic:     rapid.Bool().Draw(t, "classic"),
		Distro:      c21Sample(t, "distro", c21Distros),
		CoreDesktop: c21Chance(t, "core-desktop", 30),
		Model:       rapid.IntRange(0, 3).Draw(t, "model"),
		Store:       rapid.Bool().Draw(t, "store"),
	}
	b := &c21Bias{
		iface:    c.Iface,
		plugName: c.Cand.PlugSnap.Plugs[0].Name, slotName: c.Cand.SlotSnap.Slots[0].Name,
		plugAttrs: c.Cand.PlugSnap.Plugs[0].Attrs, slotAttrs: c.Cand.SlotSnap.Slots[0].Attrs,
		plugType: c21DeclType(c.Cand.PlugSnap.Type), slotType: c21DeclType(c.Cand.SlotSnap.Type),
		classic: c.Cand.Classic, distro: c.Cand.Distro, coreDesktop: c.Cand.CoreDesktop,
	}
	if !c21In(c21DeclTypes, b.plugType) {
		b.plugType = ""
	}
	if !c21In(c21DeclTypes, b.slotType) {
		b.slotType = ""
	}
	if c.Cand.Model > 0 {
		mi := c21ModelInfos[c.Cand.Model]
		b.store, b.brand, b.brandMod = mi.Store, mi.Brand, mi.Brand+"/"+mi.Model
	}
	if c21Chance(t, "plug-decl", 80) {
		c.PlugDecl = &c21Decl{SnapID: c21Sample(t, "plug-snap-id", []string{c21IDs[0], c21IDs[2]}), Publisher: c21Sample(t, "plug-pub", c21Pubs)}
		b.plugID, b.plugPub = c.PlugDecl.SnapID, c.PlugDecl.Publisher
	}
	if c21Chance(t, "slot-decl", 80) {
		c.SlotDecl = &c21Decl{SnapID: c21Sample(t, "slot-snap-id", []string{c21IDs[1], c21IDs[3]}), Publisher: c21Sample(t, "slot-pub", c21Pubs)}
		b.slotID, b.slotPub = c.SlotDecl.SnapID, c.SlotDecl.Publisher
	}
	// rules are generated after both declarations' identities are known
	if c.PlugDecl != nil {
		c.PlugDecl.Plugs = c21GenRules(t, "pd-plugs", "plug", c.Iface, other, 55, 15, b)
		c.PlugDecl.Slots = c21GenRules(t, "pd-slots", "slot", c.Iface, other, 12, 12, b)
	}
	if c.SlotDecl != nil {
		c.SlotDecl.Slots = c21GenRules(t, "sd-slots", "slot", c.Iface, other, 55, 15, b)
		c.SlotDecl.Plugs = c21GenRules(t, "sd-plugs", "plug", c.Iface, other, 12, 12, b)
	}
	c.Base.Plugs = c21GenRules(t, "base-plugs", "plug", c.Iface, other, 50, 30, b)
	c.Base.Slots = c21GenRules(t, "base-slots", "slot", c.Iface, other, 60, 30, b)
	return c
}

func c21GenMetaCase(t *rapid.T) c21Case {
	c := c21GenCase(t)
	type cand struct {
		level    int
		op, kind string
	}
	var cands []cand
	levels := c21Levels(&c)
	for lvl, r := range levels {
		if r == nil {
			continue
		}
		for _, kind := range []string{"installation", "connection", "auto-connection"} {
			for _, op := range []string{"add-deny", "remove-allow"} {
				if c21MutApplicable(*r, op, kind) {
					w := 1
					if op == "add-deny" {
						w = 2 // the relation named in the property statement
					}
					for i := 0; i < w; i++ {
						cands = append(cands, cand{lvl, op, kind})
					}
				}
			}
		}
	}
	if len(cands) == 0 {
		return c // Run skips
	}
	pick := cands[c21Uniform(t, "mutation", len(cands))]
	m := &c21Mut{Op: pick.op, Level: pick.level, Kind: pick.kind}
	if pick.op == "add-deny" {
		side := "slot"
		if pick.level == 0 || pick.level == 2 {
			side = "plug"
		}
		phase := "conn"
		if pick.kind == "installation" {
			phase = "inst"
		}
		b := &c21Bias{
			iface:    c.Iface,
			plugName: c.Cand.PlugSnap.Plugs[0].Name, slotName: c.Cand.SlotSnap.Slots[0].Name,
			plugAttrs: c.Cand.PlugSnap.Plugs[0].Attrs, slotAttrs: c.Cand.SlotSnap.Slots[0].Attrs,
			plugType: c21DeclType(c.Cand.PlugSnap.Type), slotType: c21DeclType(c.Cand.SlotSnap.Type),
			distro: c.Cand.Distro,
		}
		if !c21In(c21DeclTypes, b.plugType) {
			b.plugType = ""
		}
		if !c21In(c21DeclTypes, b.slotType) {
			b.slotType = ""
		}
		if c.PlugDecl != nil {
			b.plugID, b.plugPub = c.PlugDecl.SnapID, c.PlugDecl.Publisher
		}
		if c.SlotDecl != nil {
			b.slotID, b.slotPub = c.SlotDecl.SnapID, c.SlotDecl.Publisher
		}
		m.Cons = c21GenCons(t, side, phase, false, b)
	} else {
		m.Index = rapid.IntRange(0, 5).Draw(t, "drop-index")
	}
	c.Mut = m
	return c
}

// ---- engines ----------------------------------------------------------------------------

func TestVerifC21Model(t *testing.T) {
	c21Init()
	verifkit.Check(t, verifkit.Spec[c21Case]{
		ID: "C21", Engine: "model",
		Gen:             c21GenCase,
		Run:             c21RunModel,
		Floors:          map[string]float64{"levels-disagree": 0.25, "alt-exactly-one-matches": 0.25, "dollar-reference": 0.25, "connection-allowed": 0.15, "connection-refused": 0.15, "installation-refused": 0.10},
		NonTrivialFloor: 0.5,
	})
}

func TestVerifC21Metamorphic(t *testing.T) {
	c21Init()
	verifkit.Check(t, verifkit.Spec[c21Case]{
		ID: "C21", Engine: "metamorphic",
		Gen:             c21GenMetaCase,
		Run:             c21RunMeta,
		Floors:          map[string]float64{"add-deny": 0.40, "remove-allow": 0.15, "verdict-flipped": 0.05},
		NonTrivialFloor: 0.5,
	})
}

// ---- the reference evaluator on the worked examples of policy_test.go --------------------

func c21Lit(s string) *c21Pat { return &c21Pat{Atoms: []c21Atom{{K: "lit", S: s}}} }

func c21AttrEq(key, val string) *c21AC {
	return &c21AC{K: "map", Map: []c21ACEntry{{key, c21AC{K: "re", Pat: c21Lit(val)}}}}
}

type c21Example struct {
	Name string
	Case c21Case
	Conn bool
}

// c21Examples is filled by c21SelfTest (after the reference passed them).
var c21Examples []c21Example

// TestVerifC21Examples runs snapd on the worked examples: a plain regression
// engine, so that a breakage visible on them is reported as a violation.
func TestVerifC21Examples(t *testing.T) {
	c21Init()
	e := verifkit.NewEnum(t, "C21", "examples")
	defer e.Done()
	if raw, ok := e.Replaying(); ok {
		var c c21Case
		if err := json.Unmarshal(raw, &c); err != nil {
			t.Fatalf("cannot decode replay case: %v", err)
		}
		if _, err := c21RunModel(c); err != nil {
			e.Fail(c, "%v", err)
		}
		return
	}
	for _, ex := range c21Examples {
		o, err := c21RunModel(ex.Case)
		if err != nil {
			e.Fail(ex.Case, "worked example %q: %v", ex.Name, err)
		}
		e.Case("example "+ex.Name, o.NonTrivial, o.Labels...)
	}
	e.Exhaustive(true)
	e.Extra("examples", len(c21Examples))
}

func c21SelfTest() {
	strAttr := func(k, v string) []c21KV { return []c21KV{{k, c21Val{K: "s", S: v}}} }
	mk := func(plugAttrs, slotAttrs []c21KV) c21Case {
		return c21Case{Iface: "iface", Cand: c21Cand{
			PlugSnap: c21Snap{Type: "app", Plugs: []c21End{{Name: "iface", Iface: "iface", Attrs: plugAttrs}}},
			SlotSnap: c21Snap{Type: "app", Slots: []c21End{{Name: "iface", Iface: "iface", Attrs: slotAttrs}}},
		}}
	}
	expect := func(what string, c c21Case, conn bool) {
		ref := c21Reference(c)
		if ref.Conn.Allowed != conn {
			panic(fmt.Sprintf("HARNESS: reference evaluator fails worked example %q", what))
		}
		c21Examples = append(c21Examples, c21Example{what, c21Clone(c), conn})
	}
	// TestBaselineDefaultIsAllow
	expect("no rule", mk(nil, nil), true)
	// plug-or (TestBaseDeclAllowDenyConnection: p1-s1 ok, p2-s2 ok, p1-s2 refused)
	or := c21Rule{Form: "map", Sub: map[string]c21Sub{"allow-connection": {Form: "list", Alts: []c21Cons{
		{SlotAttrs: c21AttrEq("s", "S1"), PlugAttrs: c21AttrEq("p", "P1")},
		{SlotAttrs: c21AttrEq("s", "S2"), PlugAttrs: c21AttrEq("p", "P2")},
	}}}}
	for _, ex := range []struct {
		p, s string
		ok   bool
	}{{"P1", "S1", true}, {"P2", "S2", true}, {"P1", "S2", false}} {
		c := mk(strAttr("p", ex.p), strAttr("s", ex.s))
		c.Base.Plugs = map[string]c21Rule{"iface": or}
		expect("plug-or "+ex.p+ex.s, c, ex.ok)
		c = mk(strAttr("p", ex.p), strAttr("s", ex.s))
		c.Base.Slots = map[string]c21Rule{"iface": or}
		expect("slot-or "+ex.p+ex.s, c, ex.ok)
	}
	// base-plug-deny / base-plug-not-allow
	c := mk(nil, nil)
	c.Base.Plugs = map[string]c21Rule{"iface": {Form: "map", Sub: map[string]c21Sub{"deny-connection": {Form: "true"}}}}
	expect("base-plug-deny", c, false)
	c = mk(nil, nil)
	c.Base.Slots = map[string]c21Rule{"iface": {Form: "map", Sub: map[string]c21Sub{"allow-connection": {Form: "false"}}}}
	expect("base-slot-not-allow", c, false)
	// snap-declaration rules win over the base declaration (TestSnapDeclAllowDenyConnection:
	// base-deny-snap-plug-allow, base-deny-snap-slot-allow, snap-slot-deny-snap-plug-allow)
	c = mk(nil, nil)
	c.Base.Plugs = map[string]c21Rule{"iface": {Form: "map", Sub: map[string]c21Sub{"deny-connection": {Form: "true"}}}}
	c.PlugDecl = &c21Decl{SnapID: c21IDs[0], Publisher: "pub-a", Plugs: map[string]c21Rule{"iface": {Form: "true"}}}
	expect("base-deny-snap-plug-allow", c, true)
	c = mk(nil, nil)
	c.Base.Slots = map[string]c21Rule{"iface": {Form: "map", Sub: map[string]c21Sub{"deny-connection": {Form: "true"}}}}
	c.SlotDecl = &c21Decl{SnapID: c21IDs[1], Publisher: "pub-a", Slots: map[string]c21Rule{"iface": {Form: "true"}}}
	expect("base-deny-snap-slot-allow", c, true)
	c = mk(nil, nil)
	c.SlotDecl = &c21Decl{SnapID: c21IDs[1], Publisher: "pub-a", Slots: map[string]c21Rule{"iface": {Form: "false"}}}
	c.PlugDecl = &c21Decl{SnapID: c21IDs[0], Publisher: "pub-a", Plugs: map[string]c21Rule{"iface": {Form: "map", Sub: map[string]c21Sub{"deny-connection": {Form: "false"}}}}}
	expect("snap-slot-deny-snap-plug-allow", c, true)
	// same-plug-publisher-id (TestDollarPlugPublisherIDCheckConnection)
	same := c21Rule{Form: "map", Sub: map[string]c21Sub{"allow-connection": {Form: "map", Alts: []c21Cons{{SlotPubIDs: []string{"$PLUG_PUBLISHER_ID"}}}}}}
	c = mk(nil, nil)
	c.Base.Plugs = map[string]c21Rule{"iface": same}
	expect("same publisher without declarations", c, false)
	c.PlugDecl = &c21Decl{SnapID: c21IDs[0], Publisher: "pub-a"}
	c.SlotDecl = &c21Decl{SnapID: c21IDs[1], Publisher: "pub-b"}
	expect("different publishers", c, false)
	c.SlotDecl = &c21Decl{SnapID: c21IDs[1], Publisher: "pub-a"}
	expect("same publishers", c, true)
	// plug-slot-attr: plug attribute c must equal $SLOT(c)
	c = mk(strAttr("c", "x"), strAttr("c", "x"))
	c.Base.Plugs = map[string]c21Rule{"iface": {Form: "map", Sub: map[string]c21Sub{"allow-connection": {Form: "map", Alts: []c21Cons{{PlugAttrs: &c21AC{K: "map", Map: []c21ACEntry{{"c", c21AC{K: "slot", Arg: "c"}}}}}}}}}}
	expect("plug-slot-attr match", c, true)
	c.Cand.SlotSnap.Slots[0].Attrs = strAttr("c", "y")
	expect("plug-slot-attr mismatch", c, false)
}
