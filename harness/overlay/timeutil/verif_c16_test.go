package timeutil

// C16 — auto-refresh runs inside timer windows and is never postponed past the limit.
// Unexported identifiers used: timeNow (the package clock, replaced per case and
// restored), nothing else; WeekSpan.Match / ParseSchedule / Next / Includes /
// Schedule.String are exported.
//
// Engines:
//  next      rapid: timer structure × zone × last × now × max.  The timer string
//            is rendered from the structure by the documented grammar, parsed
//            by snapd, and timeutil.Next is compared with the independent
//            window model of verif_c16_model_test.go (oracle clauses 1+2 of
//            DESIGN.md §3 C16: inside a window / at the limit / immediately, and
//            *earliest*).  Spread windows accept any instant of the window.
//            Also: ParseSchedule result == structure; Includes() must agree
//            with the model where the documentation is unambiguous.
//  grammar   rapid: every grammar-built string parses to the structure, and
//            Parse(String(Parse(s))) == Parse(s) modulo the zero-length-span
//            normalisation; every string of the invalid family is rejected.
//  calendar  exhaustive: WeekSpan.Match against the model's calendar
//            computation for every documented week span × every day of a
//            range of years, preceded by a self-test of the model on the
//            examples of the doc comments (a model error is a harness error,
//            never a verdict).

import (
	"encoding/json"
	"fmt"
	"reflect"
	"sort"
	"testing"
	"time"

	"github.com/snapcore/snapd/verifkit"
	"pgregory.net/rapid"
)

// ---- generators ---------------------------------------------------------------

// c16GenWeekSpan draws one wdayset.  kinds: 0 wday, 1 wdaynumber, 2 wday-wday,
// 3 wdaynumber-wday, 4 wday-wdaynumber; with extended also 5 both numbered
// (accepted, deprecated) and 6 wday-wday with equal days.
func c16GenWeekSpan(t *rapid.T, extended bool) c16WeekSpan {
	kinds := []int{0, 0, 1, 1, 1, 2, 2, 3, 3, 3, 4, 4, 4}
	if extended {
		kinds = append(kinds, 5, 5, 6)
	}
	kind := rapid.SampledFrom(kinds).Draw(t, "wkind")
	a := rapid.IntRange(0, 6).Draw(t, "wa")
	b := rapid.IntRange(0, 6).Draw(t, "wb")
	pos := rapid.SampledFrom([]int{1, 1, 2, 3, 4, 4, 5, 5, 5}).Draw(t, "wpos")
	switch kind {
	case 0:
		return c16WeekSpan{Start: c16Week{a, 0}}
	case 1:
		return c16WeekSpan{Start: c16Week{a, pos}}
	case 2:
		if a == b {
			b = (a + 1 + rapid.IntRange(0, 5).Draw(t, "wshift")) % 7
		}
		return c16WeekSpan{Start: c16Week{a, 0}, End: c16Week{b, 0}, Span: true}
	case 3:
		return c16WeekSpan{Start: c16Week{a, pos}, End: c16Week{b, 0}, Span: true}
	case 4:
		return c16WeekSpan{Start: c16Week{a, 0}, End: c16Week{b, pos}, Span: true}
	case 5:
		pos2 := pos + rapid.IntRange(0, 5-pos).Draw(t, "wpos2")
		return c16WeekSpan{Start: c16Week{a, pos}, End: c16Week{b, pos2}, Span: true}
	default:
		return c16WeekSpan{Start: c16Week{a, 0}, End: c16Week{a, 0}, Span: true}
	}
}

func c16GenClock(t *rapid.T, label string) c16Clock {
	h := rapid.IntRange(0, 23).Draw(t, label+"h")
	m := rapid.SampledFrom([]int{0, 0, 0, 0, 30, 30, 15, 45, 1, 59, 10, 20, 7}).Draw(t, label+"m")
	if rapid.IntRange(0, 9).Draw(t, label+"any") == 0 {
		m = rapid.IntRange(0, 59).Draw(t, label+"mm")
	}
	return c16Clock{h, m}
}

func c16GenClockSpan(t *rapid.T, allowUneven bool) c16ClockSpan {
	// 0 single, 1 same-day range, 2 range over midnight, 3 range to 24:00,
	// 4 whole day, 5 zero-length range, 6 start 24:00
	kind := rapid.SampledFrom([]int{0, 0, 0, 0, 0, 1, 1, 1, 1, 1, 1, 1, 2, 2, 2, 2, 2, 2, 3, 3, 4, 5, 6}).Draw(t, "ckind")
	cs := c16ClockSpan{Short: rapid.IntRange(0, 3).Draw(t, "short") == 0}
	a, b := c16GenClock(t, "ca"), c16GenClock(t, "cb")
	switch kind {
	case 0:
		cs.Start = a
		if rapid.IntRange(0, 30).Draw(t, "t24") == 0 {
			cs.Start = c16Clock{24, 0}
		}
		return cs
	case 1, 2:
		if a == b {
			b = c16Clock{(a.H + 1) % 24, a.M}
		}
		lo, hi := a, b
		if lo.minutes() > hi.minutes() {
			lo, hi = hi, lo
		}
		if kind == 1 {
			cs.Start, cs.End = lo, hi
		} else {
			cs.Start, cs.End = hi, lo
		}
	case 3:
		cs.Start, cs.End = a, c16Clock{24, 0}
	case 4:
		cs.Start, cs.End = c16Clock{0, 0}, c16Clock{24, 0}
	case 5:
		cs.Start, cs.End = a, a
	case 6:
		cs.Start, cs.End = c16Clock{24, 0}, b
	}
	cs.Range = true
	cs.Spread = rapid.IntRange(0, 2).Draw(t, "spread") == 0
	s, e := c16SpanMinutes(cs)
	split := rapid.IntRange(0, 19).Draw(t, "splitkind")
	n := rapid.SampledFrom([]int{2, 2, 2, 3, 4, 4, 6, 8, 12, 24, 5, 10, 1}).Draw(t, "splitn")
	switch {
	case kind == 6 || split < 9:
		// no "/N" (24:00 as the start of a split span is left out: the
		// documentation only explains 24:00 as "the later end of the day")
	case split < 19 || !allowUneven:
		if e > s && (e-s)%n == 0 {
			cs.Split = n
		} else if e > s && (e-s)%2 == 0 {
			cs.Split = 2
		}
	default:
		cs.Split = rapid.SampledFrom([]int{7, 9, 11, 13, 100, 1441}).Draw(t, "splitodd")
	}
	return cs
}

// c16GenSets draws 1..3 event sets.
func c16GenSets(t *rapid.T, extended, allowWeak bool) []c16Set {
	nsets := rapid.SampledFrom([]int{1, 1, 1, 1, 1, 1, 2, 2, 2, 3}).Draw(t, "nsets")
	sets := make([]c16Set, nsets)
	for i := range sets {
		nw := rapid.SampledFrom([]int{0, 0, 0, 1, 1, 1, 1, 1, 2, 3}).Draw(t, "nweeks")
		nc := rapid.SampledFrom([]int{1, 1, 1, 1, 1, 2, 2, 3, 0}).Draw(t, "nclocks")
		if nc == 0 && (nw == 0 || !allowWeak || rapid.IntRange(0, 1).Draw(t, "noclock") == 0) {
			nc = 1
		}
		for j := 0; j < nw; j++ {
			sets[i].Weeks = append(sets[i].Weeks, c16GenWeekSpan(t, extended))
		}
		for j := 0; j < nc; j++ {
			sets[i].Clocks = append(sets[i].Clocks, c16GenClockSpan(t, allowWeak))
		}
	}
	return sets
}

var c16Pivots = []int64{
	c16DayIdx(2018, 7, 15), // the calendar of the doc comment
	c16DayIdx(2020, 2, 20), // leap February
	c16DayIdx(2023, 2, 25), // 28-day February starting on a Wednesday
	c16DayIdx(2026, 2, 10), // 28-day February starting on a Sunday (exactly four weeks)
}

var c16Zones = []int{0, 0, 0, 3600, -5 * 3600, 19800, 45900, -34200, 14 * 3600, -12 * 3600}

// c16GenTod draws a time of day (ns from local midnight; may be slightly
// outside the day), mostly at or next to a boundary of the timer's clock spans.
func c16GenTod(t *rapid.T, sets []c16Set, label string) int64 {
	if rapid.IntRange(0, 9).Draw(t, label+"mode") < 3 {
		sec := rapid.Int64Range(0, 86399).Draw(t, label+"sec")
		ns := int64(0)
		if rapid.IntRange(0, 4).Draw(t, label+"sub") == 0 {
			ns = rapid.Int64Range(0, 999999999).Draw(t, label+"ns")
		}
		return sec*int64(time.Second) + ns
	}
	var bounds []int
	for _, set := range sets {
		for _, cs := range set.Clocks {
			s, e := c16SpanMinutes(cs)
			bounds = append(bounds, s, e, e%1440)
			if cs.Split > 1 && cs.Split <= 24 && e > s {
				for i := 1; i < cs.Split; i++ {
					bounds = append(bounds, s+i*(e-s)/cs.Split, (s+i*(e-s)/cs.Split)%1440)
				}
			}
		}
	}
	if len(bounds) == 0 {
		bounds = []int{0, 1440}
	}
	b := bounds[rapid.IntRange(0, len(bounds)-1).Draw(t, label+"bound")]
	delta := rapid.SampledFrom([]int64{0, 0, 0, 0, 1, -1, int64(time.Second), -int64(time.Second), c16Min, -c16Min,
		4 * c16Min, 5 * c16Min, -5 * c16Min, 6 * c16Min, 30 * c16Min, -30 * c16Min, 90 * c16Min, -90 * c16Min}).Draw(t, label+"delta")
	return int64(b)*c16Min + delta
}

// c16GenDay draws a calendar day within ±400 days of a pivot, often next to a
// month boundary.
func c16GenDay(t *rapid.T) int64 {
	pivot := rapid.SampledFrom(c16Pivots).Draw(t, "pivot")
	d := pivot + int64(rapid.IntRange(-400, 400).Draw(t, "dayoff"))
	if rapid.IntRange(0, 2).Draw(t, "edge") == 0 {
		y, m, _ := c16Civil(d)
		d = c16DayIdx(y, m, 1) + int64(rapid.IntRange(-9, 8).Draw(t, "edgeoff"))
	}
	return d
}

type c16NextCase struct {
	Sets    []c16Set
	ZoneOff int   // seconds east of UTC
	Last    int64 // unix ns
	Now     int64 // unix ns
	MaxMin  int   // maxDuration in minutes
	Probe   int64 // extra instant for the Includes clause, unix ns
}

func c16GenNextCase(t *rapid.T) c16NextCase {
	c := c16NextCase{Sets: c16GenSets(t, false, true)}
	c.ZoneOff = rapid.SampledFrom(c16Zones).Draw(t, "zone")
	day := c16GenDay(t)
	c.Last = c16DayStart(day, c.ZoneOff) + c16GenTod(t, c.Sets, "last")
	var k int
	switch rapid.IntRange(0, 19).Draw(t, "gapkind") {
	case 0, 1, 2, 3, 4, 5, 6, 7, 8, 9:
		k = 0
	case 10, 11, 12, 13:
		k = rapid.IntRange(1, 2).Draw(t, "gap")
	case 14, 15, 16, 17:
		k = rapid.IntRange(3, 40).Draw(t, "gap")
	default:
		k = rapid.IntRange(41, 400).Draw(t, "gap")
	}
	c.Now = c16DayStart(day+int64(k), c.ZoneOff) + c16GenTod(t, c.Sets, "now")
	future := rapid.IntRange(0, 24).Draw(t, "future") == 0
	if c.Now < c.Last && !future {
		c.Last, c.Now = c.Now, c.Last
	}
	if rapid.IntRange(0, 2).Draw(t, "maxkind") > 0 {
		c.MaxMin = rapid.SampledFrom([]int{60, 360, 720, 1440, 3 * 1440, 7 * 1440, 14 * 1440, 30 * 1440, 30 * 1440, 60 * 1440, 60 * 1440, 95 * 1440, 95 * 1440, 95 * 1440}).Draw(t, "max")
	} else {
		c.MaxMin = rapid.IntRange(60, 95*1440).Draw(t, "maxmin")
	}
	if gap := int((c.Now - c.Last) / c16Min); gap >= c.MaxMin && gap < 95*1440 && rapid.IntRange(0, 3).Draw(t, "overdue") != 0 {
		// keep "long overdue" from dominating: move the limit to now or later
		c.MaxMin = gap + rapid.IntRange(0, 95*1440-gap).Draw(t, "maxextra")
	}
	c.Probe = c16DayStart(day+int64(rapid.IntRange(-3, 45).Draw(t, "probeday")), c.ZoneOff) + c16GenTod(t, c.Sets, "probe")
	return c
}

// ---- next engine ----------------------------------------------------------------

// c16SchedEqual compares parsed schedules structurally.
func c16SchedEqual(a, b []*Schedule) bool {
	if len(a) != len(b) {
		return false
	}
	for i := range a {
		if len(a[i].WeekSpans) != len(b[i].WeekSpans) || len(a[i].ClockSpans) != len(b[i].ClockSpans) {
			return false
		}
		for j := range a[i].WeekSpans {
			if a[i].WeekSpans[j] != b[i].WeekSpans[j] {
				return false
			}
		}
		for j := range a[i].ClockSpans {
			if a[i].ClockSpans[j] != b[i].ClockSpans[j] {
				return false
			}
		}
	}
	return true
}

func c16SchedString(s []*Schedule) string {
	parts := make([]string, len(s))
	for i := range s {
		p := "{weeks:"
		for _, w := range s[i].WeekSpans {
			p += fmt.Sprintf(" %v%d-%v%d", w.Start.Weekday.String()[:3], w.Start.Pos, w.End.Weekday.String()[:3], w.End.Pos)
		}
		p += " clocks:"
		for _, c := range s[i].ClockSpans {
			p += fmt.Sprintf(" %d:%02d-%d:%02d/split=%d/spread=%v", c.Start.Hour, c.Start.Minute, c.End.Hour, c.End.Minute, c.Split, c.Spread)
		}
		parts[i] = p + "}"
	}
	return fmt.Sprint(parts)
}

// c16MidnightSplitUnderWeekdays: the shape of timer that finding F-C16-1 needs.
func c16MidnightSplitUnderWeekdays(sets []c16Set) bool {
	for _, set := range sets {
		if len(set.Weeks) == 0 {
			continue
		}
		for _, cs := range set.Clocks {
			if cs.Split >= 2 && c16CrossesMidnight(cs) {
				return true
			}
		}
	}
	return false
}

func c16Fmt(ns int64, zoneOff int) string {
	return time.Unix(0, ns).In(time.FixedZone("", zoneOff)).Format("Mon 2006-01-02T15:04:05.999999999Z07:00")
}

func c16RunNext(c c16NextCase) (verifkit.Outcome, error) {
	o := verifkit.Outcome{}
	if !c16WellFormed(c.Sets) || c.MaxMin < 1 || c.MaxMin > 200*1440 || c.ZoneOff < -14*3600 || c.ZoneOff > 14*3600 {
		o.Skip = true
		return o, nil
	}
	timer := c16Render(c.Sets)
	max := int64(c.MaxMin) * c16Min
	o.Desc = fmt.Sprintf("timer=%q last=%s now=%s max=%v", timer, c16Fmt(c.Last, c.ZoneOff), c16Fmt(c.Now, c.ZoneOff), time.Duration(max))

	// classes by content
	strict := c.Last <= c.Now
	var numbered, midnight, split, spread, weekdays bool
	for _, set := range c.Sets {
		if len(set.Clocks) == 0 {
			strict = false
		}
		if len(set.Weeks) > 0 {
			weekdays = true
		}
		for _, ws := range set.Weeks {
			if c16Numbered(ws) {
				numbered = true
			}
			if ws.Span && ws.Start.Pos != 0 && ws.End.Pos != 0 {
				o.Skip = true // not in the documented grammar; only the grammar engine uses these
				return o, nil
			}
			if ws.Span && ws.Start == ws.End {
				o.Skip = true
				return o, nil
			}
		}
		for _, cs := range set.Clocks {
			if c16CrossesMidnight(cs) {
				midnight = true
			}
			if cs.Split >= 2 {
				split = true
			}
			if cs.Spread {
				spread = true
			}
			if !c16EvenSplit(cs) || (cs.Split >= 2 && cs.Start.H == 24) {
				strict = false
			}
		}
	}
	add := func(cond bool, l string) {
		if cond {
			o.Labels = append(o.Labels, l)
		}
	}
	add(numbered, "numbered")
	add(midnight, "midnight")
	add(split, "split")
	add(spread, "spread")
	add(weekdays, "weekdays")
	add(len(c.Sets) > 1, "multi-set")
	add(!strict, "weak-oracle")
	add(c.Last > c.Now, "last-in-future")

	sched, err := ParseSchedule(timer)
	if err != nil {
		return o, verifkit.Violatef("timer %q built from the documented grammar is rejected: %v", timer, err)
	}
	if want := c16ExpectSchedule(c.Sets); !c16SchedEqual(sched, want) {
		return o, verifkit.Violatef("timer %q parsed as %s, grammar says %s", timer, c16SchedString(sched), c16SchedString(want))
	}

	loc := time.FixedZone("", c.ZoneOff)
	last, now := time.Unix(0, c.Last).In(loc), time.Unix(0, c.Now).In(loc)
	saved := timeNow
	timeNow = func() time.Time { return now }
	defer func() { timeNow = saved }()

	var ex, exWrapped c16Expect
	if strict {
		ex = c16Model(c.Sets, c.ZoneOff, c.Last, c.Now, max, c16Strict)
		add(ex.Fallback, "fallback")
		add(ex.Immediate, "immediate")
		add(ex.Fallback && ex.Immediate, "limit-overdue")
		add(ex.Fallback && !ex.Immediate, "limit-wait")
		add(!ex.Fallback && ex.Immediate, "window-now")
		add(!ex.Fallback && !ex.Immediate, "window-wait")
		add(!ex.Fallback && len(ex.Chosen) > 1, "tie")
		if !ex.Fallback {
			add(ex.Chosen[0].CrossMonth, "month-cross")
		}
		o.NonTrivial = numbered || midnight || split || ex.Fallback
	} else {
		o.NonTrivial = numbered || midnight || split
	}
	f1 := c16MidnightSplitUnderWeekdays(c.Sets)
	if f1 && strict {
		exWrapped = c16Model(c.Sets, c.ZoneOff, c.Last, c.Now, max, c16Wrapped)
	}

	for round := 0; round < 2; round++ { // twice: spread draws differ
		delay := int64(Next(sched, last, time.Duration(max)))
		if !strict {
			if msg := c16JudgeWeak(c.Sets, c.ZoneOff, c.Last, c.Now, max, delay, c16Loose); msg != "" {
				if c16MidnightSplitUnderWeekdays(c.Sets) && c16JudgeWeak(c.Sets, c.ZoneOff, c.Last, c.Now, max, delay, c16LooseWrapped) == "" {
					return o, verifkit.Knownf("F-C16-1", "Next(%q, last=%s, max=%v) at now=%s: %s (explained by \"/N\" sub-spans after midnight being placed on the morning of the same weekday instead of the following night)",
						timer, c16Fmt(c.Last, c.ZoneOff), time.Duration(max), c16Fmt(c.Now, c.ZoneOff), msg)
				}
				return o, verifkit.Violatef("Next(%q, last=%s, max=%v) at now=%s: %s", timer, c16Fmt(c.Last, c.ZoneOff), time.Duration(max), c16Fmt(c.Now, c.ZoneOff), msg)
			}
			continue
		}
		if msg := ex.judge(c.Now, delay); msg != "" {
			if f1 && exWrapped.judge(c.Now, delay) == "" {
				return o, verifkit.Knownf("F-C16-1", "Next(%q, last=%s, max=%v) at now=%s: %s (explained by \"/N\" sub-spans after midnight being placed on the morning of the same weekday instead of the following night)",
					timer, c16Fmt(c.Last, c.ZoneOff), time.Duration(max), c16Fmt(c.Now, c.ZoneOff), msg)
			}
			return o, verifkit.Violatef("Next(%q, last=%s, max=%v) at now=%s: %s", timer, c16Fmt(c.Last, c.ZoneOff), time.Duration(max), c16Fmt(c.Now, c.ZoneOff), msg)
		}
		if round == 0 && delay >= 0 {
			// Includes() of the resulting instant (only where unambiguous)
			if err := c16CheckIncludes(c, sched, timer, c.Now+delay, f1); err != nil {
				return o, err
			}
		}
	}
	if err := c16CheckIncludes(c, sched, timer, c.Probe, f1); err != nil {
		return o, err
	}
	return o, nil
}

func c16CheckIncludes(c c16NextCase, sched []*Schedule, timer string, at int64, f1 bool) error {
	mode := c16Strict
	for _, set := range c.Sets {
		for _, cs := range set.Clocks {
			if !c16EvenSplit(cs) || (cs.Split >= 2 && cs.Start.H == 24) {
				mode = c16Loose // only the must-not-include half is decidable
			}
		}
	}
	mustTrue, mustFalse := c16IncludesModel(c.Sets, c.ZoneOff, at, mode)
	if mode == c16Loose {
		mustTrue = false
	}
	got := Includes(sched, time.Unix(0, at).In(time.FixedZone("", c.ZoneOff)))
	if mustTrue && !got {
		return verifkit.Violatef("Includes(%q, %s) = false, but the instant is inside a window of its own day", timer, c16Fmt(at, c.ZoneOff))
	}
	if mustFalse && got {
		if f1 {
			wmode := c16Wrapped
			if mode == c16Loose {
				wmode = c16LooseWrapped
			}
			if wt, _ := c16IncludesModel(c.Sets, c.ZoneOff, at, wmode); wt {
				return verifkit.Knownf("F-C16-1", "Includes(%q, %s) = true, but the instant is in no window (explained by \"/N\" sub-spans after midnight being placed on the morning of the same weekday)", timer, c16Fmt(at, c.ZoneOff))
			}
		}
		return verifkit.Violatef("Includes(%q, %s) = true, but the instant is in no window of the timer", timer, c16Fmt(at, c.ZoneOff))
	}
	return nil
}

func TestVerifC16Next(t *testing.T) {
	verifkit.Check(t, verifkit.Spec[c16NextCase]{
		ID: "C16", Engine: "next",
		Gen: c16GenNextCase,
		Run: c16RunNext,
		Floors: map[string]float64{"numbered": 0.15, "midnight": 0.15, "split": 0.15, "fallback": 0.15,
			"spread": 0.10, "limit-wait": 0.05, "limit-overdue": 0.05, "window-now": 0.05, "window-wait": 0.15,
			"month-cross": 0.002, "multi-set": 0.10},
		NonTrivialFloor: 0.5,
	})
}

// ---- grammar engine -------------------------------------------------------------

type c16GramCase struct {
	Sets []c16Set
	Mut  int // 0: valid string; >0: member of the invalid family
	Idx  int
	Val  int
}

const c16NumMut = 16

// c16Mutate turns the fragments of a valid timer into a string that the
// documented grammar does not derive.  Returns the string and a name.
func c16Mutate(c c16GramCase) (string, string) {
	frags := c16Frags(c.Sets)
	type pos struct{ s, f int }
	var clocks, ranges, weeks []pos
	for si, set := range c.Sets {
		for wi := range set.Weeks {
			weeks = append(weeks, pos{si, wi})
		}
		for ci, cs := range set.Clocks {
			p := pos{si, len(set.Weeks) + ci}
			clocks = append(clocks, p)
			if cs.Range {
				ranges = append(ranges, p)
			}
		}
	}
	abs := func(x int) int {
		if x < 0 {
			return -x
		}
		return x
	}
	idx, val := abs(c.Idx), abs(c.Val)
	pick := func(ps []pos) pos { return ps[idx%len(ps)] }
	set := func(p pos, s string) { frags[p.s][p.f] = s }
	get := func(p pos) string { return frags[p.s][p.f] }
	day := c16DayNames[val%7]
	mut := c.Mut
	switch {
	case (mut == 1 || mut == 2 || mut == 3 || mut == 12 || mut == 9 || mut == 15) && len(clocks) == 0,
		(mut == 8 || mut == 10) && len(ranges) == 0,
		(mut == 4 || mut == 5 || mut == 6 || mut == 13) && len(weeks) == 0:
		mut = 7
	}
	switch mut {
	case 1:
		set(pick(clocks), fmt.Sprintf("%d:%02d", 25+val%75, val%60))
		return c16Join(frags), "hour>24"
	case 2:
		set(pick(clocks), fmt.Sprintf("10:00-24:%02d", 1+val%59))
		return c16Join(frags), "24:MM"
	case 3:
		set(pick(clocks), fmt.Sprintf("%02d:%02d", val%24, 60+val%40))
		return c16Join(frags), "minute>59"
	case 4:
		set(pick(weeks), []string{"xyz", "mo", "monday", "abc", "m0n", "su", "tues"}[val%7])
		return c16Join(frags), "bad-weekday"
	case 5:
		set(pick(weeks), day+[]string{"0", "6", "7", "8", "9", "10", "-1"}[val%7])
		return c16Join(frags), "bad-week-number"
	case 6:
		a := 2 + val%4 // 2..5
		b := 1 + (val/4)%(a-1)
		set(pick(weeks), fmt.Sprintf("%s%d-%s%d", day, a, c16DayNames[(val/16)%7], b))
		return c16Join(frags), "reversed-numbered-span"
	case 8:
		p := pick(ranges)
		cs := c.Sets[p.s].Clocks[p.f-len(c.Sets[p.s].Weeks)]
		cs.Split = 0
		set(p, cs.str()+"/0")
		return c16Join(frags), "count-0"
	case 9:
		p := pick(clocks)
		frags[p.s] = append(frags[p.s], day)
		return c16Join(frags), "weekday-after-time"
	case 10:
		p := pick(ranges)
		cs := c.Sets[p.s].Clocks[p.f-len(c.Sets[p.s].Weeks)]
		cs.Split = 0
		set(p, cs.str()+[]string{"/x", "/", "/2/3", "/-1", "/1.5", "/+2", "/ 2"}[val%7])
		return c16Join(frags), "bad-count"
	case 11:
		if len(weeks) > 0 && val%2 == 0 {
			set(pick(weeks), "mon-tue-wed")
		} else if len(clocks) > 0 {
			set(pick(clocks), "9:00-10:00-11:00")
		} else {
			set(pick(weeks), "mon--wed")
		}
		return c16Join(frags), "three-part-span"
	case 12:
		set(pick(clocks), []string{"9:5", "9:", ":30", "9", "09:000", "9.30", "009:00"}[val%7])
		// "9", "9.30" have no ':' and are read as weekday fragments: still invalid
		return c16Join(frags), "malformed-time"
	case 13:
		set(pick(weeks), []string{"mon~wed", "mon-wed/2", "mon1~", "mon/2", "-mon", "mon-"}[val%6])
		return c16Join(frags), "bad-weekday-span"
	case 14:
		return "", "empty"
	case 15:
		p := pick(clocks)
		set(p, " "+get(p))
		return c16Join(frags), "space"
	case 16:
		s := c16Join(frags)
		return s + ",,," + s, "triple-comma"
	default: // 7
		s := c16Join(frags)
		switch val % 3 {
		case 0:
			return "," + s, "leading-comma"
		case 1:
			return s + ",", "trailing-comma"
		}
		return s + ",,", "trailing-set-separator"
	}
}

// c16Normalise: String() prints a zero-length span as a single time.
func c16Normalise(in []*Schedule) []*Schedule {
	out := make([]*Schedule, len(in))
	for i, s := range in {
		n := &Schedule{WeekSpans: append([]WeekSpan(nil), s.WeekSpans...)}
		for _, cs := range s.ClockSpans {
			if cs.End == cs.Start {
				cs.Split, cs.Spread = 0, false
			}
			n.ClockSpans = append(n.ClockSpans, cs)
		}
		out[i] = n
	}
	return out
}

func c16RunGrammar(c c16GramCase) (verifkit.Outcome, error) {
	o := verifkit.Outcome{}
	if !c16WellFormed(c.Sets) || c.Mut < 0 || c.Mut > c16NumMut {
		o.Skip = true
		return o, nil
	}
	if c.Mut > 0 {
		s, name := c16Mutate(c)
		o.Desc = fmt.Sprintf("invalid(%s) %q", name, s)
		o.Labels = []string{"invalid", "invalid:" + name}
		o.NonTrivial = true
		sched, err := ParseSchedule(s)
		if err == nil {
			return o, verifkit.Violatef("invalid timer %q (%s) is accepted as %s", s, name, c16SchedString(sched))
		}
		return o, nil
	}
	s := c16Render(c.Sets)
	o.Desc = fmt.Sprintf("valid %q", s)
	o.Labels = []string{"valid"}
	documented := true
	for _, set := range c.Sets {
		for _, ws := range set.Weeks {
			if ws.Span && ws.Start.Pos != 0 && ws.End.Pos != 0 {
				documented = false
				if ws.End.Pos < ws.Start.Pos {
					o.Skip = true // that is the invalid family's business
					return o, nil
				}
			}
			if c16Numbered(ws) {
				o.NonTrivial = true
			}
		}
		for _, cs := range set.Clocks {
			if cs.Range {
				o.NonTrivial = true
			}
			if cs.Range && cs.Start == cs.End && (cs.Spread || cs.Split > 0) {
				o.Labels = append(o.Labels, "zero-length-decorated")
			}
		}
	}
	if !documented {
		o.Labels = append(o.Labels, "deprecated-span")
	}
	p1, err := ParseSchedule(s)
	if err != nil {
		return o, verifkit.Violatef("timer %q built from the documented grammar is rejected: %v", s, err)
	}
	if documented {
		if want := c16ExpectSchedule(c.Sets); !c16SchedEqual(p1, want) {
			return o, verifkit.Violatef("timer %q parsed as %s, grammar says %s", s, c16SchedString(p1), c16SchedString(want))
		}
	}
	parts := make([]string, len(p1))
	for i := range p1 {
		parts[i] = p1[i].String()
	}
	s2 := ""
	for i, p := range parts {
		if i > 0 {
			s2 += ",,"
		}
		s2 += p
	}
	p2, err := ParseSchedule(s2)
	if err != nil {
		return o, verifkit.Violatef("timer %q formats as %q which is rejected: %v", s, s2, err)
	}
	if !c16SchedEqual(c16Normalise(p1), c16Normalise(p2)) || !reflect.DeepEqual(c16Normalise(p1), c16Normalise(p2)) {
		return o, verifkit.Violatef("timer %q formats as %q which parses differently: %s vs %s", s, s2, c16SchedString(p1), c16SchedString(p2))
	}
	return o, nil
}

func TestVerifC16Grammar(t *testing.T) {
	verifkit.Check(t, verifkit.Spec[c16GramCase]{
		ID: "C16", Engine: "grammar",
		Gen: func(t *rapid.T) c16GramCase {
			c := c16GramCase{Sets: c16GenSets(t, true, true)}
			if rapid.IntRange(0, 9).Draw(t, "invalid") < 4 {
				c.Mut = rapid.IntRange(1, c16NumMut).Draw(t, "mut")
				c.Idx = rapid.IntRange(0, 11).Draw(t, "idx")
				c.Val = rapid.IntRange(0, 9999).Draw(t, "val")
			}
			return c
		},
		Run:             c16RunGrammar,
		Floors:          map[string]float64{"valid": 0.3, "invalid": 0.2, "deprecated-span": 0.02},
		NonTrivialFloor: 0.5,
	})
}

// ---- calendar engine -------------------------------------------------------------

type c16CalCase struct {
	Span    c16WeekSpan
	Day     int64 // days since 1970-01-01
	TodSec  int
	ZoneOff int
}

func c16CalCheck(c c16CalCase) string {
	ws, err := parseWeekSpan(c.Span.str())
	if err != nil {
		return fmt.Sprintf("week span %q rejected: %v", c.Span.str(), err)
	}
	loc := time.FixedZone("", c.ZoneOff)
	y, m, d := c16Civil(c.Day)
	at := time.Date(y, time.Month(m), d, c.TodSec/3600, c.TodSec/60%60, c.TodSec%60, 0, loc)
	want, _ := c16SpanCovers(c.Span, c.Day)
	if got := ws.Match(at); got != want {
		return fmt.Sprintf("WeekSpan(%q).Match(%s) = %v, calendar says %v", c.Span.str(), at.Format("Mon 2006-01-02T15:04:05Z07:00"), got, want)
	}
	return ""
}

// c16DocumentedSpans: every wdayset of the documented grammar.
func c16DocumentedSpans() []c16WeekSpan {
	var out []c16WeekSpan
	for a := 0; a < 7; a++ {
		out = append(out, c16WeekSpan{Start: c16Week{a, 0}})
		for p := 1; p <= 5; p++ {
			out = append(out, c16WeekSpan{Start: c16Week{a, p}})
		}
		for b := 0; b < 7; b++ {
			if a != b {
				out = append(out, c16WeekSpan{Start: c16Week{a, 0}, End: c16Week{b, 0}, Span: true})
			}
			for p := 1; p <= 5; p++ {
				out = append(out, c16WeekSpan{Start: c16Week{a, p}, End: c16Week{b, 0}, Span: true})
				out = append(out, c16WeekSpan{Start: c16Week{a, 0}, End: c16Week{b, p}, Span: true})
			}
		}
	}
	return out
}

// c16ModelSelfTest checks the model on the worked examples of the doc
// comments; returns a description of the first disagreement.
func c16ModelSelfTest() string {
	span := func(s string) c16WeekSpan {
		parse := func(x string) c16Week {
			w := c16Week{}
			for i, n := range c16DayNames {
				if x[:3] == n {
					w.Day = i
				}
			}
			if len(x) == 4 {
				w.Pos = int(x[3] - '0')
			}
			return w
		}
		for i := 0; i < len(s); i++ {
			if s[i] == '-' {
				return c16WeekSpan{Start: parse(s[:i]), End: parse(s[i+1:]), Span: true}
			}
		}
		return c16WeekSpan{Start: parse(s)}
	}
	days := func(ranges ...[2]int64) map[int64]bool {
		m := map[int64]bool{}
		for _, r := range ranges {
			for d := r[0]; d <= r[1]; d++ {
				m[d] = true
			}
		}
		return m
	}
	jul := func(d int) int64 { return c16DayIdx(2018, 7, d) }
	aug := func(d int) int64 { return c16DayIdx(2018, 8, d) }
	r := func(a, b int64) [2]int64 { return [2]int64{a, b} }
	// schedule.go, comment in WeekSpan.Match (calendar July/August 2018), the
	// July ranges follow by the same rule from the printed calendar
	for _, ex := range []struct {
		span string
		want map[int64]bool
	}{
		{"mon1-fri", days(r(jul(2), jul(6)), r(aug(6), aug(10)))},
		{"mon-fri2", days(r(jul(9), jul(13)), r(aug(6), aug(10)))},
		{"fri1-mon", days(r(jul(6), jul(9)), r(aug(3), aug(6)))},
		{"mon-fri1", days(r(jul(2), jul(6)), r(jul(30), aug(3)))},
		{"fri4-thu", days(r(jul(27), aug(2)), r(aug(24), aug(30)))},
		// doc comment of ParseSchedule / WeekSpan
		{"mon1-wed", days(r(jul(2), jul(4)), r(aug(6), aug(8)))},
		{"mon-wed1", days(r(jul(2), jul(4)), r(jul(30), aug(1)))},
		{"mon1", days(r(jul(2), jul(2)), r(aug(6), aug(6)))},
		{"mon1-mon", days(r(jul(2), jul(9)), r(aug(6), aug(13)))},
		{"fri-mon", days(r(jul(1), jul(2)), r(jul(6), jul(9)), r(jul(13), jul(16)), r(jul(20), jul(23)), r(jul(27), jul(30)),
			r(aug(3), aug(6)), r(aug(10), aug(13)), r(aug(17), aug(20)), r(aug(24), aug(27)), r(aug(31), aug(31)))},
		// Week doc: 5 means last occurrence (which might be the fourth or the fifth)
		{"tue5", days(r(jul(31), jul(31)), r(aug(28), aug(28)))},
		{"sat5", days(r(jul(28), jul(28)), r(aug(25), aug(25)))},
	} {
		ws := span(ex.span)
		for d := jul(1); d <= aug(31); d++ {
			if got, _ := c16SpanCovers(ws, d); got != ex.want[d] {
				y, m, dd := c16Civil(d)
				return fmt.Sprintf("model: span %q day %04d-%02d-%02d: model says %v, doc comment says %v", ex.span, y, m, dd, got, ex.want[d])
			}
		}
	}
	if c16Wday(jul(1)) != 0 || c16Wday(aug(1)) != 3 {
		return "model: weekday of 2018-07-01 / 2018-08-01"
	}
	// ParseSchedule examples, week Sun 2018-08-05 .. Sat 2018-08-11, UTC
	at := func(d, h, m int) int64 { return c16DayStart(aug(d), 0) + int64(h*60+m)*c16Min }
	for _, ex := range []struct {
		sets []c16Set
		want [][2]int64
	}{
		{ // mon,10:00,,fri,15:00 (Monday at 10:00, Friday at 15:00)
			[]c16Set{{Weeks: []c16WeekSpan{span("mon")}, Clocks: []c16ClockSpan{{Start: c16Clock{10, 0}}}},
				{Weeks: []c16WeekSpan{span("fri")}, Clocks: []c16ClockSpan{{Start: c16Clock{15, 0}}}}},
			[][2]int64{{at(6, 10, 0), at(6, 10, 0)}, {at(10, 15, 0), at(10, 15, 0)}},
		},
		{ // mon,fri,10:00,15:00 (Monday at 10:00 and 15:00, Friday at 10:00 and 15:00)
			[]c16Set{{Weeks: []c16WeekSpan{span("mon"), span("fri")}, Clocks: []c16ClockSpan{{Start: c16Clock{10, 0}}, {Start: c16Clock{15, 0}}}}},
			[][2]int64{{at(6, 10, 0), at(6, 10, 0)}, {at(6, 15, 0), at(6, 15, 0)}, {at(10, 10, 0), at(10, 10, 0)}, {at(10, 15, 0), at(10, 15, 0)}},
		},
		{ // mon-wed,fri,9:00-11:00/2 (Monday to Wednesday and on Friday, twice between 9:00 and 11:00)
			[]c16Set{{Weeks: []c16WeekSpan{span("mon-wed"), span("fri")}, Clocks: []c16ClockSpan{{Start: c16Clock{9, 0}, End: c16Clock{11, 0}, Range: true, Split: 2}}}},
			[][2]int64{{at(6, 9, 0), at(6, 10, 0)}, {at(6, 10, 0), at(6, 11, 0)}, {at(7, 9, 0), at(7, 10, 0)}, {at(7, 10, 0), at(7, 11, 0)},
				{at(8, 9, 0), at(8, 10, 0)}, {at(8, 10, 0), at(8, 11, 0)}, {at(10, 9, 0), at(10, 10, 0)}, {at(10, 10, 0), at(10, 11, 0)}},
		},
		{ // mon,9:00~11:00,,wed,22:00~23:00
			[]c16Set{{Weeks: []c16WeekSpan{span("mon")}, Clocks: []c16ClockSpan{{Start: c16Clock{9, 0}, End: c16Clock{11, 0}, Range: true, Spread: true}}},
				{Weeks: []c16WeekSpan{span("wed")}, Clocks: []c16ClockSpan{{Start: c16Clock{22, 0}, End: c16Clock{23, 0}, Range: true, Spread: true}}}},
			[][2]int64{{at(6, 9, 0), at(6, 11, 0)}, {at(8, 22, 0), at(8, 23, 0)}},
		},
		{ // ClockSpan doc: 23:00-1:00 represents a span from 11pm to 1am
			[]c16Set{{Weeks: []c16WeekSpan{span("sat")}, Clocks: []c16ClockSpan{{Start: c16Clock{23, 0}, End: c16Clock{1, 0}, Range: true}}}},
			[][2]int64{{at(11, 23, 0), at(12, 1, 0)}},
		},
	} {
		var got [][2]int64
		for _, w := range c16Windows(ex.sets, 0, aug(5), aug(11), c16Strict) {
			got = append(got, [2]int64{w.S, w.E})
		}
		sort.Slice(got, func(i, j int) bool { return got[i][0] < got[j][0] || (got[i][0] == got[j][0] && got[i][1] < got[j][1]) })
		if !reflect.DeepEqual(got, ex.want) {
			return fmt.Sprintf("model: windows of %q in week of 2018-08-05: %v, documentation says %v", c16Render(ex.sets), got, ex.want)
		}
	}
	// TestScheduleNext style expectations that follow from the doc comments:
	// "mon,10:00,,fri,15:00", last Sun 2017-02-05 22:00, now Mon 09:00 -> 1h
	feb := func(d, h, m int) int64 { return c16DayStart(c16DayIdx(2017, 2, d), 0) + int64(h*60+m)*c16Min }
	sets := []c16Set{{Weeks: []c16WeekSpan{span("mon")}, Clocks: []c16ClockSpan{{Start: c16Clock{10, 0}}}},
		{Weeks: []c16WeekSpan{span("fri")}, Clocks: []c16ClockSpan{{Start: c16Clock{15, 0}}}}}
	ex := c16Model(sets, 0, feb(5, 22, 0), feb(6, 9, 0), 14*c16DayNs, c16Strict)
	if ex.Fallback || ex.Immediate || ex.At != feb(6, 10, 0) {
		return fmt.Sprintf("model: mon,10:00,,fri,15:00 example: %+v", ex)
	}
	ex = c16Model(sets, 0, feb(5, 22, 0), feb(5, 23, 0), 2*int64(time.Hour), c16Strict)
	if !ex.Fallback || ex.Immediate || ex.judge(feb(5, 23, 0), int64(time.Hour)) != "" {
		return fmt.Sprintf("model: fallback example: %+v", ex)
	}
	return ""
}

func TestVerifC16Calendar(t *testing.T) {
	e := verifkit.NewEnum(t, "C16", "calendar")
	defer e.Done()
	if msg := c16ModelSelfTest(); msg != "" {
		t.Fatalf("HARNESS: reference model fails its own documentation examples: %s", msg)
	}
	if raw, ok := e.Replaying(); ok {
		var c c16CalCase
		if err := json.Unmarshal(raw, &c); err != nil || c.Span.Start.Day < 0 || c.Span.Start.Day > 6 || c.Span.End.Day < 0 || c.Span.End.Day > 6 ||
			c.Span.Start.Pos < 0 || c.Span.Start.Pos > 5 || c.Span.End.Pos < 0 || c.Span.End.Pos > 5 || c.TodSec < 0 || c.TodSec > 86399 {
			t.Fatalf("HARNESS: bad replay case")
		}
		if msg := c16CalCheck(c); msg != "" {
			e.Fail(c, "%s", msg)
		}
		return
	}
	shard, shards := verifkit.EnvInt("VERIF_SHARD", 0), verifkit.EnvInt("VERIF_SHARDS", 1)
	y0, y1 := 2017, 2020
	if verifkit.Thorough() {
		y0, y1 = 2000, 2027 // a full 28 year cycle of (leap year, weekday) combinations
	}
	d0, d1 := c16DayIdx(y0, 1, 1), c16DayIdx(y1, 12, 31)
	spans := c16DocumentedSpans()
	tods := []int{0, 86399, 43200}
	zones := []int{0, 19800, -12 * 3600}
	var n, nt int64
	for si, sp := range spans {
		if si%shards != shard {
			continue
		}
		for d := d0; d <= d1; d++ {
			k := int(d+int64(si)) % 3
			c := c16CalCase{Span: sp, Day: d, TodSec: tods[k], ZoneOff: zones[(k+si)%3]}
			n++
			if c16Numbered(sp) {
				nt++
			}
			if msg := c16CalCheck(c); msg != "" {
				e.Fail(c, "%s", msg)
			}
		}
	}
	e.Bulk(n, nt, "span-day")
	e.Sample(fmt.Sprintf("WeekSpan.Match vs calendar model: %d documented week spans (shard %d/%d) x every day %d-01-01..%d-12-31, e.g. %q on day %d", len(spans), shard, shards, y0, y1, spans[len(spans)/2].str(), d0+100))
	e.Exhaustive(true)
	e.Extra("years", fmt.Sprintf("%d-%d", y0, y1))
	e.Extra("week_spans", len(spans))
}
