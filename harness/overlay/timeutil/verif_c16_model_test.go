package timeutil

// C16 — reference model of refresh.timer windows (shared by the C16 engines).
//
// Everything in this file is written from the documentation only:
//   * the grammar in the doc comment of ParseSchedule,
//   * the calendar examples in the doc comment inside WeekSpan.Match
//     (July/August 2018), the doc comments of Week, WeekSpan, ClockSpan,
//     ClockSpan.Window ("start date same as t ... end time possibly crossing
//     into the next day"), ClockSpan.ClockSpans ("splitting the time between
//     ts.Start and ts.End into ts.Split equal spans"),
//   * the doc comments of Schedule.Next / Next / Schedule.Includes.
// A timer is kept as *structure* (c16Set); the string handed to snapd is
// rendered from the structure, and the model never looks at what snapd parsed.
// The calendar part works on day numbers (days since 1970-01-01) with modular
// arithmetic instead of stepping through days like schedule.go does.

import (
	"fmt"
	"strconv"
	"strings"
	"time"
)

// ---- case data (JSON round-trippable) ------------------------------------------

type c16Week struct {
	Day int // 0=sun … 6=sat
	Pos int // 0 = every week, 1..4 = nth in month, 5 = last in month
}

type c16WeekSpan struct {
	Start c16Week
	End   c16Week
	Span  bool // rendered "start-end"; false: only Start is rendered/used
}

type c16Clock struct{ H, M int }

type c16ClockSpan struct {
	Start  c16Clock
	End    c16Clock
	Range  bool // rendered "start-end" / "start~end"; false: single time
	Spread bool // "~" (only with Range)
	Split  int  // "/N" (only with Range); 0 = absent
	Short  bool // hours rendered without leading zero ("9:00")
}

type c16Set struct {
	Weeks  []c16WeekSpan
	Clocks []c16ClockSpan
}

var c16DayNames = []string{"sun", "mon", "tue", "wed", "thu", "fri", "sat"}

func (w c16Week) str() string {
	s := c16DayNames[((w.Day%7)+7)%7]
	if w.Pos != 0 {
		s += strconv.Itoa(w.Pos)
	}
	return s
}

func (ws c16WeekSpan) str() string {
	if ws.Span {
		return ws.Start.str() + "-" + ws.End.str()
	}
	return ws.Start.str()
}

func (c c16Clock) str(short bool) string {
	if short {
		return fmt.Sprintf("%d:%02d", c.H, c.M)
	}
	return fmt.Sprintf("%02d:%02d", c.H, c.M)
}

func (cs c16ClockSpan) str() string {
	s := cs.Start.str(cs.Short)
	if cs.Range {
		sep := "-"
		if cs.Spread {
			sep = "~"
		}
		s += sep + cs.End.str(cs.Short)
		if cs.Split > 0 {
			s += "/" + strconv.Itoa(cs.Split)
		}
	}
	return s
}

// c16Frags renders every event set into its comma separated fragments.
func c16Frags(sets []c16Set) [][]string {
	out := make([][]string, len(sets))
	for i, set := range sets {
		for _, w := range set.Weeks {
			out[i] = append(out[i], w.str())
		}
		for _, c := range set.Clocks {
			out[i] = append(out[i], c.str())
		}
	}
	return out
}

func c16Join(frags [][]string) string {
	parts := make([]string, len(frags))
	for i, f := range frags {
		parts[i] = strings.Join(f, ",")
	}
	return strings.Join(parts, ",,")
}

func c16Render(sets []c16Set) string { return c16Join(c16Frags(sets)) }

// c16WellFormed guards replayed / shrunk cases.
func c16WellFormed(sets []c16Set) bool {
	if len(sets) == 0 {
		return false
	}
	okW := func(w c16Week) bool { return w.Day >= 0 && w.Day <= 6 && w.Pos >= 0 && w.Pos <= 5 }
	okC := func(c c16Clock) bool {
		return (c.H >= 0 && c.H <= 23 && c.M >= 0 && c.M <= 59) || (c.H == 24 && c.M == 0)
	}
	for _, s := range sets {
		if len(s.Weeks)+len(s.Clocks) == 0 {
			return false
		}
		for _, w := range s.Weeks {
			if !okW(w.Start) || (w.Span && !okW(w.End)) {
				return false
			}
		}
		for _, c := range s.Clocks {
			if !okC(c.Start) || (c.Range && !okC(c.End)) || c.Split < 0 || c.Split > 100000 {
				return false
			}
			if !c.Range && (c.Spread || c.Split != 0) {
				return false
			}
		}
	}
	return true
}

// ---- calendar -----------------------------------------------------------------

const (
	c16Min   = int64(time.Minute)
	c16DayNs = 24 * int64(time.Hour)
)

func c16DayIdx(y int, m int, d int) int64 {
	return time.Date(y, time.Month(m), d, 0, 0, 0, 0, time.UTC).Unix() / 86400
}

func c16Civil(idx int64) (y, m, d int) {
	yy, mm, dd := time.Unix(idx*86400, 0).UTC().Date()
	return yy, int(mm), dd
}

func c16Wday(idx int64) int { return int(((idx+4)%7 + 7) % 7) } // 1970-01-01 was a Thursday

func c16FloorDiv(a, b int64) int64 {
	q := a / b
	if a%b != 0 && (a < 0) != (b < 0) {
		q--
	}
	return q
}

// c16DayOf: local calendar day of an instant (unix ns) in a fixed-offset zone.
func c16DayOf(ns int64, zoneOff int) int64 {
	return c16FloorDiv(ns+int64(zoneOff)*int64(time.Second), c16DayNs)
}

// c16DayStart: instant (unix ns) of local midnight starting day idx.
func c16DayStart(idx int64, zoneOff int) int64 {
	return idx*c16DayNs - int64(zoneOff)*int64(time.Second)
}

// c16Anchor: day number of the pos-th (5 = last) weekday wd in month m (any
// integer, normalised) of year y.
func c16Anchor(y, m, wd, pos int) int64 {
	first := c16DayIdx(y, m, 1)
	if pos == 5 {
		last := c16DayIdx(y, m+1, 1) - 1
		return last - int64((c16Wday(last)-wd+7)%7)
	}
	return first + int64((wd-c16Wday(first)+7)%7) + int64(7*(pos-1))
}

// c16SpanRange returns the day ranges [lo,hi] of a numbered span anchored in the
// months around day d.
func c16SpanRanges(ws c16WeekSpan, d int64) [][2]int64 {
	s, e := ws.Start, ws.End
	if !ws.Span {
		e = s
	}
	y, m, _ := c16Civil(d)
	var out [][2]int64
	for dm := -1; dm <= 1; dm++ {
		switch {
		case !ws.Span || s == e:
			// "mon1": that single day
			a := c16Anchor(y, m+dm, s.Day, s.Pos)
			out = append(out, [2]int64{a, a})
		case s.Pos != 0:
			// "mon1-fri": from the numbered start forward to the following end
			// weekday ("mon1-mon": to the following Monday)
			length := (e.Day - s.Day + 7) % 7
			if length == 0 {
				length = 7
			}
			a := c16Anchor(y, m+dm, s.Day, s.Pos)
			out = append(out, [2]int64{a, a + int64(length)})
		default:
			// "mon-fri1": from the numbered end backward to the prior start weekday
			length := (e.Day - s.Day + 7) % 7
			if length == 0 {
				length = 7
			}
			a := c16Anchor(y, m+dm, e.Day, e.Pos)
			out = append(out, [2]int64{a - int64(length), a})
		}
	}
	return out
}

func c16Numbered(ws c16WeekSpan) bool {
	return ws.Start.Pos != 0 || (ws.Span && ws.End.Pos != 0)
}

// c16SpanCovers: does the week span select calendar day d; crossMonth tells
// whether the selecting range spans a month boundary.
func c16SpanCovers(ws c16WeekSpan, d int64) (covered, crossMonth bool) {
	if !c16Numbered(ws) {
		s, e := ws.Start.Day, ws.End.Day
		if !ws.Span {
			e = s
		}
		return (c16Wday(d)-s+7)%7 <= (e-s+7)%7, false
	}
	for _, r := range c16SpanRanges(ws, d) {
		if r[0] <= d && d <= r[1] {
			_, m0, _ := c16Civil(r[0])
			_, m1, _ := c16Civil(r[1])
			return true, m0 != m1
		}
	}
	return false, false
}

func c16DayEligible(set c16Set, d int64) (eligible, crossMonth bool) {
	if len(set.Weeks) == 0 {
		return true, false
	}
	for _, ws := range set.Weeks {
		if ok, cm := c16SpanCovers(ws, d); ok {
			return true, cm
		}
	}
	return false, false
}

// ---- windows ------------------------------------------------------------------

type c16Win struct {
	S, E       int64 // unix ns, closed interval
	Spread     bool
	Anchor     int64 // calendar day the window belongs to
	CrossMonth bool
	Set, Clock int
}

func (w c16Win) has(t int64) bool { return w.S <= t && t <= w.E }

func (w c16Win) String() string {
	f := func(ns int64) string { return time.Unix(0, ns).UTC().Format("2006-01-02T15:04:05.999999999Z") }
	sp := "-"
	if w.Spread {
		sp = "~"
	}
	return fmt.Sprintf("[%s %s %s]", f(w.S), sp, f(w.E))
}

func (c c16Clock) minutes() int { return c.H*60 + c.M }

// c16SpanMinutes: start and end of a clock span in minutes from the midnight
// starting the anchor day; end > 1440 means the window runs into the next day.
func c16SpanMinutes(cs c16ClockSpan) (s, e int) {
	s = cs.Start.minutes()
	if !cs.Range {
		return s, s
	}
	e = cs.End.minutes()
	if e < s {
		e += 1440 // "23:00-1:00 represents a span from 11pm to 1am"
	}
	return s, e
}

func c16CrossesMidnight(cs c16ClockSpan) bool {
	s, e := c16SpanMinutes(cs)
	return e > 1440 && s < 1440
}

// c16EvenSplit: the documented "/N" (N equal spans) is exact at the schedule's
// minute granularity.
func c16EvenSplit(cs c16ClockSpan) bool {
	s, e := c16SpanMinutes(cs)
	return cs.Split <= 1 || e == s || (e-s)%cs.Split == 0
}

const (
	c16Strict       = iota // documented semantics, exact
	c16Loose               // upper envelope: unsplit spans, whole eligible day for sets without times
	c16Wrapped             // F-C16-1 classification only: sub-spans after midnight put on the anchor day's morning
	c16LooseWrapped        // F-C16-1 classification only: c16Loose plus the anchor day's morning for split spans over midnight
)

// c16Windows lists the windows of all sets anchored on days dLo..dHi.
func c16Windows(sets []c16Set, zoneOff int, dLo, dHi int64, mode int) []c16Win {
	var out []c16Win
	for d := dLo; d <= dHi; d++ {
		base := c16DayStart(d, zoneOff)
		for si, set := range sets {
			ok, cm := c16DayEligible(set, d)
			if !ok {
				continue
			}
			add := func(ci, s, e int, spread bool) {
				out = append(out, c16Win{S: base + int64(s)*c16Min, E: base + int64(e)*c16Min, Spread: spread, Anchor: d, CrossMonth: cm, Set: si, Clock: ci})
			}
			if len(set.Clocks) == 0 {
				if mode == c16Loose || mode == c16LooseWrapped {
					add(-1, 0, 1440, true)
				} else {
					add(-1, 0, 0, false)
				}
				continue
			}
			for ci, cs := range set.Clocks {
				s, e := c16SpanMinutes(cs)
				if mode == c16Loose || mode == c16LooseWrapped {
					add(ci, s, e, true)
					if mode == c16LooseWrapped && cs.Split >= 2 && c16CrossesMidnight(cs) {
						add(ci, 0, e-1440, true)
					}
					continue
				}
				n := cs.Split
				if n <= 1 || e == s {
					add(ci, s, e, cs.Spread)
					continue
				}
				step := (e - s) / n
				for i := 0; i < n; i++ {
					ws, we := s+i*step, s+(i+1)*step
					if mode == c16Wrapped {
						ws = ws % 1440
						we = (ws + step) % 1440
						if we < ws {
							we += 1440
						}
					}
					add(ci, ws, we, cs.Spread)
				}
			}
		}
	}
	return out
}

// c16Expect is what the documentation lets timeutil.Next return.
type c16Expect struct {
	Fallback  bool     // the postponement limit comes first
	Immediate bool     // delay must be 0
	Limit     int64    // last+max
	At        int64    // earliest qualifying window start (when !Fallback)
	Chosen    []c16Win // qualifying windows starting at At (ties)
	TieLimit  []c16Win // qualifying windows starting exactly at the limit
}

// c16Model computes the expectation for (sets, last, now, max): among the
// windows that have not ended before now and do not contain last, the earliest
// one, unless it starts at/after last+max.
func c16Model(sets []c16Set, zoneOff int, last, now, max int64, mode int) c16Expect {
	limit := last + max
	ex := c16Expect{Limit: limit}
	// a window that ends at/after now and is at most 24h long (plus up to 24h
	// offset of its start from the anchor midnight) is anchored no earlier than
	// two days before now's day; one starting before the limit is anchored no
	// later than the limit's day.
	dLo, dHi := c16DayOf(now, zoneOff)-2, c16DayOf(limit, zoneOff)
	found := false
	for _, w := range c16Windows(sets, zoneOff, dLo, dHi, mode) {
		if w.E < now || w.has(last) {
			continue
		}
		if w.S == limit {
			ex.TieLimit = append(ex.TieLimit, w)
		}
		if w.S >= limit {
			continue
		}
		if !found || w.S < ex.At {
			found, ex.At, ex.Chosen = true, w.S, []c16Win{w}
		} else if w.S == ex.At {
			ex.Chosen = append(ex.Chosen, w)
		}
	}
	if !found {
		ex.Fallback = true
		ex.Immediate = limit < now
		return ex
	}
	ex.Immediate = ex.At < now
	return ex
}

// c16Judge compares an observed delay with the expectation; "" = acceptable.
func (ex c16Expect) judge(now, delay int64) string {
	if delay < 0 {
		return fmt.Sprintf("negative delay %v", time.Duration(delay))
	}
	x := now + delay
	if ex.Immediate {
		if delay != 0 {
			if ex.Fallback {
				return fmt.Sprintf("postponement limit already passed, want delay 0, got %v", time.Duration(delay))
			}
			return fmt.Sprintf("now is inside the earliest open window %v, want delay 0, got %v", ex.Chosen[0], time.Duration(delay))
		}
		return ""
	}
	if ex.Fallback {
		if x == ex.Limit {
			return ""
		}
		for _, w := range ex.TieLimit { // a window starting exactly at the limit may be used as well
			if w.Spread && w.has(x) {
				return ""
			}
		}
		return fmt.Sprintf("no window opens before the postponement limit: want now+delay = last+max (delay %v), got delay %v", time.Duration(ex.Limit-now), time.Duration(delay))
	}
	for _, w := range ex.Chosen {
		if (!w.Spread && x == w.S) || (w.Spread && w.has(x)) {
			return ""
		}
	}
	return fmt.Sprintf("earliest open window is %v (delay %v), got delay %v", ex.Chosen[0], time.Duration(ex.At-now), time.Duration(delay))
}

// c16JudgeWeak: what must hold even where the documentation leaves the exact
// windows open (uneven "/N", weekday-only sets, last in the future).
func c16JudgeWeak(sets []c16Set, zoneOff int, last, now, max, delay int64, mode int) string {
	if delay < 0 {
		return fmt.Sprintf("negative delay %v", time.Duration(delay))
	}
	limit, x := last+max, now+delay
	d := c16DayOf(x, zoneOff)
	wins := c16Windows(sets, zoneOff, d-2, d, mode)
	if delay == 0 {
		if limit <= now {
			return ""
		}
		for _, w := range wins {
			if w.has(now) {
				return ""
			}
		}
		return "delay 0 although now is in no window and the postponement limit is not reached"
	}
	if x == limit {
		return ""
	}
	for _, w := range wins {
		if w.has(x) && w.S <= limit {
			return ""
		}
	}
	return fmt.Sprintf("now+delay (delay %v) is neither last+max nor inside a window that starts before the limit", time.Duration(delay))
}

// c16IncludesModel: must the schedule include instant t / must it not.
func c16IncludesModel(sets []c16Set, zoneOff int, t int64, mode int) (mustTrue, mustFalse bool) {
	d := c16DayOf(t, zoneOff)
	ext := func(w c16Win) int64 { // "a schedule '10:00' in fact is: [10:00, 10:01)"
		if w.E == w.S {
			return w.S + c16Min
		}
		return w.E
	}
	for _, w := range c16Windows(sets, zoneOff, d, d, mode) {
		if w.S <= t && t < ext(w) {
			mustTrue = true
		}
	}
	mustFalse = true
	for _, w := range c16Windows(sets, zoneOff, d-1, d, c16Loose) {
		if w.S <= t && t <= ext(w) {
			mustFalse = false
		}
	}
	return mustTrue, mustFalse
}

// c16ExpectSchedule: what ParseSchedule has to produce for the structure.
func c16ExpectSchedule(sets []c16Set) []*Schedule {
	var out []*Schedule
	for _, set := range sets {
		s := &Schedule{}
		for _, w := range set.Weeks {
			st := Week{Weekday: time.Weekday(w.Start.Day), Pos: uint(w.Start.Pos)}
			en := st
			if w.Span {
				en = Week{Weekday: time.Weekday(w.End.Day), Pos: uint(w.End.Pos)}
			}
			s.WeekSpans = append(s.WeekSpans, WeekSpan{Start: st, End: en})
		}
		for _, c := range set.Clocks {
			st := Clock{Hour: c.Start.H, Minute: c.Start.M}
			en := st
			if c.Range {
				en = Clock{Hour: c.End.H, Minute: c.End.M}
			}
			s.ClockSpans = append(s.ClockSpans, ClockSpan{Start: st, End: en, Split: uint(c.Split), Spread: c.Spread})
		}
		out = append(out, s)
	}
	return out
}
