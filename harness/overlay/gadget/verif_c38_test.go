package gadget_test

// C38 — accepted gadget volumes lay out into disjoint, ordered structures with
// their content inside them.
//
// Unexported identifiers used: gadget.LayoutVolumePartially (export_test.go alias
// of layoutVolumePartially).  Everything else is the exported API real callers
// use: InfoFromGadgetYaml, Validate, ValidateContent, OnDiskStructsFromGadget,
// LayoutVolume.
//
// The case is data: a gadget.yaml document kept as a tree of strings (so that
// every spelling of a quantity — bytes, <n>M, <n>G — is part of the case) plus
// the list of files of the temporary gadget directory.  Run renders the
// document, writes the files (sparse), and drives the same sequence an image
// build uses.  Rejection at any stage carries no claim.  For every volume that
// is accepted and laid out the oracle (written from the property statement and
// the doc comments of LaidOutVolume / VolumeStructure / VolumeContent) demands:
//
//  S1 every yaml structure is laid out exactly once
//  S2 offsets and sizes are non negative as signed 64 bit values, start+size
//     does not wrap
//  S3 the list is in increasing offset order and start[i+1] >= start[i]+size[i]
//  S4 a structure with an explicit yaml offset sits at that offset; the laid
//     out size lies in [min-size, size] as declared
//  S5 the structure with role mbr starts at 0 and is at most 446 bytes
//  C1 every declared raw content of a structure without filesystem is laid out
//     (unless content is ignored by option)
//  C2 structStart <= contentStart and contentStart+contentSize <= structStart+structSize
//  C3 contents of one structure are pairwise disjoint
//  C4 the reserved content size is at least the size of the image file and equals
//     the declared size if there is one; content with an explicit offset sits at
//     structStart+offset
//  W1 offset-write relative to a named structure: the 4 byte pointer lies inside
//     that laid out structure; absolute: inside the laid out volume
//
// Quantities of the document are read by the harness's own parser (c38Parse),
// not by gadget/quantity.

import (
	"fmt"
	"math"
	"os"
	"path/filepath"
	"sort"
	"strconv"
	"strings"
	"testing"

	"github.com/snapcore/snapd/asserts"
	"github.com/snapcore/snapd/gadget"
	"github.com/snapcore/snapd/verifkit"
	"pgregory.net/rapid"
)

// ---- case ------------------------------------------------------------------

type c38Content struct {
	Image  string `json:",omitempty"`
	Offset string `json:",omitempty"`
	Size   string `json:",omitempty"`
	Source string `json:",omitempty"`
	Target string `json:",omitempty"`
}

type c38Struct struct {
	Name        string       `json:",omitempty"`
	Label       string       `json:",omitempty"`
	Offset      string       `json:",omitempty"` // "" = not in the document
	OffsetWrite string       `json:",omitempty"`
	MinSize     string       `json:",omitempty"`
	Size        string       `json:",omitempty"`
	Type        string       `json:",omitempty"`
	Role        string       `json:",omitempty"`
	ID          string       `json:",omitempty"`
	Filesystem  string       `json:",omitempty"`
	Content     []c38Content `json:",omitempty"`
}

type c38Vol struct {
	Name       string
	Schema     string   `json:",omitempty"`
	Bootloader string   `json:",omitempty"`
	ID         string   `json:",omitempty"`
	Partial    []string `json:",omitempty"`
	Structs    []c38Struct
}

type c38File struct {
	Name string
	Size int64
	Dir  bool `json:",omitempty"`
}

type c38Case struct {
	Model         int // 0 nil, 1 core without grade, 2 core with grade, 3 classic with grade, 4 classic without grade
	Vols          []c38Vol
	Files         []c38File
	IgnoreContent bool `json:",omitempty"`
	SkipResolve   bool `json:",omitempty"`
}

type c38Model struct {
	classic bool
	grade   asserts.ModelGrade
}

func (m *c38Model) Classic() bool             { return m.classic }
func (m *c38Model) Grade() asserts.ModelGrade { return m.grade }

func c38ModelOf(n int) gadget.Model {
	switch n {
	case 1:
		return &c38Model{false, asserts.ModelGradeUnset}
	case 2:
		return &c38Model{false, asserts.ModelDangerous}
	case 3:
		return &c38Model{true, asserts.ModelDangerous}
	case 4:
		return &c38Model{true, asserts.ModelGradeUnset}
	}
	return nil // a nil interface, not a typed nil
}

// ---- rendering ---------------------------------------------------------------

func c38Q(s string) string { return strconv.Quote(s) }

func c38Render(c c38Case) []byte {
	var b strings.Builder
	b.WriteString("volumes:\n")
	for _, v := range c.Vols {
		fmt.Fprintf(&b, "  %s:\n", c38Q(v.Name))
		if v.Schema != "" {
			fmt.Fprintf(&b, "    schema: %s\n", c38Q(v.Schema))
		}
		if v.Bootloader != "" {
			fmt.Fprintf(&b, "    bootloader: %s\n", c38Q(v.Bootloader))
		}
		if v.ID != "" {
			fmt.Fprintf(&b, "    id: %s\n", c38Q(v.ID))
		}
		if len(v.Partial) > 0 {
			fmt.Fprintf(&b, "    partial: [%s]\n", strings.Join(v.Partial, ", "))
		}
		b.WriteString("    structure:\n")
		for _, s := range v.Structs {
			first := true
			kv := func(k, val string, quote bool) {
				if val == "" {
					return
				}
				lead := "        "
				if first {
					lead = "      - "
					first = false
				}
				if quote {
					val = c38Q(val)
				}
				fmt.Fprintf(&b, "%s%s: %s\n", lead, k, val)
			}
			kv("name", s.Name, true)
			kv("filesystem-label", s.Label, true)
			kv("offset", s.Offset, false)
			kv("offset-write", s.OffsetWrite, true)
			kv("min-size", s.MinSize, false)
			kv("size", s.Size, false)
			kv("type", s.Type, true)
			kv("role", s.Role, true)
			kv("id", s.ID, true)
			kv("filesystem", s.Filesystem, true)
			if first {
				// a structure without any key
				b.WriteString("      - {}\n")
				continue
			}
			if len(s.Content) > 0 {
				b.WriteString("        content:\n")
				for _, ct := range s.Content {
					cfirst := true
					ckv := func(k, val string, quote bool) {
						if val == "" {
							return
						}
						lead := "            "
						if cfirst {
							lead = "          - "
							cfirst = false
						}
						if quote {
							val = c38Q(val)
						}
						fmt.Fprintf(&b, "%s%s: %s\n", lead, k, val)
					}
					ckv("image", ct.Image, true)
					ckv("source", ct.Source, true)
					ckv("target", ct.Target, true)
					ckv("offset", ct.Offset, false)
					ckv("size", ct.Size, false)
					if cfirst {
						b.WriteString("          - {}\n")
					}
				}
			}
		}
	}
	return []byte(b.String())
}

// c38Parse reads a quantity of the document: <bytes> | <n>M | <n>G.
func c38Parse(s string) (uint64, bool) {
	if s == "" {
		return 0, false
	}
	mul := uint64(1)
	switch s[len(s)-1] {
	case 'M':
		mul, s = 1<<20, s[:len(s)-1]
	case 'G':
		mul, s = 1<<30, s[:len(s)-1]
	}
	n, err := strconv.ParseUint(s, 10, 64)
	if err != nil || (mul > 1 && n > math.MaxInt64/mul) {
		return 0, false
	}
	return n * mul, true
}

// ---- oracle --------------------------------------------------------------------

type c38Span struct {
	start, size uint64
	name        string
	yamlIdx     int
}

type c38Facts struct {
	structs, rawContent, explicitContent, offsetWrites, relWrites int
	unordered, gap, minSized, nilOffset, explicitAfterImplicit    bool
}

func c38CheckStructs(what string, gv c38Vol, ls []gadget.LaidOutStructure, f *c38Facts) ([]c38Span, error) {
	// S1
	if len(ls) != len(gv.Structs) {
		return nil, verifkit.Violatef("%s: %d structures laid out for %d structures in the document", what, len(ls), len(gv.Structs))
	}
	seen := map[int]bool{}
	spans := make([]c38Span, len(ls))
	for i := range ls {
		vs := ls[i].VolumeStructure
		if vs == nil {
			return nil, verifkit.Violatef("%s: laid out structure %d has no gadget structure", what, i)
		}
		yi := vs.YamlIndex
		if yi < 0 || yi >= len(gv.Structs) || seen[yi] {
			return nil, verifkit.Violatef("%s: yaml index %d laid out twice or out of range", what, yi)
		}
		seen[yi] = true
		start, size := uint64(ls[i].StartOffset), uint64(ls[i].Size)
		// S2
		if start > math.MaxInt64 || size > math.MaxInt64 || start+size < start {
			return nil, verifkit.Violatef("%s: structure #%d laid out at negative/wrapping offset %d size %d", what, yi, int64(start), int64(size))
		}
		spans[i] = c38Span{start, size, vs.Name, yi}
		// S3
		if i > 0 {
			p := spans[i-1]
			if start < p.start {
				return nil, verifkit.Violatef("%s: structures not in increasing offset order: #%d at %d listed after #%d at %d", what, yi, start, p.yamlIdx, p.start)
			}
			if start < p.start+p.size {
				return nil, verifkit.Violatef("%s: structure #%d [%d,%d) overlaps preceding structure #%d [%d,%d)", what, yi, start, start+size, p.yamlIdx, p.start, p.start+p.size)
			}
			if start > p.start+p.size {
				f.gap = true
			}
		}
		if i != yi {
			f.unordered = true
		}
		// S4
		gs := gv.Structs[yi]
		if want, ok := c38Parse(gs.Offset); ok && want != start {
			return nil, verifkit.Violatef("%s: structure #%d declares offset %s but is laid out at %d", what, yi, gs.Offset, start)
		}
		if max, ok := c38Parse(gs.Size); ok {
			min := max
			if m, ok := c38Parse(gs.MinSize); ok && m != 0 {
				min = m
				if m < max {
					f.minSized = true
				}
			}
			if size > max || size < min {
				return nil, verifkit.Violatef("%s: structure #%d declares size [%d,%d] but is laid out with size %d", what, yi, min, max, size)
			}
		}
		if vs.Offset == nil {
			f.nilOffset = true
		}
		// S5
		if vs.IsRoleMBR() && (start != 0 || size > 446) {
			return nil, verifkit.Violatef("%s: mbr structure #%d laid out at %d with size %d", what, yi, start, size)
		}
	}
	return spans, nil
}

func c38CheckVolume(c c38Case, gv c38Vol, lv *gadget.LaidOutVolume, files map[string]int64, f *c38Facts) error {
	ls := lv.LaidOutStructure
	spans, err := c38CheckStructs("volume "+gv.Name, gv, ls, f)
	if err != nil {
		return err
	}
	f.structs = len(ls)
	var volEnd uint64
	byName := map[string]c38Span{}
	for _, sp := range spans {
		if sp.start+sp.size > volEnd {
			volEnd = sp.start + sp.size
		}
		if sp.name != "" {
			byName[sp.name] = sp
		}
	}
	sawImplicit := false
	for _, gs := range gv.Structs {
		if gs.Offset == "" {
			sawImplicit = true
		} else if sawImplicit {
			f.explicitAfterImplicit = true
		}
	}
	for i := range ls {
		sp := spans[i]
		gs := gv.Structs[sp.yamlIdx]
		vs := ls[i].VolumeStructure
		// C1
		if !c.IgnoreContent && !vs.HasFilesystem() && len(ls[i].LaidOutContent) != len(gs.Content) {
			return verifkit.Violatef("volume %s: structure #%d declares %d raw contents, %d laid out", gv.Name, sp.yamlIdx, len(gs.Content), len(ls[i].LaidOutContent))
		}
		type cspan struct {
			start, end uint64
			idx        int
		}
		var cs []cspan
		for _, lc := range ls[i].LaidOutContent {
			s, sz := uint64(lc.StartOffset), uint64(lc.Size)
			if s > math.MaxInt64 || sz > math.MaxInt64 {
				return verifkit.Violatef("volume %s: structure #%d content #%d at negative offset/size %d/%d", gv.Name, sp.yamlIdx, lc.Index, int64(s), int64(sz))
			}
			// C2
			if s < sp.start || s+sz > sp.start+sp.size {
				return verifkit.Violatef("volume %s: content #%d [%d,%d) is outside its structure #%d [%d,%d)", gv.Name, lc.Index, s, s+sz, sp.yamlIdx, sp.start, sp.start+sp.size)
			}
			cs = append(cs, cspan{s, s + sz, lc.Index})
			f.rawContent++
			// C4
			if lc.Index < 0 || lc.Index >= len(gs.Content) {
				return verifkit.Violatef("volume %s: structure #%d content index %d out of range", gv.Name, sp.yamlIdx, lc.Index)
			}
			gc := gs.Content[lc.Index]
			if fsz, ok := files[gc.Image]; ok && uint64(fsz) > sz {
				return verifkit.Violatef("volume %s: structure #%d content #%d reserves %d bytes for image %q of %d bytes", gv.Name, sp.yamlIdx, lc.Index, sz, gc.Image, fsz)
			}
			if dsz, ok := c38Parse(gc.Size); ok && dsz != 0 && dsz != sz {
				return verifkit.Violatef("volume %s: structure #%d content #%d declares size %s but %d bytes are reserved", gv.Name, sp.yamlIdx, lc.Index, gc.Size, sz)
			}
			if off, ok := c38Parse(gc.Offset); ok {
				f.explicitContent++
				if s != sp.start+off {
					return verifkit.Violatef("volume %s: structure #%d at %d, content #%d declares offset %s but is laid out at %d", gv.Name, sp.yamlIdx, sp.start, lc.Index, gc.Offset, s)
				}
			}
		}
		// C3
		sort.Slice(cs, func(a, b int) bool {
			if cs[a].start != cs[b].start {
				return cs[a].start < cs[b].start
			}
			if cs[a].end != cs[b].end {
				return cs[a].end < cs[b].end
			}
			return cs[a].idx < cs[b].idx
		})
		for k := 1; k < len(cs); k++ {
			if cs[k].start < cs[k-1].end {
				return verifkit.Violatef("volume %s: structure #%d contents #%d [%d,%d) and #%d [%d,%d) overlap", gv.Name, sp.yamlIdx, cs[k-1].idx, cs[k-1].start, cs[k-1].end, cs[k].idx, cs[k].start, cs[k].end)
			}
		}
		// W1
		if gs.OffsetWrite != "" {
			rel, offs := "", gs.OffsetWrite
			if p := strings.IndexByte(offs, '+'); p >= 0 {
				rel, offs = offs[:p], offs[p+1:]
			}
			off, ok := c38Parse(offs)
			if !ok {
				return verifkit.Violatef("volume %s: structure #%d: unreadable offset-write %q was accepted", gv.Name, sp.yamlIdx, gs.OffsetWrite)
			}
			f.offsetWrites++
			if rel != "" {
				f.relWrites++
				tgt, ok := byName[rel]
				if !ok {
					return verifkit.Violatef("volume %s: structure #%d: offset-write refers to %q which is not a structure of the volume", gv.Name, sp.yamlIdx, rel)
				}
				if off+4 > tgt.size {
					return verifkit.Violatef("volume %s: structure #%d: offset-write %s puts a 4 byte pointer at %d, outside referred structure %q [%d,%d)", gv.Name, sp.yamlIdx, gs.OffsetWrite, tgt.start+off, rel, tgt.start, tgt.start+tgt.size)
				}
			} else if off+4 > volEnd {
				return verifkit.Violatef("volume %s: structure #%d: offset-write %s puts a 4 byte pointer at %d, outside the laid out volume of size %d", gv.Name, sp.yamlIdx, gs.OffsetWrite, off, volEnd)
			}
		}
	}
	return nil
}

// c38Root is where the per-case gadget directories are made: a per-process
// directory on tmpfs when there is one (the files are sparse, only their size
// matters; a busy disk otherwise dominates the run time), else TMPDIR.  It is
// removed when the test ends.
var c38RootDir string

func c38Root() string {
	if c38RootDir == "" {
		c38RootDir = os.TempDir()
	}
	return c38RootDir
}

func c38SetupRoot(t *testing.T) {
	for _, base := range []string{"/dev/shm", ""} {
		d, err := os.MkdirTemp(base, fmt.Sprintf("verif-c38-%d-", os.Getpid()))
		if err == nil {
			c38RootDir = d
			t.Cleanup(func() { os.RemoveAll(d); c38RootDir = "" })
			return
		}
	}
}

func c38Run(c c38Case) (verifkit.Outcome, error) {
	o := verifkit.Outcome{}
	label := func(l string) { o.Labels = append(o.Labels, l) }

	dir, err := os.MkdirTemp(c38Root(), "c38-")
	if err != nil {
		panic("HARNESS: " + err.Error())
	}
	defer os.RemoveAll(dir)
	files := map[string]int64{}
	for _, f := range c.Files {
		p := filepath.Join(dir, f.Name)
		if !strings.HasPrefix(p, dir+"/") {
			continue
		}
		if f.Dir {
			os.MkdirAll(p, 0755)
			continue
		}
		os.MkdirAll(filepath.Dir(p), 0755)
		fh, err := os.Create(p)
		if err != nil {
			panic("HARNESS: " + err.Error())
		}
		if err := fh.Truncate(f.Size); err != nil {
			panic("HARNESS: " + err.Error())
		}
		fh.Close()
		files[f.Name] = f.Size
	}

	// outside the domain (never generated, guards hand-written replays): a
	// structure whose size is left to an installer has no extent to judge
	for _, v := range c.Vols {
		for _, pp := range v.Partial {
			for _, st := range v.Structs {
				if pp == "size" && st.Size == "" {
					o.Skip = true
					return o, nil
				}
			}
		}
	}

	doc := c38Render(c)
	o.Desc = string(doc)
	model := c38ModelOf(c.Model)
	if len(c.Vols) > 1 {
		label("two-volumes")
	}

	info, err := gadget.InfoFromGadgetYaml(doc, model)
	if err != nil {
		label("rejected-yaml")
		return o, nil
	}
	if err := gadget.Validate(info, model, nil); err != nil {
		label("rejected-rules")
		return o, nil
	}
	if err := gadget.ValidateContent(info, dir, ""); err != nil {
		label("rejected-content")
		return o, nil
	}
	opts := &gadget.LayoutOptions{GadgetRootDir: dir, IgnoreContent: c.IgnoreContent, SkipResolveContent: c.SkipResolve}

	accepted := 0
	for _, gv := range c.Vols {
		vol := info.Volumes[gv.Name]
		if vol == nil {
			return o, verifkit.Violatef("volume %q of the document is missing from the accepted gadget info", gv.Name)
		}
		var pf c38Facts
		plv, err := gadget.LayoutVolumePartially(vol, gadget.OnDiskStructsFromGadget(vol))
		if err == nil {
			if _, err := c38CheckStructs("partial layout of volume "+gv.Name, gv, plv.LaidOutStructure, &pf); err != nil {
				return o, err
			}
		}
		lv, err := gadget.LayoutVolume(vol, gadget.OnDiskStructsFromGadget(vol), opts)
		if err != nil {
			label("rejected-layout")
			continue
		}
		var f c38Facts
		if err := c38CheckVolume(c, gv, lv, files, &f); err != nil {
			return o, err
		}
		accepted++
		if f.structs >= 3 && f.explicitAfterImplicit && f.rawContent > 0 {
			o.NonTrivial = true
		}
		if vol.Schema == "mbr" {
			label("schema-mbr")
		}
		for _, cl := range []struct {
			l  string
			on bool
		}{
			{"raw-content", f.rawContent > 0}, {"content-explicit-offset", f.explicitContent > 0},
			{"offset-write", f.offsetWrites > 0}, {"offset-write-relative", f.relWrites > 0},
			{"yaml-unordered", f.unordered}, {"gap", f.gap}, {"min-size", f.minSized},
			{"undefined-offset", f.nilOffset}, {"explicit-after-implicit", f.explicitAfterImplicit},
		} {
			if cl.on {
				label(cl.l)
			}
		}
	}
	if accepted == len(c.Vols) {
		label("accepted")
	}
	// a label may have been added once per volume
	sort.Strings(o.Labels)
	uniq := o.Labels[:0]
	for i, l := range o.Labels {
		if i == 0 || l != o.Labels[i-1] {
			uniq = append(uniq, l)
		}
	}
	o.Labels = uniq
	return o, nil
}

// ---- generator -------------------------------------------------------------------

const (
	c38KiB = uint64(1) << 10
	c38MiB = uint64(1) << 20
	c38GiB = uint64(1) << 30
)

type c38Gen struct {
	t     *rapid.T
	noisy bool
	files []c38File
	nfile int
	// modelHint is the model matching the role profile of the first volume
	modelHint int
}

var c38TwoBits = rapid.IntRange(0, 3)

// uniform draws a number in [0,n), n <= 1024, close to uniformly: rapid's integer
// generators favour small values by design, which is wanted for sizes but not
// for weighted decisions.  Two bits per draw keep that bias below a few percent.
func (g *c38Gen) uniform(label string, n int) int {
	v := 0
	for i := 0; i < 5; i++ {
		v = v<<2 | c38TwoBits.Draw(g.t, label)
	}
	return v * n / 1024
}

// pick draws an index with the given weights (sum <= 1024).
func (g *c38Gen) pick(label string, weights ...int) int {
	total := 0
	for _, w := range weights {
		total += w
	}
	n := g.uniform(label, total)
	for i, w := range weights {
		if n < w {
			return i
		}
		n -= w
	}
	return len(weights) - 1
}

// noise decides whether to leave the valid path (only in noisy cases).
func (g *c38Gen) noise(label string, permille int) bool {
	if !g.noisy {
		return false
	}
	return g.uniform(label, 1000) < permille
}

func c38From[T any](g *c38Gen, label string, xs []T) T { return xs[g.uniform(label, len(xs))] }

func (g *c38Gen) u64(label string, lo, hi uint64) uint64 {
	if hi <= lo {
		return lo
	}
	return rapid.Uint64Range(lo, hi).Draw(g.t, label)
}

// qty spells a quantity in one of the accepted forms.
func (g *c38Gen) qty(label string, n uint64) string {
	form := g.uniform(label+"-form", 4)
	if n > 0 && n%c38GiB == 0 && form >= 2 {
		return fmt.Sprintf("%dG", n/c38GiB)
	}
	if n > 0 && n%c38MiB == 0 && form >= 1 {
		return fmt.Sprintf("%dM", n/c38MiB)
	}
	return strconv.FormatUint(n, 10)
}

func (g *c38Gen) addFile(size uint64, register bool) string {
	name := fmt.Sprintf("img-%d.bin", g.nfile)
	g.nfile++
	if register {
		g.files = append(g.files, c38File{Name: name, Size: int64(size)})
	}
	return name
}

type c38Plan struct {
	start, size, minSize uint64
	explicit             bool
	mbr, noFS, partition bool
}

var (
	c38PartSizes = []uint64{512, 4096, 32 * c38KiB, c38MiB - 512, c38MiB, 2 * c38MiB, 4 * c38MiB, 16 * c38MiB, 50 * c38MiB,
		100 * c38MiB, 750 * c38MiB, c38GiB, 1200 * c38MiB, 4 * c38GiB, 16 * c38GiB}
	c38BareSizes = []uint64{1, 440, 446, 512, 1024, 16 * c38KiB, 126 * c38KiB, c38MiB, 2 * c38MiB, 4 * c38MiB, 1234567}
	c38Gaps      = []uint64{1, 512, 4096, c38MiB, 3 * c38MiB, 100 * c38MiB, c38GiB}
	c38GUIDs     = []string{"21686148-6449-6E6F-744E-656564454649", "C12A7328-F81F-11D2-BA4B-00A0C93EC93B",
		"0FC63DAF-8483-4772-8E79-3D69D8477DE4", "0fc63daf-8483-4772-8e79-3d69d8477de4", "EF,C12A7328-F81F-11D2-BA4B-00A0C93EC93B",
		"83,0FC63DAF-8483-4772-8E79-3D69D8477DE4"}
	c38MBRTypes = []string{"0C", "83", "DA", "EF", "0C,C12A7328-F81F-11D2-BA4B-00A0C93EC93B", "83,0FC63DAF-8483-4772-8E79-3D69D8477DE4"}
)

func (g *c38Gen) rawContent(size uint64) []c38Content {
	k := g.pick("ncontent", 30, 42, 17, 11)
	var out []c38Content
	ccur := uint64(0)
	for j := 0; j < k; j++ {
		room := uint64(0)
		if ccur < size {
			room = size - ccur
		}
		maxf := room
		if maxf > 4*c38MiB {
			maxf = 4 * c38MiB
		}
		var f uint64
		switch g.pick("fsize", 3, 20, 77) {
		case 0:
			f = 0
		case 1:
			f = maxf
		default:
			f = g.u64("fbytes", 1, maxf)
			if maxf == 0 {
				f = 0
			}
		}
		if g.noise("content-too-big", 40) {
			f = maxf + g.u64("over", 1, 3)
		}
		var ct c38Content
		start := ccur
		switch mode := g.pick("coffset", 55, 35, 10); {
		case mode == 1 || (mode == 2 && !g.noisy):
			spare := uint64(0)
			if room > f {
				spare = room - f
			}
			switch g.pick("cgap", 30, 30, 40) {
			case 0:
			case 1:
				start = ccur + spare // ends exactly at the end of the structure
			default:
				start = ccur + g.u64("cgapbytes", 0, spare)
			}
			ct.Offset = g.qty("coff", start)
		case mode == 2:
			if g.pick("cbad", 50, 50) == 0 && ccur > 0 {
				start = ccur - g.u64("cback", 1, ccur)
			} else if size+1 > f {
				start = size + 1 - f // ends one byte behind the structure
			}
			ct.Offset = g.qty("coff", start)
		}
		reserved := f
		avail := uint64(0)
		if size > start+f {
			avail = size - start - f
		}
		switch g.pick("csize", 58, 10, 27, 5) {
		case 1:
			ct.Size = g.qty("csz", f)
		case 2:
			pad := uint64(0)
			switch g.pick("cpad", 30, 30, 40) {
			case 0:
				pad = 1
				if avail == 0 {
					pad = 0
				}
			case 1:
				pad = avail
			default:
				pad = g.u64("cpadbytes", 0, avail)
			}
			reserved = f + pad
			ct.Size = g.qty("csz", reserved)
		case 3:
			if g.noisy && f > 1 {
				ct.Size = g.qty("csz", f-1)
			}
		}
		if ct.Size == "0" {
			ct.Size = ""
		}
		ct.Image = g.addFile(f, !g.noise("image-missing", 8))
		out = append(out, ct)
		ccur = start + reserved
	}
	return out
}

func (g *c38Gen) fsContent() []c38Content {
	k := g.pick("nfscontent", 60, 30, 10)
	var out []c38Content
	for j := 0; j < k; j++ {
		name := fmt.Sprintf("fs-%d", g.nfile)
		g.nfile++
		dirSrc := g.pick("fsdir", 60, 40) == 1
		if !g.noise("source-missing", 10) {
			g.files = append(g.files, c38File{Name: name, Size: 10, Dir: dirSrc})
		}
		if dirSrc {
			name += "/"
		}
		out = append(out, c38Content{Source: name, Target: c38From(g, "target", []string{"/", "/EFI/boot/", "boot.img"})})
	}
	return out
}

func (g *c38Gen) volume(vi int, name string) c38Vol {
	t := g.t
	v := c38Vol{Name: name}
	schema := []string{"gpt", "mbr", ""}[g.pick("schema", 55, 30, 15)]
	v.Schema = schema
	if g.noise("bad-schema", 8) {
		v.Schema = "dos"
	}
	if g.pick("volid", 85, 15) == 1 {
		v.ID = "0C"
	}
	if g.noise("partial", 30) {
		// "size" is left out on purpose: a structure whose size is to be filled
		// in by an installer has no extent yet, the statement is about volumes
		// with sized structures
		v.Partial = []string{c38From(g, "partial", []string{"filesystem", "structure", "bogus"})}
	}
	n := c38From(g, "nstruct", []int{1, 2, 3, 3, 4, 4, 5, 5, 6, 6, 7, 8})
	if vi > 0 {
		n = c38From(g, "nstruct2", []int{1, 2, 3, 4})
	}
	withMBR := g.pick("with-mbr", 55, 45) == 1

	plans := make([]c38Plan, n)
	structs := make([]c38Struct, n)
	cursor, prevFixed := uint64(0), true
	for i := 0; i < n; i++ {
		p, s := &plans[i], &structs[i]
		s.Name = fmt.Sprintf("s%d", i)
		if g.pick("noname", 88, 12) == 1 {
			s.Name = ""
		}
		if g.noise("dup-name", 6) {
			s.Name = "s0"
		}
		if i == 0 && withMBR {
			p.mbr, p.noFS = true, true
			s.Name = "mbr"
			switch g.pick("mbr-style", 40, 30, 30) {
			case 0:
				s.Type = "mbr"
			case 1:
				s.Type, s.Role = "mbr", "mbr"
			default:
				s.Type, s.Role = "bare", "mbr"
			}
			p.size = c38From(g, "mbr-size", []uint64{440, 446, 446, 446, 100})
			if g.noise("mbr-too-big", 15) {
				p.size = 447
			}
			p.minSize = p.size
			if g.noise("mbr-min-size", 40) {
				p.minSize = p.size - 6
				s.MinSize = g.qty("min", p.minSize)
			}
			s.Size = g.qty("size", p.size)
			if g.pick("mbr-offset", 60, 40) == 1 {
				s.Offset = "0"
				p.explicit = true
			}
			if g.noise("mbr-moved", 10) {
				s.Offset = "512"
			}
			s.Content = g.rawContent(p.size)
			cursor, prevFixed = p.size, p.minSize == p.size
			continue
		}
		if g.pick("bare", 58, 42) == 1 {
			s.Type = "bare"
			s.Filesystem = []string{"", "none"}[g.pick("barefs", 70, 30)]
			p.noFS = true
			if g.noise("bare-with-fs", 15) {
				s.Filesystem, p.noFS = "ext4", false
			}
			p.size = c38From(g, "bare-size", c38BareSizes)
			if g.pick("bare-random", 80, 20) == 1 {
				p.size = g.u64("bare-bytes", 1, 8*c38MiB)
			}
		} else {
			p.partition = true
			types := c38GUIDs
			if schema == "mbr" {
				types = c38MBRTypes
			}
			s.Type = c38From(g, "type", types)
			if g.noise("bad-type", 8) {
				s.Type = c38From(g, "badtype", []string{"0C", "21686148-6449-6E6F-744E-656564454649", "zz", ""})
			}
			s.Filesystem = []string{"ext4", "vfat", "vfat-16", "vfat-32", "none", ""}[g.pick("fs", 33, 22, 5, 5, 12, 23)]
			p.noFS = s.Filesystem == "" || s.Filesystem == "none"
			p.size = c38From(g, "part-size", c38PartSizes)
			if g.pick("part-random", 85, 15) == 1 {
				p.size = g.u64("part-bytes", 1, 64*c38MiB)
			}
			if g.pick("part-id", 93, 7) == 1 {
				s.ID = "0FC63DAF-8483-4772-8E79-3D69D8477DE4"
			}
		}
		s.Size = g.qty("size", p.size)
		if g.noise("no-size", 5) {
			s.Size = ""
		}
		p.minSize = p.size
		switch g.pick("min-size", 66, 6, 28) {
		case 1:
			s.MinSize = g.qty("min", p.size)
		case 2:
			switch g.pick("min-kind", 30, 30, 40) {
			case 0:
				p.minSize = p.size - 1
			case 1:
				p.minSize = (p.size + 1) / 2
			default:
				p.minSize = g.u64("min-bytes", 1, p.size)
			}
			if p.minSize == 0 {
				p.minSize = p.size
			}
			s.MinSize = g.qty("min", p.minSize)
		}
		if g.noise("min-bigger", 8) {
			s.MinSize = g.qty("min", p.size+g.u64("min-over", 1, c38MiB))
		}

		// offset
		mode := g.pick("offset-mode", 45, 12, 33, 10)
		if mode == 3 && !g.noisy {
			mode = 2
		}
		switch mode {
		case 0:
			p.start = cursor
			if prevFixed && cursor < c38MiB {
				p.start = c38MiB
			}
		case 1:
			p.start, p.explicit = cursor, true
		case 2:
			gap := c38From(g, "gap", c38Gaps)
			if g.pick("gap-random", 70, 30) == 1 {
				gap = g.u64("gap-bytes", 1, 8*c38MiB)
			}
			p.start, p.explicit = cursor+gap, true
		default:
			var back uint64
			prevSize := uint64(1)
			if i > 0 {
				prevSize = plans[i-1].size
			}
			switch g.pick("back", 30, 10, 15, 15, 30) {
			case 0:
				back = 1
			case 1:
				back = 512
			case 2:
				back = prevSize
			case 3:
				back = prevSize - 1
			default:
				back = g.u64("back-bytes", 1, cursor)
			}
			if back > cursor {
				back = cursor
			}
			p.start, p.explicit = cursor-back, true
		}
		if p.explicit {
			s.Offset = g.qty("offset", p.start)
		}
		if p.noFS {
			s.Content = g.rawContent(p.size)
		} else {
			s.Content = g.fsContent()
			if g.noise("image-on-fs", 8) {
				s.Content = append(s.Content, c38Content{Image: g.addFile(10, true)})
			}
		}
		if p.start+p.size > cursor {
			cursor = p.start + p.size
		}
		prevFixed = (p.explicit || prevFixed) && p.minSize == p.size
	}

	// offset-write, decided on the planned layout
	first, volMinEnd, last := 0, uint64(0), 0
	for i := range plans {
		if plans[i].start < plans[first].start {
			first = i
		}
		if plans[i].start >= plans[last].start {
			last = i
		}
	}
	volMinEnd = plans[last].start + plans[last].minSize
	for i := range structs {
		if g.pick("offset-write", 84, 16) == 0 {
			continue
		}
		fp := plans[first]
		if fp.start == 0 && structs[first].Name != "" && g.pick("ow-rel", 35, 65) == 1 {
			off := uint64(0)
			switch g.pick("ow-rel-off", 25, 35, 40) {
			case 1:
				off = 92
			case 2:
				if fp.minSize >= 4 {
					off = fp.minSize - 4
				}
			}
			if off+4 > fp.minSize {
				off = 0
			}
			if g.noise("ow-rel-out", 300) {
				off = fp.minSize - g.u64("ow-rel-short", 0, 3)
			}
			if off > 4096*c38MiB {
				off = 92
			}
			structs[i].OffsetWrite = structs[first].Name + "+" + g.qty("ow", off)
			if g.noise("ow-rel-other", 40) {
				structs[i].OffsetWrite = fmt.Sprintf("s%d+0", n-1)
			}
		} else {
			off := uint64(0)
			switch g.pick("ow-abs-off", 20, 25, 15, 40) {
			case 1:
				off = 92
			case 2:
				off = 440
			case 3:
				if volMinEnd >= 4 {
					off = volMinEnd - 4
				}
			}
			if off+4 > volMinEnd {
				off = 0
			}
			if g.noise("ow-abs-out", 300) {
				off = volMinEnd - g.u64("ow-abs-short", 0, 3)
			}
			if off > 4096*c38MiB {
				off = 92
			}
			structs[i].OffsetWrite = g.qty("ow", off)
		}
	}

	// roles (first volume only), labels
	if vi == 0 {
		g.roles(structs, plans)
	}
	for i := range structs {
		if structs[i].Label == "" && plans[i].partition && structs[i].Role == "" && g.pick("label", 75, 25) == 1 {
			structs[i].Label = fmt.Sprintf("lbl-%d-%d", vi, i)
			if g.noise("dup-label", 15) {
				structs[i].Label = "dup"
			}
		}
	}

	// yaml order: blocks headed by an explicit offset may be listed in any order
	if g.pick("shuffle", 65, 35) == 1 {
		var blocks [][]c38Struct
		for i, s := range structs {
			if i == 0 || s.Offset != "" {
				blocks = append(blocks, nil)
			}
			blocks[len(blocks)-1] = append(blocks[len(blocks)-1], s)
		}
		fixed := 0
		if structs[0].Offset == "" {
			fixed = 1
		}
		if len(blocks)-fixed > 1 {
			perm := rapid.Permutation(blocks[fixed:]).Draw(t, "block-order")
			structs = structs[:0:0]
			for _, b := range blocks[:fixed] {
				structs = append(structs, b...)
			}
			for _, b := range perm {
				structs = append(structs, b...)
			}
		}
	}
	v.Structs = structs
	return v
}

// roles distributes the system roles over the partitions of the first volume,
// following one of the consistent profiles, and picks the matching model.
func (g *c38Gen) roles(structs []c38Struct, plans []c38Plan) (model int) {
	t := g.t
	var cand []int
	for i, p := range plans {
		if p.partition {
			cand = append(cand, i)
		}
	}
	if len(cand) > 1 {
		cand = rapid.Permutation(cand).Draw(t, "role-order")
	}
	take := func(role string, labels ...string) {
		if len(cand) == 0 {
			return
		}
		i := cand[0]
		cand = cand[1:]
		structs[i].Role = role
		structs[i].Label = c38From(g, "role-label", labels)
	}
	profile := g.pick("profile", 40, 35, 25)
	if len(cand) < 2 {
		profile = 0
	}
	switch profile {
	case 0: // no modes
		model = []int{0, 1, 4}[g.pick("model0", 40, 40, 20)]
		if g.pick("boot", 50, 50) == 1 {
			take("system-boot", "", "", "system-boot")
		}
		if g.pick("data", 50, 50) == 1 {
			take("system-data", "", "", "writable")
		}
	case 1: // core with modes
		model = []int{0, 2}[g.pick("model1", 40, 60)]
		take("system-seed", "", "", "ubuntu-seed")
		take("system-data", "", "", "ubuntu-data")
		if g.pick("boot", 40, 60) == 1 {
			take("system-boot", "", "", "ubuntu-boot")
		}
		if g.pick("save", 50, 50) == 1 {
			take("system-save", "", "", "ubuntu-save")
		}
	default: // classic with modes
		model = 3
		take("system-boot", "", "", "ubuntu-boot")
		take("system-data", "", "", "ubuntu-data")
		switch g.pick("seed", 40, 40, 20) {
		case 1:
			take("system-seed-null", "", "", "ubuntu-seed")
			model = []int{0, 3}[g.pick("model2", 40, 60)]
		case 2:
			take("system-seed", "", "", "ubuntu-seed")
		}
		if g.pick("save", 60, 40) == 1 {
			take("system-save", "", "", "ubuntu-save")
		}
	}
	for _, i := range cand {
		if g.pick("other-role", 80, 20) == 1 {
			structs[i].Role = c38From(g, "role", []string{"system-boot-image", "system-boot-select", "system-seed-select", "system-seed-image", "bootimg", "bootselect"})
		}
		if g.noise("stray-role", 10) {
			structs[i].Role = c38From(g, "stray", []string{"system-data", "system-seed", "system-save", "mbr", "bogus"})
		}
	}
	g.modelHint = model
	return model
}

func c38Generate(t *rapid.T) c38Case {
	g := &c38Gen{t: t}
	g.noisy = g.uniform("noisy", 100) < 45
	c := c38Case{}
	nvol := 1
	if g.pick("nvol", 75, 25) == 1 {
		nvol = 2
	}
	names := []string{"pc", "vol-b"}
	if g.noise("bad-vol-name", 10) {
		names[1] = "-b"
	}
	blVol := g.uniform("bootloader-vol", nvol)
	for vi := 0; vi < nvol; vi++ {
		v := g.volume(vi, names[vi])
		if vi == blVol || g.noise("two-bootloaders", 10) {
			v.Bootloader = []string{"grub", "u-boot", "lk", "android-boot", "piboot"}[g.pick("bootloader", 50, 20, 10, 10, 10)]
		}
		if g.noise("no-bootloader", 10) {
			v.Bootloader = ""
		}
		c.Vols = append(c.Vols, v)
	}
	c.Model = g.modelHint
	if g.noise("other-model", 50) {
		c.Model = g.uniform("model", 5)
	}
	if (c.Model == 1 || c.Model == 4) && !g.noise("piboot-without-grade", 100) {
		for i := range c.Vols {
			if c.Vols[i].Bootloader == "piboot" {
				c.Vols[i].Bootloader = "grub"
			}
		}
	}
	switch g.pick("layout-opts", 80, 12, 8) {
	case 1:
		c.SkipResolve = true
	case 2:
		c.IgnoreContent = true
	}
	c.Files = g.files
	return c
}

func TestVerifC38Layout(t *testing.T) {
	c38SetupRoot(t)
	verifkit.Check(t, verifkit.Spec[c38Case]{
		ID: "C38", Engine: "layout",
		Gen: c38Generate,
		Run: c38Run,
		Floors: map[string]float64{
			"accepted": 0.40, "raw-content": 0.25, "content-explicit-offset": 0.08, "min-size": 0.10,
			"undefined-offset": 0.05, "yaml-unordered": 0.04, "gap": 0.20, "offset-write": 0.05,
			"offset-write-relative": 0.01, "explicit-after-implicit": 0.25, "schema-mbr": 0.05, "two-volumes": 0.10,
		},
		NonTrivialFloor: 0.25,
	})
}
