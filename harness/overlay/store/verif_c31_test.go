package store

// C31 — a downloaded snap is only kept at the target path if its SHA3-384 digest
// matches, whatever the server does and whatever partial file exists.
//
// Unexported identifiers used: downloadRetryStrategy, downloadSpeedMeasureWindow,
// downloadSpeedMin (mocked per case, restored), Store.shouldUseDeltas (deltas are
// out of the domain: forced off so that no xdelta3 process is started),
// Store.cacher (per-case cache directory).
//
// A case is pure data: content (size + seed), the pre-existing <target>.partial
// (length + optional flipped byte), the *script* = one server behaviour per
// incoming HTTP request (the fault sequence), what the server does once the
// script is exhausted, the retry budget, the download options, the cache mode.
// c31Run builds a loopback httptest server executing the script, calls the real
// Store.Download and judges the final state of the file system:
//
//	O1  err == nil  =>  target exists, is a regular file, has the declared size
//	                    and SHA3-384(target) == expected
//	O2  err != nil  =>  there is no file at target
//	O3  <target>.partial exists afterwards  =>  err != nil and LeavePartialOnError
//	    (not judged for a call satisfied from the download cache: the statement
//	    says nothing about a stale partial next to a cache hit)
//
// The oracle never looks at how the bytes got there; it only needs the content
// the harness itself generated.  Timing cannot turn a pass into a failure: every
// clause is an implication from the returned error to the final files.
//
// Engines: enum (every script up to a length bound over 17 canonical behaviours ×
// 7 partial files × LeavePartialOnError × exhaustion behaviour) and random (rapid).

import (
	"bytes"
	"context"
	"crypto"
	"encoding/json"
	"fmt"
	"net"
	"net/http"
	"net/http/httptest"
	"os"
	"path/filepath"
	"runtime"
	"strconv"
	"strings"
	"sync"
	"testing"
	"time"

	"gopkg.in/retry.v1"
	"pgregory.net/rapid"

	"github.com/snapcore/snapd/dirs"
	"github.com/snapcore/snapd/snap"
	"github.com/snapcore/snapd/verifkit"
)

// ---------------------------------------------------------------------------
// case data

type c31Step struct {
	// Kind: "serve" (a 200/206 with a body), "status" (Code with a tiny body),
	// "redirect" (Code + Location to the other path; the redirected request
	// consumes the next step), "drop" (connection closed without any response).
	Kind string `json:"kind"`
	Code int    `json:"code,omitempty"`
	// serve: Honour = honour the Range header (206 + tail; 416 when the offset is
	// not inside the content); otherwise the Range header is ignored (200 + all).
	Honour bool `json:"honour,omitempty"`
	// serve: say 206 whatever was requested.
	Lie206 bool `json:"lie206,omitempty"`
	// serve: added to the offset the body starts at (wrong range served).
	Shift int `json:"shift,omitempty"`
	// serve: bytes missing at the end of the body (complete, honest Content-Length).
	Trunc int `json:"trunc,omitempty"`
	// serve: positions (mod body length) of inverted bytes.
	Flip []int `json:"flip,omitempty"`
	// serve: garbage bytes appended to the body.
	Extra int `json:"extra,omitempty"`
	// serve: Abort = only CutAt bytes of the body are sent (clamped to the body),
	// although more are announced, then the connection is closed (Reset: with RST).
	Abort bool `json:"abort,omitempty"`
	CutAt int  `json:"cutat,omitempty"`
	Reset bool `json:"reset,omitempty"`
	// serve: chunked transfer encoding instead of Content-Length.
	Chunked bool `json:"chunked,omitempty"`
}

func (s c31Step) String() string {
	switch s.Kind {
	case "status":
		return strconv.Itoa(s.Code)
	case "redirect":
		return fmt.Sprintf("redirect%d", s.Code)
	case "drop":
		if s.Reset {
			return "drop(rst)"
		}
		return "drop"
	}
	var p []string
	if s.Honour {
		p = append(p, "honour")
	} else {
		p = append(p, "full")
	}
	if s.Lie206 {
		p = append(p, "lie206")
	}
	if s.Shift != 0 {
		p = append(p, fmt.Sprintf("shift%+d", s.Shift))
	}
	if s.Trunc != 0 {
		p = append(p, fmt.Sprintf("trunc%d", s.Trunc))
	}
	if len(s.Flip) != 0 {
		p = append(p, fmt.Sprintf("flip%v", s.Flip))
	}
	if s.Extra != 0 {
		p = append(p, fmt.Sprintf("extra%d", s.Extra))
	}
	if s.Abort {
		a := fmt.Sprintf("abort@%d", s.CutAt)
		if s.Reset {
			a += "(rst)"
		}
		p = append(p, a)
	}
	if s.Chunked {
		p = append(p, "chunked")
	}
	return "serve(" + strings.Join(p, ",") + ")"
}

type c31Case struct {
	Size int    `json:"size"` // content length = declared size
	Seed uint64 `json:"seed"` // content and garbage bytes are expanded from it
	// PartialLen < 0: no <target>.partial; otherwise the file holds the first
	// PartialLen bytes of content+garbage, with byte PartialFlip (mod length)
	// inverted when PartialFlip >= 0.
	PartialLen  int `json:"partial_len"`
	PartialFlip int `json:"partial_flip"`

	Script []c31Step `json:"script"`
	// After: behaviour once the script is exhausted: "honest" (a correct server)
	// or "repeat" (the last step again and again).
	After   string `json:"after"`
	Retries int    `json:"retries"` // attempts per download loop (retry.LimitCount)

	LeavePartial bool `json:"leave_partial"`
	NilOpts      bool `json:"nil_opts,omitempty"`
	// Cache: "off"; "miss" (cache enabled and empty); "hit" (cache holds an
	// honest entry for the digest).
	Cache string `json:"cache"`
	// Again: after a failed Download call Download once more for the same target
	// (the partial file is then whatever the first call really left behind).
	Again bool `json:"again,omitempty"`
}

func (c c31Case) partialKind() string {
	switch {
	case c.PartialLen < 0:
		return "absent"
	case c.PartialLen == 0:
		return "empty"
	case c.PartialLen > c.Size:
		return "overlong"
	case c.PartialLen == c.Size && c.PartialFlip < 0:
		return "exact"
	case c.PartialLen == c.Size:
		return "wrongfull"
	case c.PartialFlip < 0:
		return "prefix"
	}
	return "wrongprefix"
}

func (c c31Case) String() string {
	steps := make([]string, len(c.Script))
	for i, s := range c.Script {
		steps[i] = s.String()
	}
	opts := fmt.Sprintf("leave=%v", c.LeavePartial)
	if c.NilOpts {
		opts = "opts=nil"
	}
	return fmt.Sprintf("size=%d seed=%d partial=%s(len=%d,flip=%d) script=[%s] after=%s retries=%d %s cache=%s again=%v",
		c.Size, c.Seed, c.partialKind(), c.PartialLen, c.PartialFlip, strings.Join(steps, " "), c.After, c.Retries, opts, c.Cache, c.Again)
}

// c31Bytes expands (seed, salt) into n bytes (xorshift64*); all randomness of a
// case comes from the rapid-drawn seed.
func c31Bytes(seed, salt uint64, n int) []byte {
	x := seed*0x9E3779B97F4A7C15 + salt*0xD1B54A32D192ED03 + 0x2545F4914F6CDD1D
	if x == 0 {
		x = 1
	}
	out := make([]byte, n)
	for i := range out {
		x ^= x >> 12
		x ^= x << 25
		x ^= x >> 27
		out[i] = byte((x * 0x2545F4914F6CDD1D) >> 56)
	}
	return out
}

const c31MaxSize = 1 << 16
const c31MaxExtra = 1 << 17

// ---------------------------------------------------------------------------
// scripted server

type c31Req struct {
	Path   string
	Off    int64 // offset of "Range: bytes=N-", -1 without Range header
	Step   string
	Status int // status line sent, 0 = none
	Sent   int // body bytes handed to the connection
	Abort  bool
}

func (r c31Req) String() string {
	off := "-"
	if r.Off >= 0 {
		off = strconv.FormatInt(r.Off, 10)
	}
	a := ""
	if r.Abort {
		a = "!"
	}
	return fmt.Sprintf("%s@%s>%d/%d%s", strings.TrimPrefix(r.Path, "/"), off, r.Status, r.Sent, a)
}

type c31Srv struct {
	mu      sync.Mutex
	c       *c31Case
	content []byte
	garbage []byte
	log     []c31Req
}

func c31ParseRange(h string) int64 {
	if !strings.HasPrefix(h, "bytes=") || !strings.HasSuffix(h, "-") {
		return -1
	}
	n, err := strconv.ParseInt(h[len("bytes="):len(h)-1], 10, 64)
	if err != nil || n < 0 {
		return -1
	}
	return n
}

func (s *c31Srv) ServeHTTP(w http.ResponseWriter, r *http.Request) {
	s.mu.Lock()
	n := len(s.log)
	st := c31Step{Kind: "serve", Honour: true} // honest server
	if n < len(s.c.Script) {
		st = s.c.Script[n]
	} else if s.c.After == "repeat" && len(s.c.Script) > 0 {
		st = s.c.Script[len(s.c.Script)-1]
	}
	rec := c31Req{Path: r.URL.Path, Off: c31ParseRange(r.Header.Get("Range")), Step: st.String()}
	s.log = append(s.log, rec)
	s.mu.Unlock()

	// the outcome is noted before the first byte goes out: the client may be
	// back in Download (and Download may have returned) before this handler ends
	s.respond(w, r, st, rec.Off, func(status, sent int, aborted bool) {
		s.mu.Lock()
		s.log[n].Status, s.log[n].Sent, s.log[n].Abort = status, sent, aborted
		s.mu.Unlock()
	})
}

func c31CloseConn(conn net.Conn, reset bool) {
	if tc, ok := conn.(*net.TCPConn); ok && reset {
		tc.SetLinger(0)
	}
	conn.Close()
}

func (s *c31Srv) respond(w http.ResponseWriter, r *http.Request, st c31Step, off int64, note func(status, sent int, aborted bool)) {
	size := int64(len(s.content))
	switch st.Kind {
	case "status":
		note(st.Code, 0, false)
		w.WriteHeader(st.Code)
		fmt.Fprintf(w, "status %d\n", st.Code)
		return
	case "redirect":
		other := "/alt"
		if r.URL.Path == "/alt" {
			other = "/dl"
		}
		note(st.Code, 0, false)
		w.Header().Set("Location", other)
		w.WriteHeader(st.Code)
		return
	case "drop":
		note(0, 0, true)
		conn, _, err := w.(http.Hijacker).Hijack()
		if err == nil {
			c31CloseConn(conn, st.Reset)
		}
		return
	}

	// serve
	status := 200
	start := int64(0)
	if st.Honour && off >= 0 {
		if st.Shift == 0 && off > 0 && off >= size {
			// what a correct server says to a range starting at or behind the end
			note(416, 0, false)
			w.Header().Set("Content-Range", fmt.Sprintf("bytes */%d", size))
			w.WriteHeader(416)
			return
		}
		start = off
		status = 206
	}
	if st.Lie206 {
		status = 206
	}
	start += int64(st.Shift)
	if start < 0 {
		start = 0
	}
	if start > size {
		start = size
	}
	body := append([]byte(nil), s.content[start:]...)
	if st.Trunc > 0 {
		t := st.Trunc
		if t > len(body) {
			t = len(body)
		}
		body = body[:len(body)-t]
	}
	if len(body) > 0 {
		for _, p := range st.Flip {
			if p < 0 {
				p = -p
			}
			body[p%len(body)] ^= 0xff
		}
	}
	if st.Extra > 0 {
		x := st.Extra
		if x > len(s.garbage) {
			x = len(s.garbage)
		}
		body = append(body, s.garbage[:x]...)
	}
	if status == 206 {
		w.Header().Set("Content-Range", fmt.Sprintf("bytes %d-%d/%d", start, size-1, size))
	}

	if !st.Abort {
		note(status, len(body), false)
		if !st.Chunked {
			w.Header().Set("Content-Length", strconv.Itoa(len(body)))
			w.WriteHeader(status)
			w.Write(body)
			return
		}
		w.WriteHeader(status)
		half := len(body) / 2
		w.Write(body[:half])
		if f, ok := w.(http.Flusher); ok {
			f.Flush()
		}
		w.Write(body[half:])
		return
	}

	// aborted transfer: raw response on the hijacked connection
	n := st.CutAt
	if n < 0 {
		n = 0
	}
	if n > len(body) {
		n = len(body)
	}
	note(status, n, true)
	conn, _, err := w.(http.Hijacker).Hijack()
	if err != nil {
		return
	}
	// safety net only (a client that stopped reading closes its end anyway)
	conn.SetDeadline(time.Now().Add(2 * time.Minute))
	var buf bytes.Buffer
	fmt.Fprintf(&buf, "HTTP/1.1 %d %s\r\nConnection: close\r\n", status, http.StatusText(status))
	if cr := w.Header().Get("Content-Range"); cr != "" {
		fmt.Fprintf(&buf, "Content-Range: %s\r\n", cr)
	}
	if st.Chunked {
		buf.WriteString("Transfer-Encoding: chunked\r\n\r\n")
		if n > 0 {
			fmt.Fprintf(&buf, "%x\r\n", n)
			buf.Write(body[:n])
			buf.WriteString("\r\n")
		}
		// no terminating chunk
	} else {
		announced := len(body)
		if n == announced {
			announced++ // everything was delivered and still the transfer breaks
		}
		fmt.Fprintf(&buf, "Content-Length: %d\r\n\r\n", announced)
		buf.Write(body[:n])
	}
	conn.Write(buf.Bytes())
	c31CloseConn(conn, st.Reset)
}

// ---------------------------------------------------------------------------
// execution + oracle

func c31Digest(b []byte) string {
	h := crypto.SHA3_384.New()
	h.Write(b)
	return fmt.Sprintf("%x", h.Sum(nil))
}

// c31ReadFile: (content, exists, regular)
func c31ReadFile(p string) ([]byte, bool, bool) {
	fi, err := os.Lstat(p)
	if err != nil {
		return nil, false, false
	}
	if !fi.Mode().IsRegular() {
		return nil, true, false
	}
	b, err := os.ReadFile(p)
	if err != nil {
		panic("HARNESS: cannot read " + p + ": " + err.Error())
	}
	return b, true, true
}

func c31Logs(log []c31Req) string {
	s := make([]string, len(log))
	for i, r := range log {
		s[i] = r.String()
	}
	return "[" + strings.Join(s, " ") + "]"
}

// c31LeftoverTail is the narrow predicate of finding F-C31-1 (fixed in snapd commit
// 2de3084; the fingerprint is kept so that a regression is named): the file is
// the whole expected content followed by a stale tail, and its length is exactly
// the offset of a resumed request that the server answered with something else
// than 206 (the restart from offset 0 which rewinds without truncating).
func c31LeftoverTail(got, content []byte, log []c31Req) bool {
	if len(got) <= len(content) || !bytes.Equal(got[:len(content)], content) {
		return false
	}
	for _, r := range log {
		if r.Off == int64(len(got)) && r.Status != 0 && r.Status != 206 {
			return true
		}
	}
	return false
}

type c31World struct {
	c       *c31Case
	content []byte
	sha     string
	srv     *c31Srv
}

// judge applies O1-O3 to the outcome of one Download call.
func (w *c31World) judge(call string, target string, derr error, cacheHit bool, opts *DownloadOptions) error {
	w.srv.mu.Lock()
	log := append([]c31Req(nil), w.srv.log...)
	w.srv.mu.Unlock()
	got, exists, regular := c31ReadFile(target)
	_, pexists, _ := c31ReadFile(target + ".partial")
	ctx := fmt.Sprintf("%s: requests %s; case: %s", call, c31Logs(log), w.c.String())
	if derr == nil {
		if !exists {
			return verifkit.Violatef("Download returned nil but there is no file at target; %s", ctx)
		}
		if !regular {
			return verifkit.Violatef("Download returned nil but target is not a regular file; %s", ctx)
		}
		if d := c31Digest(got); d != w.sha || len(got) != len(w.content) {
			if c31LeftoverTail(got, w.content, log) {
				return verifkit.Knownf("F-C31-1", "Download returned nil and kept a %d byte file with digest %.12s… at target (declared size %d, expected %.12s…): "+
					"the expected content followed by %d stale bytes of the partial file (restart from offset 0 after a non-206 answer to Range: bytes=%d- did not truncate); %s",
					len(got), d, len(w.content), w.sha, len(got)-len(w.content), len(got), ctx)
			}
			return verifkit.Violatef("Download returned nil but target has %d bytes with digest %.12s…, expected %d bytes with digest %.12s…; %s",
				len(got), d, len(w.content), w.sha, ctx)
		}
	} else if exists {
		return verifkit.Violatef("Download failed (%v) but left a file at target (%d bytes, digest ok=%v); %s", derr, len(got), c31Digest(got) == w.sha, ctx)
	}
	if pexists && !cacheHit {
		if derr == nil {
			return verifkit.Violatef("Download returned nil but left %s.partial behind; %s", filepath.Base(target), ctx)
		}
		if opts == nil || !opts.LeavePartialOnError {
			return verifkit.Violatef("Download failed (%v) and left the .partial file behind without LeavePartialOnError; %s", derr, ctx)
		}
	}
	return nil
}

var c31Root string // scratch root of the running engine (dirs root)

func c31Setup(t *testing.T) {
	root, err := os.MkdirTemp("", "verif-c31-")
	if err != nil {
		t.Fatalf("HARNESS: %v", err)
	}
	c31Root = root
	dirs.SetRootDir(root)
	t.Cleanup(func() {
		dirs.SetRootDir("")
		os.RemoveAll(root)
	})
}

func c31Settle(baseline int) bool {
	for i := 0; i < 20000; i++ {
		if runtime.NumGoroutine() <= baseline {
			return true
		}
		if i < 50 {
			runtime.Gosched()
		} else {
			time.Sleep(500 * time.Microsecond)
		}
	}
	return false
}

func c31Run(c c31Case) (o verifkit.Outcome, verr error) {
	if c.Size < 0 || c.Size > c31MaxSize || c.PartialLen > c31MaxSize+c31MaxExtra || c.Retries < 1 || c.Retries > 10 || len(c.Script) > 64 {
		return verifkit.Outcome{Skip: true}, nil
	}
	baseline := runtime.NumGoroutine()

	content := c31Bytes(c.Seed, 1, c.Size)
	// garbage: as much as the case can ever use
	need := c.PartialLen - c.Size
	for _, st := range c.Script {
		if st.Extra > need {
			need = st.Extra
		}
	}
	if need < 0 {
		need = 0
	}
	if need > c31MaxExtra {
		need = c31MaxExtra
	}
	garbage := c31Bytes(c.Seed, 2, need)
	sha := c31Digest(content)

	// package level knobs, restored per case
	oldStrategy, oldWindow, oldMin := downloadRetryStrategy, downloadSpeedMeasureWindow, downloadSpeedMin
	downloadRetryStrategy = retry.LimitCount(c.Retries, retry.Exponential{Initial: time.Nanosecond, Factor: 1})
	downloadSpeedMeasureWindow = 24 * time.Hour
	downloadSpeedMin = 0
	defer func() {
		downloadRetryStrategy, downloadSpeedMeasureWindow, downloadSpeedMin = oldStrategy, oldWindow, oldMin
	}()

	caseDir, err := os.MkdirTemp(c31Root, "case-")
	if err != nil {
		panic("HARNESS: " + err.Error())
	}
	defer os.RemoveAll(caseDir)

	target := filepath.Join(caseDir, "dl", "foo_7.snap")
	if err := os.MkdirAll(filepath.Dir(target), 0755); err != nil {
		panic("HARNESS: " + err.Error())
	}
	if c.PartialLen >= 0 {
		p := append(append([]byte(nil), content...), garbage...)
		if c.PartialLen > len(p) {
			return verifkit.Outcome{Skip: true}, nil
		}
		p = append([]byte(nil), p[:c.PartialLen]...)
		if c.PartialFlip >= 0 && len(p) > 0 {
			p[c.PartialFlip%len(p)] ^= 0xff
		}
		if err := os.WriteFile(target+".partial", p, 0600); err != nil {
			panic("HARNESS: " + err.Error())
		}
	}

	sto := New(&Config{}, nil)
	noDeltas := false
	sto.shouldUseDeltas = &noDeltas
	if c.Cache == "miss" || c.Cache == "hit" {
		cacheDir := filepath.Join(caseDir, "cache")
		if err := os.MkdirAll(cacheDir, 0700); err != nil {
			panic("HARNESS: " + err.Error())
		}
		sto.cacher = NewCacheManager(cacheDir, 5)
		if c.Cache == "hit" {
			if err := os.WriteFile(filepath.Join(cacheDir, sha), content, 0600); err != nil {
				panic("HARNESS: " + err.Error())
			}
		}
	}

	hs := &c31Srv{c: &c, content: content, garbage: garbage}
	ln, err := net.Listen("tcp", "127.0.0.1:0")
	if err != nil {
		// no loopback port to be had: the environment, not the property
		return verifkit.Outcome{Skip: true}, nil
	}
	srv := &httptest.Server{Listener: ln, Config: &http.Server{Handler: hs}}
	srv.Start()
	closed := false
	closeSrv := func() {
		if !closed {
			closed = true
			srv.CloseClientConnections()
			srv.Close()
		}
	}
	defer closeSrv()

	info := &snap.DownloadInfo{DownloadURL: srv.URL + "/dl", Size: int64(c.Size), Sha3_384: sha}
	var opts *DownloadOptions
	if !c.NilOpts {
		opts = &DownloadOptions{LeavePartialOnError: c.LeavePartial}
	}
	w := &c31World{c: &c, content: content, sha: sha, srv: hs}

	labels := map[string]bool{"partial-" + c.partialKind(): true}
	if c.PartialLen > 0 {
		labels["partial-nonempty"] = true
	}

	derr := sto.Download(context.Background(), "foo", target, info, nil, nil, opts)
	verr = w.judge("first call", target, derr, c.Cache == "hit", opts)
	hs.mu.Lock()
	firstReqs := len(hs.log)
	hs.mu.Unlock()
	if derr == nil {
		labels["success"] = true
	} else {
		labels["error"] = true
		if _, ok, _ := c31ReadFile(target + ".partial"); ok {
			labels["partial-left"] = true
		}
	}
	firstKnown := false
	if v, ok := verr.(*verifkit.Violation); ok && v.Fingerprint != "" {
		firstKnown = true
	}
	if verr == nil || firstKnown {
		first := verr
		switch {
		case derr != nil && c.Again:
			labels["again"] = true
			derr2 := sto.Download(context.Background(), "foo", target, info, nil, nil, opts)
			verr = w.judge("second call (same target)", target, derr2, false, opts)
			if derr2 == nil {
				labels["again-success"] = true
			}
		case derr == nil && (c.Cache == "miss" || c.Cache == "hit"):
			// the cache was filled (or used) by Download itself: a second
			// target must get the expected digest as well
			labels["second-target"] = true
			target2 := filepath.Join(caseDir, "dl2", "foo_7.snap")
			derr2 := sto.Download(context.Background(), "foo", target2, info, nil, nil, opts)
			verr = w.judge("second call (other target, cache on)", target2, derr2, true, opts)
			if verr != nil && firstKnown {
				a, _, _ := c31ReadFile(target)
				b, _, _ := c31ReadFile(target2)
				if bytes.Equal(a, b) {
					// the same wrong file handed out again through the cache
					verr = first
				}
			}
		}
		if verr == nil {
			verr = first
		}
	}

	closeSrv()
	if !c31Settle(baseline) {
		o.Extra = map[string]int64{"goroutine_settle_timeouts": 1}
	}

	hs.mu.Lock()
	log := append([]c31Req(nil), hs.log...)
	hs.mu.Unlock()
	if firstReqs >= 2 {
		labels["retry"] = true
	}
	overlong := c.PartialLen > c.Size
	for _, r := range log {
		if r.Off >= 0 {
			labels["resumed"] = true
			if r.Status != 0 && r.Status != 206 {
				labels["restart-non206"] = true
			}
		}
		if r.Off > int64(c.Size) {
			overlong = true
		}
		if r.Abort {
			labels["aborted-transfer"] = true
		}
		if r.Path == "/alt" {
			labels["redirected"] = true
		}
	}
	if overlong {
		labels["overlong-partial"] = true
	}
	if c.Cache == "hit" {
		labels["cache-hit"] = true
	}
	if len(log) > c.Retries && c.Cache != "hit" {
		labels["many-requests"] = true
	}
	o.NonTrivial = firstReqs >= 2 || c.PartialLen > 0
	o.Labels = verifkit.SortedKeys(labels)
	res := "nil"
	if derr != nil {
		res = "error"
	}
	o.Desc = fmt.Sprintf("%s => requests %s first-call=%s", c.String(), c31Logs(log), res)
	return o, verr
}

// ---------------------------------------------------------------------------
// engine: enum

const c31EnumSize = 24

func c31Alphabet() []c31Step {
	return []c31Step{
		{Kind: "serve", Honour: true},
		{Kind: "serve"},
		{Kind: "serve", Honour: true, Abort: true, CutAt: 5},
		{Kind: "serve", Abort: true, CutAt: 7},
		{Kind: "serve", Extra: 16, Abort: true, CutAt: c31EnumSize + 9},
		{Kind: "serve", Honour: true, Extra: 16, Abort: true, CutAt: 1000},
		{Kind: "serve", Extra: 16},
		{Kind: "serve", Honour: true, Flip: []int{1}},
		{Kind: "status", Code: 503},
		{Kind: "status", Code: 404},
		{Kind: "status", Code: 416},
		{Kind: "redirect", Code: 302},
		{Kind: "drop"},
		{Kind: "serve", Honour: true, Shift: -1},
		{Kind: "serve", Honour: true, Trunc: 3},
		{Kind: "serve", Lie206: true},
		{Kind: "serve", Trunc: 1000},
	}
}

type c31Partial struct{ Len, Flip int }

func c31EnumPartials() []c31Partial {
	return []c31Partial{
		{-1, -1},               // absent
		{0, -1},                // empty
		{c31EnumSize / 3, -1},  // correct prefix
		{c31EnumSize / 3, 2},   // wrong prefix
		{c31EnumSize, -1},      // exactly the content
		{c31EnumSize, 5},       // right length, wrong content
		{c31EnumSize + 10, -1}, // content + stale tail
	}
}

func c31Scripts(maxLen int) [][]c31Step {
	alpha := c31Alphabet()
	out := [][]c31Step{{}}
	prev := [][]c31Step{{}}
	for l := 1; l <= maxLen; l++ {
		var cur [][]c31Step
		for _, p := range prev {
			for _, a := range alpha {
				cur = append(cur, append(append([]c31Step(nil), p...), a))
			}
		}
		out = append(out, cur...)
		prev = cur
	}
	return out
}

func c31SafeRun(c c31Case) (o verifkit.Outcome, err error) {
	defer func() {
		if p := recover(); p != nil {
			err = verifkit.Violatef("panic: %v", p)
		}
	}()
	return c31Run(c)
}

// TestVerifC31Enum: every script of length <= L (2 quick, 3 thorough) over the 17
// canonical behaviours × 7 partial files × LeavePartialOnError, followed by a
// correct server; scripts shorter than L also with the last step repeated for ever.
func TestVerifC31Enum(t *testing.T) {
	e := verifkit.NewEnum(t, "C31", "enum")
	defer e.Done()
	c31Setup(t)
	if raw, ok := e.Replaying(); ok {
		var c c31Case
		if err := json.Unmarshal(raw, &c); err != nil {
			t.Fatalf("cannot decode replay case: %v", err)
		}
		o, err := c31SafeRun(c)
		e.Case(c.String(), o.NonTrivial, o.Labels...)
		if err != nil {
			if v, ok := err.(*verifkit.Violation); ok && e.Known(v.Fingerprint) {
				t.Logf("replay reproduces KNOWN finding: %v", err)
				return
			}
			e.Fail(c, "%v", err)
		}
		return
	}
	L := verifkit.Size(2, 3)
	shard, shards := verifkit.EnvInt("VERIF_SHARD", 0), verifkit.EnvInt("VERIF_SHARDS", 1)
	scripts := c31Scripts(L)
	var timeouts int64
	n := 0
	for _, script := range scripts {
		for _, p := range c31EnumPartials() {
			for _, leave := range []bool{false, true} {
				for _, after := range []string{"honest", "repeat"} {
					if after == "repeat" && (len(script) == 0 || len(script) >= L) {
						continue
					}
					n++
					if n%shards != shard {
						continue
					}
					c := c31Case{Size: c31EnumSize, Seed: 31, PartialLen: p.Len, PartialFlip: p.Flip, Script: script,
						After: after, Retries: 3, LeavePartial: leave, Cache: "off", Again: true}
					o, err := c31SafeRun(c)
					timeouts += o.Extra["goroutine_settle_timeouts"]
					if o.Skip {
						continue
					}
					if err != nil {
						if v, ok := err.(*verifkit.Violation); ok && e.Known(v.Fingerprint) {
							e.Case(o.Desc, o.NonTrivial, append(o.Labels, "known-"+v.Fingerprint)...)
							continue
						}
						e.Fail(c, "%v", err)
					}
					e.Case(o.Desc, o.NonTrivial, o.Labels...)
				}
			}
		}
	}
	e.Exhaustive(true)
	e.Extra("max_script_len", strconv.Itoa(L))
	e.Extra("alphabet", strconv.Itoa(len(c31Alphabet())))
	e.Extra("goroutine_settle_timeouts", timeouts)
	e.Floor("retry", 0.5)
	e.Floor("partial-nonempty", 0.4)
	e.Floor("overlong-partial", 0.05)
}

// ---------------------------------------------------------------------------
// engine: random

func c31GenStep(t *rapid.T, size int) c31Step {
	// rapid favours small numbers: the common class comes first
	k := rapid.IntRange(0, 99).Draw(t, "kind")
	switch {
	case k < 70:
	case k < 82:
		return c31Step{Kind: "status", Code: rapid.SampledFrom([]int{503, 500, 416, 404, 502, 403, 401, 402, 429, 400, 410}).Draw(t, "code")}
	case k < 92:
		return c31Step{Kind: "drop", Reset: rapid.IntRange(0, 3).Draw(t, "rst") == 0}
	default:
		return c31Step{Kind: "redirect", Code: rapid.SampledFrom([]int{302, 301, 303, 307, 308}).Draw(t, "code")}
	}
	s := c31Step{Kind: "serve"}
	s.Honour = rapid.IntRange(0, 9).Draw(t, "honour") < 6
	s.Lie206 = rapid.IntRange(0, 19).Draw(t, "lie206") == 0
	if rapid.IntRange(0, 9).Draw(t, "shifted") == 0 {
		s.Shift = rapid.SampledFrom([]int{-1, 1, -2, 2, -7, 7, -size, size}).Draw(t, "shift")
	}
	if rapid.IntRange(0, 9).Draw(t, "truncated") == 0 {
		s.Trunc = rapid.IntRange(1, size+1).Draw(t, "trunc")
	}
	if rapid.IntRange(0, 9).Draw(t, "corrupt") < 2 {
		s.Flip = rapid.SliceOfN(rapid.IntRange(0, size+8), 1, 3).Draw(t, "flip")
	}
	if rapid.IntRange(0, 9).Draw(t, "garbage") < 3 {
		s.Extra = rapid.IntRange(1, 2*size+16).Draw(t, "extra")
	}
	if rapid.IntRange(0, 9).Draw(t, "aborted") < 4 {
		s.Abort = true
		s.CutAt = rapid.IntRange(0, size+s.Extra).Draw(t, "cutat")
		s.Reset = rapid.IntRange(0, 7).Draw(t, "rst") == 0
	}
	s.Chunked = rapid.IntRange(0, 6).Draw(t, "chunked") == 0
	return s
}

func c31Gen(t *rapid.T) c31Case {
	c := c31Case{}
	switch sc := rapid.IntRange(0, 19).Draw(t, "sizeclass"); {
	case sc < 13:
		c.Size = rapid.IntRange(2, 64).Draw(t, "size")
	case sc < 16:
		c.Size = rapid.IntRange(65, 4096).Draw(t, "size")
	case sc < 18:
		c.Size = rapid.IntRange(4097, c31MaxSize).Draw(t, "size")
	default:
		c.Size = rapid.IntRange(0, 1).Draw(t, "size")
	}
	c.Seed = rapid.Uint64Range(0, 1<<20).Draw(t, "seed")
	c.PartialFlip = -1
	flip := func() int { return rapid.IntRange(0, c.Size+16).Draw(t, "pflip") }
	hi := c.Size - 1
	if hi < 1 {
		hi = 1
	}
	switch pk := rapid.IntRange(0, 99).Draw(t, "partial"); {
	case pk < 28:
		c.PartialLen = rapid.IntRange(1, hi).Draw(t, "plen")
	case pk < 46:
		c.PartialLen = rapid.IntRange(1, hi).Draw(t, "plen")
		c.PartialFlip = flip()
	case pk < 66:
		c.PartialLen = c.Size + rapid.IntRange(1, c.Size+16).Draw(t, "pover")
		if rapid.Bool().Draw(t, "pflipped") {
			c.PartialFlip = flip()
		}
	case pk < 76:
		c.PartialLen = c.Size
		c.PartialFlip = flip()
	case pk < 81:
		c.PartialLen = c.Size
	case pk < 95:
		c.PartialLen = -1
	default:
		c.PartialLen = 0
	}
	n := rapid.IntRange(1, 8).Draw(t, "steps")
	for i := 0; i < n; i++ {
		c.Script = append(c.Script, c31GenStep(t, c.Size))
	}
	c.After = rapid.SampledFrom([]string{"honest", "honest", "honest", "repeat", "repeat"}).Draw(t, "after")
	c.Retries = rapid.IntRange(2, 6).Draw(t, "retries")
	c.LeavePartial = rapid.Bool().Draw(t, "leave")
	c.NilOpts = rapid.IntRange(0, 9).Draw(t, "nilopts") == 0
	switch ck := rapid.IntRange(0, 19).Draw(t, "cache"); {
	case ck < 14:
		c.Cache = "off"
	case ck < 19:
		c.Cache = "miss"
	default:
		c.Cache = "hit"
	}
	c.Again = rapid.IntRange(0, 9).Draw(t, "again") < 7
	return c
}

func TestVerifC31Random(t *testing.T) {
	c31Setup(t)
	verifkit.Check(t, verifkit.Spec[c31Case]{
		ID: "C31", Engine: "random",
		Gen: c31Gen,
		Run: c31Run,
		Floors: map[string]float64{
			"retry":            0.5,
			"partial-nonempty": 0.4,
			"overlong-partial": 0.05,
			"restart-non206":   0.1,
			"aborted-transfer": 0.2,
			"success":          0.15,
			"error":            0.15,
		},
		NonTrivialFloor: 0.6,
	})
}
