package wrappers

// C27 — generated desktop files cannot launch anything but the snap's own apps.
//
// Unexported identifiers used: sanitizeDesktopFile (the sanitizer itself);
// exported: EnsureSnapDesktopFiles (engine "installed"), snap.InfoFromSnapYaml,
// dirs.{SnapMountDir,SnapBinariesDir,SnapDesktopFilesDir,SetRootDir}.
//
// Oracle (c27Judge): an independent re-parse of the OUTPUT the way a desktop entry
// consumer reads it (split on "\n", skip white space in front of lines and around
// keys; values are taken literally), asserting only what the property states:
//
//	line    every line is blank, a comment, a header, or key=value          (sentence 1)
//	header  headers are [Desktop Entry] / [Desktop Action <id>] / [<id> Shortcut Group]
//	key     keys come from the allow-list written out below; [locale] only on
//	        localestring keys and of the form lang[_COUNTRY][.ENCODING][@MODIFIER]
//	exec    an Exec line is "Exec=env BAMF_DESKTOP_FILE_HINT=<installed desktop file> <W>"
//	        optionally followed by " <args>", W one of the snap's own wrappers, and
//	        a launcher's argv split of it is [env, BAMF…=<file>, W, …]
//	icon    an Icon value with a "/" is the mount dir or a path under it without
//	        ".." components; a themed "snap." name is "snap.<instance>."
//	tag     every [Desktop Entry] is directly followed by X-SnapInstanceName=<instance>
//	        and that key appears nowhere else
//
// The wrapper paths, mount dir and installed file name are modelled here from the
// documented naming rules (<snap>[_<key>].<app>, <snap>[_<key>] when app==snap;
// <mount>/<instance>/<rev>; <snap>[+<key>]_<file>), not taken from snap.Info.
//
// The oracle has no completeness clause (the property is a safety statement): a
// sanitizer that drops too much passes.  Class floors on the *output* ("out-exec",
// "out-icon-path", "out-tag") make such a run inconclusive instead of green.

import (
	"fmt"
	"path/filepath"
	"sort"
	"strconv"
	"strings"
	"unicode"

	"github.com/snapcore/snapd/dirs"
	"github.com/snapcore/snapd/snap"
	"github.com/snapcore/snapd/verifkit"
)

// ---------------------------------------------------------------------------
// inputs

type c27Snap struct {
	Name string   `json:"name"`
	Key  string   `json:"key,omitempty"` // instance key
	Rev  int      `json:"rev"`           // negative = local revision (x1)
	Apps []string `json:"apps"`
}

// c27Input is what one evaluation needs, whatever engine produced it.
type c27Input struct {
	Snap    c27Snap
	File    string // base name of the desktop file inside meta/gui
	Content string // raw bytes of the shipped desktop file
}

func c27q(s string) string { return strconv.QuoteToASCII(s) }
func c27uq(q string) string {
	s, err := strconv.Unquote(q)
	if err != nil {
		panic("HARNESS: bad quoted string in case: " + q)
	}
	return s
}

func (s c27Snap) instance() string {
	if s.Key != "" {
		return s.Name + "_" + s.Key
	}
	return s.Name
}

func (s c27Snap) revString() string {
	if s.Rev < 0 {
		return "x" + strconv.Itoa(-s.Rev)
	}
	return strconv.Itoa(s.Rev)
}

// c27Cmd is the command name a snap's own desktop file uses for one of its apps
// (store name, no instance key): "<snap>.<app>", or "<snap>" when app == snap.
func c27Cmd(snapName, app string) string {
	if app == snapName {
		return snapName
	}
	return snapName + "." + app
}

// info builds the snap.Info the way the package's unit tests do.
func (s c27Snap) info() *snap.Info {
	var sb strings.Builder
	fmt.Fprintf(&sb, "name: %s\nversion: 1.0\n", s.Name)
	if len(s.Apps) > 0 {
		sb.WriteString("apps:\n")
		for _, a := range s.Apps {
			fmt.Fprintf(&sb, " %s:\n  command: cmd\n", a)
		}
	}
	info, err := snap.InfoFromSnapYaml([]byte(sb.String()))
	if err != nil {
		panic(fmt.Sprintf("HARNESS: cannot build snap info from %q: %v", sb.String(), err))
	}
	info.InstanceKey = s.Key
	info.SideInfo.RealName = s.Name
	info.SideInfo.Revision = snap.R(s.Rev)
	return info
}

// ---------------------------------------------------------------------------
// the world as the oracle sees it

type c27World struct {
	Instance    string
	MountDir    string
	Wrappers    []string
	DesktopFile string // installed path, the value of BAMF_DESKTOP_FILE_HINT
}

func c27WorldFor(s c27Snap, file string) c27World {
	w := c27World{Instance: s.instance()}
	w.MountDir = dirs.SnapMountDir + "/" + w.Instance + "/" + s.revString()
	for _, a := range s.Apps {
		if a == s.Name {
			w.Wrappers = append(w.Wrappers, dirs.SnapBinariesDir+"/"+w.Instance)
		} else {
			w.Wrappers = append(w.Wrappers, dirs.SnapBinariesDir+"/"+w.Instance+"."+a)
		}
	}
	sort.Strings(w.Wrappers)
	prefix := s.Name
	if s.Key != "" {
		prefix = s.Name + "+" + s.Key
	}
	w.DesktopFile = dirs.SnapDesktopFilesDir + "/" + prefix + "_" + file
	return w
}

// ---------------------------------------------------------------------------
// oracle

type c27Viol struct{ Clause, Msg string }

// c27IsWS: the widest white space any desktop entry reader in use strips around
// lines and keys (GKeyFile: ASCII white space; pyxdg: str.strip(), which also
// takes Unicode spaces and the separators 0x1c-0x1f).
func c27IsWS(r rune) bool { return unicode.IsSpace(r) || (r >= 0x1c && r <= 0x1f) }

func c27IdentOK(id string) bool {
	if id == "" {
		return false
	}
	for i := 0; i < len(id); i++ {
		c := id[i]
		if !(c >= '0' && c <= '9' || c >= 'a' && c <= 'z' || c >= 'A' && c <= 'Z' || c == '-') {
			return false
		}
	}
	return true
}

func c27HeaderOK(t string) bool {
	const act, grp = "[Desktop Action ", " Shortcut Group]"
	switch {
	case t == "[Desktop Entry]":
		return true
	case strings.HasPrefix(t, act) && strings.HasSuffix(t, "]"):
		return c27IdentOK(t[len(act) : len(t)-1])
	case strings.HasPrefix(t, "[") && strings.HasSuffix(t, grp) && len(t) > len(grp):
		return c27IdentOK(t[1 : len(t)-len(grp)])
	}
	return false
}

// allow-list of the property ("only allowlisted keys"); true = localestring.
var c27Keys = map[string]bool{
	"Type": false, "Version": false, "Name": true, "GenericName": true, "NoDisplay": false,
	"Comment": true, "Icon": false, "Hidden": false, "OnlyShowIn": false, "NotShowIn": false,
	"Exec": false, "Terminal": false, "Actions": false, "MimeType": false, "Categories": false,
	"Keywords": true, "StartupNotify": false, "StartupWMClass": false,
	"PrefersNonDefaultGPU": false, "SingleMainWindow": false,
	"X-Ayatana-Desktop-Shortcuts": false, "TargetEnvironment": false,
}

func c27All(s string, ok func(byte) bool) bool {
	if s == "" {
		return false
	}
	for i := 0; i < len(s); i++ {
		if !ok(s[i]) {
			return false
		}
	}
	return true
}

func c27Alpha(c byte) bool { return c >= 'a' && c <= 'z' || c >= 'A' && c <= 'Z' }
func c27Alnum(c byte) bool { return c27Alpha(c) || c >= '0' && c <= '9' }

// c27LocaleOK: lang[_COUNTRY][.ENCODING][@MODIFIER] (Desktop Entry spec,
// "Localized values for keys"); character classes deliberately generous.
func c27LocaleOK(loc string) bool {
	rest := loc
	if i := strings.IndexByte(rest, '@'); i >= 0 {
		if !c27All(rest[i+1:], c27Alnum) {
			return false
		}
		rest = rest[:i]
	}
	if i := strings.IndexByte(rest, '.'); i >= 0 {
		if !c27All(rest[i+1:], func(c byte) bool { return c27Alnum(c) || c == '-' }) {
			return false
		}
		rest = rest[:i]
	}
	if i := strings.IndexByte(rest, '_'); i >= 0 {
		if !c27All(rest[i+1:], c27Alnum) {
			return false
		}
		rest = rest[:i]
	}
	return c27All(rest, c27Alpha)
}

// c27Argv splits an Exec value the way launchers do: arguments separated by
// blanks, double quoted arguments with backslash escapes (Desktop Entry spec,
// "The Exec key"); GLib's shell-style parser also takes single quotes and
// backslash outside quotes.  ok=false: unbalanced quoting, nothing is launched.
func c27Argv(s string) (argv []string, ok bool) {
	var cur []byte
	in := false
	for i := 0; i < len(s); i++ {
		c := s[i]
		switch {
		case c == ' ' || c == '\t':
			if in {
				argv = append(argv, string(cur))
				cur, in = nil, false
			}
		case c == '"':
			in = true
			i++
			for ; i < len(s) && s[i] != '"'; i++ {
				if s[i] == '\\' && i+1 < len(s) {
					i++
				}
				cur = append(cur, s[i])
			}
			if i >= len(s) {
				return nil, false
			}
		case c == '\'':
			in = true
			i++
			for ; i < len(s) && s[i] != '\''; i++ {
				cur = append(cur, s[i])
			}
			if i >= len(s) {
				return nil, false
			}
		case c == '\\':
			in = true
			if i+1 >= len(s) {
				return nil, false
			}
			i++
			cur = append(cur, s[i])
		default:
			in = true
			cur = append(cur, c)
		}
	}
	if in {
		argv = append(argv, string(cur))
	}
	return argv, true
}

func c27In(x string, xs []string) bool {
	for _, y := range xs {
		if x == y {
			return true
		}
	}
	return false
}

func c27Clip(s string) string {
	if len(s) > 160 {
		return s[:160] + "…"
	}
	return s
}

type c27OutFacts struct {
	Exec, IconPath, Tag, Lines int
}

// c27Judge re-parses a sanitized desktop file.
func c27Judge(w c27World, out string) (viols []c27Viol, facts c27OutFacts) {
	bad := func(clause, f string, a ...interface{}) {
		if len(viols) < 8 {
			viols = append(viols, c27Viol{clause, fmt.Sprintf(f, a...)})
		}
	}
	tagLine := "X-SnapInstanceName=" + w.Instance
	lines := strings.Split(out, "\n")
	prevEntry := false
	for i, raw := range lines {
		wasEntry := prevEntry
		prevEntry = false
		// readers skip white space in front of a line; what follows a value is
		// part of the value (GKeyFile keeps it; the statement says nothing else),
		// only group headers are compared with their trailing blanks removed
		t := strings.TrimLeftFunc(raw, c27IsWS)
		if t == "" || t[0] == '#' {
			continue
		}
		facts.Lines++
		if t[0] == '[' {
			t = strings.TrimRightFunc(t, c27IsWS)
			if !c27HeaderOK(t) {
				bad("header", "output line %d: header %q is not one of the allowed forms", i, c27Clip(t))
			}
			if t == "[Desktop Entry]" {
				prevEntry = true
				if i+1 >= len(lines) || lines[i+1] != tagLine {
					next := "<end of file>"
					if i+1 < len(lines) {
						next = lines[i+1]
					}
					bad("tag", "output line %d: [Desktop Entry] is followed by %q, not by %q", i, c27Clip(next), tagLine)
				}
			}
			continue
		}
		eq := strings.IndexByte(t, '=')
		if eq < 0 {
			bad("line", "output line %d: %q is neither blank, comment, header nor key=value", i, c27Clip(t))
			continue
		}
		key := strings.TrimFunc(t[:eq], c27IsWS)
		val := t[eq+1:]
		if key == "X-SnapInstanceName" {
			if !wasEntry || raw != tagLine {
				bad("tag", "output line %d: %q is not the instance tag %q directly after [Desktop Entry]", i, c27Clip(raw), tagLine)
			} else {
				facts.Tag++
			}
			continue
		}
		base, locale, hasLocale := key, "", false
		if strings.HasSuffix(key, "]") {
			if j := strings.IndexByte(key, '['); j >= 0 {
				base, locale, hasLocale = key[:j], key[j+1:len(key)-1], true
			}
		}
		localizable, allowed := c27Keys[base]
		if !allowed {
			bad("key", "output line %d: key %q is not allow-listed (line %q)", i, c27Clip(key), c27Clip(t))
			continue
		}
		if hasLocale && (!localizable || !c27LocaleOK(locale)) {
			bad("key", "output line %d: key %q carries a locale it may not have (line %q)", i, c27Clip(key), c27Clip(t))
			continue
		}
		switch base {
		case "Exec":
			facts.Exec++
			p := "Exec=env BAMF_DESKTOP_FILE_HINT=" + w.DesktopFile + " "
			lit := false
			for _, wr := range w.Wrappers {
				if t == p+wr || strings.HasPrefix(t, p+wr+" ") {
					lit = true
				}
			}
			if !lit {
				bad("exec", "output line %d: %q does not start one of the snap's wrappers %v via %q", i, c27Clip(t), w.Wrappers, p)
				break
			}
			if argv, ok := c27Argv(val); ok {
				if len(argv) < 3 || argv[0] != "env" || argv[1] != "BAMF_DESKTOP_FILE_HINT="+w.DesktopFile || !c27In(argv[2], w.Wrappers) {
					bad("exec", "output line %d: a launcher splits %q into %q: the command run by env is not one of %v", i, c27Clip(t), argv, w.Wrappers)
				}
			}
		case "Icon":
			v := strings.TrimLeftFunc(val, c27IsWS)
			if strings.Contains(v, "/") {
				facts.IconPath++
				inside := v == w.MountDir || strings.HasPrefix(v, w.MountDir+"/")
				for _, comp := range strings.Split(v, "/") {
					if comp == ".." {
						inside = false
					}
				}
				if !inside {
					bad("icon", "output line %d: icon path %q does not lie inside the snap (%s)", i, c27Clip(v), w.MountDir)
				}
			} else if strings.HasPrefix(val, "snap.") && !strings.HasPrefix(val, "snap."+w.Instance+".") {
				bad("icon-theme", "output line %d: themed icon %q names another snap's icon (want prefix %q)", i, c27Clip(val), "snap."+w.Instance+".")
			}
		}
	}
	return viols, facts
}

// ---------------------------------------------------------------------------
// evaluation shared by the engines

// characters that make a desktop file *name* hostile when it is pasted into an
// Exec line: anything a launcher's argv split or the line split reacts to.
func c27HostileName(file string) bool {
	for _, r := range file {
		if r <= ' ' || r == '"' || r == '\'' || r == '\\' || r == '#' || r == 0x7f || c27IsWS(r) {
			return true
		}
	}
	return false
}

func c27TameName(file string) string {
	return strings.Map(func(r rune) rune {
		if r <= ' ' || r == '"' || r == '\'' || r == '\\' || r == '#' || r == 0x7f || c27IsWS(r) {
			return '_'
		}
		return r
	}, file)
}

// c27StrayVarIcon reports an input line "Icon=<v>" that carries ${SNAP} where the
// sanitizer's path check does not look: v has no "/" at all (taken for a themed
// name) or v is "${SNAP}/<rest>" with another ${SNAP} in <rest>.  Used only to
// classify finding F-C27-2.
func c27StrayVarIcon(line string) bool {
	line = strings.TrimSuffix(line, "\r")
	if !strings.HasPrefix(line, "Icon=") {
		return false
	}
	v := line[len("Icon="):]
	if !strings.Contains(v, "/") {
		return strings.Contains(v, "${SNAP}")
	}
	return strings.HasPrefix(v, "${SNAP}/") && strings.Contains(v[len("${SNAP}/"):], "${SNAP}")
}

func c27DropStrayVarIcons(content string) (string, bool) {
	ls := strings.Split(content, "\n")
	out := ls[:0:0]
	changed := false
	for _, l := range ls {
		if c27StrayVarIcon(l) {
			changed = true
			continue
		}
		out = append(out, l)
	}
	return strings.Join(out, "\n"), changed
}

func c27Sanitize(in c27Input) (c27World, string) {
	w := c27WorldFor(in.Snap, in.File)
	info := in.Snap.info()
	// mirrors deriveDesktopFilesContent: installed name = <prefix>_<base>
	installed := filepath.Join(dirs.SnapDesktopFilesDir, fmt.Sprintf("%s_%s", info.DesktopPrefix(), in.File))
	return w, string(sanitizeDesktopFile(info, installed, []byte(in.Content)))
}

func c27Only(viols []c27Viol, clauses ...string) bool {
	for _, v := range viols {
		if !c27In(v.Clause, clauses) {
			return false
		}
	}
	return true
}

// c27AssumeKnown: only KNOWN_FINDINGS.jsonl decides what is known (no env switch).
func c27AssumeKnown(fp string) bool {
	return verifkit.IsKnown("C27", fp)
}

// c27Verdict turns violations into the error returned by Run.  Two defects of the
// unchanged tree get narrow fingerprints; each is recognised by the violations
// vanishing once exactly the offending input feature is neutralised:
//
//	F-C27-1  the desktop file *name* has characters a launcher's argv split or
//	         the line split reacts to; gone when those are replaced by "_"
//	F-C27-2  only "icon" violations, gone when the Icon lines carrying ${SNAP}
//	         somewhere else than as the leading "${SNAP}/" are removed
func c27Verdict(in c27Input, viols []c27Viol, judge func(c27Input) []c27Viol, o *verifkit.Outcome) error {
	if len(viols) == 0 {
		return nil
	}
	msg := fmt.Sprintf("%s: %s (+%d more) [snap %s apps %v file %q]", viols[0].Clause, viols[0].Msg, len(viols)-1, in.Snap.instance(), in.Snap.Apps, in.File)
	tame := in
	rest := viols
	var fps []string
	if c27HostileName(in.File) {
		tame.File = c27TameName(in.File)
		rest = judge(tame)
		if fmt.Sprint(rest) != fmt.Sprint(viols) {
			fps = append(fps, "F-C27-1")
		}
	}
	if len(rest) > 0 {
		noStray := tame
		changed := false
		noStray.Content, changed = c27DropStrayVarIcons(tame.Content)
		if !changed || !c27Only(rest, "icon") || len(judge(noStray)) != 0 {
			return verifkit.Violatef("%s", msg)
		}
		fps = append(fps, "F-C27-2")
	}
	switch fps[0] {
	case "F-C27-1":
		msg = "desktop file name is pasted unescaped into the Exec line: " + msg
	case "F-C27-2":
		msg = "${SNAP} outside the leading \"${SNAP}/\" of an Icon value is substituted after the path check: " + msg
	}
	assumed := false
	for _, fp := range fps {
		if verifkit.IsKnown("C27", fp) {
			continue
		}
		if !c27AssumeKnown(fp) {
			return verifkit.Knownf(fp, "%s", msg)
		}
		assumed = true
		o.Labels = append(o.Labels, "assumed-known-"+fp)
	}
	if assumed {
		return nil
	}
	return verifkit.Knownf(fps[0], "%s", msg)
}

func c27JudgeInput(in c27Input) []c27Viol {
	w, out := c27Sanitize(in)
	v, _ := c27Judge(w, out)
	return v
}

// c27Light: cheap under-approximations of "must be kept" / "must be dropped or
// rewritten" for inputs whose lines carry no generator intent (engine "mutate").
func c27Light(content string) (keep, change bool) {
	for _, l := range strings.Split(content, "\n") {
		l = strings.TrimSuffix(l, "\r")
		switch {
		case l == "[Desktop Entry]":
			keep = true
		case strings.HasPrefix(l, "Exec=") || strings.HasPrefix(l, "Icon=${SNAP}") || strings.HasPrefix(l, "Icon=snap."):
			change = true
		default:
			for _, p := range []string{"Name=", "Type=", "Comment=", "Terminal=", "Categories=", "Keywords=", "StartupNotify="} {
				if strings.HasPrefix(l, p) {
					keep = true
				}
			}
			if t := strings.TrimSpace(l); t != "" && t[0] != '#' && t[0] != '[' && !strings.Contains(t, "=") {
				change = true
			}
		}
	}
	return
}

func c27Desc(in c27Input) string {
	c := in.Content
	if len(c) > 420 {
		c = c[:420] + "…"
	}
	return fmt.Sprintf("snap=%s rev=%s apps=%v file=%q content=%q", in.Snap.instance(), in.Snap.revString(), in.Snap.Apps, in.File, c)
}

func c27OutLabels(o *verifkit.Outcome, f c27OutFacts) {
	if f.Exec > 0 {
		o.Labels = append(o.Labels, "out-exec")
	}
	if f.IconPath > 0 {
		o.Labels = append(o.Labels, "out-icon-path")
	}
	if f.Tag > 0 {
		o.Labels = append(o.Labels, "out-tag")
	}
}
