package wrappers

// C27 engines: generators and test functions.  Oracle: verif_c27_test.go.
//
//	lines      desktop files built line-wise from intent-labelled line classes, run
//	           through sanitizeDesktopFile
//	mutate     the desktop files shipped in the repository's test snaps (read through
//	           VERIF_REPO, with their real snap.yaml) under byte-level mutation
//	installed  small generated files written to <mount>/meta/gui and installed with
//	           EnsureSnapDesktopFiles; the files found in the applications dir are judged
//	oracle     the judge itself on hand-written good and bad outputs (never a
//	           property verdict: a mismatch is a harness error)

import (
	"fmt"
	"os"
	"path/filepath"
	"sort"
	"strings"
	"sync"
	"testing"

	"github.com/snapcore/snapd/dirs"
	"github.com/snapcore/snapd/snap"
	"github.com/snapcore/snapd/verifkit"
	"pgregory.net/rapid"
)

// ---------------------------------------------------------------------------
// case shape of the line-wise engines

type c27Line struct {
	Q    string `json:"q"`              // strconv.QuoteToASCII of the line (no EOL)
	Pad  string `json:"pad,omitempty"`  // appended PadN times (very long lines)
	PadN int    `json:"padn,omitempty"` //
	Kind string `json:"kind"`           // generator intent: keep | change (drop or rewrite) | fuzzed
	Tag  string `json:"tag,omitempty"`  // generator class
}

type c27LinesCase struct {
	Snap  c27Snap
	FileQ string // quoted base name of the desktop file
	Lines []c27Line
	CRLF  bool
	Final bool // file ends with a newline
}

func (c c27LinesCase) input() c27Input {
	eol := "\n"
	if c.CRLF {
		eol = "\r\n"
	}
	var sb strings.Builder
	for i, l := range c.Lines {
		sb.WriteString(c27uq(l.Q))
		for k := 0; k < l.PadN; k++ {
			sb.WriteString(l.Pad)
		}
		if i < len(c.Lines)-1 || c.Final {
			sb.WriteString(eol)
		}
	}
	return c27Input{Snap: c.Snap, File: c27uq(c.FileQ), Content: sb.String()}
}

// ---------------------------------------------------------------------------
// generators

// rapid's integer generators favour small and boundary values (measured:
// IntRange(0,999)<30 in 49 % of draws); class weights and rare events therefore
// come from fair coin flips.
func c27U(t *rapid.T, n int, label string) int {
	v := 0
	for i := 0; i < 12; i++ {
		v <<= 1
		if rapid.Bool().Draw(t, label) {
			v |= 1
		}
	}
	return v % n
}

// c27Rare is true with probability 2^-bits.
func c27Rare(t *rapid.T, bits int, label string) bool {
	all := true
	for i := 0; i < bits; i++ {
		if !rapid.Bool().Draw(t, label) {
			all = false
		}
	}
	return all
}

func c27GenSnap(t *rapid.T) c27Snap {
	s := c27Snap{}
	s.Name = rapid.OneOf(
		rapid.SampledFrom([]string{"snap", "foo", "app", "a0", "test-snapd-desktop", "firefox", "s-n"}),
		rapid.StringMatching(`[a-z][a-z0-9]{1,5}(-[a-z0-9]{1,4})?`),
	).Draw(t, "snap")
	if rapid.Bool().Draw(t, "haskey") {
		s.Key = rapid.OneOf(rapid.SampledFrom([]string{"bar", "1", "instance", "x"}), rapid.StringMatching(`[a-z0-9]{1,10}`)).Draw(t, "key")
	}
	switch c27U(t, 6, "revkind") {
	case 0:
		s.Rev = -rapid.IntRange(1, 30).Draw(t, "xrev")
	case 1:
		s.Rev = rapid.SampledFrom([]int{1, 10, 12, 120}).Draw(t, "rev")
	default:
		s.Rev = rapid.IntRange(1, 9999).Draw(t, "rev")
	}
	n := 1 + c27U(t, 3, "napps")
	seen := map[string]bool{}
	for i := 0; i < n; i++ {
		a := rapid.OneOf(
			rapid.SampledFrom([]string{"app", "app2", "app-x", "a", "sh", "env", "App", "0", s.Name, s.Name}),
			rapid.StringMatching(`[a-zA-Z0-9]{1,4}(-[a-z0-9]{1,3})?`),
		).Draw(t, "app")
		if !seen[a] {
			seen[a] = true
			s.Apps = append(s.Apps, a)
		}
	}
	return s
}

// c27GenFile draws the base name of the shipped desktop file; hostile==true when
// it has characters outside [A-Za-z0-9._+-].
func c27GenFile(t *rapid.T, s c27Snap, hostileBits int) string {
	stem := ""
	switch c27U(t, 6, "filekind") {
	case 0, 1:
		stem = rapid.SampledFrom(s.Apps).Draw(t, "fileapp") // the fallback convention: <app>.desktop
	case 2:
		stem = rapid.SampledFrom([]string{"foo", "io.snapcraft.echoecho", "org.example.App", "x", "a.b", "A+b", "-", "app.desktop"}).Draw(t, "filestem")
	default:
		stem = rapid.StringMatching(`[A-Za-z0-9._+-]{1,12}`).Draw(t, "filestem")
	}
	if c27Rare(t, hostileBits, "hostile") {
		ins := rapid.SampledFrom([]string{" ", "  ", "\t", "\n", "\r", "\"", "'", "\\", " #", " sh -c xcalc ", "\nExec=sh -c xcalc ", "\" \"", "\u00a0", " x", "y "}).Draw(t, "fileins")
		pos := c27U(t, len(stem)+1, "filepos")
		stem = stem[:pos] + ins + stem[pos:]
	}
	return stem + ".desktop"
}

var c27ValueGen = rapid.OneOf(
	rapid.SampledFrom([]string{"foo", "Firefox Web Browser", "true", "false", "Application", "1.0", "Utilities;Useful;", "echo;echo;",
		"text/html;x-scheme-handler/http;", "NewWindow;Private", "Unity", "GNOME;KDE;", "${SNAP}/share/x", "a=b", "Qapla'", "", " ", "x ${SNAP} y",
		"/bin/sh", "Exec=/bin/sh", "[Desktop Entry]", "%U", "été", "日本語", "a\tb", "# not a comment"}),
	rapid.StringMatching(`[ -~]{0,24}`),
)

var c27AllowedKeys = []string{"Type", "Version", "Name", "GenericName", "NoDisplay", "Comment", "Hidden", "OnlyShowIn", "NotShowIn",
	"Terminal", "Actions", "MimeType", "Categories", "Keywords", "StartupNotify", "StartupWMClass", "PrefersNonDefaultGPU",
	"SingleMainWindow", "X-Ayatana-Desktop-Shortcuts", "TargetEnvironment"}

var c27LocalKeys = []string{"Name", "GenericName", "Comment", "Keywords"}

var c27GoodLocales = []string{"de", "tlh_TLH", "ca@valencia", "sr@latin", "lang_COUNTRY.ENC-0DING@modifier", "pt_BR", "zh_CN.UTF-8", "en_GB.ISO-8859-1", "lang.ENC-0DING"}

var c27BadLocales = []string{"_COUNTRY", ".ENC-0DING", "@modifier", "", "de_", "de@", "de.", "d e", "de/../x", "de][fr", "de]x[", "DE-at", "de_DE_DE", "de@@x", "de ", " de", "de\t", "../../x", "de=fr", "${SNAP}"}

var c27ForeignKeys = []string{"TryExec", "Path", "DBusActivatable", "URL", "Implements", "X-GNOME-Autostart-enabled", "X-SnapInstanceName",
	"X-KDE-SubstituteUID", "UnknownKey", "Invalid", "exec", "EXEC", "Exec ", "Name ", "Type\t", "TryExec ", "Icon ", "XExec", "ExecX", "MyName", "X-Exec", "Exec-", "Exe"}

var c27Args = []string{"%U", "%f", "%F --new-window", "-- /bin/sh", "; rm -rf /", "\"quoted arg\" %u", "\"unbalanced", "${SNAP}/x", " ", "  two", "\tx", "'a b'", "\\", "| sh", "&& sh", "$(sh)", "`sh`", "Exec=/bin/sh", "\r", "x\ry"}

var c27WS = []string{" ", "\t", "\f", "\r", "\x0b", "\u00a0", "\u2028", "\x1f", "\x1c", "\u3000", "\ufeff", "\x00", "\x85", "  ", " \t"}

type c27Gen struct {
	t *rapid.T
	s c27Snap
}

func (g c27Gen) line(text, kind, tag string) c27Line { return c27Line{Q: c27q(text), Kind: kind, Tag: tag} }

func (g c27Gen) ownCmd() string {
	return c27Cmd(g.s.Name, rapid.SampledFrom(g.s.Apps).Draw(g.t, "ownapp"))
}

func (g c27Gen) value() string { return c27ValueGen.Draw(g.t, "value") }

func (g c27Gen) keepLine() c27Line {
	t := g.t
	switch c27U(t, 10, "keepkind") {
	case 0:
		return g.line("[Desktop Entry]", "keep", "header")
	case 1:
		id := rapid.SampledFrom([]string{"is-ok", "NewWindow", "Private", "a", "0", "-", "new-private-window"}).Draw(t, "id")
		if rapid.Bool().Draw(t, "grp") {
			return g.line("["+id+" Shortcut Group]", "keep", "header")
		}
		return g.line("[Desktop Action "+id+"]", "keep", "header")
	case 2:
		k := rapid.SampledFrom(c27LocalKeys).Draw(t, "lkey")
		return g.line(k+"["+rapid.SampledFrom(c27GoodLocales).Draw(t, "loc")+"]="+g.value(), "keep", "locale")
	case 3:
		return g.line(rapid.SampledFrom([]string{"", "", " ", "\t", " \t\f", "# comment", "  # indented", "#Exec=/bin/sh", "\t#[Desktop Entry]", "#", "# ${SNAP}"}).Draw(t, "blank"), "keep", "blank")
	case 4:
		return g.line("Icon="+rapid.SampledFrom([]string{"firefox", "org.gnome.Foo", "x", "", "snapx", "Snap.other.x", "application-default-icon"}).Draw(t, "themed"), "keep", "icon-themed")
	default:
		return g.line(rapid.SampledFrom(c27AllowedKeys).Draw(t, "key")+"="+g.value(), "keep", "key")
	}
}

func (g c27Gen) execLine() c27Line {
	t := g.t
	cmd := g.ownCmd()
	switch c27U(t, 12, "execkind") {
	case 0, 1, 2:
		return g.line("Exec="+cmd, "change", "exec-own")
	case 3, 4, 5:
		return g.line("Exec="+cmd+" "+rapid.SampledFrom(c27Args).Draw(t, "args"), "change", "exec-own")
	case 6, 7:
		// prefix collisions: the own command followed by something that is not a blank
		tail := rapid.SampledFrom([]string{"2", "x", ";rm", "/../../../bin/sh", "\t/bin/sh", ".evil.evil", "-x", "\x00", "\u00a0x", "=", "_bar", "%U", "\" x", "\\ x"}).Draw(t, "tail")
		return g.line("Exec="+cmd+tail+rapid.SampledFrom([]string{"", " %U", " x"}).Draw(t, "tail2"), "change", "exec-collision")
	case 8:
		other := rapid.SampledFrom([]string{"/bin/sh", "sh -c xcalc", "env X=1 " + cmd, "/snap/bin/" + cmd, dirs.SnapBinariesDir + "/" + cmd, "${SNAP}/bin/x",
			"othersnap.app", "othersnap", g.s.Name + ".nosuchapp", g.s.instance() + ".app", "", " " + cmd, cmd[:len(cmd)-1], strings.ToUpper(cmd), "snap run " + g.s.Name, "baz"}).Draw(t, "foreign")
		return g.line("Exec="+other, "change", "exec-foreign")
	case 9:
		// other spellings of the key
		k := rapid.SampledFrom([]string{"TryExec=", "Exec =", "Exec[de]=", " Exec=", "\tExec=", "\rExec=", "\x0bExec=", "\u00a0Exec=", "\xef\xbb\xbfExec=", "\x1fExec=", "exec=", "Exec\t=", "Exec\u00a0="}).Draw(t, "speltkey")
		v := rapid.SampledFrom([]string{"/bin/sh", cmd, cmd + " %U", "sh -c xcalc"}).Draw(t, "speltval")
		return g.line(k+v, "change", "exec-spelling")
	default:
		// smuggling: a refused line that contains an allowed one further right
		inner := rapid.SampledFrom([]string{"Name=x", "Exec=" + cmd, "Type=Application", "[Desktop Entry]", "#", "Icon=x"}).Draw(t, "inner")
		pre := rapid.SampledFrom([]string{"TryExec=/bin/sh ", "X", " Exec=/bin/sh;", "Path=/;", "Exec =sh #", "x ", "DBusActivatable=true\r", "Try", "\u00a0"}).Draw(t, "smugglepre")
		return g.line(pre+inner, "change", "smuggle")
	}
}

func (g c27Gen) iconLine(strayBits int) c27Line {
	t := g.t
	if c27Rare(t, strayBits, "stray") {
		v := rapid.SampledFrom([]string{"x${SNAP}", "${SNAP}x", "..${SNAP}", "${SNAP}/..${SNAP}", "${SNAP}0", "snap." + g.s.Name + ".${SNAP}", "${SNAP}/a${SNAP}/..${SNAP}"}).Draw(t, "strayval")
		return g.line("Icon="+v, "change", "icon-stray-var")
	}
	switch c27U(t, 6, "iconkind") {
	case 0, 1:
		rel := rapid.SampledFrom([]string{"meta/gui/icon.png", "icon.svg", "a/b/c.png", "..x/y", "a..b", ".hidden", "x/${SNAP}/y", "...", "a/...", "${SNAP}", "a b.png", "%U"}).Draw(t, "rel")
		return g.line("Icon=${SNAP}/"+rel, "change", "icon-path")
	case 2:
		return g.line("Icon=snap."+g.s.Name+"."+rapid.SampledFrom([]string{"icon", "foo", "", "a.b"}).Draw(t, "themedown"), "change", "icon-own-theme")
	case 3:
		v := rapid.SampledFrom([]string{"snap.othersnap.icon", "snap." + g.s.Name + "x.icon", "snap." + g.s.Name, "snap.", "snap." + g.s.instance() + "x.icon", "snap.." + g.s.Name + ".x"}).Draw(t, "themedother")
		return g.line("Icon="+v, "change", "icon-other-theme")
	default:
		v := rapid.SampledFrom([]string{"/etc/passwd", "${SNAP}/../x", "${SNAP}/./icon.png", "${SNAP}//x", "${SNAP}/a/../../b", "../x", "a/b", "/", "${SNAP}/..", "${SNAP}/x/..",
			"${SNAP}/x/", "/${SNAP}/x", "${SNAP}x/y", "$SNAP/x", "${SNAP}/../" + g.s.Name + "/current/x", "/snap/" + g.s.Name + "/current/icon.png",
			dirs.SnapMountDir + "/" + g.s.instance() + "/" + g.s.revString() + "/../x", dirs.SnapMountDir + "/othersnap/1/icon.png", "./x", "~/x", "file:///etc/passwd",
			"${SNAP}/x/../../../etc/passwd", " /etc/passwd", "${SNAP}/a/./b", "x/${SNAP}/../y"}).Draw(t, "iconbad")
		return g.line("Icon="+v, "change", "icon-escape")
	}
}

func (g c27Gen) dropLine() c27Line {
	t := g.t
	switch c27U(t, 5, "dropkind") {
	case 0:
		k := rapid.SampledFrom(c27ForeignKeys).Draw(t, "fkey")
		return g.line(k+"="+rapid.SampledFrom([]string{"/bin/sh", "true", "baz", g.s.instance(), "othersnap", "x"}).Draw(t, "fval"), "change", "foreign-key")
	case 1:
		loc := rapid.SampledFrom(append([]string{"de", "de", "i18n"}, c27BadLocales...)).Draw(t, "badloc")
		keys := []string{"Icon", "Exec", "Type", "Invalid"} // a good locale on a key that may not carry one
		if loc != "de" {
			keys = append(keys, c27LocalKeys...)
		}
		return g.line(rapid.SampledFrom(keys).Draw(t, "blkey")+"["+loc+"]=x", "change", "bad-locale")
	case 2:
		h := rapid.SampledFrom([]string{"[Desktop Entry] ", " [Desktop Entry]", "[Desktop Entry]x", "[Desktop entry]", "[Desktop Action a b]", "[Desktop Action ]", "[Desktop Action a/b]",
			"[Foo]", "[X-Foo Group]", "[ Shortcut Group]", "[a b Shortcut Group]", "[Desktop Entry][Desktop Entry]", "[Desktop Entry", "Desktop Entry]", "[Desktop Action a]]",
			"[Desktop Action a]\t", "[Desktop Action ${SNAP}]", "[[Desktop Entry]]", "[Desktop Action é]", "[Desktop Entry]\x00", "\ufeff[Desktop Entry]", "[Desktop Entry]\u00a0"}).Draw(t, "badhdr")
		return g.line(h, "change", "bad-header")
	case 3:
		return g.line(rapid.SampledFrom([]string{"nonsense", "Exec", "Name", "=x", "= ", "/bin/sh", "%", "${SNAP}", "Name:foo", "Exec /bin/sh", "!", "\x00", "\x0b", "\u00a0", "\xff\xfe"}).Draw(t, "junk"), "change", "junk")
	default:
		// an allowed line that does not start in column 0
		l := g.keepLine()
		if l.Tag == "blank" {
			return g.line("x", "change", "junk")
		}
		return g.line(rapid.SampledFrom(c27WS).Draw(t, "lead")+c27uq(l.Q), "change", "indented")
	}
}

func (g c27Gen) anyLine(strayBits int) c27Line {
	t := g.t
	var l c27Line
	switch k := c27U(t, 100, "linekind"); {
	case k < 40:
		l = g.keepLine()
	case k < 62:
		l = g.execLine()
	case k < 78:
		l = g.iconLine(strayBits)
	default:
		l = g.dropLine()
	}
	// byte-level disturbance of an otherwise classed line
	if c27Rare(t, 6, "fuzz") {
		s := c27uq(l.Q)
		pos := c27U(t, len(s)+1, "fuzzpos")
		s = s[:pos] + rapid.SampledFrom(c27WS).Draw(t, "fuzzch") + s[pos:]
		l = g.line(s, "fuzzed", l.Tag)
	}
	// very long lines: beyond bufio.Scanner's 64 KiB token limit
	if c27Rare(t, 8, "long") {
		l.Pad = rapid.SampledFrom([]string{"x", "ab ", "${SNAP}", "=", " %U"}).Draw(t, "pad")
		l.PadN = rapid.SampledFrom([]int{100, 21845, 65535, 65536, 66000, 70000}).Draw(t, "padn")
		if len(l.Pad)*l.PadN > 140000 {
			l.PadN = 140000 / len(l.Pad)
		}
		l.Kind = "fuzzed"
	}
	return l
}

func c27GenLines(t *rapid.T, maxLines, hostileBits, strayBits int) c27LinesCase {
	c := c27LinesCase{Snap: c27GenSnap(t)}
	c.FileQ = c27q(c27GenFile(t, c.Snap, hostileBits))
	g := c27Gen{t, c.Snap}
	if !c27Rare(t, 3, "nohdr") {
		c.Lines = append(c.Lines, g.line("[Desktop Entry]", "keep", "header"))
	}
	n := c27U(t, maxLines+1, "nlines")
	for i := 0; i < n; i++ {
		c.Lines = append(c.Lines, g.anyLine(strayBits))
	}
	c.CRLF = c27Rare(t, 3, "crlf")
	c.Final = !c27Rare(t, 2, "nofinal")
	return c
}

func c27LineLabels(c c27LinesCase, in c27Input, o *verifkit.Outcome) {
	keep, change := false, false
	tags := map[string]bool{}
	for _, l := range c.Lines {
		switch l.Kind {
		case "keep":
			keep = true
		case "change":
			change = true
		case "fuzzed":
			tags["control-chars"] = true
		}
		if l.PadN > 1000 {
			tags["long-line"] = true
		}
		tags[l.Tag] = true
	}
	o.NonTrivial = keep && change
	if c.Snap.Key != "" {
		tags["instance-key"] = true
	}
	if c.CRLF {
		tags["crlf"] = true
	}
	if !c.Final {
		tags["no-trailing-newline"] = true
	}
	if c27HostileName(in.File) {
		tags["hostile-filename"] = true
	}
	if c27In(strings.TrimSuffix(in.File, ".desktop"), c.Snap.Apps) {
		tags["file-named-after-app"] = true
	}
	delete(tags, "")
	o.Labels = append(o.Labels, verifkit.SortedKeys(tags)...)
}

// ---------------------------------------------------------------------------
// engine "lines"

func c27RunLines(c c27LinesCase) (verifkit.Outcome, error) {
	in := c.input()
	o := verifkit.Outcome{Desc: c27Desc(in)}
	c27LineLabels(c, in, &o)
	w, out := c27Sanitize(in)
	viols, facts := c27Judge(w, out)
	c27OutLabels(&o, facts)
	return o, c27Verdict(in, viols, c27JudgeInput, &o)
}

var c27LineFloors = map[string]float64{
	"instance-key": 0.3, "exec-own": 0.3, "exec-collision": 0.1, "exec-foreign": 0.05, "exec-spelling": 0.05, "smuggle": 0.05,
	"icon-path": 0.15, "icon-escape": 0.15, "icon-other-theme": 0.05, "foreign-key": 0.1, "bad-locale": 0.1, "bad-header": 0.1,
	"indented": 0.1, "locale": 0.1, "control-chars": 0.05, "long-line": 0.01, "crlf": 0.05, "no-trailing-newline": 0.1,
	"file-named-after-app": 0.15, "hostile-filename": 0.01, "icon-stray-var": 0.005,
	"out-exec": 0.4, "out-icon-path": 0.15, "out-tag": 0.6,
}

func TestVerifC27Lines(t *testing.T) {
	maxLines := verifkit.Size(24, 40)
	verifkit.Check(t, verifkit.Spec[c27LinesCase]{
		ID: "C27", Engine: "lines",
		Gen:             func(t *rapid.T) c27LinesCase { return c27GenLines(t, maxLines, 5, 6) },
		Run:             c27RunLines,
		Floors:          c27LineFloors,
		NonTrivialFloor: 0.6,
	})
}

// ---------------------------------------------------------------------------
// engine "mutate": real desktop files of the repository's test snaps

var c27Seeds = []string{
	"tests/lib/snaps/basic-desktop/meta/gui/echo.desktop",
	"tests/lib/snaps/basic-desktop/meta/gui/io.snapcraft.echoecho.desktop",
	"tests/lib/snaps/test-snapd-desktop/meta/gui/cmd.desktop",
	"tests/lib/snaps/test-snapd-icon-theme/meta/gui/echo.desktop",
	"tests/lib/snaps/test-snapd-policy-app-consumer/meta/gui/test-desktop.desktop",
	"tests/main/interfaces-desktop-launch/test-app/meta/gui/test-app.desktop",
	"tests/main/xdg-settings/test-snapd-xdg-settings/meta/gui/browser.desktop",
}

type c27Seed struct {
	snap    c27Snap
	file    string
	content string
}

var (
	c27SeedMu    sync.Mutex
	c27SeedCache = map[string]c27Seed{}
)

func c27LoadSeed(rel string) c27Seed {
	c27SeedMu.Lock()
	defer c27SeedMu.Unlock()
	if s, ok := c27SeedCache[rel]; ok {
		return s
	}
	repo := os.Getenv("VERIF_REPO")
	if repo == "" {
		repo = "/repo"
	}
	p := filepath.Join(repo, rel)
	content, err := os.ReadFile(p)
	if err != nil {
		panic(fmt.Sprintf("HARNESS: cannot read seed desktop file: %v", err))
	}
	yaml, err := os.ReadFile(filepath.Join(filepath.Dir(filepath.Dir(p)), "snap.yaml"))
	if err != nil {
		panic(fmt.Sprintf("HARNESS: cannot read seed snap.yaml: %v", err))
	}
	info, err := snap.InfoFromSnapYaml(yaml)
	if err != nil {
		panic(fmt.Sprintf("HARNESS: cannot parse seed snap.yaml: %v", err))
	}
	s := c27Seed{file: filepath.Base(p), content: string(content)}
	s.snap.Name = info.SnapName()
	for name := range info.Apps {
		s.snap.Apps = append(s.snap.Apps, name)
	}
	sort.Strings(s.snap.Apps)
	c27SeedCache[rel] = s
	return s
}

type c27Mut struct {
	Op  string `json:"op"`  // flip | ins | del | dup | swap
	Pos int    `json:"pos"` // resolved modulo the current length
	N   int    `json:"n,omitempty"`
	SQ  string `json:"sq,omitempty"` // quoted bytes to insert / to overwrite with
}

type c27MutCase struct {
	Seed string
	Key  string
	Rev  int
	Muts []c27Mut
}

var c27Dict = []string{"\n", "\r", "\r\n", "\x00", " ", "\t", "=", "[", "]", "#", "/", "..", "/../", "${SNAP}", "${SNAP}/", "Exec=", "TryExec=", "Icon=", "Name=", "\nExec=/bin/sh\n",
	"\nIcon=/etc/passwd\n", "[Desktop Entry]", "\n[Desktop Entry]\n", "X-SnapInstanceName=", "snap.", "sh", ";", "%U", "\"", "\\", "2", "\u00a0", "\x0b", "\f", "[de]", "[de_DE.UTF-8@euro]", "\xff"}

func c27GenMut(t *rapid.T) c27Mut {
	m := c27Mut{Pos: c27U(t, 4096, "pos")}
	switch c27U(t, 10, "op") {
	case 0, 1:
		m.Op = "flip"
		m.SQ = c27q(string([]byte{byte(c27U(t, 256, "byte"))}))
	case 2, 3, 4, 5:
		m.Op = "ins"
		m.SQ = c27q(rapid.SampledFrom(c27Dict).Draw(t, "dict"))
	case 6:
		m.Op = "ins"
		m.SQ = c27q(string([]byte{byte(c27U(t, 256, "byte"))}))
	case 7:
		m.Op = "del"
		m.N = 1 + c27U(t, 12, "n")
	case 8:
		m.Op = "dup" // duplicate a stretch
		m.N = 1 + c27U(t, 40, "n")
	default:
		m.Op = "swap" // move a stretch to another place
		m.N = 1 + c27U(t, 40, "n")
	}
	return m
}

func c27ApplyMuts(b []byte, muts []c27Mut) []byte {
	b = append([]byte(nil), b...)
	for _, m := range muts {
		if len(b) == 0 {
			b = append(b, '\n')
		}
		p := m.Pos % (len(b) + 1)
		e := p + m.N
		if e > len(b) {
			e = len(b)
		}
		switch m.Op {
		case "flip":
			if p < len(b) {
				b[p] = c27uq(m.SQ)[0]
			}
		case "ins":
			b = append(b[:p:p], append([]byte(c27uq(m.SQ)), b[p:]...)...)
		case "del":
			b = append(b[:p:p], b[e:]...)
		case "dup":
			b = append(b[:e:e], append(append([]byte(nil), b[p:e]...), b[e:]...)...)
		case "swap":
			chunk := append([]byte(nil), b[p:e]...)
			rest := append(b[:p:p], b[e:]...)
			q := (m.Pos / 7) % (len(rest) + 1)
			b = append(rest[:q:q], append(chunk, rest[q:]...)...)
		}
	}
	return b
}

func (c c27MutCase) input() c27Input {
	seed := c27LoadSeed(c.Seed)
	s := seed.snap
	s.Key, s.Rev = c.Key, c.Rev
	return c27Input{Snap: s, File: seed.file, Content: string(c27ApplyMuts([]byte(seed.content), c.Muts))}
}

func TestVerifC27Mutate(t *testing.T) {
	verifkit.Check(t, verifkit.Spec[c27MutCase]{
		ID: "C27", Engine: "mutate",
		Gen: func(t *rapid.T) c27MutCase {
			c := c27MutCase{Seed: rapid.SampledFrom(c27Seeds).Draw(t, "seed"), Rev: rapid.IntRange(1, 200).Draw(t, "rev")}
			if rapid.Bool().Draw(t, "haskey") {
				c.Key = rapid.StringMatching(`[a-z0-9]{1,10}`).Draw(t, "key")
			}
			n := c27U(t, 7, "nmuts")
			for i := 0; i < n; i++ {
				c.Muts = append(c.Muts, c27GenMut(t))
			}
			return c
		},
		Run: func(c c27MutCase) (verifkit.Outcome, error) {
			in := c.input()
			o := verifkit.Outcome{Desc: c27Desc(in)}
			keep, change := c27Light(in.Content)
			o.NonTrivial = keep && change
			if c.Key != "" {
				o.Labels = append(o.Labels, "instance-key")
			}
			if len(c.Muts) > 0 {
				o.Labels = append(o.Labels, "mutated")
			}
			w, out := c27Sanitize(in)
			viols, facts := c27Judge(w, out)
			c27OutLabels(&o, facts)
			return o, c27Verdict(in, viols, c27JudgeInput, &o)
		},
		Floors:          map[string]float64{"instance-key": 0.3, "mutated": 0.6, "out-exec": 0.4, "out-tag": 0.5},
		NonTrivialFloor: 0.6,
	})
}

// ---------------------------------------------------------------------------
// engine "installed": through EnsureSnapDesktopFiles, judged on what is on disk

var c27Root string

// c27Install writes the shipped file, installs, and returns installed name -> content.
func c27Install(in c27Input) (map[string]string, error) {
	info := in.Snap.info()
	gui := filepath.Join(info.MountDir(), "meta", "gui")
	defer os.RemoveAll(filepath.Join(dirs.SnapMountDir, in.Snap.instance()))
	defer os.RemoveAll(dirs.SnapDesktopFilesDir)
	if err := os.MkdirAll(gui, 0755); err != nil {
		panic("HARNESS: " + err.Error())
	}
	if err := os.WriteFile(filepath.Join(gui, in.File), []byte(in.Content), 0644); err != nil {
		panic("HARNESS: " + err.Error())
	}
	if err := EnsureSnapDesktopFiles([]*snap.Info{info}); err != nil {
		return nil, err
	}
	ents, err := os.ReadDir(dirs.SnapDesktopFilesDir)
	if err != nil {
		panic("HARNESS: " + err.Error())
	}
	got := map[string]string{}
	for _, e := range ents {
		b, err := os.ReadFile(filepath.Join(dirs.SnapDesktopFilesDir, e.Name()))
		if err != nil {
			panic("HARNESS: " + err.Error())
		}
		got[e.Name()] = string(b)
	}
	return got, nil
}

func c27JudgeInstalled(in c27Input) []c27Viol {
	viols, _, _ := c27JudgeInstalledFacts(in)
	return viols
}

func c27JudgeInstalledFacts(in c27Input) (viols []c27Viol, facts c27OutFacts, installed int) {
	got, err := c27Install(in)
	if err != nil {
		return nil, facts, 0
	}
	w := c27WorldFor(in.Snap, in.File)
	for _, name := range verifkit.SortedKeys(got) {
		// every file found is judged against its own installed path
		w.DesktopFile = dirs.SnapDesktopFilesDir + "/" + name
		v, f := c27Judge(w, got[name])
		viols = append(viols, v...)
		facts.Exec += f.Exec
		facts.IconPath += f.IconPath
		facts.Tag += f.Tag
		installed++
	}
	return viols, facts, installed
}

func TestVerifC27Installed(t *testing.T) {
	c27Root = t.TempDir()
	dirs.SetRootDir(c27Root)
	defer dirs.SetRootDir("")
	// no update-desktop-database, whatever the machine has installed
	empty := t.TempDir()
	oldPath := os.Getenv("PATH")
	os.Setenv("PATH", empty)
	defer os.Setenv("PATH", oldPath)
	verifkit.Check(t, verifkit.Spec[c27LinesCase]{
		ID: "C27", Engine: "installed",
		Gen: func(t *rapid.T) c27LinesCase { return c27GenLines(t, 10, 4, 5) },
		Run: func(c c27LinesCase) (verifkit.Outcome, error) {
			in := c.input()
			if len(in.File) > 200 || strings.ContainsAny(in.File, "/\x00") {
				return verifkit.Outcome{Skip: true}, nil
			}
			o := verifkit.Outcome{Desc: c27Desc(in)}
			c27LineLabels(c, in, &o)
			viols, facts, n := c27JudgeInstalledFacts(in)
			if n > 0 {
				o.Labels = append(o.Labels, "installed")
			}
			c27OutLabels(&o, facts)
			return o, c27Verdict(in, viols, c27JudgeInstalled, &o)
		},
		Floors:          map[string]float64{"installed": 0.9, "instance-key": 0.3, "out-exec": 0.3, "out-tag": 0.6, "hostile-filename": 0.02},
		NonTrivialFloor: 0.5,
	})
}

// ---------------------------------------------------------------------------
// engine "oracle": the judge on hand-written outputs

func TestVerifC27Oracle(t *testing.T) {
	e := verifkit.NewEnum(t, "C27", "oracle")
	defer e.Done()
	if verifkit.ReplayRequested() {
		return
	}
	s := c27Snap{Name: "snap", Key: "bar", Rev: 12, Apps: []string{"app", "snap"}}
	w := c27WorldFor(s, "foo.desktop")
	hint := "Exec=env BAMF_DESKTOP_FILE_HINT=" + dirs.SnapDesktopFilesDir + "/snap+bar_foo.desktop "
	bin := dirs.SnapBinariesDir
	m := dirs.SnapMountDir + "/snap_bar/12"
	hdr := "[Desktop Entry]\nX-SnapInstanceName=snap_bar\n"
	cases := []struct{ out, clause string }{
		{"", ""},
		{hdr + "Name=foo\nGenericName[tlh_TLH]=Qapla'\nGenericName[ca@valencia]=Hola!\n\n# the empty line above is fine\n", ""},
		{hdr + hint + bin + "/snap_bar.app\n", ""},
		{hdr + hint + bin + "/snap_bar.app %U\n", ""},
		{hdr + hint + bin + "/snap_bar --x \"unbalanced\n", ""},
		{hdr + "Icon=" + m + "/meep\nIcon=snap.snap_bar.icon\nIcon=firefox\nIcon=" + m + "\n", ""},
		{"[Desktop Action is-ok]\nName=x\n[NewWindow Shortcut Group]\nTargetEnvironment=Unity\nX-Ayatana-Desktop-Shortcuts=NewWindow;Private\n", ""},
		{"  # comment\n \t\f\n", ""},
		// bad ones, each with the clause that must fire
		{"[Desktop Entry]\nName=foo\n", "tag"},
		{"[Desktop Entry]\nX-SnapInstanceName=snap\n", "tag"},
		{hdr + "X-SnapInstanceName=snap_bar\n", "tag"},
		{"X-SnapInstanceName=snap_bar\n", "tag"},
		{hdr + "Name=x\n [Desktop Entry]\n", "tag"},
		{hdr + "TryExec=" + bin + "/snap_bar.app\n", "key"},
		{hdr + "UnknownKey=baz\n", "key"},
		{hdr + "Icon[xx]=bar\n", "key"},
		{hdr + "Name[_COUNTRY]=x\n", "key"},
		{hdr + "Name[de/../x]=x\n", "key"},
		{hdr + "nonsense\n", "line"},
		{hdr + "[Desktop Entry] x\n", "header"},
		{hdr + "[Foo]\n", "header"},
		{hdr + "[Desktop Action a b]\n", "header"},
		{hdr + "Exec=/bin/sh\n", "exec"},
		{hdr + " Exec=/bin/sh\n", "exec"},
		{hdr + "Exec =/bin/sh\n", "exec"},
		{hdr + "\u00a0Exec=/bin/sh\n", "exec"},
		{hdr + hint + bin + "/snap_bar.app2\n", "exec"},
		{hdr + hint + bin + "/snap_bar.app;rm\n", "exec"},
		{hdr + hint + bin + "/snap.app\n", "exec"},
		{hdr + hint + bin + "/other.app\n", "exec"},
		{hdr + "Exec=env BAMF_DESKTOP_FILE_HINT=x sh -c xcalc .desktop " + bin + "/snap_bar.app\n", "exec"},
		{hdr + "Exec=" + bin + "/snap_bar.app\n", "exec"},
		{hdr + "Icon=/etc/passwd\n", "icon"},
		{hdr + "Icon=" + m + "/../x\n", "icon"},
		{hdr + "Icon=" + m + "x/y\n", "icon"},
		{hdr + "Icon=" + dirs.SnapMountDir + "/snap/12/x\n", "icon"},
		{hdr + "Icon=a/b\n", "icon"},
		{hdr + "Icon=snap.othersnap.icon\n", "icon-theme"},
		{hdr + "Icon=snap.snap.icon\n", "icon-theme"},
	}
	var n, nt int64
	for i, c := range cases {
		viols, _ := c27Judge(w, c.out)
		got := ""
		if len(viols) > 0 {
			got = viols[0].Clause
		}
		n++
		if c.clause != "" {
			nt++
		}
		if got != c.clause {
			t.Fatalf("HARNESS: oracle self-test %d: output %q judged %q (%v), want %q", i, c.out, got, viols, c.clause)
		}
	}
	// argv split against worked examples of the Desktop Entry spec's quoting rules
	for _, c := range []struct {
		in   string
		want []string
	}{
		{`env A=b /snap/bin/x %U`, []string{"env", "A=b", "/snap/bin/x", "%U"}},
		{`a  "b c"	d`, []string{"a", "b c", "d"}},
		{`a "b \" c" 'd e' f\ g`, []string{"a", `b " c`, "d e", "f g"}},
	} {
		got, ok := c27Argv(c.in)
		n++
		if !ok || fmt.Sprint(got) != fmt.Sprint(c.want) || len(got) != len(c.want) {
			t.Fatalf("HARNESS: argv self-test: %q split into %q", c.in, got)
		}
	}
	if _, ok := c27Argv(`a "b`); ok {
		t.Fatalf("HARNESS: argv self-test: unbalanced quote accepted")
	}
	e.Bulk(n, nt, "oracle-selftest")
	e.Sample(fmt.Sprintf("%d hand-written outputs (good: unit-test expectations of desktop_test.go; bad: one per oracle clause) judged as expected", n))
}
