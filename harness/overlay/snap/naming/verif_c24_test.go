package naming_test

// C24 — the daemon, snap-confine and snap-update-ns agree on valid snap,
// instance, component and security tag names.
// Unexported identifiers used: none (external test package; the instance key
// rule of the daemon is observed through naming.ValidateInstance("aa_"+key)).
//
// Implementations compared
//   daemon           naming.ValidateSnap / ValidateInstance / SplitFullComponentName
//                    + ComponentRef.Validate / ParseSecurityTag; snap.Validate,
//                    snap.ValidateApp, snap.ValidateHook, AppInfo/HookInfo.SecurityTag
//   snap-confine     cmd/libsnap-confine-private/snap.c, called from the C driver
//                    harness/cdrv/c24drv.c in the order of sc_init_invocation
//   snap-update-ns   cmd/snap-update-ns/bootstrap.c validate_snap_name /
//                    validate_instance_name, compiled into the same C driver
//                    (the cgo build of the same file is compared by the
//                    engines in cmd/snap-update-ns/verif_c24_test.go)
//
// Oracles (property statement)
//   names     pure agreement of accept/reject for snap names, instance names,
//             instance keys and snap+component strings
//   tags      for len(tag) <= 256: snap-confine lets the invocation
//             (instance, [snap+component], tag) pass  <=>  the daemon accepts
//             the instance, accepts the component (and its snap is the
//             instance's snap: documented in snap.h), parses the tag, and the
//             parsed instance and component are the given ones
//   genlaw    every security tag generated for an app/hook of a snap the
//             daemon accepts passes snap-confine for that instance/component
//   safety    the C driver is built with ASan+UBSan; a sanitizer report, a
//             die() or a crash on any input is a violation
//
// The C driver is compiled from the sources below $VERIF_REPO by this test.

import (
	"bufio"
	"bytes"
	"crypto/sha256"
	"encoding/hex"
	"encoding/json"
	"fmt"
	"io"
	"os"
	"os/exec"
	"path/filepath"
	"regexp"
	"sort"
	"strings"
	"sync"
	"syscall"
	"testing"

	"github.com/snapcore/snapd/snap"
	"github.com/snapcore/snapd/snap/naming"
	"github.com/snapcore/snapd/snap/naming/verifc24"
	"github.com/snapcore/snapd/verifkit"
	"pgregory.net/rapid"
)

// ---------------------------------------------------------------------------
// C driver: build (cached by content hash), batch and interactive use

type c24Driver struct {
	path    string
	flavour string // e.g. clang-asan-ubsan
	// interactive process
	cmd    *exec.Cmd
	stdin  io.WriteCloser
	stdout *bufio.Reader
	stderr *bytes.Buffer
}

var (
	c24DrvOnce sync.Once
	c24Drv     *c24Driver
	c24DrvErr  error
)

func c24Env(name, def string) string {
	if v := os.Getenv(name); v != "" {
		return v
	}
	return def
}

var c24SanEnv = []string{
	// a small quarantine keeps the allocator fast (the default 256MB makes
	// the validators' many tiny allocations page-fault bound)
	"ASAN_OPTIONS=quarantine_size_mb=4:malloc_context_size=0:detect_leaks=0:exitcode=66:allocator_may_return_null=0",
	"UBSAN_OPTIONS=halt_on_error=1:print_stacktrace=1:exitcode=67",
	"LC_ALL=C",
}

type c24Flavour struct {
	name string
	cc   string
	args []string
}

var c24Flavours = []c24Flavour{
	{"clang-asan-ubsan", "clang", []string{"-fsanitize=address,undefined", "-fno-sanitize-recover=all", "-fno-omit-frame-pointer"}},
	{"gcc-asan-ubsan", "gcc", []string{"-fsanitize=address,undefined", "-fno-sanitize-recover=all", "-fno-omit-frame-pointer"}},
	{"gcc-unsanitized", "gcc", nil},
}

func c24BuildDriver() (*c24Driver, error) {
	repo := c24Env("VERIF_REPO", "/repo")
	vdir := c24Env("VERIF_DIR", "/verif")
	priv := filepath.Join(repo, "cmd", "libsnap-confine-private")
	sun := filepath.Join(repo, "cmd", "snap-update-ns")
	srcs := []string{filepath.Join(vdir, "harness", "cdrv", "c24drv.c")}
	for _, f := range []string{"snap.c", "error.c", "utils.c", "string-utils.c", "cleanup-funcs.c", "panic.c"} {
		srcs = append(srcs, filepath.Join(priv, f))
	}
	srcs = append(srcs, filepath.Join(sun, "bootstrap.c"))
	incs := []string{
		filepath.Join(vdir, "harness", "cstubs", "c24"), // stub config.h
		filepath.Join(vdir, "harness", "cstubs"),        // stub sys/capability.h
		priv, filepath.Join(repo, "cmd"), sun,
	}
	// content hash over everything that can influence the binary
	h := sha256.New()
	hashFile := func(p string) error {
		b, err := os.ReadFile(p)
		if err != nil {
			return err
		}
		fmt.Fprintf(h, "%s %d\n", filepath.Base(p), len(b))
		h.Write(b)
		return nil
	}
	for _, s := range srcs {
		if err := hashFile(s); err != nil {
			return nil, fmt.Errorf("cannot read driver source: %v", err)
		}
	}
	var hdrs []string
	for _, d := range []string{priv, sun, incs[0], filepath.Join(incs[1], "sys")} {
		m, _ := filepath.Glob(filepath.Join(d, "*.h"))
		hdrs = append(hdrs, m...)
	}
	sort.Strings(hdrs)
	for _, p := range hdrs {
		if err := hashFile(p); err != nil {
			return nil, err
		}
	}
	fmt.Fprintf(h, "flags-v3 %v\n", c24Flavours)
	sum := hex.EncodeToString(h.Sum(nil))[:20]

	cache := filepath.Join(vdir, "out", "cache", "C24")
	if err := os.MkdirAll(cache, 0755); err != nil {
		cache = os.TempDir()
	}
	// one builder at a time (shards start together)
	if lf, err := os.OpenFile(filepath.Join(cache, "lock"), os.O_CREATE|os.O_RDWR, 0644); err == nil {
		defer lf.Close()
		if syscall.Flock(int(lf.Fd()), syscall.LOCK_EX) == nil {
			defer syscall.Flock(int(lf.Fd()), syscall.LOCK_UN)
		}
	}
	var notes []string
	for _, fl := range c24Flavours {
		target := filepath.Join(cache, "c24drv-"+sum+"-"+fl.name)
		d := &c24Driver{path: target, flavour: fl.name}
		if _, err := os.Stat(target); err == nil {
			if err := d.selfTest(); err == nil {
				return d, nil
			}
			os.Remove(target)
		}
		cc, err := exec.LookPath(fl.cc)
		if err != nil {
			notes = append(notes, fl.name+": no "+fl.cc)
			continue
		}
		tmp := fmt.Sprintf("%s.tmp%d", target, os.Getpid())
		args := []string{"-w", "-O1", "-g"}
		args = append(args, fl.args...)
		for _, i := range incs {
			args = append(args, "-I"+i)
		}
		args = append(args, "-o", tmp)
		args = append(args, srcs...)
		out, err := exec.Command(cc, args...).CombinedOutput()
		if err != nil {
			os.Remove(tmp)
			notes = append(notes, fmt.Sprintf("%s: compile failed: %v\n%s", fl.name, err, clipTail(string(out), 1500)))
			// a compile error of the sources is the same for every flavour,
			// a missing sanitizer runtime is not: do not mark, just go on
			continue
		}
		d.path = tmp
		if err := d.selfTest(); err != nil {
			os.Remove(tmp)
			notes = append(notes, fmt.Sprintf("%s: self test failed: %v", fl.name, err))
			continue
		}
		if err := os.Rename(tmp, target); err != nil {
			return nil, err
		}
		d.path = target
		return d, nil
	}
	return nil, fmt.Errorf("cannot build the C driver:\n%s", strings.Join(notes, "\n"))
}

func clipTail(s string, n int) string {
	if len(s) > n {
		return "…" + s[len(s)-n:]
	}
	return s
}

var c24SelfTestRe = regexp.MustCompile(`^Q\nN [01]{6}\n$`)

func (d *c24Driver) selfTest() error {
	cmd := exec.Command(d.path)
	cmd.Env = append(os.Environ(), c24SanEnv...)
	cmd.Stdin = strings.NewReader("Q\nN x6162\n")
	out, err := cmd.CombinedOutput()
	// protocol shape only: the verdicts are the subject of the check
	if err != nil || !c24SelfTestRe.Match(out) {
		return fmt.Errorf("self test: err=%v output=%q", err, clipTail(string(out), 600))
	}
	return nil
}

func c24GetDriver(t interface{ Fatalf(string, ...interface{}) }) *c24Driver {
	c24DrvOnce.Do(func() { c24Drv, c24DrvErr = c24BuildDriver() })
	if c24DrvErr != nil {
		// not a property verdict: the driver makes this an inconclusive run
		t.Fatalf("HARNESS: %v", c24DrvErr)
	}
	return c24Drv
}

func c24Field(s string) string { return "x" + hex.EncodeToString([]byte(s)) }

func c24NameLine(s string) string { return "N " + c24Field(s) }

type c24TagReq struct {
	Tag, Inst string
	SC        *string // SNAP_COMPONENT_NAME (snap+component) or nil
}

func (r c24TagReq) line(withHook bool) string {
	op := "t "
	if withHook {
		op = "T "
	}
	sc := "-"
	if r.SC != nil {
		sc = c24Field(*r.SC)
	}
	return op + c24Field(r.Tag) + " " + c24Field(r.Inst) + " " + sc
}

// c24Crash: the C side did not answer an input (sanitizer report, die(), crash).
type c24Crash struct {
	Index  int
	Line   string
	Detail string
}

// batch runs all request lines through a fresh driver process.
func (d *c24Driver) batch(lines []string) ([]string, *c24Crash, error) {
	dir, err := os.MkdirTemp("", "c24batch")
	if err != nil {
		return nil, nil, err
	}
	defer os.RemoveAll(dir)
	in := filepath.Join(dir, "in")
	f, err := os.Create(in)
	if err != nil {
		return nil, nil, err
	}
	w := bufio.NewWriterSize(f, 1<<20)
	for _, l := range lines {
		w.WriteString(l)
		w.WriteByte('\n')
	}
	if err := w.Flush(); err != nil {
		return nil, nil, err
	}
	f.Close()
	run := func(args ...string) ([]string, string, error) {
		inf, err := os.Open(in)
		if err != nil {
			return nil, "", err
		}
		defer inf.Close()
		cmd := exec.Command(d.path, args...)
		cmd.Env = append(os.Environ(), c24SanEnv...)
		cmd.Stdin = inf
		var so, se bytes.Buffer
		cmd.Stdout, cmd.Stderr = &so, &se
		err = cmd.Run()
		outs := strings.Split(so.String(), "\n")
		if n := len(outs); n > 0 && outs[n-1] == "" {
			outs = outs[:n-1]
		}
		return outs, se.String(), err
	}
	outs, se, err := run()
	if err == nil && se == "" && len(outs) == len(lines) {
		return outs, nil, nil
	}
	// locate the offending input: rerun flushing every answer
	outs2, se2, err2 := run("-i")
	if err2 == nil && se2 == "" && len(outs2) == len(lines) {
		return nil, nil, fmt.Errorf("HARNESS: driver failed once (%v, stderr %q) and passed on rerun", err, clipTail(se, 400))
	}
	idx := len(outs2)
	cr := &c24Crash{Index: idx, Detail: fmt.Sprintf("exit: %v; stderr: %s", err2, clipTail(se2, 3000))}
	if idx < len(lines) {
		cr.Line = lines[idx]
	}
	return outs2, cr, nil
}

func (d *c24Driver) start() error {
	cmd := exec.Command(d.path, "-i")
	cmd.Env = append(os.Environ(), c24SanEnv...)
	in, err := cmd.StdinPipe()
	if err != nil {
		return err
	}
	out, err := cmd.StdoutPipe()
	if err != nil {
		return err
	}
	d.stderr = &bytes.Buffer{}
	cmd.Stderr = d.stderr
	if err := cmd.Start(); err != nil {
		return err
	}
	d.cmd, d.stdin, d.stdout = cmd, in, bufio.NewReader(out)
	return nil
}

func (d *c24Driver) stop() {
	if d.cmd != nil {
		d.stdin.Close()
		d.cmd.Wait()
		d.cmd = nil
	}
}

// ask sends one request to the interactive driver.  A dead driver is reported
// as *c24Crash and the driver is restarted on the next call.
func (d *c24Driver) ask(line string) (string, *c24Crash, error) {
	if d.cmd == nil {
		if err := d.start(); err != nil {
			return "", nil, err
		}
	}
	_, werr := io.WriteString(d.stdin, line+"\n")
	var ans string
	var rerr error
	if werr == nil {
		ans, rerr = d.stdout.ReadString('\n')
	}
	if werr != nil || rerr != nil {
		d.stdin.Close()
		werr2 := d.cmd.Wait()
		cr := &c24Crash{Line: line, Detail: fmt.Sprintf("exit: %v; stderr: %s", werr2, clipTail(d.stderr.String(), 3000))}
		d.cmd = nil
		return "", cr, nil
	}
	return strings.TrimSuffix(ans, "\n"), nil, nil
}

// ---------------------------------------------------------------------------
// the daemon's verdicts (public API of snap/naming)

func goSnap(s string) bool { return naming.ValidateSnap(s) == nil }
func goInst(s string) bool { return naming.ValidateInstance(s) == nil }

// the daemon has no exported instance key validator: a key is what
// ValidateInstance accepts after a valid snap name and '_'
func goKey(s string) bool { return naming.ValidateInstance("aa_"+s) == nil }

func goComp(s string) bool {
	a, b, err := naming.SplitFullComponentName(s)
	if err != nil {
		return false
	}
	return naming.NewComponentRef(a, b).Validate() == nil
}

func b2c(b bool) byte {
	if b {
		return '1'
	}
	return '0'
}

// judgeName compares one "N abcdef" answer with the daemon.  any = some
// implementation accepted the string as something.
func judgeName(s, ans string) (any bool, labels []string, err error) {
	if len(ans) != 8 || ans[:2] != "N " {
		return false, nil, fmt.Errorf("HARNESS: bad driver answer %q", ans)
	}
	v := ans[2:]
	want := []byte{b2c(goSnap(s)), b2c(goInst(s)), b2c(goKey(s)), b2c(goComp(s))}
	want = append(want, want[0], want[1])
	names := []string{
		"snap name: snap-confine sc_snap_name_validate vs naming.ValidateSnap",
		"instance name: snap-confine sc_instance_name_validate vs naming.ValidateInstance",
		"instance key: snap-confine sc_instance_key_validate vs naming.ValidateInstance(\"aa_\"+key)",
		"snap+component: snap-confine sc_snap_component_validate(s, NULL) vs SplitFullComponentName+ComponentRef.Validate",
		"snap name: snap-update-ns validate_snap_name vs naming.ValidateSnap",
		"instance name: snap-update-ns validate_instance_name vs naming.ValidateInstance",
	}
	var bad []string
	for i := range names {
		if v[i] != '0' && v[i] != '1' {
			return false, nil, fmt.Errorf("HARNESS: bad driver answer %q", ans)
		}
		if v[i] == '1' || want[i] == '1' {
			any = true
		}
		if v[i] != want[i] {
			bad = append(bad, fmt.Sprintf("%s: C=%c daemon=%c", names[i], v[i], want[i]))
		}
	}
	for i, l := range []string{"accepted-snap", "accepted-instance", "accepted-key", "accepted-component"} {
		if want[i] == '1' {
			labels = append(labels, l)
		}
	}
	if len(bad) > 0 {
		return any, labels, verifkit.Violatef("disagreement on %q (len %d): %s", s, len(s), strings.Join(bad, "; "))
	}
	return any, labels, nil
}

// c24Near: one deletion or one substitution turns s into something the
// daemon accepts (statistics only: the "one edit from accepted" rule).
func c24Near(s string) bool {
	okAny := func(x string) bool { return goInst(x) || goKey(x) || goComp(x) }
	b := []byte(s)
	for i := range b {
		if okAny(string(b[:i]) + string(b[i+1:])) {
			return true
		}
		for _, c := range []byte{'a', '0'} {
			if b[i] != c {
				old := b[i]
				b[i] = c
				r := okAny(string(b))
				b[i] = old
				if r {
					return true
				}
			}
		}
	}
	return false
}

const c24TagMax = 256 // SNAP_SECURITY_TAG_MAX_LEN, the limit named by the property

// goInvocation is the daemon's view of a snap-confine invocation: 'i' the
// instance name is not valid, 'c' the snap+component string is not valid for
// the instance, else '1'/'0' = the tag parses as belonging to that instance
// and component.
func goInvocation(r c24TagReq) (want byte, hook bool, parsed bool) {
	st, perr := naming.ParseSecurityTag(r.Tag)
	if perr == nil {
		parsed = true
		_, hook = st.(naming.HookSecurityTag)
	}
	if !goInst(r.Inst) {
		return 'i', hook, parsed
	}
	comp := ""
	if r.SC != nil {
		a, b, err := naming.SplitFullComponentName(*r.SC)
		if err != nil || naming.NewComponentRef(a, b).Validate() != nil {
			return 'c', hook, parsed
		}
		// snap.h: "the snap name in the snap component will be compared to
		// the snap name in the snap instance"
		instSnap, _, _ := strings.Cut(r.Inst, "_")
		if a != instSnap {
			return 'c', hook, parsed
		}
		comp = b
	}
	if perr != nil || st.InstanceName() != r.Inst {
		return '0', hook, parsed
	}
	tagComp := ""
	if h, ok := st.(naming.HookSecurityTag); ok {
		tagComp = h.ComponentName()
	}
	if tagComp != comp {
		return '0', hook, parsed
	}
	return '1', hook, parsed
}

// c24ParsedAs: the daemon's tag parser alone attributes the tag to the
// invocation's instance and component (no validator consulted).
func c24ParsedAs(r c24TagReq) bool {
	st, err := naming.ParseSecurityTag(r.Tag)
	if err != nil || st.InstanceName() != r.Inst {
		return false
	}
	tagComp := ""
	if h, ok := st.(naming.HookSecurityTag); ok {
		tagComp = h.ComponentName()
	}
	if r.SC == nil {
		return tagComp == ""
	}
	sn, comp, ok := strings.Cut(*r.SC, "+")
	instSnap, _, _ := strings.Cut(r.Inst, "_")
	return ok && sn == instSnap && comp != "" && comp == tagComp
}

type c24TagObs struct {
	accepted  bool // some side lets the invocation pass
	overLimit bool
	hookObs   string // non-empty: sc_is_hook_security_tag disagrees with the daemon's classification of an accepted tag
}

func judgeTag(r c24TagReq, ans string) (c24TagObs, error) {
	var o c24TagObs
	withHook := strings.HasPrefix(ans, "T ")
	if !(withHook && len(ans) == 4) && !(strings.HasPrefix(ans, "t ") && len(ans) == 3) {
		return o, fmt.Errorf("HARNESS: bad driver answer %q", ans)
	}
	got := ans[2]
	want, hook, _ := goInvocation(r)
	o.accepted = got == '1' || want == '1'
	if len(r.Tag) > c24TagMax {
		// outside the statement ("for tags within snap-confine's length limit")
		o.overLimit = true
		o.accepted = false
		if want == 'i' || want == 'c' {
			if got != want {
				return o, verifkit.Violatef("invocation inst=%q sc=%s: snap-confine says %c, daemon says %c", r.Inst, c24ptr(r.SC), got, want)
			}
		}
		return o, nil
	}
	if got != '1' && c24ParsedAs(r) {
		// "snap-confine accepts a security tag for a given instance (and
		// component) exactly when the daemon parses it as belonging to that
		// instance (and component)": judged on what the daemon's parser
		// reports, whatever the name validators say about the context
		return o, verifkit.Violatef("tag %q (len %d): the daemon parses it as belonging to instance %q component %s, snap-confine does not accept it for them (verdict %c)",
			r.Tag, len(r.Tag), r.Inst, c24ptr(r.SC), got)
	}
	if got != want {
		what := map[byte]string{'i': "instance name rejected", 'c': "snap+component rejected", '0': "tag rejected", '1': "tag accepted"}
		return o, verifkit.Violatef("tag %q (len %d) for instance %q component %s: snap-confine: %s, daemon: %s",
			r.Tag, len(r.Tag), r.Inst, c24ptr(r.SC), what[got], what[want])
	}
	if withHook && got == '1' {
		if chook := ans[3] == '1'; chook != hook {
			o.hookObs = fmt.Sprintf("accepted tag %q: sc_is_hook_security_tag=%v, daemon parses hook tag=%v", r.Tag, chook, hook)
		}
	}
	return o, nil
}

func c24ptr(p *string) string {
	if p == nil {
		return "NULL"
	}
	return fmt.Sprintf("%q", *p)
}

// ---------------------------------------------------------------------------
// replayable case (random engine, and what enumerations report)

type c24Case struct {
	Kind      string      `json:"kind"` // name | tag
	S         verifc24.B  `json:"s"`
	Inst      *verifc24.B `json:"inst,omitempty"`
	SC        *verifc24.B `json:"sc,omitempty"`
	Shape     string      `json:"shape,omitempty"`
	OneDefect bool        `json:"one_defect,omitempty"`
	AtLimit   bool        `json:"at_limit,omitempty"`
}

func c24NameCase(s string) c24Case { return c24Case{Kind: "name", S: verifc24.MkB(s)} }
func c24TagCase(r c24TagReq) c24Case {
	c := c24Case{Kind: "tag", S: verifc24.MkB(r.Tag)}
	i := verifc24.MkB(r.Inst)
	c.Inst = &i
	if r.SC != nil {
		sc := verifc24.MkB(*r.SC)
		c.SC = &sc
	}
	return c
}

func (c c24Case) req() c24TagReq {
	r := c24TagReq{Tag: c.S.S()}
	if c.Inst != nil {
		r.Inst = c.Inst.S()
	}
	if c.SC != nil {
		s := c.SC.S()
		r.SC = &s
	}
	return r
}

func c24Unsafe(cr *c24Crash) error {
	return verifkit.Violatef("C side did not handle the input safely: request %q: %s", cr.Line, cr.Detail)
}

// c24RunCase executes one case on the interactive driver.
func c24RunCase(d *c24Driver, c c24Case) (verifkit.Outcome, error) {
	o := verifkit.Outcome{Extra: map[string]int64{"driver:" + d.flavour: 1}}
	switch c.Kind {
	case "name":
		s := c.S.S()
		o.Desc = fmt.Sprintf("name %q (%s)", s, c.Shape)
		ans, cr, err := d.ask(c24NameLine(s))
		if err != nil {
			panic("HARNESS: " + err.Error())
		}
		if cr != nil {
			return o, c24Unsafe(cr)
		}
		any, labels, err := judgeName(s, ans)
		if err != nil {
			if _, ok := err.(*verifkit.Violation); !ok {
				panic(err.Error())
			}
			return o, err
		}
		o.Labels = append(labels, "name")
		if any {
			o.Labels = append(o.Labels, "accepted-some")
		}
		o.NonTrivial = any || c.OneDefect
	case "tag":
		r := c.req()
		o.Desc = fmt.Sprintf("tag %q inst %q sc %s (%s)", r.Tag, r.Inst, c24ptr(r.SC), c.Shape)
		ans, cr, err := d.ask(r.line(true))
		if err != nil {
			panic("HARNESS: " + err.Error())
		}
		if cr != nil {
			return o, c24Unsafe(cr)
		}
		ob, err := judgeTag(r, ans)
		if err != nil {
			if _, ok := err.(*verifkit.Violation); !ok {
				panic(err.Error())
			}
			return o, err
		}
		o.Labels = []string{"tag"}
		if ob.accepted {
			o.Labels = append(o.Labels, "accepted-some", "tag-accepted")
		}
		if ob.overLimit {
			o.Labels = append(o.Labels, "tag-over-256")
		}
		if ob.hookObs != "" {
			o.Extra["observation:is-hook-classification-differs"] = 1
		}
		o.NonTrivial = ob.accepted || (c.OneDefect && !ob.overLimit)
	default:
		panic("HARNESS: unknown case kind " + c.Kind)
	}
	if c.AtLimit {
		o.Labels = append(o.Labels, "at-limit")
	}
	return o, nil
}

// ---------------------------------------------------------------------------
// engine "names": exhaustive enumeration of short strings + byte sweep

const c24BatchSize = 100000

func TestVerifC24Names(t *testing.T) {
	e := verifkit.NewEnum(t, "C24", "names")
	defer e.Done()
	d := c24GetDriver(t)
	defer d.stop()
	e.Extra("c_driver", d.flavour)

	if raw, ok := e.Replaying(); ok {
		c24ReplayEnum(t, e, d, raw)
		return
	}
	if verifkit.ReplayRequested() {
		t.Skip("replay is for another engine")
	}
	shard, shards := verifkit.EnvInt("VERIF_SHARD", 0), verifkit.EnvInt("VERIF_SHARDS", 1)
	L := verifkit.Size(5, 7)
	e.Exhaustive(true)
	e.Extra("exhaustive_alphabet", fmt.Sprintf("%q", verifc24.Alphabet))
	e.Extra("exhaustive_max_len", fmt.Sprint(L))
	e.Extra("class_alphabet", fmt.Sprintf("%q len %d", verifc24.ClassAlphabet, L+1))

	var pending []string
	var evals, nt int64
	hist := map[string]int64{}
	flush := func() {
		if len(pending) == 0 {
			return
		}
		lines := make([]string, len(pending))
		for i, s := range pending {
			lines[i] = c24NameLine(s)
		}
		outs, cr, err := d.batch(lines)
		if err != nil {
			t.Fatalf("HARNESS: %v", err)
		}
		if cr != nil {
			if cr.Index < len(pending) {
				e.Fail(c24NameCase(pending[cr.Index]), "%v", c24Unsafe(cr))
			}
			t.Fatalf("HARNESS: driver failure not attributable: %+v", cr)
		}
		for i, s := range pending {
			any, labels, err := judgeName(s, outs[i])
			if err != nil {
				if _, ok := err.(*verifkit.Violation); !ok {
					t.Fatalf("%v", err)
				}
				e.Fail(c24NameCase(s), "%v", err)
			}
			evals++
			for _, l := range labels {
				hist[l]++
			}
			if any {
				hist["accepted-some"]++
				nt++
				if hist["accepted-some"]%5000 == 1 {
					e.Sample(fmt.Sprintf("%q -> %s", s, outs[i]))
				}
			} else if c24Near(s) {
				hist["one-edit-from-accepted"]++
				nt++
			}
		}
		pending = pending[:0]
	}
	add := func(s []byte) {
		pending = append(pending, string(s))
		if len(pending) >= c24BatchSize {
			flush()
		}
	}
	verifc24.Enumerate(verifc24.Alphabet, 0, L, shard, shards, add)
	flush()
	// one length beyond, one representative per class (no string repeats:
	// different length)
	verifc24.Enumerate(verifc24.ClassAlphabet, L+1, L+1, shard, shards, add)
	flush()
	e.Bulk(evals, nt)
	for _, k := range verifkit.SortedKeys(hist) {
		e.Extra("class:"+k, hist[k])
	}

	// byte sweep: every byte value substituted / inserted at every position
	// of well formed templates (range boundaries of the character classes)
	if shard == 0 {
		templates := []string{"ab", "a-b", "a1", "ab_k1", "ab+cd", "k1", "a0-b", strings.Repeat("a", 40), strings.Repeat("a", 39) + "_" + strings.Repeat("k", 10)}
		seen := map[string]bool{}
		for _, tpl := range templates {
			for pos := 0; pos <= len(tpl); pos++ {
				for b := 1; b < 256; b++ {
					if len(tpl) > 8 && bytes.IndexByte(verifc24.Boundary, byte(b)) < 0 {
						continue // long templates: class boundaries only
					}
					ins := tpl[:pos] + string([]byte{byte(b)}) + tpl[pos:]
					if !seen[ins] {
						seen[ins] = true
						pending = append(pending, ins)
					}
					if pos < len(tpl) {
						sub := tpl[:pos] + string([]byte{byte(b)}) + tpl[pos+1:]
						if !seen[sub] {
							seen[sub] = true
							pending = append(pending, sub)
						}
					}
				}
			}
		}
		sweep := append([]string(nil), pending...)
		pending = pending[:0]
		lines := make([]string, len(sweep))
		for i, s := range sweep {
			lines[i] = c24NameLine(s)
		}
		outs, cr, err := d.batch(lines)
		if err != nil {
			t.Fatalf("HARNESS: %v", err)
		}
		if cr != nil && cr.Index < len(sweep) {
			e.Fail(c24NameCase(sweep[cr.Index]), "%v", c24Unsafe(cr))
		}
		for i, s := range sweep {
			any, labels, err := judgeName(s, outs[i])
			if err != nil {
				if _, ok := err.(*verifkit.Violation); !ok {
					t.Fatalf("%v", err)
				}
				e.Fail(c24NameCase(s), "%v", err)
			}
			// all are one edit from a well formed template
			e.Case("sweep:"+hex.EncodeToString([]byte(s)), true, append(labels, "byte-sweep")...)
			_ = any
		}
	}
}

func c24ReplayEnum(t *testing.T, e *verifkit.Enum, d *c24Driver, raw json.RawMessage) {
	var c c24Case
	if err := json.Unmarshal(raw, &c); err != nil {
		t.Fatalf("cannot decode replay case: %v", err)
	}
	o, err := c24RunCase(d, c)
	e.Case(string(raw), o.NonTrivial, o.Labels...)
	if err != nil {
		e.Fail(c, "%v", err)
	}
}

// ---------------------------------------------------------------------------
// engine "tags": token sequences, edit neighbourhoods of well formed tags,
// byte sweep; each tag judged in several (instance, component) contexts

var c24Tokens = []string{"snap", ".", "+", "hook", "ab", "_", "1", "A", "-", "\n"}

var c24BaseTags = [][]string{
	{"snap", ".", "ab", ".", "ab"},
	{"snap", ".", "ab", "_", "1", ".", "A"},
	{"snap", ".", "ab", "-", "ab", ".", "1"},
	{"snap", ".", "ab", ".", "hook", ".", "ab"},
	{"snap", ".", "ab", "_", "1", ".", "hook", ".", "ab", "-", "ab"},
	{"snap", ".", "ab", "+", "ab", ".", "hook", ".", "ab"},
	{"snap", ".", "ab", "_", "1", "+", "ab", "-", "ab", ".", "hook", ".", "ab"},
	{"snap", ".", "1", "ab", ".", "hook", ".", "ab"},
}

var c24NearTags = [][]string{
	{"snap", ".", "ab", "+", "ab", "_", "1", ".", "hook", ".", "ab"},
	{"snap", ".", "ab", "_", "1", "+", "ab", "_", "1", ".", "hook", ".", "ab"},
	{"snap", ".", "ab", "+", "ab", "+", "ab", ".", "hook", ".", "ab"},
	{"snap", ".", "ab", "+", "1", ".", "hook", ".", "ab"},
}

func c24SC(inst, comp string) *string {
	sn, _, _ := strings.Cut(inst, "_")
	s := sn + "+" + comp
	return &s
}

// c24Contexts picks the (instance, component) contexts a tag is judged in:
// the one the tag names itself (when it names a well formed one), its
// neighbours (one character shorter/longer, key added/dropped, component
// set/unset/changed), else a fixed context.  This is input selection only.
func c24Contexts(tag string, rich bool) []c24TagReq {
	fields := strings.Split(tag, ".")
	inst, comp, has := "", "", false
	if len(fields) >= 2 {
		inst, comp, has = strings.Cut(fields[1], "+")
	}
	var out []c24TagReq
	add := func(i string, sc *string) { out = append(out, c24TagReq{Tag: tag, Inst: i, SC: sc}) }
	if !goInst(inst) {
		add("ab", nil)
		if rich {
			add("ab", c24SC("ab", "ab"))
		}
		return out
	}
	compOK := has && goSnap(comp)
	if compOK {
		add(inst, c24SC(inst, comp))
		add(inst, nil)
	} else {
		add(inst, nil)
		add(inst, c24SC(inst, "ab"))
		if has && comp != "" {
			// the context the tag spells out, although the daemon's
			// validators reject the component name
			add(inst, c24SC(inst, comp))
		}
	}
	var insts []string
	if len(inst) > 2 {
		insts = append(insts, inst[:len(inst)-1])
	}
	insts = append(insts, inst+"a")
	if sn, _, hasKey := strings.Cut(inst, "_"); hasKey {
		insts = append(insts, sn)
	} else {
		insts = append(insts, inst+"_1")
	}
	for _, i := range insts {
		if goInst(i) {
			if compOK {
				add(i, c24SC(i, comp))
			} else {
				add(i, nil)
			}
		}
	}
	if compOK {
		for _, c := range []string{comp[:len(comp)-1], comp + "a"} {
			if goSnap(c) {
				add(inst, c24SC(inst, c))
			}
		}
		if rich {
			// snap part of SNAP_COMPONENT_NAME not the instance's snap
			other := "zz+" + comp
			add(inst, &other)
		}
	}
	return out
}

func c24Edits(base []string, fn func([]string)) {
	n := len(base)
	for i := 0; i < n; i++ { // delete
		fn(append(append([]string{}, base[:i]...), base[i+1:]...))
	}
	for i := 0; i < n; i++ { // substitute
		for _, tk := range c24Tokens {
			if tk != base[i] {
				x := append([]string{}, base...)
				x[i] = tk
				fn(x)
			}
		}
	}
	for i := 0; i <= n; i++ { // insert
		for _, tk := range c24Tokens {
			x := append(append(append([]string{}, base[:i]...), tk), base[i:]...)
			fn(x)
		}
	}
}

func TestVerifC24Tags(t *testing.T) {
	e := verifkit.NewEnum(t, "C24", "tags")
	defer e.Done()
	d := c24GetDriver(t)
	defer d.stop()
	e.Extra("c_driver", d.flavour)
	if raw, ok := e.Replaying(); ok {
		c24ReplayEnum(t, e, d, raw)
		return
	}
	if verifkit.ReplayRequested() {
		t.Skip("replay is for another engine")
	}
	shard, shards := verifkit.EnvInt("VERIF_SHARD", 0), verifkit.EnvInt("VERIF_SHARDS", 1)
	rich := verifkit.Thorough()
	freeLen := verifkit.Size(3, 4)   // any token sequence up to this many tokens
	prefLen := verifkit.Size(4, 6)   // "snap." + token sequences up to this many tokens
	e.Extra("tokens", fmt.Sprintf("%q", c24Tokens))
	e.Extra("free_sequences_max_tokens", fmt.Sprint(freeLen))
	e.Extra("prefixed_sequences_max_tokens", fmt.Sprint(prefLen))
	e.Extra("edit_distance", fmt.Sprint(verifkit.Size(1, 2)))
	e.Exhaustive(true)

	seen := map[string]bool{}
	var reqs []c24TagReq
	var first []bool
	var hookObs int64
	var hookSamples []string
	var idx int64
	flush := func() {
		if len(reqs) == 0 {
			return
		}
		lines := make([]string, len(reqs))
		for i, r := range reqs {
			lines[i] = r.line(first[i])
		}
		outs, cr, err := d.batch(lines)
		if err != nil {
			t.Fatalf("HARNESS: %v", err)
		}
		if cr != nil {
			if cr.Index < len(reqs) {
				e.Fail(c24TagCase(reqs[cr.Index]), "%v", c24Unsafe(cr))
			}
			t.Fatalf("HARNESS: driver failure not attributable: %+v", cr)
		}
		for i, r := range reqs {
			ob, err := judgeTag(r, outs[i])
			if err != nil {
				if _, ok := err.(*verifkit.Violation); !ok {
					t.Fatalf("%v", err)
				}
				e.Fail(c24TagCase(r), "%v", err)
			}
			labels := []string{}
			if ob.accepted {
				labels = append(labels, "tag-accepted")
			}
			if r.SC != nil {
				labels = append(labels, "with-component")
			}
			if ob.hookObs != "" {
				hookObs++
				if len(hookSamples) < 4 {
					hookSamples = append(hookSamples, ob.hookObs)
				}
			}
			// non-trivial: accepted, or a context of a tag that names a
			// well formed instance (at most an edit away from accepted)
			e.Case(fmt.Sprintf("tag %q inst %q sc %s", r.Tag, r.Inst, c24ptr(r.SC)), ob.accepted || first[i] && goInst(r.Inst) && r.Inst != "ab" || c24TagNear(r.Tag), labels...)
		}
		reqs, first = reqs[:0], first[:0]
	}
	addTag := func(tag string) {
		if seen[tag] {
			return
		}
		seen[tag] = true
		idx++
		if idx%int64(shards) != int64(shard) {
			return
		}
		for i, r := range c24Contexts(tag, rich) {
			reqs = append(reqs, r)
			first = append(first, i == 0)
		}
		if len(reqs) >= 50000 {
			flush()
		}
	}
	join := func(tk []string) string { return strings.Join(tk, "") }

	// (a) all token sequences up to freeLen tokens
	c24Seqs(freeLen, func(tk []string) { addTag(join(tk)) })
	// (b) "snap." followed by all token sequences up to prefLen tokens
	c24Seqs(prefLen, func(tk []string) { addTag("snap." + join(tk)) })
	// (c) edit neighbourhoods of well formed tags
	for _, base := range c24BaseTags {
		addTag(join(base))
		c24Edits(base, func(x []string) {
			addTag(join(x))
			if rich {
				c24Edits(x, func(y []string) { addTag(join(y)) })
			}
		})
	}
	// (c') edit neighbourhoods of near misses: component names that carry
	// what only an instance name may carry
	for _, base := range c24NearTags {
		addTag(join(base))
		c24Edits(base, func(x []string) { addTag(join(x)) })
	}
	// (d) byte sweep over well formed tags
	for _, base := range c24BaseTags {
		tpl := join(base)
		for pos := 0; pos <= len(tpl); pos++ {
			for _, b := range verifc24.Boundary {
				addTag(tpl[:pos] + string([]byte{b}) + tpl[pos:])
				if pos < len(tpl) {
					addTag(tpl[:pos] + string([]byte{b}) + tpl[pos+1:])
				}
			}
		}
	}
	flush()
	e.Extra("distinct_tags_all_shards", fmt.Sprint(idx))
	e.Extra("observation:is-hook-classification-differs", hookObs)
	for i, s := range hookSamples {
		e.Extra(fmt.Sprintf("observation-sample-%d", i), s)
	}
}

// c24TagNear: the tag is within one byte deletion of a tag the daemon parses
// (statistics only).
func c24TagNear(tag string) bool {
	for i := 0; i < len(tag); i++ {
		if _, err := naming.ParseSecurityTag(tag[:i] + tag[i+1:]); err == nil {
			return true
		}
	}
	return false
}

func c24Seqs(maxLen int, fn func([]string)) {
	var rec func(cur []string)
	rec = func(cur []string) {
		fn(cur)
		if len(cur) == maxLen {
			return
		}
		for _, tk := range c24Tokens {
			rec(append(cur, tk))
		}
	}
	rec(make([]string, 0, maxLen))
}

// ---------------------------------------------------------------------------
// engine "random": names at the 40/10/51 limits, tags at the 256 limit

func c24WellFormedApp(t *rapid.T, label string, n int) string {
	s := []byte(verifc24.WellFormedName(t, label, n))
	up := rapid.SliceOfN(rapid.Bool(), n, n).Draw(t, label+"-upper")
	for i := range s {
		if up[i] && s[i] >= 'a' && s[i] <= 'z' {
			s[i] -= 32
		}
	}
	if rapid.Bool().Draw(t, label+"-digits") { // app names need no letter
		for i := range s {
			if s[i] != '-' {
				s[i] = '0' + s[i]%10
			}
		}
	}
	return string(s)
}

func c24WellFormedHook(t *rapid.T, label string, n int) string {
	s := []byte(verifc24.WellFormedName(t, label, n))
	if s[0] < 'a' || s[0] > 'z' {
		s[0] = 'h'
	}
	return string(s)
}

func c24GenTagCase(t *rapid.T) c24Case {
	n := rapid.SampledFrom([]int{2, 3, 7, 20, 39, 40, 40}).Draw(t, "n")
	inst := verifc24.WellFormedName(t, "snap", n)
	if rapid.Bool().Draw(t, "keyed") {
		inst += "_" + verifc24.WellFormedKey(t, "key", rapid.SampledFrom([]int{1, 3, 9, 10, 10}).Draw(t, "k"))
	}
	comp := ""
	if rapid.IntRange(0, 9).Draw(t, "withcomp") < 4 {
		comp = verifc24.WellFormedName(t, "comp", rapid.SampledFrom([]int{2, 5, 39, 40, 40}).Draw(t, "m"))
	}
	head := "snap." + inst
	if comp != "" {
		head += "+" + comp
	}
	isHook := comp != "" && rapid.IntRange(0, 9).Draw(t, "comphook") < 8 || comp == "" && rapid.Bool().Draw(t, "hook")
	if isHook {
		head += ".hook."
	} else {
		head += "."
	}
	// total length: at the 256 limit half of the time
	total := len(head) + rapid.IntRange(1, 30).Draw(t, "short")
	atLimit := rapid.Bool().Draw(t, "atlimit")
	if atLimit {
		total = rapid.IntRange(250, 260).Draw(t, "total")
	}
	last := total - len(head)
	if last < 1 {
		last = 1
	}
	var tail string
	if isHook {
		tail = c24WellFormedHook(t, "hookname", last)
	} else {
		tail = c24WellFormedApp(t, "appname", last)
	}
	tag := head + tail
	tag, one := verifc24.Defect(t, "tagdefect", tag)
	c := c24Case{Kind: "tag", Shape: "tag", AtLimit: atLimit, OneDefect: one}
	if isHook {
		c.Shape = "hook-tag"
	} else {
		c.Shape = "app-tag"
	}
	// context
	ctxInst, ctxComp := inst, comp
	switch rapid.IntRange(0, 11).Draw(t, "ctx") {
	case 0:
		ctxInst = inst[:len(inst)-1]
	case 1:
		ctxInst = inst + "a"
	case 2:
		ctxInst, _, _ = strings.Cut(inst, "_")
	case 3:
		if comp == "" {
			ctxComp = "ab"
		} else {
			ctxComp = ""
		}
	case 4:
		if comp != "" {
			ctxComp = comp[:len(comp)-1]
		}
	case 5:
		if comp != "" {
			ctxComp = comp + "a"
		}
	case 6:
		ctxInst, _ = verifc24.Defect(t, "instdefect", inst)
	}
	c.S = verifc24.MkB(tag)
	ib := verifc24.MkB(ctxInst)
	c.Inst = &ib
	if ctxComp != "" {
		sc := *c24SC(ctxInst, ctxComp)
		switch rapid.IntRange(0, 19).Draw(t, "scdefect") {
		case 0:
			sc = "zz+" + ctxComp
		case 1:
			sc, _ = verifc24.Defect(t, "scd", sc)
		}
		scb := verifc24.MkB(sc)
		c.SC = &scb
	}
	if ctxInst != inst || ctxComp != comp {
		c.Shape += "/other-context"
	}
	return c
}

func TestVerifC24Random(t *testing.T) {
	d := c24GetDriver(t)
	defer d.stop()
	verifkit.Check(t, verifkit.Spec[c24Case]{
		ID: "C24", Engine: "random",
		Gen: func(t *rapid.T) c24Case {
			if rapid.IntRange(0, 9).Draw(t, "what") < 5 {
				return c24GenTagCase(t)
			}
			sub := verifc24.GenSubject(t)
			return c24Case{Kind: "name", S: verifc24.MkB(sub.S), Shape: sub.Shape, OneDefect: sub.OneDefect, AtLimit: sub.AtLimit}
		},
		Run:             func(c c24Case) (verifkit.Outcome, error) { return c24RunCase(d, c) },
		Floors:          map[string]float64{"name": 0.3, "tag": 0.3, "accepted-some": 0.15, "tag-accepted": 0.05, "at-limit": 0.3, "accepted-instance": 0.03, "accepted-component": 0.01, "accepted-key": 0.01},
		NonTrivialFloor: 0.4,
	})
}

// ---------------------------------------------------------------------------
// engine "genlaw": tags generated by the daemon for apps and hooks of a snap
// it accepts pass snap-confine

type c24LawCase struct {
	Name      string   `json:"name"`
	Key       string   `json:"key"`
	Apps      []string `json:"apps"`
	Hooks     []string `json:"hooks"`
	Comp      string   `json:"comp"`
	CompHooks []string `json:"comp_hooks"`
}

var c24HookNames = []string{"configure", "install", "remove", "pre-refresh", "post-refresh", "check-health", "prepare-device", "gate-auto-refresh", "default-configure", "fde-setup", "install-device"}
var c24CompHookNames = []string{"install", "remove", "pre-refresh", "post-refresh"}

func c24GenLaw(t *rapid.T) c24LawCase {
	var c c24LawCase
	c.Name = verifc24.WellFormedName(t, "snap", rapid.SampledFrom([]int{2, 3, 8, 20, 39, 40}).Draw(t, "n"))
	if rapid.IntRange(0, 19).Draw(t, "namedefect") == 0 {
		c.Name, _ = c24ASCIIDefect(t, "nd", c.Name)
	}
	if rapid.Bool().Draw(t, "keyed") {
		c.Key = verifc24.WellFormedKey(t, "key", rapid.SampledFrom([]int{1, 4, 10}).Draw(t, "k"))
	}
	appLen := func() int {
		switch rapid.IntRange(0, 9).Draw(t, "applen") {
		case 0: // tag around snap-confine's 256 limit
			return rapid.IntRange(180, 260).Draw(t, "applen-long")
		case 1:
			return rapid.IntRange(30, 100).Draw(t, "applen-mid")
		default:
			return rapid.IntRange(1, 20).Draw(t, "applen-short")
		}
	}
	for i, n := 0, rapid.IntRange(1, 3).Draw(t, "napps"); i < n; i++ {
		a := c24WellFormedApp(t, "app", appLen())
		if rapid.IntRange(0, 9).Draw(t, "appdefect") == 0 {
			a, _ = c24ASCIIDefect(t, "ad", a)
		}
		c.Apps = append(c.Apps, a)
	}
	for i, n := 0, rapid.IntRange(0, 3).Draw(t, "nhooks"); i < n; i++ {
		var hk string
		switch rapid.IntRange(0, 5).Draw(t, "hookkind") {
		case 0, 1, 2:
			hk = rapid.SampledFrom(c24HookNames).Draw(t, "hook")
		case 3, 4: // interface hooks carry a free plug/slot name
			hk = rapid.SampledFrom([]string{"prepare", "unprepare", "connect", "disconnect"}).Draw(t, "ifhook") + "-" +
				rapid.SampledFrom([]string{"plug", "slot"}).Draw(t, "side") + "-" + verifc24.WellFormedName(t, "plugname", appLen())
		default: // arbitrary well formed hook name (direct ValidateHook path)
			hk = c24WellFormedHook(t, "anyhook", appLen())
		}
		if rapid.IntRange(0, 9).Draw(t, "hookdefect") == 0 {
			hk, _ = c24ASCIIDefect(t, "hd", hk)
		}
		c.Hooks = append(c.Hooks, hk)
	}
	if rapid.IntRange(0, 9).Draw(t, "withcomp") < 5 {
		c.Comp = verifc24.WellFormedName(t, "comp", rapid.SampledFrom([]int{2, 6, 39, 40}).Draw(t, "m"))
		if rapid.IntRange(0, 19).Draw(t, "compdefect") == 0 {
			c.Comp, _ = c24ASCIIDefect(t, "cd", c.Comp)
		}
		c.CompHooks = rapid.SliceOfNDistinct(rapid.SampledFrom(c24CompHookNames), 1, 3, func(s string) string { return s }).Draw(t, "comphooks")
	}
	return c
}

// c24ASCIIDefect: a defect that keeps the string printable ASCII without
// quote or backslash (the case goes through JSON and a YAML key).
func c24ASCIIDefect(t *rapid.T, label, s string) (string, bool) {
	for i := 0; i < 8; i++ {
		x, one := verifc24.Defect(t, fmt.Sprintf("%s%d", label, i), s)
		ok := x != ""
		for j := 0; j < len(x); j++ {
			if x[j] < 0x20 || x[j] > 0x7e || x[j] == '"' || x[j] == '\\' {
				ok = false
			}
		}
		if ok {
			return x, one
		}
	}
	return s, false
}

func c24LawYAML(c c24LawCase) string {
	var b strings.Builder
	fmt.Fprintf(&b, "name: \"%s\"\nversion: \"1\"\n", c.Name)
	if len(c.Apps) > 0 {
		b.WriteString("apps:\n")
		for _, a := range c.Apps {
			fmt.Fprintf(&b, "  \"%s\":\n    command: bin/x\n", a)
		}
	}
	if len(c.Hooks) > 0 {
		b.WriteString("hooks:\n")
		for _, h := range c.Hooks {
			fmt.Fprintf(&b, "  \"%s\":\n    command-chain: [bin/y]\n", h)
		}
	}
	if c.Comp != "" {
		fmt.Fprintf(&b, "components:\n  \"%s\":\n    type: test\n", c.Comp)
		if len(c.CompHooks) > 0 {
			b.WriteString("    hooks:\n")
			for _, h := range c.CompHooks {
				fmt.Fprintf(&b, "      \"%s\":\n        command-chain: [bin/z]\n", h)
			}
		}
	}
	return b.String()
}

func c24Uniq(xs []string) []string {
	m := map[string]bool{}
	var out []string
	for _, x := range xs {
		if !m[x] {
			m[x] = true
			out = append(out, x)
		}
	}
	return out
}

func c24RunLaw(d *c24Driver, c c24LawCase) (verifkit.Outcome, error) {
	o := verifkit.Outcome{Extra: map[string]int64{"driver:" + d.flavour: 1}}
	type gen struct {
		what string
		req  c24TagReq
	}
	var tags []gen
	instName := c.Name
	if c.Key != "" {
		instName += "_" + c.Key
	}

	// path 1: the snap.yaml the daemon reads at install time
	c.Apps, c.Hooks = c24Uniq(c.Apps), c24Uniq(c.Hooks)
	info, err := snap.InfoFromSnapYaml([]byte(c24LawYAML(c)))
	if err == nil {
		info.InstanceKey = c.Key
		err = snap.Validate(info)
	}
	if err == nil {
		o.Labels = append(o.Labels, "snap-accepted")
		inst := info.InstanceName()
		for _, name := range verifkit.SortedKeys(info.Apps) {
			tags = append(tags, gen{"snap.yaml app " + name, c24TagReq{Tag: info.Apps[name].SecurityTag(), Inst: inst}})
		}
		for _, name := range verifkit.SortedKeys(info.Hooks) {
			tags = append(tags, gen{"snap.yaml hook " + name, c24TagReq{Tag: info.Hooks[name].SecurityTag(), Inst: inst}})
		}
		for _, cn := range verifkit.SortedKeys(info.Components) {
			comp := info.Components[cn]
			for _, hn := range verifkit.SortedKeys(comp.ExplicitHooks) {
				// SNAP_COMPONENT_NAME as set by snap/snapenv: ComponentRef.String()
				sc := naming.NewComponentRef(info.SnapName(), cn).String()
				tags = append(tags, gen{"snap.yaml component hook " + cn + "/" + hn, c24TagReq{Tag: comp.ExplicitHooks[hn].SecurityTag(), Inst: inst, SC: &sc}})
				o.Labels = append(o.Labels, "component-hook")
			}
		}
	} else {
		o.Labels = append(o.Labels, "snap-rejected")
	}

	// path 2: the validators named by the property, on bare structures
	// (a snap the daemon accepts: valid snap name and valid instance name; a
	// name with a defect such as "aa_a" is no snap name although it reads as
	// an instance name)
	if goSnap(c.Name) && goInst(instName) {
		si := &snap.Info{SuggestedName: c.Name, InstanceKey: c.Key}
		for _, a := range c.Apps {
			app := &snap.AppInfo{Snap: si, Name: a, Command: "bin/x"}
			if snap.ValidateApp(app) == nil {
				tags = append(tags, gen{"ValidateApp " + a, c24TagReq{Tag: app.SecurityTag(), Inst: instName}})
			}
		}
		for _, h := range c.Hooks {
			hook := &snap.HookInfo{Snap: si, Name: h}
			if snap.ValidateHook(hook) == nil {
				tags = append(tags, gen{"ValidateHook " + h, c24TagReq{Tag: hook.SecurityTag(), Inst: instName}})
			}
			if c.Comp != "" && goSnap(c.Comp) {
				chook := &snap.HookInfo{Snap: si, Name: h, Component: &snap.Component{Name: c.Comp}}
				if snap.ValidateHook(chook) == nil {
					sc := naming.NewComponentRef(c.Name, c.Comp).String()
					tags = append(tags, gen{"ValidateHook " + h + " of component " + c.Comp, c24TagReq{Tag: chook.SecurityTag(), Inst: instName, SC: &sc}})
				}
			}
		}
	}

	var firstErr error
	for _, g := range tags {
		ans, cr, err := d.ask(g.req.line(false))
		if err != nil {
			panic("HARNESS: " + err.Error())
		}
		if cr != nil {
			return o, c24Unsafe(cr)
		}
		if len(ans) != 3 || ans[:2] != "t " {
			panic(fmt.Sprintf("HARNESS: bad driver answer %q", ans))
		}
		o.Extra["generated-tags"]++
		if len(g.req.Tag) > c24TagMax-6 && len(g.req.Tag) <= c24TagMax {
			o.Labels = append(o.Labels, "tag-just-below-limit")
		}
		want, _, parsed := goInvocation(g.req)
		if want != '1' {
			// the daemon does not recognise its own tag
			return o, verifkit.Violatef("%s: generated tag %q for instance %q component %s is not parsed back by the daemon as such (verdict %c, parsed %v)",
				g.what, g.req.Tag, g.req.Inst, c24ptr(g.req.SC), want, parsed)
		}
		if ans[2] != '1' {
			what := map[byte]string{'i': "rejects the instance name", 'c': "rejects the snap+component", '0': "rejects the tag"}[ans[2]]
			if ans[2] == '0' && len(g.req.Tag) > c24TagMax {
				// narrow: everything about the tag is fine (the daemon parses
				// it back) except that it is longer than snap-confine's limit
				if firstErr == nil {
					firstErr = verifkit.Knownf("F-C24-1", "%s: the daemon accepts the snap and generates tag of length %d > %d, snap-confine %s: %q",
						g.what, len(g.req.Tag), c24TagMax, what, g.req.Tag)
				}
				o.Labels = append(o.Labels, "tag-over-256")
				continue
			}
			return o, verifkit.Violatef("%s: the daemon accepts the snap and generates tag %q (len %d) for instance %q component %s, snap-confine %s",
				g.what, g.req.Tag, len(g.req.Tag), g.req.Inst, c24ptr(g.req.SC), what)
		}
	}
	o.Labels = c24Uniq(o.Labels)
	o.NonTrivial = len(tags) > 0
	o.Desc = fmt.Sprintf("snap %q: %d generated tags accepted", instName, len(tags))
	if len(tags) > 0 {
		o.Desc += fmt.Sprintf(", e.g. %q", tags[len(tags)-1].req.Tag)
	}
	return o, firstErr
}

func TestVerifC24GenLaw(t *testing.T) {
	d := c24GetDriver(t)
	defer d.stop()
	// interface-specific sanitizing of plugs/slots is wired in by the
	// interfaces package in the daemon; the generated snaps have none
	defer snap.MockSanitizePlugsSlots(func(*snap.Info) {})()
	verifkit.Check(t, verifkit.Spec[c24LawCase]{
		ID: "C24", Engine: "genlaw",
		Gen:             c24GenLaw,
		Run:             func(c c24LawCase) (verifkit.Outcome, error) { return c24RunLaw(d, c) },
		Floors:          map[string]float64{"snap-accepted": 0.3, "component-hook": 0.1},
		NonTrivialFloor: 0.5,
	})
}
