// Package verifc24 holds the input generators shared by the C24 engines of
// snap/naming (C driver vs Go) and cmd/snap-update-ns (cgo vs Go).  It knows
// nothing about any validator: it only produces byte strings.
package verifc24

import (
	"encoding/hex"
	"strconv"

	"pgregory.net/rapid"
)

// B is a byte string that survives JSON (replay files) unchanged, also when
// it is not valid UTF-8.  Hex is authoritative; Q is its Go-quoted rendering
// for human readers and is ignored when a case is loaded.
type B struct {
	Hex string `json:"hex"`
	Q   string `json:"q,omitempty"`
}

func MkB(s string) B { return B{Hex: hex.EncodeToString([]byte(s)), Q: strconv.QuoteToASCII(s)} }

// S returns the byte string.
func (b B) S() string {
	raw, err := hex.DecodeString(b.Hex)
	if err != nil {
		panic("HARNESS: bad hex in case: " + b.Hex)
	}
	return string(raw)
}

// Alphabet is the covering alphabet of the exhaustive part: one or two
// representatives of every character class some validator distinguishes
// (lower case letters, digits, dash, underscore, dot, plus, upper case, other
// printable, non-ASCII byte).
const Alphabet = "az09-_.+A \x80"

// ClassAlphabet has exactly one representative per class that can occur in
// an accepted name (used one length beyond the full enumeration).
const ClassAlphabet = "a0-_+.A"

// Boundary bytes: neighbours of the ranges a-z, A-Z, 0-9 in ASCII, the
// separators, control characters and non-ASCII bytes.
var Boundary = []byte{1, '\t', '\n', '\r', ' ', '*', '+', ',', '-', '.', '/', '0', '9', ':', '@', 'A', 'Z', '[', '_', '`', 'a', 'z', '{', 0x7f, 0x80, 0xc3, 0xff}

// Count returns the number of strings over an alphabet of n symbols with
// length in [minLen, maxLen].
func Count(n, minLen, maxLen int) int64 {
	var total, p int64 = 0, 1
	for l := 0; l <= maxLen; l++ {
		if l >= minLen {
			total += p
		}
		p *= int64(n)
	}
	return total
}

// Enumerate calls fn for every string over alpha with length in
// [minLen,maxLen] whose running number is congruent to shard modulo shards.
// The slice passed to fn is reused.
func Enumerate(alpha string, minLen, maxLen, shard, shards int, fn func(s []byte)) {
	var idx int64
	for l := minLen; l <= maxLen; l++ {
		buf := make([]byte, l)
		pos := make([]int, l)
		for i := range buf {
			buf[i] = alpha[0]
		}
		for {
			if idx%int64(shards) == int64(shard) {
				fn(buf)
			}
			idx++
			i := l - 1
			for ; i >= 0; i-- {
				pos[i]++
				if pos[i] < len(alpha) {
					buf[i] = alpha[pos[i]]
					break
				}
				pos[i] = 0
				buf[i] = alpha[0]
			}
			if i < 0 {
				break
			}
		}
	}
}

// ---- random generation --------------------------------------------------

const lower = "abcdefghijklmnopqrstuvwxyz"
const digits = "0123456789"

// nameChars is weighted: letters, digits, some dashes.
var nameChars = []byte(lower + lower + digits + "-----")

// nasty bytes used for single-character defects.
var nasty = []byte{'A', 'Z', '_', '.', '+', ' ', '\n', '\t', 0x80, 0xff, 0xc3, '/', ':', '@', '[', '`', '{', '-', '0', 'a', '*', 1}

// WellFormedName draws a string of exactly n >= 1 bytes over [a-z0-9-] without
// leading, trailing or doubled dashes and with at least one letter: the shape
// every implementation documents as a valid snap name when 2 <= n <= 40.
func WellFormedName(t *rapid.T, label string, n int) string {
	raw := rapid.SliceOfN(rapid.SampledFrom(nameChars), n, n).Draw(t, label)
	s := append([]byte(nil), raw...)
	letter := false
	for i := range s {
		if s[i] == '-' && (i == 0 || i == n-1 || s[i-1] == '-') {
			s[i] = lower[i%26]
		}
		if s[i] >= 'a' && s[i] <= 'z' {
			letter = true
		}
	}
	if !letter {
		i := rapid.IntRange(0, n-1).Draw(t, label+"-letter")
		s[i] = lower[(i*7)%26]
	}
	return string(s)
}

// WellFormedKey draws n bytes over [a-z0-9].
func WellFormedKey(t *rapid.T, label string, n int) string {
	return string(rapid.SliceOfN(rapid.SampledFrom([]byte(lower+digits)), n, n).Draw(t, label))
}

// Defect applies at most one edit to s.  It returns the edited string and
// whether exactly one single-byte edit (substitution, insertion, deletion)
// was applied.
func Defect(t *rapid.T, label string, s string) (string, bool) {
	kind := rapid.IntRange(0, 9).Draw(t, label+"-kind")
	b := []byte(s)
	switch kind {
	case 0, 1: // no defect
		return s, false
	case 2: // substitute a nasty byte
		if len(b) == 0 {
			return s, false
		}
		i := rapid.IntRange(0, len(b)-1).Draw(t, label+"-pos")
		b[i] = rapid.SampledFrom(nasty).Draw(t, label+"-byte")
		return string(b), true
	case 3: // insert a dash
		i := rapid.IntRange(0, len(b)).Draw(t, label+"-pos")
		return string(b[:i]) + "-" + string(b[i:]), true
	case 4: // trailing newline
		return s + "\n", true
	case 5: // one more well formed character
		return s + string(rapid.SampledFrom([]byte(lower+digits)).Draw(t, label+"-byte")), true
	case 6: // one character less
		if len(b) == 0 {
			return s, false
		}
		i := rapid.IntRange(0, len(b)-1).Draw(t, label+"-pos")
		return string(b[:i]) + string(b[i+1:]), true
	case 7: // insert a nasty byte
		i := rapid.IntRange(0, len(b)).Draw(t, label+"-pos")
		c := rapid.SampledFrom(nasty).Draw(t, label+"-byte")
		return string(b[:i]) + string([]byte{c}) + string(b[i:]), true
	case 8: // letters to digits (no letter left)
		for i := range b {
			if b[i] >= 'a' && b[i] <= 'z' {
				b[i] = '0' + (b[i]-'a')%10
			}
		}
		return string(b), false
	default: // duplicate a byte
		if len(b) == 0 {
			return s, false
		}
		i := rapid.IntRange(0, len(b)-1).Draw(t, label+"-pos")
		return string(b[:i+1]) + string(b[i:]), true
	}
}

var nameLens = []int{2, 3, 7, 38, 39, 39, 40, 40, 40, 41, 41, 42}
var keyLens = []int{1, 2, 9, 9, 10, 10, 10, 11, 11, 12}

// Subject is one generated candidate name.
type Subject struct {
	S         string
	Shape     string // snap, key, instance, component, raw
	OneDefect bool   // a well formed string with exactly one single-byte edit
	AtLimit   bool   // built at a length limit (40/10/51) +-2
}

// GenSubject draws a candidate for the name validators: a well formed snap
// name, instance key, instance name or snap+component string with lengths
// around the 40/10/51 limits and at most one defect, or raw bytes.
func GenSubject(t *rapid.T) Subject {
	shape := rapid.SampledFrom([]string{"snap", "snap", "key", "instance", "instance", "instance", "component", "component", "raw"}).Draw(t, "shape")
	sub := Subject{Shape: shape}
	switch shape {
	case "snap":
		n := rapid.SampledFrom(nameLens).Draw(t, "n")
		sub.AtLimit = n >= 38
		sub.S, sub.OneDefect = Defect(t, "d", WellFormedName(t, "name", n))
	case "key":
		n := rapid.SampledFrom(keyLens).Draw(t, "n")
		sub.AtLimit = n >= 9
		sub.S, sub.OneDefect = Defect(t, "d", WellFormedKey(t, "key", n))
	case "instance":
		n := rapid.SampledFrom(nameLens).Draw(t, "n")
		k := rapid.SampledFrom(keyLens).Draw(t, "k")
		sub.AtLimit = n >= 38 || k >= 9
		name := WellFormedName(t, "name", n)
		key := WellFormedKey(t, "key", k)
		switch rapid.IntRange(0, 5).Draw(t, "where") {
		case 0: // defect in the name part
			name, sub.OneDefect = Defect(t, "d", name)
			sub.S = name + "_" + key
		case 1: // defect in the key part
			key, sub.OneDefect = Defect(t, "d", key)
			sub.S = name + "_" + key
		case 2: // second underscore
			sub.S = name + "_" + key + "_" + WellFormedKey(t, "key2", 1)
		default:
			sub.S, sub.OneDefect = Defect(t, "d", name+"_"+key)
		}
	case "component":
		n := rapid.SampledFrom(nameLens).Draw(t, "n")
		m := rapid.SampledFrom(nameLens).Draw(t, "m")
		sub.AtLimit = n >= 38 || m >= 38
		a := WellFormedName(t, "name", n)
		c := WellFormedName(t, "comp", m)
		switch rapid.IntRange(0, 4).Draw(t, "where") {
		case 0:
			a, sub.OneDefect = Defect(t, "d", a)
			sub.S = a + "+" + c
		case 1:
			c, sub.OneDefect = Defect(t, "d", c)
			sub.S = a + "+" + c
		case 2:
			sub.S = a + "+" + c + "+" + WellFormedName(t, "third", 2)
		default:
			sub.S, sub.OneDefect = Defect(t, "d", a+"+"+c)
		}
	default:
		n := rapid.SampledFrom([]int{0, 1, 2, 5, 39, 40, 41, 50, 51, 52, 53, 54, 60, 100}).Draw(t, "n")
		sub.AtLimit = n >= 39 && n <= 54
		if rapid.Bool().Draw(t, "anybyte") {
			sub.S = string(rapid.SliceOfN(rapid.ByteRange(1, 255), n, n).Draw(t, "raw"))
		} else {
			sub.S = string(rapid.SliceOfN(rapid.SampledFrom([]byte(Alphabet+"\n")), n, n).Draw(t, "raw"))
		}
	}
	return sub
}
