package channel

// C34 — channel names normalise consistently and pinned tracks cannot be switched.
// Unexported identifiers used: none (Parse, ParseVerbatim, Channel.Clean/String/Full,
// Full, Resolve, ResolvePinned, ErrPinnedTrackSwitch only).
//
// Oracles (none of them re-runs channel.go against itself for the expected value):
//  grammar   c34Model: a channel is track | risk | track/risk | risk/branch |
//            track/risk/branch, no empty component, at most three; a single or a
//            leading-of-two component spelled like a risk *is* the risk; "latest" is the
//            default track, "stable" the default risk (Parse doc comment + the store
//            channel syntax).  Decides accept/reject and the expected fields.
//  laws      Parse(c.String())==c, c.Clean()==c, Full(Full(s))==Full(s), c.Full() names
//            track and risk and parses back to c (property sentence 1).
//  spelling  a (track,risk,branch) meaning is spelled in every legal way (explicit or
//            implicit latest, explicit or implicit stable) and must read back as that
//            meaning: the expectation exists before any snapd code runs.
//  resolve   Resolve doc comment: "" keeps the other side, a risk(/branch)-only request
//            keeps the current track, anything else is the request (property sentence 1).
//  pinned    ResolvePinned doc comment + property sentence 2: result within the pinned
//            track or ErrPinnedTrackSwitch (the sentinel the callers in
//            overlord/snapstate and seed/seedwriter compare against).

import (
	"encoding/json"
	"fmt"
	"strings"
	"testing"

	"github.com/snapcore/snapd/verifkit"
	"pgregory.net/rapid"
)

// the four risk levels of the store channel syntax
var c34Risks = []string{"stable", "candidate", "beta", "edge"}

func c34IsRisk(s string) bool {
	for _, r := range c34Risks {
		if r == s {
			return true
		}
	}
	return false
}

// c34Sem is the meaning of a channel string.
type c34Sem struct{ Track, Risk, Branch string }

// c34Model reads s verbatim (no defaults applied); ok=false when s is not a channel.
func c34Model(s string) (m c34Sem, ok bool) {
	if s == "" {
		return m, false
	}
	comps := strings.Split(s, "/")
	for _, c := range comps {
		if c == "" {
			return m, false
		}
	}
	switch len(comps) {
	case 1:
		if c34IsRisk(comps[0]) {
			return c34Sem{Risk: comps[0]}, true
		}
		return c34Sem{Track: comps[0]}, true
	case 2:
		if c34IsRisk(comps[0]) {
			return c34Sem{Risk: comps[0], Branch: comps[1]}, true
		}
		if c34IsRisk(comps[1]) {
			return c34Sem{Track: comps[0], Risk: comps[1]}, true
		}
	case 3:
		if c34IsRisk(comps[1]) {
			return c34Sem{Track: comps[0], Risk: comps[1], Branch: comps[2]}, true
		}
	}
	return m, false
}

// norm applies the documented defaults: track latest is implicit, risk defaults to stable.
func (m c34Sem) norm() c34Sem {
	if m.Track == "latest" {
		m.Track = ""
	}
	if m.Risk == "" {
		m.Risk = "stable"
	}
	return m
}

// name is the normalised spelling of a normalised meaning.
func (m c34Sem) name() string {
	s := m.Risk
	if m.Track != "" {
		s = m.Track + "/" + s
	}
	if m.Branch != "" {
		s += "/" + m.Branch
	}
	return s
}

// full always names track and risk.
func (m c34Sem) full() string {
	t := m.Track
	if t == "" {
		t = "latest"
	}
	s := t + "/" + m.Risk
	if m.Branch != "" {
		s += "/" + m.Branch
	}
	return s
}

func (m c34Sem) String() string { return fmt.Sprintf("(track=%q risk=%q branch=%q)", m.Track, m.Risk, m.Branch) }

// c34Show prints every field (Channel has a String method that would hide them).
func c34Show(c Channel) string {
	return fmt.Sprintf("{arch=%q name=%q track=%q risk=%q branch=%q}", c.Architecture, c.Name, c.Track, c.Risk, c.Branch)
}

func c34SemOf(c Channel) c34Sem { return c34Sem{c.Track, c.Risk, c.Branch} }

func c34HasEmptyComponent(s string) bool {
	if s == "" {
		return false
	}
	for _, c := range strings.Split(s, "/") {
		if c == "" {
			return true
		}
	}
	return false
}

// c34StringLaws: everything claimed about one string.
func c34StringLaws(s, archName string) error {
	m, ok := c34Model(s)
	v, verr := ParseVerbatim(s, archName)
	c, perr := Parse(s, archName)
	if ok && (verr != nil || perr != nil) {
		return verifkit.Violatef("well-formed channel %q %v rejected: ParseVerbatim err=%v Parse err=%v", s, m, verr, perr)
	}
	if !ok && (verr == nil || perr == nil) {
		return verifkit.Violatef("malformed channel %q accepted: ParseVerbatim=%s err=%v, Parse=%s err=%v", s, c34Show(v), verr, c34Show(c), perr)
	}

	full, ferr := Full(s)
	if s == "" && (full != "" || ferr != nil) {
		return verifkit.Violatef("Full(\"\") = %q, %v; want \"\"", full, ferr)
	}
	if ferr == nil && full != "" {
		comps := strings.Split(full, "/")
		if len(comps) < 2 || len(comps) > 3 {
			return verifkit.Violatef("Full(%q)=%q does not name track and risk", s, full)
		}
		for _, x := range comps {
			if x == "" {
				return verifkit.Violatef("Full(%q)=%q has an empty component", s, full)
			}
		}
	}
	if ferr == nil {
		again, err := Full(full)
		if err != nil || again != full {
			return verifkit.Violatef("Full is not idempotent: Full(%q)=%q, Full(%q)=%q err=%v", s, full, full, again, err)
		}
	}
	if !ok {
		return nil
	}

	// verbatim reading
	if got := c34SemOf(v); got != m {
		return verifkit.Violatef("ParseVerbatim(%q) = %v, want %v", s, got, m)
	}
	if wantTO := m.Track != "" && m.Risk == "" && m.Branch == ""; v.VerbatimTrackOnly() != wantTO {
		return verifkit.Violatef("ParseVerbatim(%q).VerbatimTrackOnly() = %v", s, !wantTO)
	}
	if wantRO := m.Track == "" && m.Risk != "" && m.Branch == ""; v.VerbatimRiskOnly() != wantRO {
		return verifkit.Violatef("ParseVerbatim(%q).VerbatimRiskOnly() = %v", s, !wantRO)
	}
	if archName != "" && (v.Architecture != archName || c.Architecture != archName) {
		return verifkit.Violatef("architecture %q not carried: verbatim %q, parsed %q", archName, v.Architecture, c.Architecture)
	}
	if c.Architecture == "" || c.Architecture != v.Architecture {
		return verifkit.Violatef("architecture of %q: verbatim %q, parsed %q", s, v.Architecture, c.Architecture)
	}

	// normalised reading
	n := m.norm()
	want := Channel{Architecture: c.Architecture, Name: n.name(), Track: n.Track, Risk: n.Risk, Branch: n.Branch}
	if c != want {
		return verifkit.Violatef("Parse(%q) = %s, want %s", s, c34Show(c), c34Show(want))
	}
	if v.Clean() != c {
		return verifkit.Violatef("ParseVerbatim(%q).Clean() = %s differs from Parse = %s", s, c34Show(v.Clean()), c34Show(c))
	}
	// normalising twice = once
	if cc := c.Clean(); cc != c {
		return verifkit.Violatef("Clean not idempotent on Parse(%q): %s -> %s", s, c34Show(c), c34Show(cc))
	}
	c2, err := Parse(c.String(), archName)
	if err != nil || c2 != c {
		return verifkit.Violatef("Parse(%q).String()=%q parses to %s err=%v, want %s", s, c.String(), c34Show(c2), err, c34Show(c))
	}
	// the full form names track and risk and means the same
	cf := c.Full()
	if cf != n.full() {
		return verifkit.Violatef("Parse(%q).Full() = %q, want %q", s, cf, n.full())
	}
	comps := strings.Split(cf, "/")
	if len(comps) < 2 || comps[0] == "" || !c34IsRisk(comps[1]) {
		return verifkit.Violatef("Parse(%q).Full() = %q does not name track and risk", s, cf)
	}
	c3, err := Parse(cf, archName)
	if err != nil || c3 != c {
		return verifkit.Violatef("Parse(%q).Full()=%q parses to %s err=%v, want %s", s, cf, c34Show(c3), err, c34Show(c))
	}
	if ferr != nil || full != cf {
		return verifkit.Violatef("Full(%q) = %q err=%v, but Parse(%q).Full() = %q", s, full, ferr, s, cf)
	}
	return nil
}

// c34Means checks that res is a channel meaning want.
func c34Means(res string, want c34Sem) bool {
	c, err := Parse(res, "-")
	return err == nil && c34SemOf(c) == want
}

type c34Info struct {
	nonTrivial bool
	labels     []string
}

func (i *c34Info) label(l string) { i.labels = append(i.labels, l) }

// c34ResolveLaws: Resolve(cur, req).
func c34ResolveLaws(cur, req string, info *c34Info) error {
	res, err := Resolve(cur, req)
	if req == "" {
		if err != nil || res != cur {
			return verifkit.Violatef("Resolve(%q, \"\") = %q, %v; want the channel unchanged", cur, res, err)
		}
		return nil
	}
	if cur == "" {
		if err != nil || res != req {
			return verifkit.Violatef("Resolve(\"\", %q) = %q, %v; want the request unchanged", req, res, err)
		}
		return nil
	}
	mc, okc := c34Model(cur)
	mr, okr := c34Model(req)
	if !okc || !okr {
		return nil // documented: assumes the channel is parseable; callers validate the request first
	}
	info.nonTrivial = true
	var want c34Sem
	if mr.Track == "" {
		// risk or risk/branch only: keeps the current track
		want = c34Sem{Track: mc.Track, Risk: mr.Risk, Branch: mr.Branch}.norm()
		if mc.Track != "" {
			info.label("risk-only-req")
		}
	} else {
		want = mr.norm()
		if mc.Track == mr.Track {
			info.label("same-track-req")
		} else {
			info.label("other-track-req")
		}
	}
	if err == nil && c34Means(res, want) {
		return nil
	}
	if err == nil && mc.Track != "" && res == mc.Track+"/"+req &&
		((mr.Track == "" && c34IsRisk(mc.Track)) || c34IsRisk(mr.Track)) {
		return verifkit.Knownf("F-C34-1", "Resolve(%q, %q) = %q which is not a channel meaning %v (a track spelled like a risk is taken for the risk)", cur, req, res, want)
	}
	return verifkit.Violatef("Resolve(%q, %q) = %q, %v; want a channel meaning %v", cur, req, res, err, want)
}

// c34PinnedLaws: ResolvePinned(pinned, req).
func c34PinnedLaws(pinned, req string, info *c34Info) error {
	res, err := ResolvePinned(pinned, req)
	if pinned == "" {
		if err != nil || res != req {
			return verifkit.Violatef("ResolvePinned(\"\", %q) = %q, %v; want the request unchanged", req, res, err)
		}
		return nil
	}
	mp, okp := c34Model(pinned)
	if !okp || mp.Track == "" || mp.Risk != "" || mp.Branch != "" {
		info.label("bad-pinned")
		if err == nil {
			return verifkit.Violatef("ResolvePinned(%q, %q) = %q: pinned argument is not a track but was accepted", pinned, req, res)
		}
		return nil
	}
	if req == "" {
		if err != nil || res != pinned {
			return verifkit.Violatef("ResolvePinned(%q, \"\") = %q, %v; want the pinned track", pinned, res, err)
		}
		return nil
	}
	info.nonTrivial = true
	// for every request: refused, or within the pinned track
	if err == nil && strings.Split(res, "/")[0] != pinned {
		return verifkit.Violatef("ResolvePinned(%q, %q) = %q leaves the pinned track", pinned, req, res)
	}
	mr, okr := c34Model(req)
	if !okr {
		info.label("pinned-malformed-req")
		return nil
	}
	switch {
	case mr.Track == "":
		info.label("pinned-risk-only")
		want := c34Sem{Track: pinned, Risk: mr.Risk, Branch: mr.Branch}.norm()
		if err != nil || !c34Means(res, want) {
			return verifkit.Violatef("ResolvePinned(%q, %q) = %q, %v; want a channel meaning %v", pinned, req, res, err, want)
		}
	case mr.Track == pinned:
		info.label("pinned-within")
		if want := mr.norm(); err != nil || !c34Means(res, want) {
			return verifkit.Violatef("ResolvePinned(%q, %q) = %q, %v; want a channel meaning %v", pinned, req, res, err, want)
		}
	default:
		info.label("pinned-switch")
		if strings.HasPrefix(mr.Track, pinned) || strings.HasPrefix(pinned, mr.Track) {
			info.label("pinned-lookalike")
		}
		if err != ErrPinnedTrackSwitch {
			if err == nil && c34IsRisk(mr.Track) && res == pinned+"/"+req {
				return verifkit.Knownf("F-C34-1", "ResolvePinned(%q, %q) = %q: request for track %q is not refused (a track spelled like a risk is taken for the risk)", pinned, req, res, mr.Track)
			}
			return verifkit.Violatef("ResolvePinned(%q, %q) = %q, %v; the request names track %q and must be refused with ErrPinnedTrackSwitch", pinned, req, res, err, mr.Track)
		}
	}
	return nil
}

// c34Case: Cur doubles as current channel (Resolve) and as pinned track (ResolvePinned).
type c34Case struct{ Cur, New, Arch string }

func c34Run(c c34Case) (verifkit.Outcome, error) {
	info := &c34Info{}
	for _, s := range []string{c.Cur, c.New} {
		if m, ok := c34Model(s); ok {
			if m.Track == "latest" {
				info.label("latest")
			}
			if c34IsRisk(m.Track) {
				info.label("risk-as-track")
			}
			if c34IsRisk(m.Branch) {
				info.label("risk-as-branch")
			}
		} else if s != "" {
			info.label("malformed")
		}
		if c34HasEmptyComponent(s) {
			info.label("extra-slash")
		}
	}
	out := func() verifkit.Outcome {
		return verifkit.Outcome{NonTrivial: info.nonTrivial, Labels: info.labels}
	}
	// every law is evaluated; a plain violation takes precedence over a known finding
	// so that a known hit never hides another claim about the same case
	var known error
	for _, err := range []error{
		c34StringLaws(c.Cur, c.Arch),
		c34StringLaws(c.New, c.Arch),
		c34ResolveLaws(c.Cur, c.New, info),
		c34PinnedLaws(c.Cur, c.New, info),
	} {
		if err == nil {
			continue
		}
		if v, ok := err.(*verifkit.Violation); ok && v.Fingerprint != "" {
			if known == nil {
				known = err
			}
			continue
		}
		return out(), err
	}
	return out(), known
}

// ---------------------------------------------------------------------------------
// enumeration over the component set of DESIGN.md §3 C34

// DESIGN.md component set plus one look-alike of a track ("1.0.1" has "1.0" as a prefix)
var c34Components = []string{"", "latest", "stable", "candidate", "beta", "edge", "1.0", "foo", "hotfix-1", "1.0.1"}
var c34MoreComponents = []string{"Latest", "stablex"}

// c34Joined returns every string made of 1..maxComps components joined by "/".
func c34Joined(comps []string, maxComps int) []string {
	var out []string
	prev := []string{}
	for _, c := range comps {
		prev = append(prev, c)
	}
	out = append(out, prev...)
	for n := 2; n <= maxComps; n++ {
		var cur []string
		for _, p := range prev {
			for _, c := range comps {
				cur = append(cur, p+"/"+c)
			}
		}
		out = append(out, cur...)
		prev = cur
	}
	return out
}

// TestVerifC34Enum: every string of up to five components over the component set
// (string laws) and every ordered pair of strings of up to three components
// (Resolve with the first as current channel, ResolvePinned with the first as pin).
func TestVerifC34Enum(t *testing.T) {
	e := verifkit.NewEnum(t, "C34", "enum")
	defer e.Done()
	one := func(c c34Case) (verifkit.Outcome, bool) {
		o, err := c34Run(c)
		if err != nil {
			if v, ok := err.(*verifkit.Violation); ok && e.Known(v.Fingerprint) {
				return o, false
			}
			e.Fail(c, "%v", err)
		}
		return o, true
	}
	if raw, ok := e.Replaying(); ok {
		var c c34Case
		if err := json.Unmarshal(raw, &c); err != nil {
			t.Fatalf("cannot decode replay case: %v", err)
		}
		one(c)
		return
	}
	comps := c34Components
	if verifkit.Thorough() {
		comps = append(append([]string{}, c34Components...), c34MoreComponents...)
	}
	shard, shards := verifkit.EnvInt("VERIF_SHARD", 0), verifkit.EnvInt("VERIF_SHARDS", 1)
	classes := map[string]int64{}
	var n, nt int64

	long := c34Joined(comps, 5)
	for i, s := range long {
		if i%shards != shard {
			continue
		}
		o, counted := one(c34Case{Cur: s, New: "", Arch: "-"})
		if !counted {
			continue
		}
		n++
		if _, ok := c34Model(s); ok || strings.Contains(s, "/") {
			nt++ // a real channel, or a multi-component string that must be refused
		}
		for _, l := range o.Labels {
			classes["strings:"+l]++
		}
	}
	short := append([]string{""}, c34Joined(comps, 3)...)
	for i, a := range short {
		if i%shards != shard {
			continue
		}
		for _, b := range short {
			o, counted := one(c34Case{Cur: a, New: b, Arch: "-"})
			if !counted {
				continue
			}
			n++
			if o.NonTrivial {
				nt++
			}
			for _, l := range o.Labels {
				classes["pairs:"+l]++
			}
		}
	}
	e.Bulk(n, nt)
	for _, k := range verifkit.SortedKeys(classes) {
		e.Extra("class "+k, classes[k])
	}
	e.Extra("components", strings.Join(comps, ","))
	e.Extra("strings_up_to_5_components", fmt.Sprint(len(long)))
	e.Extra("pair_strings_up_to_3_components", fmt.Sprint(len(short)))
	ex := (len(short)/3 + 37*shard) % len(short)
	e.Sample(fmt.Sprintf("all %d strings of <=5 components and all %d x %d pairs of strings of <=3 components over {%s} (shard %d/%d), e.g. Resolve/ResolvePinned(%q,%q)",
		len(long), len(short), len(short), strings.Join(comps, ","), shard, shards, short[ex], short[(ex*7+11)%len(short)]))
	e.Exhaustive(true)
}

// ---------------------------------------------------------------------------------
// spelling: meaning -> every legal spelling -> same meaning

type c34SpellCase struct {
	Track, Risk, Branch string // the meaning; Track "" = default track
	ExplicitLatest      bool   // spell the default track as "latest"
	OmitStable          bool   // leave the default risk out where the syntax allows
	Arch                string
}

// c34Spell returns the spelling, or ok=false when this meaning cannot be written
// (a track named like a risk needs the three component form).
func c34Spell(c c34SpellCase) (s string, ok bool) {
	track := c.Track
	if track == "" && c.ExplicitLatest {
		track = "latest"
	}
	risk := c.Risk
	if c.OmitStable && risk == "stable" && c.Branch == "" && track != "" {
		risk = ""
	}
	if c34IsRisk(track) && (risk == "" || c.Branch == "") {
		return "", false
	}
	var parts []string
	for _, p := range []string{track, risk, c.Branch} {
		if p != "" {
			parts = append(parts, p)
		}
	}
	return strings.Join(parts, "/"), true
}

func c34GenWord() *rapid.Generator[string] {
	return rapid.OneOf(
		rapid.SampledFrom([]string{"1.0", "foo", "hotfix-1", "2.1-lts", "18", "latestx", "Latest", "lates", "stablex", "cand", "Edge", "x"}),
		rapid.StringMatching(`[a-z0-9][a-z0-9.-]{0,6}`),
	)
}

func TestVerifC34Spelling(t *testing.T) {
	verifkit.Check(t, verifkit.Spec[c34SpellCase]{
		ID: "C34", Engine: "spelling",
		Gen: func(t *rapid.T) c34SpellCase {
			c := c34SpellCase{
				Risk:           rapid.SampledFrom(c34Risks).Draw(t, "risk"),
				ExplicitLatest: rapid.Bool().Draw(t, "explicitLatest"),
				OmitStable:     rapid.Bool().Draw(t, "omitStable"),
				Arch:           rapid.SampledFrom([]string{"", "-", "amd64", "arm64"}).Draw(t, "arch"),
			}
			if rapid.IntRange(0, 2).Draw(t, "stableBias") == 0 {
				c.Risk = "stable"
			}
			switch rapid.IntRange(0, 9).Draw(t, "branchKind") {
			case 0, 1, 2:
				c.Branch = c34GenWord().Draw(t, "branch")
			case 3:
				c.Branch = rapid.SampledFrom([]string{"stable", "edge", "latest", "beta"}).Draw(t, "branchOdd")
			}
			switch k := rapid.IntRange(0, 9).Draw(t, "trackKind"); {
			case k <= 3:
				c.Track = c34GenWord().Draw(t, "track")
			case k == 4 && c.Branch != "":
				c.Track = rapid.SampledFrom(c34Risks).Draw(t, "trackRisk")
			}
			return c
		},
		Run: func(c c34SpellCase) (verifkit.Outcome, error) {
			o := verifkit.Outcome{}
			if c.Track == "latest" { // the default track has one meaning
				c.Track, c.ExplicitLatest = "", true
			}
			s, ok := c34Spell(c)
			if !ok || !c34IsRisk(c.Risk) || strings.Contains(c.Track+c.Branch, "/") {
				o.Skip = true
				return o, nil
			}
			want := c34Sem{c.Track, c.Risk, c.Branch}
			o.Desc = fmt.Sprintf("%v spelled %q", want, s)
			o.NonTrivial = s != want.full() || c34IsRisk(c.Track) || c34IsRisk(c.Branch)
			if c.Track == "" && c.ExplicitLatest {
				o.Labels = append(o.Labels, "explicit-latest")
			}
			if c.Track == "" && !c.ExplicitLatest {
				o.Labels = append(o.Labels, "implicit-latest")
			}
			if c.OmitStable && c.Risk == "stable" && c.Branch == "" && (c.Track != "" || c.ExplicitLatest) {
				o.Labels = append(o.Labels, "implicit-stable")
			}
			if c34IsRisk(c.Track) {
				o.Labels = append(o.Labels, "risk-as-track")
			}
			if c34IsRisk(c.Branch) {
				o.Labels = append(o.Labels, "risk-as-branch")
			}
			if c.Branch != "" {
				o.Labels = append(o.Labels, "branch")
			}
			got, err := Parse(s, c.Arch)
			if err != nil {
				return o, verifkit.Violatef("Parse(%q) fails: %v; it spells %v", s, err, want)
			}
			if c34SemOf(got) != want {
				return o, verifkit.Violatef("Parse(%q) = %v; it spells %v", s, c34SemOf(got), want)
			}
			if got.String() != want.name() {
				return o, verifkit.Violatef("Parse(%q).String() = %q, want %q", s, got.String(), want.name())
			}
			if got.Full() != want.full() {
				return o, verifkit.Violatef("Parse(%q).Full() = %q, want %q", s, got.Full(), want.full())
			}
			if f, err := Full(s); err != nil || f != want.full() {
				return o, verifkit.Violatef("Full(%q) = %q, %v; want %q", s, f, err, want.full())
			}
			// every spelling of one meaning normalises to the same channel
			for _, el := range []bool{false, true} {
				for _, os := range []bool{false, true} {
					alt := c
					alt.ExplicitLatest, alt.OmitStable = el, os
					if s2, ok := c34Spell(alt); ok && s2 != s {
						got2, err := Parse(s2, c.Arch)
						if err != nil || got2 != got {
							return o, verifkit.Violatef("spellings %q and %q of %v parse differently: %s vs %s (err=%v)", s, s2, want, c34Show(got), c34Show(got2), err)
						}
					}
				}
			}
			return o, c34StringLaws(s, c.Arch)
		},
		Floors:          map[string]float64{"explicit-latest": 0.1, "implicit-latest": 0.1, "implicit-stable": 0.05, "risk-as-branch": 0.03, "risk-as-track": 0.02, "branch": 0.2},
		NonTrivialFloor: 0.4,
	})
}

// ---------------------------------------------------------------------------------
// random pairs beyond the enumerated component set

func c34GenSoup() *rapid.Generator[string] {
	comp := rapid.OneOf(
		rapid.SampledFrom(c34Components),
		rapid.SampledFrom(c34Components),
		c34GenWord(),
		rapid.SampledFrom([]string{" ", "stable ", "latest/", "//", "*", "é", "STABLE"}),
	)
	return rapid.Custom(func(t *rapid.T) string {
		n := rapid.IntRange(1, 5).Draw(t, "ncomp")
		parts := make([]string, n)
		for i := range parts {
			parts[i] = comp.Draw(t, "comp")
		}
		return strings.Join(parts, "/")
	})
}

// c34GenChannel spells a well-formed channel on the given track ("" = none spelled).
func c34GenChannelOn(t *rapid.T, track string) string {
	risk := rapid.SampledFrom(c34Risks).Draw(t, "risk")
	branch := ""
	if rapid.IntRange(0, 3).Draw(t, "hasBranch") == 0 {
		branch = rapid.OneOf(c34GenWord(), rapid.SampledFrom([]string{"stable", "edge", "latest"})).Draw(t, "branch")
	}
	if track != "" && !c34IsRisk(track) && branch == "" && rapid.IntRange(0, 3).Draw(t, "trackOnly") == 0 {
		return track
	}
	parts := []string{}
	for _, p := range []string{track, risk, branch} {
		if p != "" {
			parts = append(parts, p)
		}
	}
	return strings.Join(parts, "/")
}

func c34GenTrack() *rapid.Generator[string] {
	return rapid.OneOf(
		rapid.SampledFrom([]string{"latest", "1.0", "foo", "18", "2.1-lts"}),
		c34GenWord(),
	)
}

func TestVerifC34Random(t *testing.T) {
	verifkit.Check(t, verifkit.Spec[c34Case]{
		ID: "C34", Engine: "random",
		Gen: func(t *rapid.T) c34Case {
			c := c34Case{Arch: rapid.SampledFrom([]string{"", "-", "amd64"}).Draw(t, "arch")}
			track := c34GenTrack().Draw(t, "track")
			switch k := rapid.IntRange(0, 19).Draw(t, "curKind"); {
			case k <= 6: // a bare track: current channel and valid pin
				c.Cur = track
			case k <= 12:
				c.Cur = c34GenChannelOn(t, track)
			case k <= 14:
				c.Cur = c34GenChannelOn(t, "")
			case k == 15:
				c.Cur = c34GenChannelOn(t, rapid.SampledFrom(c34Risks).Draw(t, "riskTrack"))
			case k <= 17:
				c.Cur = c34GenSoup().Draw(t, "curSoup")
			case k == 18:
				c.Cur = ""
			default:
				c.Cur = track + "/" + rapid.SampledFrom([]string{"", "cand", "stable/", "/stable"}).Draw(t, "curBad")
			}
			switch k := rapid.IntRange(0, 19).Draw(t, "newKind"); {
			case k <= 4: // risk or risk/branch only
				c.New = c34GenChannelOn(t, "")
			case k <= 8: // same track
				c.New = c34GenChannelOn(t, track)
			case k <= 11: // a look-alike track
				other := rapid.SampledFrom([]string{track + "x", track + ".1", track + "-", track[:len(track)-1], "x" + track, strings.ToUpper(track)}).Draw(t, "lookalike")
				if other == "" {
					other = "latest"
				}
				c.New = c34GenChannelOn(t, other)
			case k <= 14:
				c.New = c34GenChannelOn(t, c34GenTrack().Draw(t, "otherTrack"))
			case k == 15:
				c.New = c34GenChannelOn(t, rapid.SampledFrom(c34Risks).Draw(t, "riskTrack2"))
			case k <= 17:
				c.New = c34GenSoup().Draw(t, "newSoup")
			case k == 18:
				c.New = ""
			default:
				c.New = track + rapid.SampledFrom([]string{"/", "//stable", "/stable/", "/stable/x/y", "/cand"}).Draw(t, "newBad")
			}
			return c
		},
		Run: c34Run,
		Floors: map[string]float64{"risk-only-req": 0.08, "pinned-switch": 0.05, "pinned-within": 0.05, "pinned-risk-only": 0.03,
			"pinned-lookalike": 0.02, "latest": 0.05, "extra-slash": 0.03, "risk-as-branch": 0.02, "bad-pinned": 0.2, "malformed": 0.05},
		NonTrivialFloor: 0.5,
	})
}
