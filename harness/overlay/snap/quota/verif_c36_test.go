package quota

// C36 — accepted quota groups always fit inside their parents.
//
// Unexported identifiers used: runtimeNumCPU (mocked per case, restored per case).
//
// Requests are issued the way overlord/servicestate issues them:
//
//	create   quotaCreate:            res.Validate(), then NewGroup / parent.NewSubGroup(name, res)
//	update   quotaUpdateGroupLimits: cur := grp.GetQuotaResources(); cur.ValidateChange(delta);
//	                                 cur.Change(delta); grp.UpdateQuotaLimits(cur)
//
// with globally unique valid group names (quotaCreate refuses duplicates, the
// daemon validates names) and re-parenting never requested.
//
// Oracle (every clause is recomputed from the exported Group fields only: Name,
// ParentGroup, SubGroups, MemoryLimit, CPULimit, ThreadLimit, JournalLimit,
// Snaps, Services):
//
//	fit        after every ACCEPTED request, for every group with a memory / thread /
//	           CPU limit L: sum over children c of eff(c) <= L, where
//	           eff(c) = max(limit(c), sum eff(children(c)))  (property sentence 1;
//	           doc comment of groupQuotaAllocations: "the reserved value can never be
//	           greater than the limit"); CPU limit = count x percentage, count 0 =
//	           number of allowed cores = size of the effective (own or inherited)
//	           cpu-set capped by the number of CPUs, or the number of CPUs (doc comment
//	           of GetLocalCPUQuota); every group's cpu-set is a subset of the nearest
//	           ancestor's cpu-set.
//	would-break  the request is applied to a copy of the snapshot; an accepted request
//	           must have exactly that effect (UpdateQuotaOptions: "a limit is only
//	           changed if the corresponding limit is != nil"), hence a request whose
//	           predicted tree breaks "fit" must have been refused (sentence 2).
//	unchanged  after a REFUSED request the whole forest (names, parents, children,
//	           all limits, cpu-set order) is identical to before (sentence 2).
//
// No claim is made that a fitting request is accepted.

import (
	"encoding/json"
	"fmt"
	"sort"
	"strings"
	"testing"

	"github.com/snapcore/snapd/gadget/quantity"
	"github.com/snapcore/snapd/verifkit"
	"pgregory.net/rapid"
)

// ---- case data ---------------------------------------------------------------

type c36CPU struct {
	Count int `json:"count"`
	Pct   int `json:"pct"`
}

// c36Res is one set of requested limits; nil = resource not mentioned.
type c36Res struct {
	Mem     *uint64 `json:"mem,omitempty"` // bytes
	CPU     *c36CPU `json:"cpu,omitempty"`
	CPUSet  *[]int  `json:"cpuset,omitempty"`
	Threads *int    `json:"threads,omitempty"`
	Journal bool    `json:"journal,omitempty"` // journal namespace only (creation only)
}

type c36Op struct {
	Kind   string `json:"kind"`   // "root" | "sub" | "upd"
	Target int    `json:"target"` // sub: parent, upd: group; counted back from the newest eligible group, modulo
	Res    c36Res `json:"res"`
}

type c36Case struct {
	NumCPU int     `json:"numcpu"`
	Ops    []c36Op `json:"ops"`
}

const c36MaxDepth = 4

func (r c36Res) resources() Resources {
	var out Resources
	if r.Mem != nil {
		out.Memory = &ResourceMemory{Limit: quantity.Size(*r.Mem)}
	}
	if r.CPU != nil {
		out.CPU = &ResourceCPU{Count: r.CPU.Count, Percentage: r.CPU.Pct}
	}
	if r.CPUSet != nil {
		out.CPUSet = &ResourceCPUSet{CPUs: append([]int{}, (*r.CPUSet)...)}
	}
	if r.Threads != nil {
		out.Threads = &ResourceThreads{Limit: *r.Threads}
	}
	if r.Journal {
		out.Journal = &ResourceJournal{}
	}
	return out
}

func (r c36Res) String() string {
	var p []string
	if r.Mem != nil {
		if *r.Mem%(1<<20) == 0 {
			p = append(p, fmt.Sprintf("mem=%dM", *r.Mem>>20))
		} else {
			p = append(p, fmt.Sprintf("mem=%dB", *r.Mem))
		}
	}
	if r.CPU != nil {
		p = append(p, fmt.Sprintf("cpu=%dx%d%%", r.CPU.Count, r.CPU.Pct))
	}
	if r.CPUSet != nil {
		p = append(p, fmt.Sprintf("cpuset=%v", *r.CPUSet))
	}
	if r.Threads != nil {
		p = append(p, fmt.Sprintf("thr=%d", *r.Threads))
	}
	if r.Journal {
		p = append(p, "journal")
	}
	return "{" + strings.Join(p, " ") + "}"
}

// ---- snapshot of the forest, from exported fields only -------------------------

type c36G struct {
	Name     string   `json:"name"`
	Parent   string   `json:"parent"`
	Subs     []string `json:"subs"`
	Mem      uint64   `json:"mem"`
	Count    int      `json:"count"`
	Pct      int      `json:"pct"`
	Set      []int    `json:"set"`
	Threads  int      `json:"threads"`
	Journal  string   `json:"journal"`
	Snaps    []string `json:"snaps"`
	Services []string `json:"services"`
}

type c36Tree struct {
	Order []string
	G     map[string]*c36G
}

func c36Snap(handles []*Group) *c36Tree {
	t := &c36Tree{G: map[string]*c36G{}}
	for _, h := range handles {
		g := &c36G{
			Name:     h.Name,
			Parent:   h.ParentGroup,
			Subs:     append([]string{}, h.SubGroups...),
			Mem:      uint64(h.MemoryLimit),
			Threads:  h.ThreadLimit,
			Set:      []int{},
			Snaps:    append([]string{}, h.Snaps...),
			Services: append([]string{}, h.Services...),
		}
		if h.CPULimit != nil {
			g.Count, g.Pct = h.CPULimit.Count, h.CPULimit.Percentage
			g.Set = append([]int{}, h.CPULimit.CPUSet...)
		}
		if h.JournalLimit != nil {
			b, _ := json.Marshal(h.JournalLimit)
			g.Journal = string(b)
		}
		t.Order = append(t.Order, g.Name)
		t.G[g.Name] = g
	}
	return t
}

func (t *c36Tree) clone() *c36Tree {
	n := &c36Tree{Order: append([]string{}, t.Order...), G: map[string]*c36G{}}
	for k, g := range t.G {
		c := *g
		c.Subs = append([]string{}, g.Subs...)
		c.Set = append([]int{}, g.Set...)
		c.Snaps = append([]string{}, g.Snaps...)
		c.Services = append([]string{}, g.Services...)
		n.G[k] = &c
	}
	return n
}

// render gives a canonical text of the forest; sortSets ignores cpu-set order.
func (t *c36Tree) render(sortSets bool) string {
	var sb strings.Builder
	for _, name := range t.Order {
		g := *t.G[name]
		if sortSets {
			g.Set = append([]int{}, g.Set...)
			sort.Ints(g.Set)
		}
		b, _ := json.Marshal(g)
		sb.Write(b)
		sb.WriteByte('\n')
	}
	return sb.String()
}

func (t *c36Tree) depth(name string) int {
	d := 0
	for g := t.G[name]; g != nil; g = t.G[g.Parent] {
		d++
		if d > 64 {
			break
		}
	}
	return d
}

// ancestors lists strict ancestors, nearest first.
func (t *c36Tree) ancestors(name string) []*c36G {
	var out []*c36G
	g := t.G[name]
	if g == nil {
		return nil
	}
	for p := t.G[g.Parent]; p != nil && len(out) < 64; p = t.G[p.Parent] {
		out = append(out, p)
	}
	return out
}

// effSet: own cpu-set, else the nearest ancestor's.
func (t *c36Tree) effSet(name string) []int {
	g := t.G[name]
	if g == nil {
		return nil
	}
	if len(g.Set) > 0 {
		return g.Set
	}
	for _, a := range t.ancestors(name) {
		if len(a.Set) > 0 {
			return a.Set
		}
	}
	return nil
}

// cpuLimit is count x percentage in percent of one core, 0 = no CPU limit.
// sets names the tree whose cpu-sets decide the core count of a count-0 quota
// (normally t itself).
func (t *c36Tree) cpuLimit(name string, numCPU int, sets *c36Tree) int {
	g := t.G[name]
	if g.Pct <= 0 {
		return 0
	}
	if g.Count != 0 {
		return g.Count * g.Pct
	}
	n := numCPU
	var s []int
	if sets != nil && sets.G[name] != nil {
		s = sets.effSet(name)
	} else {
		s = t.effSet(name)
	}
	if len(s) > 0 && len(s) < n {
		n = len(s)
	}
	return n * g.Pct
}

type c36Viol struct {
	Clause string // memory | threads | cpu | cpuset
	Group  string // the group whose limit is exceeded / whose cpu-set sticks out
	Detail string
}

func (v c36Viol) String() string { return v.Clause + "@" + v.Group + ": " + v.Detail }

func c36Subset(a, b []int) bool { // a subset of b
	for _, x := range a {
		found := false
		for _, y := range b {
			if x == y {
				found = true
				break
			}
		}
		if !found {
			return false
		}
	}
	return true
}

// c36Inv evaluates the "fit" clause on a snapshot.
func c36Inv(t *c36Tree, numCPU int, sets *c36Tree) []c36Viol {
	var out []c36Viol
	limit := func(kind string, g *c36G) uint64 {
		switch kind {
		case "memory":
			return g.Mem
		case "threads":
			if g.Threads > 0 {
				return uint64(g.Threads)
			}
			return 0
		default:
			return uint64(t.cpuLimit(g.Name, numCPU, sets))
		}
	}
	for _, kind := range []string{"memory", "threads", "cpu"} {
		eff := map[string]uint64{}
		var visit func(name string, guard int) uint64
		visit = func(name string, guard int) uint64 {
			g := t.G[name]
			if g == nil || guard > 64 {
				return 0
			}
			var sum uint64
			for _, c := range g.Subs {
				sum += visit(c, guard+1)
			}
			l := limit(kind, g)
			if l != 0 && sum > l {
				out = append(out, c36Viol{kind, name, fmt.Sprintf("children reserve %d > limit %d", sum, l)})
			}
			e := l
			if sum > e {
				e = sum
			}
			eff[name] = e
			return e
		}
		for _, name := range t.Order {
			if t.G[name].Parent == "" {
				visit(name, 0)
			}
		}
	}
	for _, name := range t.Order {
		g := t.G[name]
		if len(g.Set) == 0 {
			continue
		}
		for _, a := range t.ancestors(name) {
			if len(a.Set) > 0 {
				if !c36Subset(g.Set, a.Set) {
					out = append(out, c36Viol{"cpuset", name, fmt.Sprintf("cpu-set %v not within %v of ancestor %s", g.Set, a.Set, a.Name)})
				}
				break
			}
		}
	}
	return out
}

// c36Apply: the effect an accepted request has, on a copy of the snapshot.
func c36Apply(pre *c36Tree, kind, name, target string, r c36Res) *c36Tree {
	t := pre.clone()
	var g *c36G
	switch kind {
	case "root", "sub":
		g = &c36G{Name: name, Subs: []string{}, Set: []int{}, Snaps: []string{}, Services: []string{}}
		if kind == "sub" {
			g.Parent = target
			t.G[target].Subs = append(t.G[target].Subs, name)
		}
		t.G[name] = g
		t.Order = append(t.Order, name)
		if r.Journal {
			g.Journal = "{}"
		}
	default:
		g = t.G[target]
	}
	if r.Mem != nil {
		g.Mem = *r.Mem
	}
	if r.CPU != nil {
		g.Count, g.Pct = r.CPU.Count, r.CPU.Pct
	}
	if r.CPUSet != nil {
		g.Set = append([]int{}, (*r.CPUSet)...)
	}
	if r.Threads != nil {
		g.Threads = *r.Threads
	}
	return t
}

// ---- known findings ------------------------------------------------------------

// c36Classify gives a violation the fingerprint of one of the two defects found by
// this check.  F-C36-1 is listed as known in KNOWN_FINDINGS.jsonl; F-C36-2 was fixed
// in /repo (61eb443) and is listed as "fixed" only, so a violation carrying that
// fingerprint is reported like any other (it would mean the fix regressed):
//
//	F-C36-1  a cpu-set change re-scales percentage-only (count 0) CPU quotas of the
//	         group and its descendants, but the fit check values them with the
//	         cpu-set in force before the change: the only broken clause is "cpu" and
//	         it holds again when count-0 quotas are valued with the old cpu-sets.
//	F-C36-2  the CPU fit walk stops at the first ancestor that has a cpu-set but no
//	         CPU quota, so a CPU-limited ancestor further up is never consulted: the
//	         only broken clause is "cpu", at strict ancestors of the touched group,
//	         and the nearest ancestor with a CPU quota or cpu-set is cpu-set-only.
func c36Classify(pre, post *c36Tree, numCPU int, kind, touched string, r c36Res, viols []c36Viol) string {
	for _, v := range viols {
		if v.Clause != "cpu" {
			return ""
		}
	}
	if kind == "upd" && r.CPUSet != nil {
		// with count-0 quotas valued by the old cpu-sets (what the fit check saw) the
		// tree fits, or the only misfit left is the one the stopped walk (F-C36-2)
		// could not see
		if old := c36Inv(post, numCPU, pre); len(old) == 0 || c36WalkStops(post, touched, old) {
			return "F-C36-1"
		}
	}
	if c36WalkStops(post, touched, viols) {
		return "F-C36-2"
	}
	return ""
}

// c36WalkStops: every misfit is a CPU misfit at a strict ancestor of the touched
// group, and the nearest ancestor with a CPU quota or a cpu-set has only a cpu-set.
func c36WalkStops(t *c36Tree, touched string, viols []c36Viol) bool {
	anc := map[string]bool{}
	for _, a := range t.ancestors(touched) {
		anc[a.Name] = true
	}
	for _, v := range viols {
		if v.Clause != "cpu" || !anc[v.Group] {
			return false
		}
	}
	for _, a := range t.ancestors(touched) {
		if a.Pct > 0 {
			return false
		}
		if len(a.Set) > 0 {
			return true
		}
	}
	return false
}

// ---- run -----------------------------------------------------------------------

func c36Run(c c36Case) (verifkit.Outcome, error) {
	o := verifkit.Outcome{}
	if c.NumCPU <= 0 || len(c.Ops) == 0 {
		o.Skip = true
		return o, nil
	}
	saved := runtimeNumCPU
	runtimeNumCPU = func() int { return c.NumCPU }
	defer func() { runtimeNumCPU = saved }()

	labels := map[string]bool{}
	var desc []string
	desc = append(desc, fmt.Sprintf("ncpu=%d", c.NumCPU))
	finish := func() verifkit.Outcome {
		o.NonTrivial = labels["deep-indirect"]
		o.Labels = verifkit.SortedKeys(labels)
		o.Desc = strings.Join(desc, "; ")
		return o
	}

	var handles []*Group
	executed := 0
	for i, op := range c.Ops {
		pre := c36Snap(handles)
		name := fmt.Sprintf("g%d", i)
		var target string
		var targetGrp *Group
		switch op.Kind {
		case "root":
		case "sub", "upd":
			var cands []*Group
			for _, h := range handles {
				if op.Kind == "upd" || pre.depth(h.Name) < c36MaxDepth {
					cands = append(cands, h)
				}
			}
			if len(cands) == 0 {
				continue
			}
			k := op.Target % len(cands)
			if k < 0 {
				k += len(cands)
			}
			targetGrp = cands[len(cands)-1-k]
			target = targetGrp.Name
		default:
			continue
		}
		if op.Kind == "upd" && op.Res.Journal {
			op.Res.Journal = false // journal limits are only requested at creation here
		}
		executed++
		touched := name
		if op.Kind == "upd" {
			touched = target
		}
		pred := c36Apply(pre, op.Kind, name, target, op.Res)

		// class of the request, on the predicted tree
		for _, rk := range []struct {
			name string
			set  bool
		}{{"memory", op.Res.Mem != nil}, {"cpu", op.Res.CPU != nil}, {"cpuset", op.Res.CPUSet != nil}, {"threads", op.Res.Threads != nil}} {
			kindName := rk.name
			if !rk.set || op.Kind == "root" {
				continue
			}
			has := func(g *c36G) bool {
				switch kindName {
				case "memory":
					return g.Mem != 0
				case "cpu":
					return g.Pct > 0
				case "cpuset":
					return len(g.Set) > 0
				default:
					return g.Threads > 0
				}
			}
			anc := pred.ancestors(touched)
			if len(anc) >= 2 && !has(anc[0]) {
				for _, a := range anc[1:] {
					if has(a) {
						labels["deep-indirect"] = true
						break
					}
				}
			}
		}
		if op.Res.CPU != nil && op.Res.CPU.Count == 0 && op.Res.CPU.Pct > 0 {
			labels["cpu-count0"] = true
		}
		wouldBreak := c36Inv(pred, c.NumCPU, nil)

		// issue the request the way servicestate does
		var err error
		var created *Group
		res := op.Res.resources()
		switch op.Kind {
		case "root":
			if err = res.Validate(); err == nil {
				created, err = NewGroup(name, res)
			}
		case "sub":
			if err = res.Validate(); err == nil {
				created, err = targetGrp.NewSubGroup(name, res)
			}
		case "upd":
			cur := targetGrp.GetQuotaResources()
			if err = cur.ValidateChange(res); err == nil {
				if err = cur.Change(res); err == nil {
					err = targetGrp.UpdateQuotaLimits(cur)
				}
			}
		}
		accepted := err == nil
		if accepted && op.Kind != "upd" {
			if created == nil {
				return finish(), verifkit.Violatef("op %d (%s %s under %q %v): no error and no group returned", i, op.Kind, name, target, op.Res)
			}
			handles = append(handles, created)
		}
		post := c36Snap(handles)

		mark := "ok"
		if !accepted {
			mark = "refused"
		}
		switch op.Kind {
		case "root":
			desc = append(desc, fmt.Sprintf("%s=root%v:%s", name, op.Res, mark))
		case "sub":
			desc = append(desc, fmt.Sprintf("%s=%s/sub%v:%s", name, target, op.Res, mark))
		default:
			desc = append(desc, fmt.Sprintf("upd %s%v:%s", target, op.Res, mark))
		}

		if !accepted {
			if post.render(false) != pre.render(false) {
				return finish(), verifkit.Violatef("op %d (%s) was refused (%v) but the groups changed:\nbefore:\n%safter:\n%s", i, desc[len(desc)-1], err, pre.render(false), post.render(false))
			}
			if len(wouldBreak) > 0 {
				labels["refused-would-break"] = true
				labels["wb-"+wouldBreak[0].Clause] = true
				if wouldBreak[0].Group == touched {
					labels["wb-below-children"] = true
				} else {
					labels["wb-above-parent"] = true
				}
			} else {
				labels["refused-other"] = true
			}
			continue
		}

		labels["accepted-"+op.Kind] = true
		if op.Kind == "upd" && (len(pre.G[target].Subs) > 0 || pre.G[target].Parent != "") {
			labels["accepted-upd-nested"] = true
		}
		if pd := post.depth(touched); pd >= 3 {
			labels["depth3"] = true
		}
		if post.render(true) != pred.render(true) {
			return finish(), verifkit.Violatef("op %d (%s) was accepted but the groups do not reflect the request:\nexpected:\n%sgot:\n%s", i, desc[len(desc)-1], pred.render(true), post.render(true))
		}
		if viols := c36Inv(post, c.NumCPU, nil); len(viols) > 0 {
			msg := fmt.Sprintf("op %d (%s) was accepted but groups no longer fit inside their parents: %v\ngroups before:\n%sgroups after:\n%s",
				i, desc[len(desc)-1], viols, pre.render(true), post.render(true))
			if fp := c36Classify(pre, post, c.NumCPU, op.Kind, touched, op.Res, viols); fp != "" {
				return finish(), verifkit.Knownf(fp, "%s", msg)
			}
			return finish(), verifkit.Violatef("%s", msg)
		}
	}
	if executed == 0 {
		o.Skip = true
		return o, nil
	}
	return finish(), nil
}

// ---- generator -----------------------------------------------------------------

const c36MiB = uint64(1) << 20

func c36GenRes(t *rapid.T, kind string) c36Res {
	var r c36Res
	// which resources: mostly one or two, so that neighbouring levels limit
	// different things and limit-less intermediate groups are common
	n := rapid.SampledFrom([]int{1, 1, 1, 2, 2, 3, 4}).Draw(t, "nres")
	if kind == "upd" && rapid.IntRange(0, 29).Draw(t, "emptyupd") == 0 {
		n = 0
	}
	picks := rapid.Permutation([]string{"mem", "cpu", "cpuset", "threads", "mem", "threads", "cpu"}).Draw(t, "kinds")
	for _, p := range picks[:n] {
		switch p {
		case "mem":
			var units uint64
			switch rapid.SampledFrom([]string{"small", "small", "small", "mid", "mid", "big", "odd"}).Draw(t, "memclass") {
			case "small":
				units = uint64(rapid.IntRange(1, 8).Draw(t, "mem"))
			case "mid":
				units = uint64(rapid.IntRange(6, 32).Draw(t, "mem"))
			case "big":
				units = uint64(rapid.SampledFrom([]int{64, 1024, 1 << 20}).Draw(t, "mem"))
			default:
				// at/below the 640 KiB minimum, zero, or not a whole MiB
				b := rapid.SampledFrom([]uint64{0, 640 << 10, (640 << 10) + 1, 4 << 10, 3*c36MiB + 1, 2*c36MiB - 1}).Draw(t, "membytes")
				r.Mem = &b
				continue
			}
			if kind == "root" {
				units *= 2
			}
			b := units * c36MiB
			r.Mem = &b
		case "threads":
			var v int
			switch rapid.SampledFrom([]string{"small", "small", "small", "mid", "mid", "big", "odd"}).Draw(t, "thrclass") {
			case "small":
				v = rapid.IntRange(1, 8).Draw(t, "thr")
			case "mid":
				v = rapid.IntRange(6, 32).Draw(t, "thr")
			case "big":
				v = rapid.SampledFrom([]int{64, 1024, 1 << 20}).Draw(t, "thr")
			default:
				v = rapid.SampledFrom([]int{0, -1}).Draw(t, "thr")
			}
			if kind == "root" && v > 0 {
				v *= 2
			}
			r.Threads = &v
		case "cpu":
			cpu := c36CPU{
				Count: rapid.SampledFrom([]int{0, 0, 0, 1, 1, 1, 2, 2, 3, 4, 8}).Draw(t, "count"),
				Pct:   rapid.SampledFrom([]int{10, 25, 50, 50, 100, 100, 100, -1}).Draw(t, "pct"),
			}
			if cpu.Pct == -1 {
				cpu.Pct = rapid.IntRange(1, 100).Draw(t, "pctany")
			}
			if rapid.IntRange(0, 39).Draw(t, "pct0") == 0 {
				cpu.Pct = 0
			}
			r.CPU = &cpu
		case "cpuset":
			var set []int
			switch rapid.SampledFrom([]string{"mask", "mask", "mask", "prefix", "prefix", "one", "empty"}).Draw(t, "setclass") {
			case "mask":
				m := rapid.IntRange(1, 255).Draw(t, "mask")
				for b := 0; b < 8; b++ {
					if m&(1<<uint(b)) != 0 {
						set = append(set, b)
					}
				}
			case "prefix":
				k := rapid.IntRange(1, 8).Draw(t, "prefix")
				for b := 0; b < k; b++ {
					set = append(set, b)
				}
			case "one":
				set = []int{rapid.IntRange(0, 7).Draw(t, "cpu")}
			default:
				if rapid.IntRange(0, 5).Draw(t, "really-empty") != 0 {
					set = []int{0, 1}
				} else {
					set = []int{}
				}
			}
			if len(set) > 1 && rapid.IntRange(0, 7).Draw(t, "rev") == 0 {
				for a, b := 0, len(set)-1; a < b; a, b = a+1, b-1 {
					set[a], set[b] = set[b], set[a]
				}
			}
			r.CPUSet = &set
		}
	}
	if kind != "upd" && rapid.IntRange(0, 11).Draw(t, "journal") == 0 {
		r.Journal = true
		if rapid.Bool().Draw(t, "journal-only") {
			r = c36Res{Journal: true}
		}
	}
	return r
}

func c36Gen(t *rapid.T) c36Case {
	c := c36Case{NumCPU: rapid.SampledFrom([]int{8, 8, 8, 16}).Draw(t, "numcpu")}
	n := rapid.IntRange(3, 25).Draw(t, "nops")
	for i := 0; i < n; i++ {
		kind := "root"
		if i > 0 {
			kind = rapid.SampledFrom([]string{"sub", "sub", "sub", "sub", "sub", "sub", "upd", "upd", "upd", "upd", "upd", "root"}).Draw(t, "kind")
		}
		op := c36Op{Kind: kind}
		if kind != "root" {
			op.Target = rapid.SampledFrom([]int{0, 0, 0, 0, 1, 1, 1, 2, 2, 3, 4, 5, 6, 8, 11}).Draw(t, "target")
		}
		op.Res = c36GenRes(t, kind)
		c.Ops = append(c.Ops, op)
	}
	return c
}

// ---- reference model self test ---------------------------------------------------

// c36SelfTest checks the oracle's own arithmetic on the worked examples of
// snapd's documentation: the three examples in the doc comment of
// groupQuotaAllocations and the tree drawn in TestGetGroupQuotaAllocations.
func c36SelfTest() error {
	mk := func(gs ...*c36G) *c36Tree {
		t := &c36Tree{G: map[string]*c36G{}}
		for _, g := range gs {
			t.Order = append(t.Order, g.Name)
			t.G[g.Name] = g
		}
		for _, g := range gs {
			if g.Parent != "" {
				t.G[g.Parent].Subs = append(t.G[g.Parent].Subs, g.Name)
			}
		}
		return t
	}
	mb := func(n uint64) uint64 { return n * c36MiB }
	// "group that has a memory quota of 512mb, and a child group with 256mb": fits
	if v := c36Inv(mk(&c36G{Name: "p", Mem: mb(512)}, &c36G{Name: "c", Parent: "p", Mem: mb(256)}), 8, nil); len(v) != 0 {
		return fmt.Errorf("doc example 3 judged not to fit: %v", v)
	}
	// a limit-less middle group passes its children's reservation up
	over := mk(&c36G{Name: "p", Mem: mb(512)}, &c36G{Name: "m", Parent: "p", Threads: 4},
		&c36G{Name: "a", Parent: "m", Mem: mb(256)}, &c36G{Name: "b", Parent: "m", Mem: mb(257)})
	if v := c36Inv(over, 8, nil); len(v) != 1 || v[0].Clause != "memory" || v[0].Group != "p" {
		return fmt.Errorf("over-committed tree not recognised: %v", v)
	}
	// tree of TestGetGroupQuotaAllocations
	tree := mk(
		&c36G{Name: "groot", Mem: mb(1024)},
		&c36G{Name: "cpu-q0", Parent: "groot", Count: 2, Pct: 50},
		&c36G{Name: "thread-q0", Parent: "groot", Threads: 32},
		&c36G{Name: "cpus-q0", Parent: "groot", Set: []int{0, 1}},
		&c36G{Name: "mem-q1", Parent: "cpu-q0", Mem: mb(256)},
		&c36G{Name: "mem-q2", Parent: "thread-q0", Mem: mb(256)},
		&c36G{Name: "cpus-q1", Parent: "cpus-q0", Set: []int{0}},
		&c36G{Name: "cpu-q1", Parent: "mem-q1", Count: 1, Pct: 50},
		&c36G{Name: "thread-q1", Parent: "mem-q2", Threads: 16},
		&c36G{Name: "mem-q3", Parent: "thread-q1", Mem: mb(128)},
	)
	if v := c36Inv(tree, 8, nil); len(v) != 0 {
		return fmt.Errorf("documented tree judged not to fit: %v", v)
	}
	// TestNestingOfLimitsWithExceedingSiblings: a further 1 GiB anywhere below groot does not fit
	tree2 := c36Apply(tree, "sub", "extra", "cpus-q1", c36Res{Mem: func() *uint64 { v := mb(513); return &v }()})
	if v := c36Inv(tree2, 8, nil); len(v) != 1 || v[0].Group != "groot" {
		return fmt.Errorf("documented over-commit not recognised: %v", v)
	}
	// TestCombinedCpuPercentageWithCpuSetLimits / ...LowCoreCount: 50%% of cpu-set {0,1} is 100%% with 4 cores, 50%% with 1 core
	cs := mk(&c36G{Name: "groot", Set: []int{0, 1}}, &c36G{Name: "s", Parent: "groot", Pct: 50})
	if a, b := cs.cpuLimit("s", 4, nil), cs.cpuLimit("s", 1, nil); a != 100 || b != 50 {
		return fmt.Errorf("count-0 cpu quota valued %d / %d, documentation says 100 / 50", a, b)
	}
	// cpu-set clause
	bad := mk(&c36G{Name: "p", Set: []int{0, 1}}, &c36G{Name: "m", Parent: "p", Threads: 4}, &c36G{Name: "c", Parent: "m", Set: []int{1, 2}})
	if v := c36Inv(bad, 8, nil); len(v) != 1 || v[0].Clause != "cpuset" || v[0].Group != "c" {
		return fmt.Errorf("cpu-set outside the ancestor's not recognised: %v", v)
	}
	return nil
}

func TestVerifC36History(t *testing.T) {
	if err := c36SelfTest(); err != nil {
		t.Fatalf("HARNESS: reference model self test failed: %v", err)
	}
	verifkit.Check(t, verifkit.Spec[c36Case]{
		ID: "C36", Engine: "history",
		Gen: c36Gen,
		Run: c36Run,
		Floors: map[string]float64{
			"refused-would-break": 0.25,
			"wb-above-parent":     0.15,
			"wb-below-children":   0.03,
			"wb-memory":           0.05,
			"wb-threads":          0.05,
			"wb-cpu":              0.05,
			"wb-cpuset":           0.05,
			"accepted-upd-nested": 0.20,
			"depth3":              0.50,
			"cpu-count0":          0.20,
		},
		NonTrivialFloor: 0.25,
	})
}
