package snap

// C35 — revisions and epochs round-trip; epoch compatibility is set intersection.
// Unexported identifiers used: none (Revision, ParseRevision, Epoch, E only).
//
// Oracles:
//  revision  the value is the oracle: n -> String/JSON/YAML text -> the same n
//            (property sentence 1); a classifier written from the documented syntax
//            ("unset", N, xN with N a positive base-10 integer) sorts strings into
//            canonical (must read as the known value), clearly invalid (must be
//            rejected by ParseRevision, JSON and YAML alike) and unspecified spellings
//            such as "+1"/"007" (no accept/reject claim: only Parse(s)=r =>
//            Parse(r.String())=r).
//  epoch     valid epochs are built valid (short N, N*, structured lists); they must
//            validate, and read back equal from the printed form (String -> YAML, E or
//            JSON) and from the JSON form (property sentence 2); equality is judged
//            by the harness on the lists (empty meaning 0), not by Epoch.Equal alone.
//  canread   set model: a can read b <=> (read(a) or {0}) meets (write(b) or {0}),
//            computed with maps; every valid a can read itself.
//  input     arbitrary short/structured inputs in JSON and YAML: a decision model
//            written from the Epoch doc comment (defaults of read/write, at most 10,
//            strictly increasing, non-empty intersection, base 10 without zero
//            padding, below 2^32, no explicitly empty list, no "0*") says accept with
//            which lists, or reject.

import (
	"encoding/json"
	"fmt"
	"math"
	"math/big"
	"regexp"
	"sort"
	"strconv"
	"strings"
	"testing"

	"gopkg.in/yaml.v2"

	"github.com/snapcore/snapd/verifkit"
	"pgregory.net/rapid"
)

// ---------------------------------------------------------------------------------
// revisions

const c35MaxInt = int64(^uint(0) >> 1) // largest int of this platform

type c35RevHolder struct {
	Rev Revision `json:"rev" yaml:"rev"`
}

// c35RevValue: n must survive every textual form.
func c35RevValue(n int64) error {
	r := Revision{N: int(n)}
	// string
	s := r.String()
	back, err := ParseRevision(s)
	if err != nil || back != r {
		return verifkit.Violatef("revision %d prints as %q which parses to %v, err=%v", n, s, back.N, err)
	}
	switch {
	case n == 0 && s != "unset", n > 0 && s != strconv.FormatInt(n, 10), n < 0 && s != "x"+strconv.FormatInt(-n, 10):
		return verifkit.Violatef("revision %d prints as %q", n, s)
	}
	if r.Unset() != (n == 0) || r.Local() != (n < 0) || r.Store() != (n > 0) {
		return verifkit.Violatef("revision %d: Unset=%v Local=%v Store=%v", n, r.Unset(), r.Local(), r.Store())
	}
	// JSON, bare and inside a struct
	data, err := json.Marshal(r)
	if err != nil {
		return verifkit.Violatef("revision %d: json.Marshal: %v", n, err)
	}
	if string(data) != `"`+s+`"` {
		return verifkit.Violatef("revision %d marshals to JSON %s, want a quoted %q", n, data, s)
	}
	var j Revision
	if err := json.Unmarshal(data, &j); err != nil || j != r {
		return verifkit.Violatef("revision %d: JSON %s reads back as %d, err=%v", n, data, j.N, err)
	}
	hdata, err := json.Marshal(c35RevHolder{r})
	if err != nil {
		return verifkit.Violatef("revision %d: json.Marshal in struct: %v", n, err)
	}
	var jh c35RevHolder
	if err := json.Unmarshal(hdata, &jh); err != nil || jh.Rev != r {
		return verifkit.Violatef("revision %d: JSON %s reads back as %d, err=%v", n, hdata, jh.Rev.N, err)
	}
	// JSON number
	var jn Revision
	if err := json.Unmarshal([]byte(strconv.FormatInt(n, 10)), &jn); err != nil || jn != r {
		return verifkit.Violatef("revision %d: JSON number %d reads back as %d, err=%v", n, n, jn.N, err)
	}
	// YAML, bare, inside a struct, and as the plain scalar people write
	ydata, err := yaml.Marshal(r)
	if err != nil {
		return verifkit.Violatef("revision %d: yaml.Marshal: %v", n, err)
	}
	var y Revision
	if err := yaml.Unmarshal(ydata, &y); err != nil || y != r {
		return verifkit.Violatef("revision %d: YAML %q reads back as %d, err=%v", n, ydata, y.N, err)
	}
	yhdata, err := yaml.Marshal(c35RevHolder{r})
	if err != nil {
		return verifkit.Violatef("revision %d: yaml.Marshal in struct: %v", n, err)
	}
	var yh c35RevHolder
	if err := yaml.Unmarshal(yhdata, &yh); err != nil || yh.Rev != r {
		return verifkit.Violatef("revision %d: YAML %q reads back as %d, err=%v", n, yhdata, yh.Rev.N, err)
	}
	var yp c35RevHolder
	plain := "rev: " + s + "\n"
	if err := yaml.Unmarshal([]byte(plain), &yp); err != nil || yp.Rev != r {
		return verifkit.Violatef("revision %d: YAML %q reads back as %d, err=%v", n, plain, yp.Rev.N, err)
	}
	return nil
}

type c35RevClass int

const (
	c35RevCanonical c35RevClass = iota
	c35RevInvalid
	c35RevUnspecified
)

var (
	c35reCanon    = regexp.MustCompile(`^x?[1-9][0-9]*$`)
	c35reNumberly = regexp.MustCompile(`^x?[+-]?[0-9]+$`)
	c35reNegative = regexp.MustCompile(`^x?-(0|[1-9][0-9]*)$`)
)

// c35ClassifyRev sorts a string by the documented revision syntax.
func c35ClassifyRev(s string) (c35RevClass, int64) {
	if s == "unset" {
		return c35RevCanonical, 0
	}
	if c35reCanon.MatchString(s) {
		digits := strings.TrimPrefix(s, "x")
		v, _ := new(big.Int).SetString(digits, 10)
		if v.Cmp(big.NewInt(c35MaxInt)) > 0 {
			return c35RevInvalid, 0 // does not fit an int
		}
		if s[0] == 'x' {
			return c35RevCanonical, -v.Int64()
		}
		return c35RevCanonical, v.Int64()
	}
	if s == "0" || s == "x0" || c35reNegative.MatchString(s) {
		return c35RevInvalid, 0 // zero and negative numbers are not revisions
	}
	if c35reNumberly.MatchString(s) {
		return c35RevUnspecified, 0 // explicit plus sign, zero padding
	}
	return c35RevInvalid, 0
}

var c35rePlainYAML = regexp.MustCompile(`^x?[+-]?[0-9]+$`)

// c35RevReaders feeds s to every reader of revision strings.
func c35RevReaders(s string) (names []string, revs []Revision, errs []error) {
	add := func(name string, r Revision, err error) {
		names, revs, errs = append(names, name), append(revs, r), append(errs, err)
	}
	r, err := ParseRevision(s)
	add("ParseRevision", r, err)

	jdata, jerr := json.Marshal(s)
	if jerr == nil && !strings.Contains(string(jdata), `\`) { // escapes are a spelling of their own
		var j Revision
		err := json.Unmarshal(jdata, &j)
		add("JSON "+string(jdata), j, err)
		var jh c35RevHolder
		err = json.Unmarshal([]byte(`{"rev":`+string(jdata)+`}`), &jh)
		add(`JSON {"rev":`+string(jdata)+`}`, jh.Rev, err)
	}
	ydata, yerr := yaml.Marshal(s)
	if yerr == nil && !strings.HasPrefix(string(ydata), "!!") {
		var y Revision
		err := yaml.Unmarshal(ydata, &y)
		add(fmt.Sprintf("YAML %q", ydata), y, err)
	}
	if c35rePlainYAML.MatchString(s) {
		var yh c35RevHolder
		plain := "rev: " + s + "\n"
		err := yaml.Unmarshal([]byte(plain), &yh)
		add(fmt.Sprintf("YAML %q", plain), yh.Rev, err)
	}
	return
}

// c35RevString: one string through every reader.
func c35RevString(s string) (c35RevClass, error) {
	class, want := c35ClassifyRev(s)
	names, revs, errs := c35RevReaders(s)
	for i := range names {
		switch class {
		case c35RevCanonical:
			if errs[i] != nil || int64(revs[i].N) != want {
				return class, verifkit.Violatef("revision string %q read by %s gives %d, err=%v; want %d", s, names[i], revs[i].N, errs[i], want)
			}
		case c35RevInvalid:
			if errs[i] == nil {
				return class, verifkit.Violatef("invalid revision string %q accepted by %s as %d", s, names[i], revs[i].N)
			}
		case c35RevUnspecified:
			if errs[i] == nil {
				back, err := ParseRevision(revs[i].String())
				if err != nil || back != revs[i] {
					return class, verifkit.Violatef("revision string %q read by %s gives %d which prints as %q and reads back as %d, err=%v", s, names[i], revs[i].N, revs[i].String(), back.N, err)
				}
			}
		}
	}
	return class, nil
}

// JSON values that are no revision under any reading
var c35NotRevisionJSON = []string{`1.5`, `true`, `false`, `{}`, `[1]`, `["1"]`, `{"N":1}`, `-`, `1x`}

type c35RevCase struct {
	N       int64
	S       string
	RawJSON string `json:",omitempty"` // a JSON value that is no revision under any reading
}

// c35RevRawJSON: raw must be refused.
func c35RevRawJSON(raw string) error {
	if raw == "" {
		return nil
	}
	var r Revision
	if err := json.Unmarshal([]byte(raw), &r); err == nil {
		return verifkit.Violatef("JSON value %s accepted as revision %d", raw, r.N)
	}
	return nil
}

// TestVerifC35RevisionEnum: every integer in [-2000, 2000] through every form, and the
// small members of the invalid family.
func TestVerifC35RevisionEnum(t *testing.T) {
	e := verifkit.NewEnum(t, "C35", "revision-enum")
	defer e.Done()
	run := func(c c35RevCase) {
		if err := c35RevValue(c.N); err != nil {
			e.Fail(c, "%v", err)
		}
		if _, err := c35RevString(c.S); err != nil {
			e.Fail(c, "%v", err)
		}
		if err := c35RevRawJSON(c.RawJSON); err != nil {
			e.Fail(c, "%v", err)
		}
	}
	if raw, ok := e.Replaying(); ok {
		var c c35RevCase
		if err := json.Unmarshal(raw, &c); err != nil {
			t.Fatalf("cannot decode replay case: %v", err)
		}
		run(c)
		return
	}
	var n int64
	for i := int64(-2000); i <= 2000; i++ {
		run(c35RevCase{N: i, S: "unset"})
		n++
	}
	e.Sample("every revision integer in [-2000, 2000]: String/ParseRevision, JSON (quoted, number, in struct), YAML (marshalled, in struct, plain scalar)")
	var fam int64
	for i := int64(0); i <= 2000; i++ {
		d := strconv.FormatInt(i, 10)
		for _, s := range []string{d, "x" + d, "-" + d, "x-" + d, "+" + d, "0" + d, "x0" + d, d + " ", " " + d, d + "x", "xx" + d, "X" + d, d + ".0", "x" + d + "x"} {
			run(c35RevCase{N: i, S: s})
			fam++
		}
	}
	for _, s := range []string{"", "x", "unset ", "Unset", "UNSET", "un set", "none", "-", "+", "x+", "x-", "0x10", "1e3", "1_000", "١", "１",
		strconv.FormatInt(c35MaxInt, 10), "x" + strconv.FormatInt(c35MaxInt, 10), "9223372036854775808", "x9223372036854775808",
		"99999999999999999999", "x99999999999999999999", "-9223372036854775808", "x-9223372036854775808"} {
		run(c35RevCase{N: 1, S: s})
		fam++
	}
	e.Sample(`the string family around every n in [0, 2000]: n, xn, -n, x-n, +n, 0n, x0n, "n ", " n", nx, xxn, Xn, n.0, xnx, and the boundary strings around the largest int`)
	for _, raw := range c35NotRevisionJSON {
		run(c35RevCase{N: 1, S: "1", RawJSON: raw})
		fam++
	}
	e.Bulk(n+fam, n+fam, "revision")
	e.Extra("integers", fmt.Sprint(n))
	e.Extra("strings", fmt.Sprint(fam))
	e.Exhaustive(true)
}

func c35GenRevString() *rapid.Generator[string] {
	digits := rapid.OneOf(
		rapid.StringMatching(`[1-9][0-9]{0,5}`),
		rapid.StringMatching(`[1-9][0-9]{6,17}`),
		rapid.StringMatching(`[0-9]{1,4}`),
		rapid.SampledFrom([]string{"0", "1", "9223372036854775807", "9223372036854775808", "9223372036854775806", "18446744073709551616", "4294967296", "2147483648", "99999999999999999999999"}),
	)
	return rapid.Custom(func(t *rapid.T) string {
		d := digits.Draw(t, "digits")
		switch rapid.IntRange(0, 15).Draw(t, "shape") {
		case 0, 1, 2:
			return d
		case 3, 4, 5:
			return "x" + d
		case 6:
			return rapid.SampledFrom([]string{"-", "x-", "+", "x+", "0", "x0", "00", "x00", "-0", "xx", "X", "x x", "-x"}).Draw(t, "prefix") + d
		case 7:
			return d + rapid.SampledFrom([]string{" ", "\n", "x", ".0", "e1", "_", "-", "+", "/", "%", "\t"}).Draw(t, "suffix")
		case 8:
			return rapid.SampledFrom([]string{" ", "\t", "\n", "'", "#", "x ", "rev", "r", "v", "0x", "0o", "0b"}).Draw(t, "junkPrefix") + d
		case 9:
			i := rapid.IntRange(0, len(d)).Draw(t, "at")
			return d[:i] + rapid.SampledFrom([]string{" ", "_", ",", ".", "x", "a", "-", "١", "１"}).Draw(t, "infix") + d[i:]
		case 10:
			return rapid.SampledFrom([]string{"", "unset", "Unset", "unset ", " unset", "UNSET", "unse", "unsett", "xunset", "none", "null", "nil", "x", "xx", "-", "+", "~", "*", "latest"}).Draw(t, "word")
		case 11:
			return rapid.StringMatching(`[a-zA-Z]{1,6}`).Draw(t, "letters")
		case 12:
			return rapid.StringMatching(`[ -~]{0,8}`).Draw(t, "printable")
		default:
			return "x" + strings.Repeat("0", rapid.IntRange(0, 2).Draw(t, "zeros")) + d
		}
	})
}

func TestVerifC35Revision(t *testing.T) {
	verifkit.Check(t, verifkit.Spec[c35RevCase]{
		ID: "C35", Engine: "revision",
		Gen: func(t *rapid.T) c35RevCase {
			var n int64
			switch rapid.IntRange(0, 5).Draw(t, "nKind") {
			case 0:
				n = rapid.Int64Range(-3000, 3000).Draw(t, "small")
			case 2, 3:
				// rapid favours small magnitudes: ask for the large ones explicitly
				n = c35MaxInt - rapid.Int64Range(0, c35MaxInt-1<<53).Draw(t, "large")
				if rapid.Bool().Draw(t, "negative") {
					n = -n
				}
			case 1:
				n = rapid.SampledFrom([]int64{c35MaxInt, -c35MaxInt, c35MaxInt - 1, math.MaxInt32, math.MaxInt32 + 1, -math.MaxInt32 - 1, math.MaxUint32, math.MaxUint32 + 1, 1 << 53, 1<<53 + 1, -(1<<53 + 1)}).Draw(t, "edge")
			default:
				n = rapid.Int64Range(-c35MaxInt, c35MaxInt).Draw(t, "any")
			}
			c := c35RevCase{N: n, S: c35GenRevString().Draw(t, "s")}
			if rapid.IntRange(0, 9).Draw(t, "raw") == 0 {
				c.RawJSON = rapid.SampledFrom(c35NotRevisionJSON).Draw(t, "rawJSON")
			}
			return c
		},
		Run: func(c c35RevCase) (verifkit.Outcome, error) {
			o := verifkit.Outcome{NonTrivial: true}
			if c.N < -c35MaxInt || c.N > c35MaxInt {
				o.Skip = true // -N must be an int: see report, the most negative int is outside the domain
				return o, nil
			}
			if c.N < 0 {
				o.Labels = append(o.Labels, "local")
			}
			if c.N > 1<<53 || c.N < -(1<<53) {
				o.Labels = append(o.Labels, "beyond-float53")
			}
			if err := c35RevValue(c.N); err != nil {
				return o, err
			}
			class, err := c35RevString(c.S)
			o.Labels = append(o.Labels, []string{"canonical-string", "invalid-string", "unspecified-string"}[class])
			if err != nil {
				return o, err
			}
			return o, c35RevRawJSON(c.RawJSON)
		},
		Floors: map[string]float64{"local": 0.3, "beyond-float53": 0.3, "canonical-string": 0.15, "invalid-string": 0.3, "unspecified-string": 0.03},
	})
}

// ---------------------------------------------------------------------------------
// epochs: set model

// c35Ep is an epoch as data; nil list = not given.
type c35Ep struct{ Read, Write []uint32 }

func (e c35Ep) epoch() Epoch { return Epoch{Read: e.Read, Write: e.Write} }

func (e c35Ep) String() string { return fmt.Sprintf("{read:%v write:%v}", e.Read, e.Write) }

// c35OrZero: an empty list means epoch 0.
func c35OrZero(l []uint32) []uint32 {
	if len(l) == 0 {
		return []uint32{0}
	}
	return l
}

func c35SameList(a, b []uint32) bool {
	a, b = c35OrZero(a), c35OrZero(b)
	if len(a) != len(b) {
		return false
	}
	for i := range a {
		if a[i] != b[i] {
			return false
		}
	}
	return true
}

func c35Same(a, b c35Ep) bool { return c35SameList(a.Read, b.Read) && c35SameList(a.Write, b.Write) }

func c35Set(l []uint32) map[uint32]bool {
	m := map[uint32]bool{}
	for _, x := range c35OrZero(l) {
		m[x] = true
	}
	return m
}

func c35Meets(a, b []uint32) bool {
	sa, sb := c35Set(a), c35Set(b)
	for x := range sa {
		if sb[x] {
			return true
		}
	}
	return false
}

// c35ListsValid: the documented constraints on a pair of given lists.
func c35ListsValid(r, w []uint32) bool {
	if len(r) == 0 || len(w) == 0 || len(r) > 10 || len(w) > 10 {
		return false
	}
	for _, l := range [][]uint32{r, w} {
		for i := 1; i < len(l); i++ {
			if l[i-1] >= l[i] {
				return false
			}
		}
	}
	return c35Meets(r, w)
}

// c35IsValid: epoch 0 in any of its spellings (lists absent or [0]), or valid lists.
func c35IsValid(e c35Ep) bool {
	if (e.Read != nil && len(e.Read) == 0) || (e.Write != nil && len(e.Write) == 0) {
		return false
	}
	zero := func(l []uint32) bool { return l == nil || (len(l) == 1 && l[0] == 0) }
	if zero(e.Read) && zero(e.Write) {
		return true
	}
	return c35ListsValid(e.Read, e.Write)
}

func c35Read(name, text string, unmarshal func([]byte, interface{}) error) (c35Ep, error) {
	var e Epoch
	if err := unmarshal([]byte(text), &e); err != nil {
		return c35Ep{}, fmt.Errorf("%s %q: %v", name, text, err)
	}
	return c35Ep{e.Read, e.Write}, nil
}

type c35EpochHolder struct {
	Epoch Epoch `json:"epoch" yaml:"epoch"`
}

// c35EpochLaws: what every valid epoch must satisfy on its own.
func c35EpochLaws(m c35Ep) error {
	e := m.epoch()
	if err := e.Validate(); err != nil {
		return verifkit.Violatef("valid epoch %v does not validate: %v", m, err)
	}
	if !e.CanRead(e) {
		return verifkit.Violatef("valid epoch %v cannot read its own data", m)
	}
	if !e.Equal(&e) {
		return verifkit.Violatef("valid epoch %v is not Equal to itself", m)
	}
	check := func(how string, got c35Ep, err error) error {
		if err != nil {
			return verifkit.Violatef("valid epoch %v does not read back from %s: %v", m, how, err)
		}
		ge := got.epoch()
		if !c35Same(got, m) || !e.Equal(&ge) || !ge.Equal(&e) {
			return verifkit.Violatef("valid epoch %v reads back from %s as %v (Equal=%v)", m, how, got, e.Equal(&ge))
		}
		return nil
	}
	// printed form
	s := e.String()
	got, err := c35Read("YAML", s, yaml.Unmarshal)
	if err := check("its printed form", got, err); err != nil {
		return err
	}
	if strings.HasPrefix(s, "{") {
		got, err = c35Read("JSON", s, json.Unmarshal)
		if err := check("its printed form", got, err); err != nil {
			return err
		}
	} else {
		ee := E(s) // panics on anything it does not understand
		if err := check(fmt.Sprintf("its printed form E(%q)", s), c35Ep{ee.Read, ee.Write}, nil); err != nil {
			return err
		}
		got, err = c35Read("JSON", strconv.Quote(s), json.Unmarshal)
		if err := check("its printed form", got, err); err != nil {
			return err
		}
		var h c35EpochHolder
		text := "epoch: " + s + "\n"
		herr := yaml.Unmarshal([]byte(text), &h)
		if herr != nil {
			herr = fmt.Errorf("YAML %q: %v", text, herr)
		}
		if err := check("its printed form", c35Ep{h.Epoch.Read, h.Epoch.Write}, herr); err != nil {
			return err
		}
	}
	// JSON form
	data, err := json.Marshal(e)
	if err != nil {
		return verifkit.Violatef("valid epoch %v: json.Marshal: %v", m, err)
	}
	got, err = c35Read("JSON", string(data), json.Unmarshal)
	if err := check("its JSON form", got, err); err != nil {
		return err
	}
	got, err = c35Read("YAML", string(data), yaml.Unmarshal)
	if err := check("its JSON form read as YAML", got, err); err != nil {
		return err
	}
	hdata, err := json.Marshal(c35EpochHolder{e})
	if err != nil {
		return verifkit.Violatef("valid epoch %v: json.Marshal in struct: %v", m, err)
	}
	var h c35EpochHolder
	herr := json.Unmarshal(hdata, &h)
	if herr != nil {
		herr = fmt.Errorf("JSON %q: %v", hdata, herr)
	}
	return check("its JSON form in a struct", c35Ep{h.Epoch.Read, h.Epoch.Write}, herr)
}

type c35PairCase struct {
	A, B      c35Ep
	NilReader bool // also ask a nil *Epoch (documented to behave as epoch 0) to read B
}

func c35IsShort(e c35Ep) (star bool, ok bool) {
	r, w := c35OrZero(e.Read), c35OrZero(e.Write)
	if len(w) != 1 {
		return false, false
	}
	if len(r) == 1 && r[0] == w[0] {
		return false, true
	}
	if len(r) == 2 && r[1] == w[0] && r[0]+1 == r[1] {
		return true, true
	}
	return false, false
}

func c35PairRun(c c35PairCase) (verifkit.Outcome, error) {
	o := verifkit.Outcome{}
	if !c35IsValid(c.A) || !c35IsValid(c.B) {
		o.Skip = true
		return o, nil
	}
	for _, e := range []c35Ep{c.A, c.B} {
		star, short := c35IsShort(e)
		switch {
		case len(e.Read) == 0 || len(e.Write) == 0:
			o.Labels = append(o.Labels, "zero-spelling")
		case star:
			o.Labels = append(o.Labels, "star")
		case short:
			o.Labels = append(o.Labels, "short")
		default:
			o.Labels = append(o.Labels, "structured")
		}
		if len(e.Read) == 10 || len(e.Write) == 10 {
			o.Labels = append(o.Labels, "ten-entries")
		}
		for _, x := range append(append([]uint32{}, e.Read...), e.Write...) {
			if x >= 1<<31 {
				o.Labels = append(o.Labels, "big-number")
				break
			}
		}
	}
	o.NonTrivial = len(c35OrZero(c.A.Read)) > 1 || len(c35OrZero(c.B.Write)) > 1
	if err := c35EpochLaws(c.A); err != nil {
		return o, err
	}
	if err := c35EpochLaws(c.B); err != nil {
		return o, err
	}
	a, b := c.A.epoch(), c.B.epoch()
	for _, p := range []struct {
		x, y   *Epoch
		mx, my c35Ep
	}{{&a, &b, c.A, c.B}, {&b, &a, c.B, c.A}} {
		want := c35Meets(p.mx.Read, p.my.Write)
		if want {
			o.Labels = append(o.Labels, "can-read")
		} else {
			o.Labels = append(o.Labels, "cannot-read")
		}
		if got := p.x.CanRead(*p.y); got != want {
			return o, verifkit.Violatef("%v.CanRead(%v) = %v, but read set %v and write set %v %s", p.mx, p.my, got, c35OrZero(p.mx.Read), c35OrZero(p.my.Write),
				map[bool]string{true: "intersect", false: "are disjoint"}[want])
		}
		if got, want := p.x.Equal(p.y), c35Same(p.mx, p.my); got != want {
			return o, verifkit.Violatef("%v.Equal(%v) = %v, want %v", p.mx, p.my, got, want)
		}
	}
	if c.NilReader {
		var nobody *Epoch
		if got, want := nobody.CanRead(b), c35Meets(nil, c.B.Write); got != want {
			return o, verifkit.Violatef("(nil epoch).CanRead(%v) = %v, want %v (an unset epoch reads epoch 0)", c.B, got, want)
		}
	}
	return o, nil
}

// c35GenList draws a strictly increasing list of 1..max numbers from pool that contains must.
func c35GenList(t *rapid.T, pool []uint32, must uint32, max int, label string) []uint32 {
	k := rapid.IntRange(0, max-1).Draw(t, label+"Extra")
	if rapid.IntRange(0, 3).Draw(t, label+"Full") == 0 {
		k = max - 1
	}
	rest := make([]uint32, 0, len(pool))
	seen := map[uint32]bool{must: true}
	for _, x := range pool {
		if !seen[x] {
			seen[x] = true
			rest = append(rest, x)
		}
	}
	out := []uint32{must}
	for i := 0; i < k && len(rest) > 0; i++ {
		j := rapid.IntRange(0, len(rest)-1).Draw(t, label+"Pick")
		out = append(out, rest[j])
		rest = append(rest[:j], rest[j+1:]...)
	}
	sort.Slice(out, func(i, j int) bool { return out[i] < out[j] })
	return out
}

func c35GenValid(t *rapid.T, pool []uint32, label string) c35Ep {
	n := pool[rapid.IntRange(0, len(pool)-1).Draw(t, label+"N")]
	switch rapid.IntRange(0, 9).Draw(t, label+"Kind") {
	case 0:
		return c35Ep{[]uint32{n}, []uint32{n}}
	case 1:
		if n == 0 {
			n = 1
		}
		return c35Ep{[]uint32{n - 1, n}, []uint32{n}}
	case 2:
		z := [][]uint32{nil, {0}}
		return c35Ep{z[rapid.IntRange(0, 1).Draw(t, label+"ZR")], z[rapid.IntRange(0, 1).Draw(t, label+"ZW")]}
	default:
		return c35Ep{c35GenList(t, pool, n, 10, label+"R"), c35GenList(t, pool, n, 10, label+"W")}
	}
}

func c35GenPool(t *rapid.T) []uint32 {
	base := rapid.SampledFrom([]uint32{0, 0, 0, 1, 5, 100, 65530, 1<<31 - 8, 1<<32 - 16}).Draw(t, "poolBase")
	span := rapid.SampledFrom([]uint32{3, 9, 12, 15}).Draw(t, "poolSpan")
	pool := make([]uint32, 0, span+3)
	for i := uint32(0); i <= span; i++ {
		pool = append(pool, base+i)
	}
	if rapid.Bool().Draw(t, "poolFar") {
		pool = append(pool, rapid.Uint32().Draw(t, "far1"), rapid.Uint32().Draw(t, "far2"), math.MaxUint32)
	}
	return pool
}

func TestVerifC35Epoch(t *testing.T) {
	verifkit.Check(t, verifkit.Spec[c35PairCase]{
		ID: "C35", Engine: "epoch",
		Gen: func(t *rapid.T) c35PairCase {
			pool := c35GenPool(t)
			return c35PairCase{
				A:         c35GenValid(t, pool, "a"),
				B:         c35GenValid(t, pool, "b"),
				NilReader: rapid.IntRange(0, 9).Draw(t, "nilReader") == 0,
			}
		},
		Run: c35PairRun,
		Floors: map[string]float64{"short": 0.1, "star": 0.1, "structured": 0.5, "zero-spelling": 0.05, "ten-entries": 0.05,
			"big-number": 0.1, "can-read": 0.3, "cannot-read": 0.3},
		NonTrivialFloor: 0.5,
	})
}

// ---------------------------------------------------------------------------------
// epochs: arbitrary inputs

// c35Input is an epoch document as data: either the short string, or lists of number
// tokens (nil = attribute not given).
type c35Input struct {
	UseShort    bool
	Short       string
	Read, Write []string
}

var (
	c35reNumber = regexp.MustCompile(`^(0|[1-9][0-9]*)$`)
	// tokens that are documented not to be epoch numbers: zero padded, negative, not
	// base 10, fractions, words
	c35reBadToken = regexp.MustCompile(`^(0[0-9]+|-[0-9]+|0x[0-9a-f]+|[0-9]+\.[0-9]+|[a-z]{2,5})$`)
	c35reYAMLWord = regexp.MustCompile(`^(y|n|yes|no|on|off|true|false|null|nan|inf)$`)
)

// c35Token: (value, ok) for an epoch number; ok=false for a token documented as bad;
// claim=false when the harness makes no statement about the token.
func c35Token(tok string) (v uint32, ok bool, claim bool) {
	if c35reNumber.MatchString(tok) {
		n, _ := new(big.Int).SetString(tok, 10)
		if n.Cmp(big.NewInt(math.MaxUint32)) > 0 {
			return 0, false, true // must be less than 2^32
		}
		return uint32(n.Uint64()), true, true
	}
	if c35reBadToken.MatchString(tok) && !c35reYAMLWord.MatchString(tok) {
		return 0, false, true
	}
	return 0, false, false
}

// c35Decide: the documented reading of an input; claim=false = no statement.
func c35Decide(in c35Input) (want c35Ep, accept bool, claim bool) {
	if in.UseShort {
		s := in.Short
		if s == "" {
			return c35Ep{[]uint32{0}, []uint32{0}}, true, true
		}
		star := strings.HasSuffix(s, "*")
		num := strings.TrimSuffix(s, "*")
		if star && strings.HasSuffix(num, "*") && c35reNumber.MatchString(strings.TrimRight(num, "*")) {
			return c35Ep{}, false, true // only one star
		}
		v, ok, claim := c35Token(num)
		if !claim {
			return c35Ep{}, false, false
		}
		if !ok || (star && v == 0) {
			return c35Ep{}, false, true
		}
		if star {
			return c35Ep{[]uint32{v - 1, v}, []uint32{v}}, true, true
		}
		return c35Ep{[]uint32{v}, []uint32{v}}, true, true
	}
	conv := func(toks []string) (out []uint32, ok bool, claim bool) {
		if toks == nil {
			return nil, true, true
		}
		out = []uint32{}
		ok, claim = true, true
		for _, tk := range toks {
			v, tok, tclaim := c35Token(tk)
			if !tclaim {
				claim = false
			}
			if !tok {
				ok = false
			}
			out = append(out, v)
		}
		return out, ok, claim
	}
	r, rok, rclaim := conv(in.Read)
	w, wok, wclaim := conv(in.Write)
	if !rclaim || !wclaim {
		return c35Ep{}, false, false
	}
	if !rok || !wok {
		return c35Ep{}, false, true
	}
	if (r != nil && len(r) == 0) || (w != nil && len(w) == 0) {
		return c35Ep{}, false, true // explicitly empty
	}
	// "the read attribute defaults to the value of the write attribute, and the write
	// attribute defaults to the last item in the read attribute. If both are unset,
	// it's the same as not specifying an epoch at all (i.e. epoch: 0)"
	if r == nil && w == nil {
		return c35Ep{[]uint32{0}, []uint32{0}}, true, true
	}
	if r == nil {
		r = w
	}
	if w == nil {
		w = []uint32{r[len(r)-1]}
	}
	if !c35ListsValid(r, w) {
		return c35Ep{}, false, true
	}
	return c35Ep{r, w}, true, true
}

var c35rePlainShort = regexp.MustCompile(`^([0-9][0-9a-z.*]*|-[0-9]+|[a-z]+)$`)

// c35Render gives the JSON and YAML texts of an input ("" = that form is not used).
func c35Render(in c35Input) (jsonText, yamlText string) {
	if in.UseShort {
		q, _ := json.Marshal(in.Short)
		jsonText = string(q)
		yamlText = string(q) // a JSON string is a YAML double quoted scalar
		if c35rePlainShort.MatchString(in.Short) && !c35reYAMLWord.MatchString(in.Short) && !strings.Contains(jsonText, `\`) {
			yamlText = in.Short
		}
		if strings.Contains(jsonText, `\`) {
			yamlText = "" // keep escapes out of it
			jsonText = ""
		}
		return
	}
	var parts []string
	if in.Read != nil {
		parts = append(parts, `"read": [`+strings.Join(in.Read, ", ")+`]`)
	}
	if in.Write != nil {
		parts = append(parts, `"write": [`+strings.Join(in.Write, ", ")+`]`)
	}
	jsonText = "{" + strings.Join(parts, ", ") + "}"
	yamlText = strings.ReplaceAll(jsonText, `"`, "")
	return
}

func c35InputRun(in c35Input) (verifkit.Outcome, error) {
	o := verifkit.Outcome{}
	want, accept, claim := c35Decide(in)
	jsonText, yamlText := c35Render(in)
	if !claim || (jsonText == "" && yamlText == "") {
		o.Skip = true
		return o, nil
	}
	o.Desc = fmt.Sprintf("JSON %s | YAML %s", jsonText, yamlText)
	o.NonTrivial = !in.UseShort && (len(in.Read) > 1 || len(in.Write) > 1)
	if in.UseShort {
		o.Labels = append(o.Labels, "short-input")
	} else {
		o.Labels = append(o.Labels, "structured-input")
		if in.Read == nil || in.Write == nil {
			o.Labels = append(o.Labels, "defaulted-attribute")
		}
		if len(in.Read) > 10 || len(in.Write) > 10 {
			o.Labels = append(o.Labels, "over-long")
		}
	}
	if accept {
		o.Labels = append(o.Labels, "accept")
	} else {
		o.Labels = append(o.Labels, "reject")
	}
	type form struct {
		name, text string
		unmarshal  func([]byte, interface{}) error
	}
	for _, f := range []form{{"JSON", jsonText, json.Unmarshal}, {"YAML", yamlText, yaml.Unmarshal}} {
		if f.text == "" {
			continue
		}
		got, err := c35Read(f.name, f.text, f.unmarshal)
		if accept {
			if err != nil {
				return o, verifkit.Violatef("valid epoch input rejected: %v; documented reading %v", err, want)
			}
			if !c35Same(got, want) {
				return o, verifkit.Violatef("epoch input %s %q read as %v; documented reading %v", f.name, f.text, got, want)
			}
			if err := c35EpochLaws(got); err != nil {
				return o, err
			}
		} else if err == nil {
			return o, verifkit.Violatef("epoch input %s %q violates a documented constraint but was accepted as %v", f.name, f.text, got)
		}
	}
	// the same lists given as a value: Validate decides
	if !in.UseShort && in.Read != nil && in.Write != nil {
		var lists [2][]uint32
		numeric := true
		for i, toks := range [][]string{in.Read, in.Write} {
			lists[i] = []uint32{}
			for _, tk := range toks {
				v, ok, _ := c35Token(tk)
				if !ok {
					numeric = false
				}
				lists[i] = append(lists[i], v)
			}
		}
		if numeric {
			e := Epoch{Read: lists[0], Write: lists[1]}
			err := e.Validate()
			if accept && err != nil {
				return o, verifkit.Violatef("Epoch%v.Validate() = %v; the lists satisfy every documented constraint", c35Ep{lists[0], lists[1]}, err)
			}
			if !accept && err == nil {
				return o, verifkit.Violatef("Epoch%v.Validate() = nil; the lists violate a documented constraint", c35Ep{lists[0], lists[1]})
			}
		}
	}
	return o, nil
}

func c35GenTokens(t *rapid.T, label string) []string {
	switch rapid.IntRange(0, 11).Draw(t, label+"Given") {
	case 0, 1:
		return nil
	case 2:
		return []string{}
	}
	n := rapid.IntRange(1, 4).Draw(t, label+"Len")
	switch rapid.IntRange(0, 7).Draw(t, label+"LenKind") {
	case 0:
		n = rapid.IntRange(9, 12).Draw(t, label+"Long")
	case 1:
		n = rapid.IntRange(5, 10).Draw(t, label+"Mid")
	}
	base := rapid.SampledFrom([]int64{0, 0, 1, 3, 7, 4294967290}).Draw(t, label+"Base")
	sorted := rapid.IntRange(0, 3).Draw(t, label+"Sorted") != 0
	out := make([]string, 0, n)
	cur := base
	for i := 0; i < n; i++ {
		var v int64
		if sorted {
			if i > 0 {
				cur += int64(rapid.SampledFrom([]int{1, 1, 1, 2, 3, 0}).Draw(t, label+"Step"))
			}
			v = cur
		} else {
			v = base + int64(rapid.IntRange(0, 8).Draw(t, label+"Any"))
		}
		tok := strconv.FormatInt(v, 10)
		if rapid.IntRange(0, 24).Draw(t, label+"Odd") == 0 {
			tok = rapid.SampledFrom([]string{"0" + tok, "-" + tok, "-1", "00", "4294967296", "99999999999", tok + ".5", "0x1f", "abc", "one", "18446744073709551617"}).Draw(t, label+"OddTok")
		}
		out = append(out, tok)
	}
	return out
}

func TestVerifC35EpochInput(t *testing.T) {
	verifkit.Check(t, verifkit.Spec[c35Input]{
		ID: "C35", Engine: "epoch-input",
		Gen: func(t *rapid.T) c35Input {
			if rapid.IntRange(0, 3).Draw(t, "short") == 0 {
				n := rapid.OneOf(
					rapid.StringMatching(`[1-9][0-9]{0,3}`),
					rapid.SampledFrom([]string{"0", "1", "2", "4294967295", "4294967296", "4294967294", "99999999999", "00", "01", "007", "-1", "-0", "1.5", "0x1f", "abc", ""}),
				).Draw(t, "shortN")
				suffix := rapid.SampledFrom([]string{"", "", "*", "*", "**", " ", "x"}).Draw(t, "shortSuffix")
				if suffix == " " || suffix == "x" || suffix == "**" {
					if n == "" {
						n = "1"
					}
				}
				prefix := ""
				if rapid.IntRange(0, 15).Draw(t, "shortPrefix") == 0 {
					prefix = rapid.SampledFrom([]string{" ", "+", "*", "e"}).Draw(t, "shortPrefixTok")
				}
				return c35Input{UseShort: true, Short: prefix + n + suffix}
			}
			in := c35Input{Read: c35GenTokens(t, "r"), Write: c35GenTokens(t, "w")}
			// relate the lists so that intersections are neither certain nor rare
			if in.Read != nil && in.Write != nil && len(in.Read) > 0 && rapid.IntRange(0, 2).Draw(t, "tie") == 0 {
				k := rapid.IntRange(1, len(in.Read)).Draw(t, "tieLen")
				in.Write = append([]string{}, in.Read[len(in.Read)-k:]...)
			}
			return in
		},
		Run: c35InputRun,
		Floors: map[string]float64{"accept": 0.2, "reject": 0.3, "short-input": 0.1, "structured-input": 0.5,
			"defaulted-attribute": 0.1, "over-long": 0.03},
		NonTrivialFloor: 0.3,
	})
}
