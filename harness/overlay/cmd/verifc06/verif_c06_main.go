// verifc06 is a helper for the C06 check.  Built as an ordinary (non-test)
// binary so that osutil's sync-skipping test mode is off, exactly as in snapd.
//
//	verifc06 awf   <target> <content-file> <perm-octal> <flags>   osutil.AtomicWriteFile
//	verifc06 aw    <target> <content-file> <perm-octal> <flags>   osutil.AtomicWrite from a plain io.Reader
//	verifc06 state <rootdir> <content-file>                       overlord state backend checkpoint (state.json)
package main

import (
	"fmt"
	"io"
	"os"
	"strconv"

	"github.com/snapcore/snapd/dirs"
	"github.com/snapcore/snapd/osutil"
	"github.com/snapcore/snapd/overlord"
)

type plainReader struct{ r io.Reader }

func (p plainReader) Read(b []byte) (int, error) { return p.r.Read(b) }

func main() {
	if len(os.Args) < 4 {
		fmt.Fprintln(os.Stderr, "usage")
		os.Exit(3)
	}
	if err := run(); err != nil {
		fmt.Fprintln(os.Stderr, "verifc06:", err)
		os.Exit(1)
	}
}

func run() error {
	mode := os.Args[1]
	switch mode {
	case "awf", "aw":
		target := os.Args[2]
		data, err := os.ReadFile(os.Args[3])
		if err != nil {
			return err
		}
		perm, _ := strconv.ParseUint(os.Args[4], 8, 32)
		fl, _ := strconv.Atoi(os.Args[5])
		// marker so the trace parser knows where the operation starts
		os.Stat("/verifc06-begin")
		defer os.Stat("/verifc06-end")
		if mode == "awf" {
			return osutil.AtomicWriteFile(target, data, os.FileMode(perm), osutil.AtomicWriteFlags(fl))
		}
		f, err := os.Open(os.Args[3])
		if err != nil {
			return err
		}
		defer f.Close()
		return osutil.AtomicWrite(target, plainReader{f}, os.FileMode(perm), osutil.AtomicWriteFlags(fl))
	case "state":
		root := os.Args[2]
		data, err := os.ReadFile(os.Args[3])
		if err != nil {
			return err
		}
		dirs.SetRootDir(root)
		if err := os.MkdirAll(dirs.SnapdStateDir(root), 0755); err != nil {
			return err
		}
		o, err := overlord.New(nil)
		if err != nil {
			return err
		}
		st := o.State()
		// what is on disk before the checkpoint under study
		if old, err := os.ReadFile(dirs.SnapStateFile); err == nil {
			os.WriteFile(root+"/old.copy", old, 0600)
		}
		os.Stat("/verifc06-begin")
		st.Lock()
		st.Set("verif-c06", string(data))
		st.Unlock() // checkpoints through overlord's real backend
		os.Stat("/verifc06-end")
		return nil
	}
	return fmt.Errorf("unknown mode %q", mode)
}
