package main

// C06 — the state file (any file written through the atomic-write helper) is
// always a complete old or new checkpoint, whatever the crash point.
//
// The production code path is observed: a NON-test helper binary (so that
// osutil.snapdUnsafeIO is false, as in snapd) performs the write under strace.
// The parsed system-call sequence is then replayed against a small persistence
// model and EVERY prefix (crash after syscall j) x EVERY persisted state the
// model allows is enumerated.

import (
	"bufio"
	"bytes"
	"encoding/json"
	"fmt"
	"os"
	"os/exec"
	"path/filepath"
	"regexp"
	"strconv"
	"strings"
	"testing"

	"github.com/snapcore/snapd/verifkit"
	"pgregory.net/rapid"
)

type c06Case struct {
	Mode    string `json:"mode"`    // awf | aw | state
	Old     int    `json:"old"`     // -1 absent, else length of the old content
	New     int    `json:"new"`     // length of the new content
	Perm    int    `json:"perm"`
	Follow  bool   `json:"follow"`  // AtomicWriteFollow
	Link    int    `json:"link"`    // 0 target is a regular path, 1 symlink to a file in another dir, 2 dangling symlink
	Seed    int    `json:"seed"`
}

type c06Sys struct {
	name string
	args string
	ret  string
	raw  string
}

var c06Line = regexp.MustCompile(`^(\d+)\s+(\w+)\((.*)\)\s+=\s+(-?\d+|\?)(.*)$`)
var c06Unfinished = regexp.MustCompile(`^(\d+)\s+(\w+)\((.*) <unfinished \.\.\.>$`)
var c06Resumed = regexp.MustCompile(`^(\d+)\s+<\.\.\. (\w+) resumed>(.*)\)\s+=\s+(-?\d+|\?)(.*)$`)

func c06ParseTrace(path string) ([]c06Sys, error) {
	f, err := os.Open(path)
	if err != nil {
		return nil, err
	}
	defer f.Close()
	pending := map[string]string{}
	var out []c06Sys
	sc := bufio.NewScanner(f)
	sc.Buffer(make([]byte, 1<<20), 1<<20)
	for sc.Scan() {
		line := sc.Text()
		if m := c06Unfinished.FindStringSubmatch(line); m != nil {
			pending[m[1]+"/"+m[2]] = m[3]
			continue
		}
		if m := c06Resumed.FindStringSubmatch(line); m != nil {
			args := pending[m[1]+"/"+m[2]] + m[3]
			delete(pending, m[1]+"/"+m[2])
			out = append(out, c06Sys{name: m[2], args: args, ret: m[4], raw: line})
			continue
		}
		if m := c06Line.FindStringSubmatch(line); m != nil {
			out = append(out, c06Sys{name: m[2], args: m[3], ret: m[4], raw: line})
		}
	}
	return out, sc.Err()
}

var c06Str = regexp.MustCompile(`"((?:[^"\\]|\\.)*)"`)

func c06Paths(args string) []string {
	var ps []string
	for _, m := range c06Str.FindAllStringSubmatch(args, -1) {
		ps = append(ps, m[1])
	}
	return ps
}

// ---- persistence model ------------------------------------------------------

type c06Inode struct {
	base    []byte   // durable content
	pending [][]byte // writes since the last fsync, in order (nil entry = truncate to zero)
}

type c06Dentry struct {
	op       string // create | rename | unlink
	a, b     string
	inode    int
	dir      string
}

type c06FS struct {
	inodes  map[int]*c06Inode
	names   map[string]int // durable names
	pending []c06Dentry
	nextIno int
	fds     map[int]string // fd -> path (file or dir)
	fdIno   map[int]int
	live    map[string]int // current in-memory namespace
	symlinks map[string]string // current in-memory symlinks
	durableLinks map[string]string // symlinks as persisted
}

func (fs *c06FS) resolve(p string) string { return c06Resolve(fs.symlinks, p) }

func c06Resolve(symlinks map[string]string, p string) string {
	for i := 0; i < 8; i++ {
		t, ok := symlinks[p]
		if !ok {
			return p
		}
		if !filepath.IsAbs(t) {
			t = filepath.Join(filepath.Dir(p), t)
		}
		p = t
	}
	return p
}

// views enumerates what a crash now may leave at path: every prefix of the
// pending directory operations x every prefix of unsynced writes of the inode
// found there.  nil content = absent.
func (fs *c06FS) views(path string) (contents [][]byte, absent bool, n int) {
	seen := map[string]bool{}
	for k := 0; k <= len(fs.pending); k++ {
		names := map[string]int{}
		for kk, v := range fs.names {
			names[kk] = v
		}
		links := map[string]string{}
		for kk, v := range fs.durableLinks {
			links[kk] = v
		}
		for _, op := range fs.pending[:k] {
			switch op.op {
			case "create":
				names[op.a] = op.inode
			case "rename":
				if ino, ok := names[op.a]; ok {
					names[op.b] = ino
					delete(names, op.a)
					delete(links, op.b) // the rename replaced a symlink at that name
				}
			case "unlink":
				delete(names, op.a)
			}
		}
		ino, ok := names[c06Resolve(links, path)]
		if !ok {
			absent = true
			n++
			continue
		}
		in := fs.inodes[ino]
		for w := 0; w <= len(in.pending); w++ {
			c := append([]byte(nil), in.base...)
			for _, ext := range in.pending[:w] {
				if ext == nil {
					c = c[:0]
				} else {
					c = append(c, ext...)
				}
			}
			n++
			key := string(c)
			if !seen[key] {
				seen[key] = true
				contents = append(contents, c)
			}
		}
	}
	return contents, absent, n
}

type c06Verdict struct {
	prefixes, states, nontrivialPrefixes int
	err                                  error
}

func c06HasFlag(args, flag string) bool { return strings.Contains(args, flag) }

// c06Judge replays the trace against the model.
func c06Judge(trace []c06Sys, root, target string, old, new []byte, oldAbsent bool, symlinks map[string]string, pre map[string][]byte) c06Verdict {
	fs := &c06FS{inodes: map[int]*c06Inode{}, names: map[string]int{}, fds: map[int]string{}, fdIno: map[int]int{}, live: map[string]int{}, nextIno: 1, symlinks: symlinks, durableLinks: map[string]string{}}
	for k, v := range symlinks {
		fs.durableLinks[k] = v
	}
	for p, content := range pre {
		fs.inodes[fs.nextIno] = &c06Inode{base: append([]byte(nil), content...)}
		fs.names[p] = fs.nextIno
		fs.live[p] = fs.nextIno
		fs.nextIno++
	}
	v := c06Verdict{}
	in := false
	wrote, renamed, synced := false, false, map[int]bool{}
	inRoot := func(p string) bool { return strings.HasPrefix(p, root+"/") || p == root }
	check := func(after string) error {
		cs, absent, n := fs.views(target)
		v.states += n
		if absent && !oldAbsent {
			return fmt.Errorf("after %s a crash may leave NOTHING at %s although it held a complete file before", after, target)
		}
		for _, c := range cs {
			if bytes.Equal(c, new) || (!oldAbsent && bytes.Equal(c, old)) {
				continue
			}
			return fmt.Errorf("after %s a crash may leave %d bytes at %s that are neither the complete old (%d bytes) nor the complete new content (%d bytes)", after, len(c), target, len(old), len(new))
		}
		return nil
	}
	for _, s := range trace {
		paths := c06Paths(s.args)
		if len(paths) > 0 && paths[0] == "/verifc06-begin" {
			in = true
			continue
		}
		if len(paths) > 0 && paths[0] == "/verifc06-end" {
			break
		}
		if !in || s.ret == "?" || strings.HasPrefix(s.ret, "-") {
			continue
		}
		relevant := false
		switch s.name {
		case "openat", "open":
			if len(paths) == 0 || !inRoot(paths[0]) {
				continue
			}
			fd, _ := strconv.Atoi(s.ret)
			p := paths[0]
			fs.fds[fd] = p
			if c06HasFlag(s.args, "O_DIRECTORY") || (!c06HasFlag(s.args, "O_CREAT") && c06IsDir(p)) {
				continue
			}
			rp := fs.resolve(p)
			if c06HasFlag(s.args, "O_NOFOLLOW") {
				rp = p
			}
			ino, exists := fs.live[rp]
			if !exists && c06HasFlag(s.args, "O_CREAT") {
				ino = fs.nextIno
				fs.nextIno++
				fs.inodes[ino] = &c06Inode{}
				fs.live[rp] = ino
				fs.pending = append(fs.pending, c06Dentry{op: "create", a: rp, inode: ino, dir: filepath.Dir(rp)})
				relevant = true
			} else if exists && c06HasFlag(s.args, "O_TRUNC") && (c06HasFlag(s.args, "O_WRONLY") || c06HasFlag(s.args, "O_RDWR")) {
				fs.inodes[ino].pending = append(fs.inodes[ino].pending, nil)
				relevant = true
			}
			if exists || c06HasFlag(s.args, "O_CREAT") {
				fs.fdIno[fd] = ino
			}
		case "write", "pwrite64":
			fd, _ := strconv.Atoi(strings.SplitN(s.args, ",", 2)[0])
			ino, ok := fs.fdIno[fd]
			if !ok {
				continue
			}
			n, _ := strconv.Atoi(s.ret)
			// the bytes are the next n bytes of the new content (sequential writer)
			inode := fs.inodes[ino]
			off := len(inode.base)
			for _, e := range inode.pending {
				if e == nil {
					off = 0
				} else {
					off += len(e)
				}
			}
			if s.name == "pwrite64" || off+n > len(new) {
				v.err = fmt.Errorf("unexpected write pattern %q (offset %d len %d, new content %d bytes)", s.raw, off, n, len(new))
				return v
			}
			inode.pending = append(inode.pending, new[off:off+n])
			wrote = true
			relevant = true
		case "fsync", "fdatasync":
			fd, _ := strconv.Atoi(strings.TrimSpace(s.args))
			if ino, ok := fs.fdIno[fd]; ok {
				inode := fs.inodes[ino]
				for _, e := range inode.pending {
					if e == nil {
						inode.base = inode.base[:0]
					} else {
						inode.base = append(inode.base, e...)
					}
				}
				inode.pending = nil
				synced[ino] = true
				relevant = true
			} else if p, ok := fs.fds[fd]; ok && c06IsDir(p) {
				var rest []c06Dentry
				for _, op := range fs.pending {
					if op.dir != p {
						rest = append(rest, op)
						continue
					}
					switch op.op {
					case "create":
						fs.names[op.a] = op.inode
					case "rename":
						if ino, ok := fs.names[op.a]; ok {
							fs.names[op.b] = ino
							delete(fs.names, op.a)
							delete(fs.durableLinks, op.b)
						}
					case "unlink":
						delete(fs.names, op.a)
					}
				}
				fs.pending = rest
				relevant = true
			}
		case "rename", "renameat", "renameat2":
			if len(paths) < 2 || !inRoot(paths[1]) {
				continue
			}
			a, b := paths[0], paths[1]
			ino := fs.live[a]
			delete(fs.live, a)
			fs.live[b] = ino
			delete(fs.symlinks, b) // rename replaces a symlink itself
			fs.pending = append(fs.pending, c06Dentry{op: "rename", a: a, b: b, dir: filepath.Dir(b)})
			if filepath.Dir(a) != filepath.Dir(b) {
				v.err = fmt.Errorf("temporary file %s is not in the directory of the target %s", a, b)
				return v
			}
			if in := fs.inodes[ino]; in != nil && len(in.pending) > 0 {
				// fall through: the enumeration below shows the short file
			}
			renamed = true
			relevant = true
		case "unlink", "unlinkat":
			if len(paths) == 0 || !inRoot(paths[0]) {
				continue
			}
			delete(fs.live, paths[0])
			fs.pending = append(fs.pending, c06Dentry{op: "unlink", a: paths[0], dir: filepath.Dir(paths[0])})
			relevant = true
		case "close":
			fd, _ := strconv.Atoi(strings.TrimSpace(s.args))
			delete(fs.fds, fd)
			delete(fs.fdIno, fd)
		}
		if !relevant {
			continue
		}
		v.prefixes++
		if wrote && (!renamed || len(fs.pending) > 0) {
			v.nontrivialPrefixes++
		}
		if err := check(fmt.Sprintf("syscall #%d %s(%s)", v.prefixes, s.name, c06Clip(s.args))); err != nil {
			v.err = err
			return v
		}
	}
	if !in {
		v.err = fmt.Errorf("HARNESS: begin marker not found in trace")
		return v
	}
	if !renamed || !wrote && len(new) > 0 {
		v.err = fmt.Errorf("HARNESS: trace shows no write+rename (wrote=%v renamed=%v)", wrote, renamed)
		return v
	}
	// durability once the call has returned: nothing pending may be needed
	cs, absent, _ := fs.views(target)
	if absent || len(cs) != 1 || !bytes.Equal(cs[0], new) {
		v.err = fmt.Errorf("after the write returned, a crash may still leave something else than the complete new content at %s (directory entry or data not synced)", target)
	}
	return v
}

func c06Clip(s string) string {
	if len(s) > 80 {
		return s[:80] + "…"
	}
	return s
}

func c06IsDir(p string) bool {
	fi, err := os.Stat(p)
	return err == nil && fi.IsDir()
}

func c06Content(n, seed int, tag byte) []byte {
	b := make([]byte, n)
	x := uint32(seed*2654435761 + int(tag))
	for i := range b {
		x = x*1664525 + 1013904223
		b[i] = byte('a' + (x>>24)%26)
	}
	if n > 0 {
		b[0] = tag
	}
	return b
}

func c06Run(c c06Case) (verifkit.Outcome, error) {
	o := verifkit.Outcome{Extra: map[string]int64{}}
	helper := os.Getenv("VERIF_HELPER_VERIFC06")
	if helper == "" {
		panic("HARNESS: VERIF_HELPER_VERIFC06 not set")
	}
	root, err := os.MkdirTemp("", "c06")
	if err != nil {
		panic("HARNESS: " + err.Error())
	}
	root, _ = filepath.EvalSymlinks(root)
	defer os.RemoveAll(root)
	newC := c06Content(c.New, c.Seed, 'N')
	oldC := c06Content(0, 0, 'O')
	if c.Old >= 0 {
		oldC = c06Content(c.Old, c.Seed+1, 'O')
	}
	contentFile := filepath.Join(root, "content.in")
	os.WriteFile(contentFile, newC, 0600)
	symlinks := map[string]string{}
	pre := map[string][]byte{}
	var args []string
	target := filepath.Join(root, "d", "target")
	oldAbsent := c.Old < 0
	switch c.Mode {
	case "state":
		args = []string{"state", root, contentFile}
		target = filepath.Join(root, "var/lib/snapd/state.json")
	default:
		os.MkdirAll(filepath.Join(root, "d"), 0755)
		os.MkdirAll(filepath.Join(root, "e"), 0755)
		real := target
		if c.Link > 0 {
			real = filepath.Join(root, "e", "real")
			os.Symlink(real, target)
			symlinks[target] = real
			if !c.Follow {
				// the symlink itself is replaced: what is reachable before is the linked file
			}
		}
		if c.Old >= 0 && c.Link != 2 {
			os.WriteFile(real, oldC, 0644)
			pre[real] = oldC
		} else {
			oldAbsent = true
		}
		fl := 0
		if c.Follow {
			fl = 1
		}
		args = []string{c.Mode, target, contentFile, fmt.Sprintf("%o", c.Perm), strconv.Itoa(fl)}
	}
	tracePath := filepath.Join(root, "trace.txt")
	cmd := exec.Command("strace", append([]string{"-f", "-s", "256", "-o", tracePath, "-e",
		"trace=open,openat,write,pwrite64,fsync,fdatasync,rename,renameat,renameat2,unlink,unlinkat,close,newfstatat,statx,stat,ftruncate,truncate",
		helper}, args...)...)
	env := []string{"PATH=" + os.Getenv("PATH"), "HOME=" + root, "GOMAXPROCS=2"}
	cmd.Env = env // in particular: no SNAPD_UNSAFE_IO, no SNAPD_DEBUG
	out, err := cmd.CombinedOutput()
	if err != nil {
		panic(fmt.Sprintf("HARNESS: helper failed: %v\n%s", err, out))
	}
	trace, err := c06ParseTrace(tracePath)
	if err != nil {
		panic("HARNESS: " + err.Error())
	}
	if c.Mode == "state" {
		newC, err = os.ReadFile(target)
		if err != nil {
			panic("HARNESS: " + err.Error())
		}
		oldC, err = os.ReadFile(filepath.Join(root, "old.copy"))
		oldAbsent = err != nil
		if !oldAbsent {
			pre[target] = oldC
		}
	} else {
		got, err := os.ReadFile(target)
		if err != nil || !bytes.Equal(got, newC) {
			return o, verifkit.Violatef("C06: after a successful atomic write the target does not hold the new content (err=%v, %d bytes)", err, len(got))
		}
	}
	v := c06Judge(trace, root, target, oldC, newC, oldAbsent, symlinks, pre)
	o.Extra["crash_prefixes"] = int64(v.prefixes)
	o.Extra["persisted_states_checked"] = int64(v.states)
	o.Extra["crash_prefixes_between_first_write_and_last_sync"] = int64(v.nontrivialPrefixes)
	o.NonTrivial = v.nontrivialPrefixes > 0
	o.Labels = append(o.Labels, "mode-"+c.Mode)
	if c.Link > 0 {
		o.Labels = append(o.Labels, "symlink-target")
	}
	if !oldAbsent {
		o.Labels = append(o.Labels, "old-content-present")
	}
	if c.New > 32*1024 && c.Mode == "aw" {
		o.Labels = append(o.Labels, "multi-chunk-write")
	}
	o.Desc = fmt.Sprintf("%+v: %d syscall prefixes, %d persisted states enumerated", c, v.prefixes, v.states)
	if v.err != nil {
		if strings.HasPrefix(v.err.Error(), "HARNESS") {
			var tl []string
			for _, s := range trace {
				tl = append(tl, s.raw)
			}
			panic(v.err.Error() + "\n" + strings.Join(tl, "\n"))
		}
		var tl []string
		for _, s := range trace {
			if ps := c06Paths(s.args); len(ps) > 0 && strings.HasPrefix(ps[0], root) || s.name == "fsync" || s.name == "write" {
				tl = append(tl, "  "+c06Clip(s.raw))
			}
		}
		if len(tl) > 40 {
			tl = tl[len(tl)-40:]
		}
		return o, verifkit.Violatef("C06: %v\ntrace:\n%s", v.err, strings.Join(tl, "\n"))
	}
	return o, nil
}

func TestVerifC06(t *testing.T) {
	if _, err := exec.LookPath("strace"); err != nil {
		t.Fatalf("strace not available: %v", err)
	}
	verifkit.Check(t, verifkit.Spec[c06Case]{
		ID: "C06", Engine: "strace",
		Gen: func(t *rapid.T) c06Case {
			c := c06Case{Mode: rapid.SampledFrom([]string{"awf", "awf", "aw", "aw", "state"}).Draw(t, "mode")}
			c.Old = rapid.SampledFrom([]int{-1, 0, 1, 100, 5000, 70000}).Draw(t, "old")
			c.New = rapid.SampledFrom([]int{0, 1, 10, 4096, 32768, 32769, 100000, 250000}).Draw(t, "new")
			if verifkit.Thorough() && rapid.Bool().Draw(t, "rnd") {
				c.New = rapid.IntRange(0, 1<<20).Draw(t, "newlen")
			}
			c.Perm = rapid.SampledFrom([]int{0600, 0644, 0755}).Draw(t, "perm")
			c.Seed = rapid.IntRange(0, 1000).Draw(t, "seed")
			if c.Mode != "state" {
				c.Link = rapid.SampledFrom([]int{0, 0, 1, 2}).Draw(t, "link")
				c.Follow = rapid.Bool().Draw(t, "follow")
				if c.Link > 0 && !c.Follow {
					// without the follow flag the symlink itself is replaced; what
					// was reachable before is the linked file (or nothing)
				}
			}
			return c
		},
		Run:             c06Run,
		Floors:          map[string]float64{"mode-awf": 0.2, "mode-aw": 0.2, "mode-state": 0.1},
		NonTrivialFloor: 0.8,
	})
}

var _ = json.Marshal
