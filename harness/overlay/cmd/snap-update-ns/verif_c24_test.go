package main

// C24 — snap-update-ns (the cgo build of bootstrap.c, as linked into the real
// binary) and the daemon accept exactly the same snap and instance names.
//
// Unexported identifiers used: validateInstanceName (the existing cgo wrapper
// of validate_instance_name in bootstrap.go).  There is no Go wrapper for
// validate_snap_name; validate_instance_name calls it for the part before '_',
// so underscore-free strings compare it with naming.ValidateSnap as well (the
// C driver of the snap/naming engines calls validate_snap_name directly).
//
// Oracle: pure agreement, validateInstanceName(s)==0 <=> naming.ValidateInstance(s)==nil
// (and <=> naming.ValidateSnap(s)==nil when s has no '_').

import (
	"bytes"
	"encoding/json"
	"fmt"
	"strings"
	"testing"

	"github.com/snapcore/snapd/snap/naming"
	"github.com/snapcore/snapd/snap/naming/verifc24"
	"github.com/snapcore/snapd/verifkit"
	"pgregory.net/rapid"
)

type c24SunCase struct {
	S         verifc24.B `json:"s"`
	Shape     string     `json:"shape,omitempty"`
	OneDefect bool       `json:"one_defect,omitempty"`
	AtLimit   bool       `json:"at_limit,omitempty"`
}

func c24SunJudge(s string) (accepted bool, err error) {
	if strings.IndexByte(s, 0) >= 0 {
		panic("HARNESS: NUL byte in candidate")
	}
	c := validateInstanceName(s) == 0
	g := naming.ValidateInstance(s) == nil
	if c != g {
		return c || g, verifkit.Violatef("instance name %q (len %d): snap-update-ns validate_instance_name accepts=%v, naming.ValidateInstance accepts=%v", s, len(s), c, g)
	}
	if strings.IndexByte(s, '_') < 0 {
		if gs := naming.ValidateSnap(s) == nil; c != gs {
			return c || gs, verifkit.Violatef("snap name %q (len %d): snap-update-ns validate_snap_name (via validate_instance_name) accepts=%v, naming.ValidateSnap accepts=%v", s, len(s), c, gs)
		}
	}
	return c, nil
}

func c24SunNear(s string) bool {
	b := []byte(s)
	for i := range b {
		if naming.ValidateInstance(string(b[:i])+string(b[i+1:])) == nil {
			return true
		}
		for _, c := range []byte{'a', '0'} {
			if b[i] != c {
				old := b[i]
				b[i] = c
				ok := naming.ValidateInstance(string(b)) == nil
				b[i] = old
				if ok {
					return true
				}
			}
		}
	}
	return false
}

func TestVerifC24SunEnum(t *testing.T) {
	e := verifkit.NewEnum(t, "C24", "sun-enum")
	defer e.Done()
	defer clearBootstrapError()
	if raw, ok := e.Replaying(); ok {
		var c c24SunCase
		if err := json.Unmarshal(raw, &c); err != nil {
			t.Fatalf("cannot decode replay case: %v", err)
		}
		acc, err := c24SunJudge(c.S.S())
		e.Case(string(raw), acc)
		if err != nil {
			e.Fail(c, "%v", err)
		}
		return
	}
	if verifkit.ReplayRequested() {
		t.Skip("replay is for another engine")
	}
	shard, shards := verifkit.EnvInt("VERIF_SHARD", 0), verifkit.EnvInt("VERIF_SHARDS", 1)
	L := verifkit.Size(5, 7)
	e.Exhaustive(true)
	e.Extra("exhaustive_alphabet", fmt.Sprintf("%q", verifc24.Alphabet))
	e.Extra("exhaustive_max_len", fmt.Sprint(L))
	var evals, nt, acc int64
	one := func(b []byte) {
		s := string(b)
		a, err := c24SunJudge(s)
		if err != nil {
			e.Fail(c24SunCase{S: verifc24.MkB(s)}, "%v", err)
		}
		evals++
		if a {
			acc++
			nt++
			if acc%3000 == 1 {
				e.Sample(fmt.Sprintf("%q accepted by both", s))
			}
		} else if c24SunNear(s) {
			nt++
		}
	}
	verifc24.Enumerate(verifc24.Alphabet, 0, L, shard, shards, one)
	verifc24.Enumerate(verifc24.ClassAlphabet, L+1, L+1, shard, shards, one)
	e.Bulk(evals, nt)
	e.Extra("class:accepted-instance", acc)
	if shard == 0 {
		// byte sweep over well formed templates
		templates := []string{"ab", "a-b", "a1", "ab_k1", "a0-b_9", strings.Repeat("a", 40), strings.Repeat("a", 40) + "_" + strings.Repeat("k", 10)}
		seen := map[string]bool{}
		for _, tpl := range templates {
			for pos := 0; pos <= len(tpl); pos++ {
				for b := 1; b < 256; b++ {
					if len(tpl) > 8 && bytes.IndexByte(verifc24.Boundary, byte(b)) < 0 {
						continue // long templates: class boundaries only
					}
					cands := []string{tpl[:pos] + string([]byte{byte(b)}) + tpl[pos:]}
					if pos < len(tpl) {
						cands = append(cands, tpl[:pos]+string([]byte{byte(b)})+tpl[pos+1:])
					}
					for _, s := range cands {
						if seen[s] {
							continue
						}
						seen[s] = true
						_, err := c24SunJudge(s)
						if err != nil {
							e.Fail(c24SunCase{S: verifc24.MkB(s)}, "%v", err)
						}
						e.Case(fmt.Sprintf("sweep %q", s), true, "byte-sweep")
					}
				}
			}
		}
	}
}

func TestVerifC24SunRandom(t *testing.T) {
	defer clearBootstrapError()
	verifkit.Check(t, verifkit.Spec[c24SunCase]{
		ID: "C24", Engine: "sun-random",
		Gen: func(t *rapid.T) c24SunCase {
			sub := verifc24.GenSubject(t)
			return c24SunCase{S: verifc24.MkB(sub.S), Shape: sub.Shape, OneDefect: sub.OneDefect, AtLimit: sub.AtLimit}
		},
		Run: func(c c24SunCase) (verifkit.Outcome, error) {
			s := c.S.S()
			o := verifkit.Outcome{Desc: fmt.Sprintf("%q (%s)", s, c.Shape), Labels: []string{"shape-" + c.Shape}}
			if c.AtLimit {
				o.Labels = append(o.Labels, "at-limit")
			}
			acc, err := c24SunJudge(s)
			if acc {
				o.Labels = append(o.Labels, "accepted")
			}
			o.NonTrivial = acc || c.OneDefect && (c.Shape == "snap" || c.Shape == "instance")
			return o, err
		},
		Floors:          map[string]float64{"accepted": 0.1, "at-limit": 0.4, "shape-instance": 0.15, "shape-snap": 0.1},
		NonTrivialFloor: 0.3,
	})
}
