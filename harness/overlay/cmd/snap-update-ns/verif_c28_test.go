package main

// C28 — mount namespace updates transform the current mounts into the desired ones.
//
// Engine "history": histories of desired mount profiles are applied with the real
// executeMountProfileUpdate / NeededChanges on top of a real scratch directory tree;
// only Change.Perform is replaced (package variable changePerform) by a simulator that
// succeeds, fails, or reports synthetic "writable mimic" entries the way
// createWritableMimic reports them.  Profiles travel as fstab text exactly like in the
// real program (desired and current are parsed from text, current is what the
// previous update saved), so the osutil codec is part of the loop.
//
// Unexported identifiers used: changePerform, executeMountProfileUpdate, Change,
// Assumptions, MountProfileUpdateContext (interface), NeededChanges.
//
// Oracles (per step, on the planned change list; sources: property statement and the
// doc comments of neededChanges / update.go):
//  partition  every current entry is exactly once Keep or Unmount (Unmount may add
//             x-snapd.detach, and must carry it for tmpfs/bind/rbind)
//  result     Keep ∪ Mount = desired (multiset on all six fields, Dir cleaned) plus
//             only rootfs entries and synthetic entries whose needed-by id is desired
//  keep       a current entry that is reusable on its own (equal to the desired entry
//             at its dir, or needed synthetic) and not beneath a changed entry is Keep
//  rootfs     x-snapd.origin=rootfs entries are always Keep
//  unmount    parent never unmounted before a child mounted after it, beneath it or stacked
//             on its mount point (mount order is tracked by the harness over the history)
//  alive      nothing is kept that was mounted after, and beneath or on, an entry that is
//             detached in the same update; the saved profile records no entry that is
//             gone or duplicated by the harness's own account of what is mounted
//  mount      same origin: containing dir first; overname mounts before all others
//  recording  performed changes == planned changes; saved profile == kept + reported
//             synthetic + successfully mounted (as a multiset; the saved order is only
//             judged through the unmount clause of later steps); fatal (layout/overname)
//             failure returns an error and saves nothing

import (
	"errors"
	"fmt"
	"os"
	"path/filepath"
	"strings"
	"testing"

	"github.com/snapcore/snapd/osutil"
	"github.com/snapcore/snapd/verifkit"
	"pgregory.net/rapid"
)

// ---- case data ----------------------------------------------------------------

type c28Ent struct {
	P     string // relative mount point, e.g. "a/bc"
	K     string // bind | rbind | tmpfs | file | symlink | ensure-dir
	O     string // "" (content) | layout | overname
	S     int    // source variant; a different value makes the entry "changed"
	Slash int    // 0 clean, 1 trailing slash, 2 doubled slash (Dir must be cleaned by the planner)
	ID    bool   // carries an explicit x-snapd.id
}

type c28Node struct {
	P string
	T string // d | f | l
}

type c28Step struct {
	Desired []c28Ent
	Fail    []int // indices into the planned change list (modulo its length) that fail
	Mimic   []int // indices of planned mounts that report a writable mimic
	RO      bool  // every mount with a missing target reports a mimic (read-only base)
	Mat     bool  // simulator creates/removes mount points on disk like the real Perform
}

type c28Case struct {
	Tree   []c28Node
	Rootfs bool
	Steps  []c28Step
}

// ---- building entries -----------------------------------------------------------

func c28DirKind(k string) bool {
	return k == "bind" || k == "rbind" || k == "tmpfs" || k == "ensure-dir"
}

func c28Entry(root string, e c28Ent) osutil.MountEntry {
	dir := filepath.Join(root, "t", e.P)
	switch e.Slash {
	case 1:
		dir += "/"
	case 2:
		dir = filepath.Join(root, "t") + "//" + e.P
	}
	src := filepath.Join(root, "src", fmt.Sprintf("%s-%d", strings.Replace(e.P, "/", "_", -1), e.S))
	var me osutil.MountEntry
	switch e.K {
	case "bind":
		me = osutil.MountEntry{Name: src, Dir: dir, Type: "none", Options: []string{"bind", "ro"}}
	case "rbind":
		me = osutil.MountEntry{Name: src, Dir: dir, Type: "none", Options: []string{"rbind", "rw"}}
	case "tmpfs":
		me = osutil.MountEntry{Name: "tmpfs", Dir: dir, Type: "tmpfs", Options: []string{fmt.Sprintf("x-snapd.mode=07%d%d", e.S%8, e.S%8)}}
	case "file":
		me = osutil.MountEntry{Name: src, Dir: dir, Type: "none", Options: []string{"bind", "rw", osutil.XSnapdKindFile()}}
	case "symlink":
		me = osutil.MountEntry{Name: "none", Dir: dir, Type: "none", Options: []string{osutil.XSnapdKindSymlink(), osutil.XSnapdSymlink(src)}}
	case "ensure-dir":
		me = osutil.MountEntry{Name: "none", Dir: dir, Type: "none", Options: []string{osutil.XSnapdKindEnsureDir(), osutil.XSnapdMustExistDir(filepath.Join(root, "t"))}}
		if e.S%2 == 1 {
			me.Options = append(me.Options, "x-snapd.mode=0700")
		}
	default:
		panic("HARNESS: unknown kind " + e.K)
	}
	if e.ID {
		me.Options = append(me.Options, "x-snapd.id=id-"+strings.Replace(e.P, "/", ".", -1))
	}
	switch e.O {
	case "layout":
		me.Options = append(me.Options, osutil.XSnapdOriginLayout())
	case "overname":
		me.Options = append(me.Options, osutil.XSnapdOriginOvername())
	}
	return me
}

// c28Normalize enforces the stated domain on a desired list, deterministically:
// one entry per (cleaned) mount point, nothing nested beneath a file or symlink entry,
// overname only for bind/rbind, ensure-dir entries as snapd writes them (no origin).
func c28Normalize(in []c28Ent) []c28Ent {
	var out []c28Ent
	seen := map[string]bool{}
	for _, e := range in {
		e.P = filepath.Clean(e.P)
		if e.P == "." || strings.HasPrefix(e.P, "..") || strings.HasPrefix(e.P, "/") || seen[e.P] {
			continue
		}
		if e.O == "overname" && e.K != "bind" && e.K != "rbind" {
			e.O = "layout"
		}
		if e.K == "ensure-dir" {
			e.O = ""
		}
		seen[e.P] = true
		out = append(out, e)
	}
	var res []c28Ent
	for _, e := range out {
		ok := true
		for _, p := range out {
			if !c28DirKind(p.K) && strings.HasPrefix(e.P, p.P+"/") {
				ok = false
			}
		}
		if ok {
			res = append(res, e)
		}
	}
	return res
}

// ---- helpers on entries -----------------------------------------------------------

func c28Clean(e osutil.MountEntry) osutil.MountEntry {
	e.Dir = filepath.Clean(e.Dir)
	return e
}

func c28Beneath(child, parent string) bool {
	if child == parent {
		return false
	}
	return strings.HasPrefix(child, strings.TrimSuffix(parent, "/")+"/")
}

func c28StripDetach(e osutil.MountEntry) (osutil.MountEntry, bool) {
	n := len(e.Options)
	if n > 0 && e.Options[n-1] == "x-snapd.detach" {
		c := e
		c.Options = append([]string(nil), e.Options[:n-1]...)
		return c, true
	}
	return e, false
}

type c28Live struct {
	e   osutil.MountEntry
	seq int
}

// ---- the plan oracle --------------------------------------------------------------

type c28PlanInfo struct {
	keeps, unmounts, mounts int
	nested                  bool
	changedAboveMimic       bool              // a changed regular entry has a still needed synthetic entry beneath it
	staleKept               map[string]string // kept entries already reported as going away with a detached ancestor -> fingerprint
}

func c28CheckPlan(curLive []c28Live, desRaw []osutil.MountEntry, plan []*Change) (info c28PlanInfo, out []error) {
	bad := func(format string, args ...interface{}) { out = append(out, verifkit.Violatef(format, args...)) }

	cur := make([]osutil.MountEntry, len(curLive))
	for i, l := range curLive {
		cur[i] = c28Clean(l.e)
	}
	des := make([]osutil.MountEntry, len(desRaw))
	desiredIDs := map[string]bool{}
	desAt := map[string][]int{}
	for i, d := range desRaw {
		des[i] = c28Clean(d)
		desiredIDs[des[i].XSnapdEntryID()] = true
		desAt[des[i].Dir] = append(desAt[des[i].Dir], i)
	}
	all := append(append([]osutil.MountEntry{}, cur...), des...)
	for i := range all {
		for j := range all {
			if c28Beneath(all[j].Dir, all[i].Dir) && all[i].XSnapdOrigin() != "rootfs" {
				info.nested = true
			}
		}
	}

	isRootfs := func(e *osutil.MountEntry) bool { return e.XSnapdOrigin() == "rootfs" }
	neededSynth := func(e *osutil.MountEntry) bool { return e.XSnapdSynthetic() && desiredIDs[e.XSnapdNeededBy()] }
	reusableOwn := func(e *osutil.MountEntry) bool {
		if isRootfs(e) || neededSynth(e) {
			return true
		}
		if e.XSnapdSynthetic() {
			return false
		}
		for _, i := range desAt[e.Dir] {
			if des[i].Equal(e) {
				return true
			}
		}
		return false
	}
	// onTop: entry i was mounted later than entry j, beneath it or stacked on its very mount
	// point, i.e. it is a descendant of j in the mount tree and goes away with it
	onTop := func(i, j int) bool {
		return i != j && curLive[i].seq > curLive[j].seq && (cur[i].Dir == cur[j].Dir || c28Beneath(cur[i].Dir, cur[j].Dir))
	}
	beneathChanged := func(i int) (bool, string) {
		for j := range cur {
			if j != i && !reusableOwn(&cur[j]) && (c28Beneath(cur[i].Dir, cur[j].Dir) || onTop(i, j)) {
				return true, cur[j].Dir
			}
		}
		return false, ""
	}

	// partition: every current entry exactly once Keep or Unmount
	const (
		actNone = iota
		actKeep
		actUnmount
	)
	action := make([]int, len(cur))
	pos := make([]int, len(cur))
	// identical entries are interchangeable: a change is attributed to the most recently
	// mounted one that is still unaccounted for
	match := func(e osutil.MountEntry) int {
		k := e.String()
		best := -1
		for i := range cur {
			if action[i] == actNone && cur[i].String() == k && (best < 0 || curLive[i].seq > curLive[best].seq) {
				best = i
			}
		}
		return best
	}
	var mountsAt []int // plan positions of Mount changes
	for p, ch := range plan {
		switch ch.Action {
		case Keep:
			info.keeps++
			i := match(ch.Entry)
			if i < 0 {
				bad("plan keeps an entry that is not (or no longer) in the current profile: %s", ch)
				continue
			}
			action[i], pos[i] = actKeep, p
		case Unmount:
			info.unmounts++
			i := match(ch.Entry)
			if i < 0 {
				if st, ok := c28StripDetach(ch.Entry); ok {
					i = match(st)
				}
			}
			if i < 0 {
				bad("plan unmounts an entry that is not (or no longer) in the current profile: %s", ch)
				continue
			}
			action[i], pos[i] = actUnmount, p
			e := ch.Entry
			if (e.Type == "tmpfs" || e.OptBool("bind") || e.OptBool("rbind")) && !e.XSnapdDetach() {
				bad("unmount of an entry that can host nested mounts lacks x-snapd.detach: %s", ch)
			}
		case Mount:
			info.mounts++
			mountsAt = append(mountsAt, p)
		default:
			bad("unknown action in plan: %s", ch)
		}
	}
	for i := range cur {
		if action[i] == actNone {
			bad("current entry is neither kept nor unmounted: %s", cur[i])
		}
		if isRootfs(&cur[i]) && action[i] == actUnmount {
			bad("rootfs entry set up by snap-confine is unmounted: %s", cur[i])
		}
	}

	// result: Keep ∪ Mount = desired ⊎ (rootfs, needed synthetic)
	want := map[string]int{}
	for i := range des {
		want[des[i].String()]++
	}
	for _, ch := range plan {
		if ch.Action != Keep && ch.Action != Mount {
			continue
		}
		e := ch.Entry
		k := e.String()
		if want[k] > 0 {
			want[k]--
			continue
		}
		if ch.Action == Keep && (isRootfs(&e) || neededSynth(&e)) {
			continue
		}
		// an entry remains although it is not desired (any more)
		if ch.Action == Keep && c28KeyCollision(cur, des, e, reusableOwn) {
			out = append(out, verifkit.Knownf("F-C28-2", "entry kept although it is not desired: %s (another current entry with the same mount point and type is reusable and reuse is tracked per (dir, type))", ch))
			continue
		}
		bad("resulting profile has an entry that is neither desired nor a still needed helper: %s", ch)
	}
	for _, k := range verifkit.SortedKeys(want) {
		if want[k] <= 0 {
			continue
		}
		var d osutil.MountEntry
		for i := range des {
			if des[i].String() == k {
				d = des[i]
			}
		}
		coll := false
		for i := range cur {
			if action[i] == actKeep && cur[i].Dir == d.Dir && cur[i].Type == d.Type && cur[i].String() != k {
				coll = true
			}
		}
		if coll {
			out = append(out, verifkit.Knownf("F-C28-2", "desired entry is neither kept nor mounted: %s (a different kept entry has the same mount point and type and reuse is tracked per (dir, type))", k))
			continue
		}
		bad("desired entry is neither kept nor mounted: %s", k)
	}

	// keep: unchanged and not beneath a changed entry
	for i := range cur {
		if !reusableOwn(&cur[i]) || action[i] != actUnmount || isRootfs(&cur[i]) {
			continue
		}
		if b, _ := beneathChanged(i); !b {
			bad("unchanged entry that is not beneath a changed one is unmounted instead of kept: %s", cur[i])
		}
	}

	// unmount order: never a parent before a child mounted after it
	for i := range cur {
		for j := range cur {
			if action[i] != actUnmount || action[j] != actUnmount {
				continue
			}
			// i parent, j child mounted later
			if onTop(j, i) && pos[i] < pos[j] {
				if i > j {
					// the profile lists the child before the parent although the parent was mounted
					// first, and the planner unmounted in reverse profile order as documented
					out = append(out, verifkit.Knownf("F-C28-1", "%s is unmounted before %s which was mounted beneath it later (the saved current profile lists them in the reverse of their mount order)", cur[i], cur[j]))
				} else {
					bad("%s is unmounted before %s which was mounted beneath it later", cur[i], cur[j])
				}
			}
		}
	}

	// kept entries stay mounted: nothing may be kept beneath an entry that is detached in
	// this update if it was mounted after that entry (it goes away with it)
	for i := range cur {
		for j := range cur {
			if action[i] != actKeep || action[j] != actUnmount || !plan[pos[j]].Entry.XSnapdDetach() {
				continue
			}
			if onTop(i, j) {
				stacked := ""
				for k := range cur {
					if k != j && cur[k].Dir == cur[j].Dir && reusableOwn(&cur[k]) {
						stacked = cur[k].String()
					}
				}
				var e error
				switch {
				case stacked != "":
					// a reusable entry on the very mount point of the changed entry ends the
					// "beneath a changed entry" stretch of the sorted current profile
					e = verifkit.Knownf("F-C28-5", "%s is kept although it was mounted beneath %s, which is detached in this update (the reusable entry %s shares the mount point of the changed one)", cur[i], cur[j], stacked)
				case (cur[j].XSnapdOrigin() == "overname") != (cur[i].XSnapdOrigin() == "overname"):
					// overname entries are sorted ahead of all others when reuse is computed, which
					// separates a parent from the entries beneath it
					e = verifkit.Knownf("F-C28-6", "%s is kept although it was mounted beneath %s, which is detached in this update (exactly one of them has overname origin)", cur[i], cur[j])
				default:
					e = verifkit.Violatef("%s is kept although it was mounted beneath %s, which is detached in this update", cur[i], cur[j])
				}
				out = append(out, e)
				if info.staleKept == nil {
					info.staleKept = map[string]string{}
				}
				info.staleKept[cur[i].String()] = e.(*verifkit.Violation).Fingerprint
			}
		}
	}
	for j := range cur {
		if reusableOwn(&cur[j]) || cur[j].XSnapdSynthetic() {
			continue
		}
		for i := range cur {
			if neededSynth(&cur[i]) && c28Beneath(cur[i].Dir, cur[j].Dir) {
				info.changedAboveMimic = true
			}
		}
	}

	// mount order
	seenOther := ""
	for _, p := range mountsAt {
		e := plan[p].Entry
		if e.XSnapdOrigin() == "overname" {
			if seenOther != "" {
				bad("overname entry %s is mounted after non-overname entry %s", e, seenOther)
			}
		} else if seenOther == "" {
			seenOther = e.String()
		}
	}
	for a, pa := range mountsAt {
		for _, pb := range mountsAt[a+1:] {
			first, second := plan[pa].Entry, plan[pb].Entry
			if first.XSnapdOrigin() == second.XSnapdOrigin() && c28Beneath(first.Dir, second.Dir) {
				if first.XSnapdKind() == "ensure-dir" {
					out = append(out, verifkit.Knownf("F-C28-3", "ensure-dir entry %s is processed before the same-origin entry %s whose directory contains it", first, second))
				} else {
					bad("%s is mounted before the same-origin entry %s whose directory contains it", first, second)
				}
			}
		}
	}
	return info, out
}

// c28KeyCollision: e (kept, not desired) shares (dir, type) with a different current
// entry that is reusable on its own.
func c28KeyCollision(cur, des []osutil.MountEntry, e osutil.MountEntry, reusableOwn func(*osutil.MountEntry) bool) bool {
	for i := range cur {
		if cur[i].Dir == e.Dir && cur[i].Type == e.Type && cur[i].String() != e.String() && reusableOwn(&cur[i]) {
			return true
		}
	}
	return false
}

// ---- the update context and the Perform simulator -----------------------------------

type c28Ctx struct {
	desiredText, currentText string
	saved                    *string
	as                       *Assumptions
}

func (c *c28Ctx) Lock() (func(), error)     { return func() {}, nil }
func (c *c28Ctx) Assumptions() *Assumptions { return c.as }
func (c *c28Ctx) LoadDesiredProfile() (*osutil.MountProfile, error) {
	return osutil.LoadMountProfileText(c.desiredText)
}
func (c *c28Ctx) LoadCurrentProfile() (*osutil.MountProfile, error) {
	return osutil.LoadMountProfileText(c.currentText)
}
func (c *c28Ctx) SaveCurrentProfile(p *osutil.MountProfile) error {
	s, err := osutil.SaveMountProfileText(p)
	if err != nil {
		return err
	}
	c.saved = &s
	return nil
}

var errC28Injected = errors.New("injected perform failure")

type c28Perf struct {
	ch       Change
	synth    []osutil.MountEntry
	synthSeq int // sequence number of synth[0]
	seq      int // sequence number of a successful mount
	err      error
}

// c28Truth is the harness's own account of what is mounted: every successful mount
// and every reported synthetic entry is added; an unmount removes its entry and, when
// it detaches, everything that was mounted beneath it later.
type c28Truth struct {
	live  []c28Live
	cause map[string]osutil.MountEntry // entry text -> detached ancestor that took it away in this step
}

func (t *c28Truth) add(e osutil.MountEntry, seq int) {
	t.live = append(t.live, c28Live{c28Clean(e), seq})
}

func (t *c28Truth) hasMimic(dir string) bool {
	for _, l := range t.live {
		if l.e.Dir == dir && l.e.Type == "tmpfs" && l.e.XSnapdSynthetic() {
			return true
		}
	}
	return false
}

func (t *c28Truth) unmount(e osutil.MountEntry) {
	keys := []string{e.String()}
	if st, ok := c28StripDetach(e); ok {
		keys = append(keys, st.String())
	}
	at := -1
	for i := len(t.live) - 1; i >= 0 && at < 0; i-- {
		for _, k := range keys {
			if t.live[i].e.String() == k {
				at = i
			}
		}
	}
	if at < 0 {
		return // already gone together with a detached ancestor
	}
	gone := t.live[at]
	var rest []c28Live
	for i, l := range t.live {
		if i == at {
			continue
		}
		if e.XSnapdDetach() && l.seq > gone.seq && (l.e.Dir == gone.e.Dir || c28Beneath(l.e.Dir, gone.e.Dir)) {
			t.cause[l.e.String()] = gone.e
			continue
		}
		rest = append(rest, l)
	}
	t.live = rest
}

func (t *c28Truth) count(key string) int {
	n := 0
	for _, l := range t.live {
		if l.e.String() == key {
			n++
		}
	}
	return n
}

func c28TargetExists(e *osutil.MountEntry) bool {
	switch e.XSnapdKind() {
	case "":
		return osutil.IsDirectory(e.Dir)
	case "file":
		return osutil.FileExists(e.Dir)
	case "symlink":
		return osutil.IsSymlink(e.Dir)
	}
	return true
}

func c28FirstExistingDir(p string) string {
	for !osutil.IsDirectory(p) {
		p = filepath.Dir(p)
	}
	return p
}

// c28Mimic reports what createWritableMimic reports for directory dir.
func c28Mimic(dir, neededBy string) []osutil.MountEntry {
	res := []osutil.MountEntry{{Name: "tmpfs", Dir: dir, Type: "tmpfs", Options: []string{
		osutil.XSnapdSynthetic(), osutil.XSnapdNeededBy(neededBy), "mode=0755", "uid=0", "gid=0"}}}
	des, _ := os.ReadDir(dir)
	for _, de := range des {
		p := filepath.Join(dir, de.Name())
		switch {
		case de.Type().IsDir():
			res = append(res, osutil.MountEntry{Name: p, Dir: p, Options: []string{"rbind", osutil.XSnapdSynthetic(), osutil.XSnapdNeededBy(neededBy), "x-snapd.detach"}})
		case de.Type().IsRegular():
			res = append(res, osutil.MountEntry{Name: p, Dir: p, Options: []string{"bind", osutil.XSnapdKindFile(), osutil.XSnapdSynthetic(), osutil.XSnapdNeededBy(neededBy)}})
		}
	}
	return res
}

func c28Materialize(ch *Change) {
	e := &ch.Entry
	switch ch.Action {
	case Mount:
		switch e.XSnapdKind() {
		case "", "ensure-dir":
			os.MkdirAll(e.Dir, 0755)
		case "file":
			os.MkdirAll(filepath.Dir(e.Dir), 0755)
			if f, err := os.OpenFile(e.Dir, os.O_CREATE|os.O_EXCL|os.O_WRONLY, 0644); err == nil {
				f.Close()
			}
		case "symlink":
			os.MkdirAll(filepath.Dir(e.Dir), 0755)
			os.Symlink(e.XSnapdSymlink(), e.Dir)
		}
	case Unmount:
		if e.XSnapdKind() != "ensure-dir" {
			os.Remove(e.Dir) // fails on non-empty directories, like the real thing
		}
	}
}

// ---- running one history -------------------------------------------------------------

func c28BuildTree(root string, tree []c28Node) {
	os.MkdirAll(filepath.Join(root, "t"), 0755)
	for _, n := range tree {
		p := filepath.Clean(n.P)
		if p == "." || strings.HasPrefix(p, "..") || strings.HasPrefix(p, "/") {
			continue
		}
		full := filepath.Join(root, "t", p)
		switch n.T {
		case "d":
			os.MkdirAll(full, 0755)
		case "f":
			if os.MkdirAll(filepath.Dir(full), 0755) == nil {
				if f, err := os.OpenFile(full, os.O_CREATE|os.O_EXCL|os.O_WRONLY, 0644); err == nil {
					f.Close()
				}
			}
		case "l":
			if os.MkdirAll(filepath.Dir(full), 0755) == nil {
				os.Symlink(filepath.Join(root, "t"), full)
			}
		}
	}
}

func c28Run(c c28Case) (o verifkit.Outcome, err error) {
	root, terr := os.MkdirTemp("", "c28-")
	if terr != nil {
		panic("HARNESS: " + terr.Error())
	}
	defer os.RemoveAll(root)
	c28BuildTree(root, c.Tree)

	origPerform := changePerform
	defer func() { changePerform = origPerform }()

	labels := map[string]bool{}
	var firstKnown, firstUnlisted, firstBad error
	note := func(errs []error) {
		for _, e := range errs {
			v, ok := e.(*verifkit.Violation)
			switch {
			case ok && v.Fingerprint != "" && verifkit.IsKnown("C28", v.Fingerprint):
				labels["finding-"+v.Fingerprint] = true
				if firstKnown == nil {
					firstKnown = e
				}
			case ok && v.Fingerprint != "":
				if firstUnlisted == nil {
					firstUnlisted = e
				}
			default:
				if firstBad == nil {
					firstBad = e
				}
			}
		}
	}

	var live []c28Live
	truth := &c28Truth{}
	seq := 0
	curText := ""
	if c.Rootfs {
		curText = "tmpfs / tmpfs x-snapd.origin=rootfs 0 0\n"
		live = append(live, c28Live{osutil.MountEntry{Name: "tmpfs", Dir: "/", Type: "tmpfs", Options: []string{"x-snapd.origin=rootfs"}}, seq})
		truth.add(live[0].e, seq)
		seq++
		labels["rootfs"] = true
	}
	var desc []string

	for si, st := range c.Steps {
		ents := c28Normalize(st.Desired)
		var desProf osutil.MountProfile
		for _, e := range ents {
			desProf.Entries = append(desProf.Entries, c28Entry(root, e))
		}
		desText, _ := osutil.SaveMountProfileText(&desProf)
		des, perr := osutil.LoadMountProfileText(desText)
		if perr != nil {
			return o, verifkit.Violatef("step %d: desired profile does not parse back: %v\n%s", si, perr, desText)
		}
		cur, perr := osutil.LoadMountProfileText(curText)
		if perr != nil {
			return o, verifkit.Violatef("step %d: saved current profile does not parse back: %v\n%s", si, perr, curText)
		}
		if len(cur.Entries) != len(live) {
			panic("HARNESS: live model out of sync")
		}
		for i := range live {
			live[i].e = cur.Entries[i] // the text form is what the planner sees
		}

		plan := NeededChanges(cur, des)
		info, errs := c28CheckPlan(live, des.Entries, plan)
		for i, e := range errs {
			if v, ok := e.(*verifkit.Violation); ok {
				v.Msg = fmt.Sprintf("step %d: %s\ncurrent:\n%sdesired:\n%splan:\n%s", si, v.Msg, strings.Replace(curText, root, "", -1), strings.Replace(desText, root, "", -1), strings.Replace(c28PlanText(plan), root, "", -1))
				errs[i] = v
			}
		}
		note(errs)
		if info.keeps > 0 && info.unmounts > 0 && info.mounts > 0 {
			labels["keep+unmount+mount"] = true
			if info.nested {
				o.NonTrivial = true
			}
		}
		if info.nested {
			labels["nested"] = true
		}
		if info.changedAboveMimic {
			labels["changed-parent-above-mimic"] = true
		}
		if info.keeps > 0 && info.unmounts == 0 && info.mounts == 0 {
			labels["pure-keep-step"] = true
		}
		desc = append(desc, fmt.Sprintf("step %d: %d current, %d desired -> %d keep, %d unmount, %d mount", si, len(cur.Entries), len(des.Entries), info.keeps, info.unmounts, info.mounts))

		// apply with the simulator
		fail := map[int]bool{}
		mimic := map[int]bool{}
		if n := len(plan); n > 0 {
			for _, f := range st.Fail {
				if f < 0 {
					f = -f
				}
				fail[f%n] = true
			}
			for _, m := range st.Mimic {
				if m < 0 {
					m = -m
				}
				mimic[m%n] = true
			}
		}
		truth.cause = map[string]osutil.MountEntry{}
		var log []c28Perf
		changePerform = func(ch *Change, as *Assumptions) ([]*Change, error) {
			idx := len(log)
			p := c28Perf{ch: *ch}
			var synth []*Change
			if ch.Action == Mount && ch.Entry.XSnapdKind() != "ensure-dir" && (st.RO || mimic[idx]) && !c28TargetExists(&ch.Entry) {
				md := c28FirstExistingDir(filepath.Dir(ch.Entry.Dir))
				if !truth.hasMimic(md) {
					p.synthSeq = seq
					for _, se := range c28Mimic(md, ch.Entry.XSnapdEntryID()) {
						se := se
						p.synth = append(p.synth, se)
						synth = append(synth, &Change{Action: Mount, Entry: se})
						truth.add(se, seq)
						seq++
					}
					labels["mimic"] = true
				}
			}
			if fail[idx] && ch.Action != Keep {
				p.err = errC28Injected
				labels["perform-failure"] = true
			}
			if p.err == nil {
				switch ch.Action {
				case Mount:
					p.seq = seq
					truth.add(ch.Entry, seq)
					seq++
				case Unmount:
					truth.unmount(ch.Entry)
				}
			}
			if st.Mat && p.err == nil {
				c28Materialize(ch)
			}
			log = append(log, p)
			return synth, p.err
		}
		ctx := &c28Ctx{desiredText: desText, currentText: curText, as: &Assumptions{}}
		uerr := executeMountProfileUpdate(ctx)
		changePerform = origPerform

		// recording oracle
		fatal := -1
		for i, p := range log {
			if p.err != nil {
				if org := p.ch.Entry.XSnapdOrigin(); org == "layout" || org == "overname" {
					fatal = i
					break
				}
			}
		}
		wantN := len(plan)
		if fatal >= 0 {
			wantN = fatal + 1
		}
		if len(log) != wantN {
			note([]error{verifkit.Violatef("step %d: %d changes performed, expected %d of the %d planned (first fatal failure at %d)", si, len(log), wantN, len(plan), fatal)})
		}
		for i := 0; i < len(log) && i < len(plan); i++ {
			if log[i].ch.String() != plan[i].String() {
				note([]error{verifkit.Violatef("step %d: performed change %d is %s, planned %s", si, i, log[i].ch, plan[i])})
				break
			}
		}
		if fatal >= 0 {
			labels["fatal-failure"] = true
			if uerr == nil {
				note([]error{verifkit.Violatef("step %d: failure of a layout/overname change is not reported by the update", si)})
			}
			if ctx.saved != nil {
				note([]error{verifkit.Violatef("step %d: current profile saved although the update failed", si)})
			}
			// the namespace no longer matches any recorded profile: the history ends here
			break
		}
		if uerr != nil || ctx.saved == nil {
			note([]error{verifkit.Violatef("step %d: update failed: %v (saved=%v)", si, uerr, ctx.saved != nil)})
			break
		}
		// expected recording
		var next []c28Live
		used := make([]bool, len(live))
		for _, p := range log {
			for k, se := range p.synth {
				next = append(next, c28Live{se, p.synthSeq + k})
			}
			if p.err != nil {
				continue
			}
			switch p.ch.Action {
			case Keep:
				s := -1
				for i := range live {
					if !used[i] && c28Clean(live[i].e).String() == p.ch.Entry.String() {
						used[i] = true
						s = live[i].seq
						break
					}
				}
				if s < 0 {
					s = seq // reported above by the plan oracle
					seq++
				}
				next = append(next, c28Live{p.ch.Entry, s})
			case Mount:
				next = append(next, c28Live{p.ch.Entry, p.seq})
			}
		}
		// The statement fixes which entries are recorded, not their order: compare as
		// multisets and carry the mount sequence numbers over to the saved order.
		savedProf, perr := osutil.LoadMountProfileText(*ctx.saved)
		if perr != nil {
			note([]error{verifkit.Violatef("step %d: saved current profile does not parse back: %v\n%s", si, perr, *ctx.saved)})
			break
		}
		var wantProf osutil.MountProfile
		for _, l := range next {
			wantProf.Entries = append(wantProf.Entries, l.e)
		}
		wantText, _ := osutil.SaveMountProfileText(&wantProf)
		wantLines := strings.Split(strings.TrimSuffix(wantText, "\n"), "\n")
		savedLines := strings.Split(strings.TrimSuffix(*ctx.saved, "\n"), "\n")
		if wantText == "" {
			wantLines = nil
		}
		if *ctx.saved == "" {
			savedLines = nil
		}
		okRec := len(wantLines) == len(savedLines) && len(savedLines) == len(savedProf.Entries)
		var reordered []c28Live
		if okRec {
			taken := make([]bool, len(next))
			for i, sl := range savedLines {
				found := false
				for j, wl := range wantLines {
					if !taken[j] && wl == sl {
						taken[j], found = true, true
						reordered = append(reordered, c28Live{savedProf.Entries[i], next[j].seq})
						break
					}
				}
				if !found {
					okRec = false
					break
				}
			}
		}
		if !okRec {
			note([]error{verifkit.Violatef("step %d: saved current profile is not kept + reported synthetic + successfully mounted entries\nsaved:\n%swant (any order):\n%s", si, *ctx.saved, wantText)})
			break
		}
		next = reordered
		// nothing stale or duplicated: every recorded entry is still mounted by the harness's
		// own bookkeeping (entries whose unmount failed may be mounted without being recorded)
		seen := map[string]int{}
		stale := false
		for _, l := range next {
			k := c28Clean(l.e).String()
			seen[k]++
			if seen[k] <= truth.count(k) {
				continue
			}
			stale = true
			msg := fmt.Sprintf("step %d: the saved profile records %s (occurrence %d) but only %d such mount(s) exist", si, strings.Replace(k, root, "", -1), seen[k], truth.count(k))
			if anc, ok := truth.cause[k]; ok {
				msg += fmt.Sprintf(": it went away when %s was detached", strings.Replace(anc.String(), root, "", -1))
			}
			if fp, ok := info.staleKept[k]; ok {
				if fp != "" {
					note([]error{verifkit.Knownf(fp, "%s\nsaved:\n%s", msg, strings.Replace(*ctx.saved, root, "", -1))})
				}
				continue // reported by the plan oracle already
			}
			note([]error{verifkit.Violatef("%s\nsaved:\n%s", msg, strings.Replace(*ctx.saved, root, "", -1))})
		}
		if stale || len(info.staleKept) > 0 {
			// the recorded profile no longer describes the namespace (reported above): like
			// after a fatal failure, the history ends here
			labels["profile-diverged"] = true
			break
		}
		live = next
		curText = *ctx.saved
	}

	for _, l := range verifkit.SortedKeys(labels) {
		o.Labels = append(o.Labels, l)
	}
	o.Desc = strings.Join(desc, "; ")
	if firstBad != nil {
		return o, firstBad
	}
	if firstUnlisted != nil {
		return o, firstUnlisted
	}
	if firstKnown != nil {
		return o, firstKnown
	}
	return o, nil
}

func c28PlanText(plan []*Change) string {
	var sb strings.Builder
	for _, ch := range plan {
		fmt.Fprintf(&sb, "  %s\n", ch)
	}
	return sb.String()
}

// ---- generator ---------------------------------------------------------------------

var c28Segs = []string{"a", "b", "bc", "d"}

func c28GenPath(t *rapid.T, pool []string) string {
	seg := rapid.SampledFrom(c28Segs)
	switch k := rapid.IntRange(0, 9).Draw(t, "pathmode"); {
	case k < 5 && len(pool) > 0: // extend an existing path: nesting
		base := rapid.SampledFrom(pool).Draw(t, "base")
		if strings.Count(base, "/") >= 3 {
			return base
		}
		return base + "/" + seg.Draw(t, "seg")
	case k < 7 && len(pool) > 0: // look-alike sibling: a/b vs a/bc
		base := rapid.SampledFrom(pool).Draw(t, "base")
		return base + rapid.SampledFrom([]string{"c", "-1", "b"}).Draw(t, "suffix")
	default:
		n := rapid.IntRange(1, 3).Draw(t, "depth")
		parts := make([]string, n)
		for i := range parts {
			parts[i] = seg.Draw(t, "seg")
		}
		return strings.Join(parts, "/")
	}
}

func c28GenEnt(t *rapid.T, pool []string) c28Ent {
	e := c28Ent{P: c28GenPath(t, pool)}
	e.K = rapid.SampledFrom([]string{"bind", "bind", "bind", "rbind", "rbind", "tmpfs", "tmpfs", "file", "symlink", "ensure-dir"}).Draw(t, "kind")
	e.O = rapid.SampledFrom([]string{"", "", "layout", "layout", "layout", "overname"}).Draw(t, "origin")
	e.S = rapid.IntRange(0, 3).Draw(t, "src")
	if rapid.IntRange(0, 7).Draw(t, "slash") == 0 {
		e.Slash = rapid.IntRange(1, 2).Draw(t, "slashkind")
	}
	e.ID = rapid.IntRange(0, 5).Draw(t, "id") == 0
	return e
}

// c28GenChangedParent: a parent mount with one or two children beneath it whose mount
// points do not exist, so that mounting them reports a writable mimic beneath the parent;
// then the parent changes (source, kind/options or origin) while the children stay.
func c28GenChangedParent(t *rapid.T) c28Case {
	var c c28Case
	base := rapid.SampledFrom([]string{"a", "b", "a/bc", "d/a", "bc/b"}).Draw(t, "base")
	parent := c28Ent{P: base,
		K: rapid.SampledFrom([]string{"bind", "bind", "rbind", "tmpfs"}).Draw(t, "pkind"),
		O: rapid.SampledFrom([]string{"", "", "", "layout", "overname"}).Draw(t, "porigin"),
		S: rapid.IntRange(0, 3).Draw(t, "psrc")}
	under := base
	if rapid.IntRange(0, 2).Draw(t, "deeper") != 0 { // the mimic is reported one level below the parent
		under = base + "/" + rapid.SampledFrom(c28Segs).Draw(t, "mid")
		c.Tree = append(c.Tree, c28Node{P: under, T: "d"})
	} else if rapid.Bool().Draw(t, "baseexists") {
		c.Tree = append(c.Tree, c28Node{P: base, T: "d"})
	}
	for _, sib := range rapid.SliceOfNDistinct(rapid.SampledFrom([]string{"s1", "s2", "f1", "l1"}), 0, 3, func(s string) string { return s }).Draw(t, "siblings") {
		c.Tree = append(c.Tree, c28Node{P: under + "/" + sib, T: map[byte]string{'s': "d", 'f': "f", 'l': "l"}[sib[0]]})
	}
	c.Rootfs = rapid.IntRange(0, 3).Draw(t, "rootfs") == 0
	var children []c28Ent
	names := rapid.SliceOfNDistinct(rapid.SampledFrom([]string{"x", "b", "bc", "x/y"}), 1, 2, func(s string) string { return s }).Draw(t, "children")
	for _, n := range names {
		children = append(children, c28Ent{P: under + "/" + n,
			K:  rapid.SampledFrom([]string{"bind", "rbind", "tmpfs", "file", "symlink"}).Draw(t, "ckind"),
			O:  rapid.SampledFrom([]string{"layout", "layout", "layout", ""}).Draw(t, "corigin"),
			S:  rapid.IntRange(0, 3).Draw(t, "csrc"),
			ID: rapid.IntRange(0, 3).Draw(t, "cid") == 0})
	}
	var extra []c28Ent
	for i, n := 0, rapid.IntRange(0, 2).Draw(t, "nextra"); i < n; i++ {
		extra = append(extra, c28GenEnt(t, []string{base, under}))
	}
	all := func(p c28Ent, kids []c28Ent) []c28Ent {
		l := append(append([]c28Ent{p}, kids...), extra...)
		if rapid.Bool().Draw(t, "shuffle") {
			l = rapid.Permutation(l).Draw(t, "perm")
		}
		return c28Normalize(l)
	}
	mimicAll := []int{0, 1, 2, 3, 4, 5, 6, 7, 8, 9, 10, 11}
	step := func(d []c28Ent) c28Step {
		st := c28Step{Desired: d, Mat: rapid.IntRange(0, 5).Draw(t, "mat") != 0}
		if rapid.IntRange(0, 3).Draw(t, "mimicmode") == 0 {
			st.Mimic = mimicAll
		} else {
			st.RO = true
		}
		return st
	}
	c.Steps = append(c.Steps, step(all(parent, children)))
	if rapid.IntRange(0, 3).Draw(t, "keepround") == 0 {
		c.Steps = append(c.Steps, step(all(parent, children)))
	}
	changed := parent
	switch rapid.IntRange(0, 3).Draw(t, "change") {
	case 0, 1: // content provider refresh: same mount point, other source
		changed.S = (parent.S + 1 + rapid.IntRange(0, 2).Draw(t, "newsrc")) % 4
	case 2: // other kind, hence other options/type
		changed.K = map[string]string{"bind": "rbind", "rbind": "tmpfs", "tmpfs": "bind"}[parent.K]
	case 3: // other origin
		changed.O = map[string]string{"": "layout", "layout": "", "overname": ""}[parent.O]
	}
	kids := children
	if len(kids) == 2 && rapid.IntRange(0, 3).Draw(t, "dropchild") == 0 {
		kids = kids[:1]
	}
	c.Steps = append(c.Steps, step(all(changed, kids)))
	switch rapid.IntRange(0, 3).Draw(t, "tail") {
	case 0:
		c.Steps = append(c.Steps, step(all(changed, kids)))
	case 1:
		c.Steps = append(c.Steps, step(nil))
	case 2:
		changed.S = (changed.S + 1) % 4
		c.Steps = append(c.Steps, step(all(changed, children)))
	}
	return c
}

func c28Gen(t *rapid.T) c28Case {
	if rapid.IntRange(0, 3).Draw(t, "scenario") == 0 {
		return c28GenChangedParent(t)
	}
	var c c28Case
	var pool []string
	nTree := rapid.IntRange(0, 6).Draw(t, "ntree")
	for i := 0; i < nTree; i++ {
		n := c28Node{P: c28GenPath(t, pool), T: rapid.SampledFrom([]string{"d", "d", "d", "d", "f", "l"}).Draw(t, "nodetype")}
		c.Tree = append(c.Tree, n)
		pool = append(pool, n.P)
	}
	c.Rootfs = rapid.IntRange(0, 3).Draw(t, "rootfs") == 0
	nSteps := rapid.IntRange(2, 5).Draw(t, "nsteps")
	var prev []c28Ent
	for s := 0; s < nSteps; s++ {
		var st c28Step
		mode := rapid.IntRange(0, 9).Draw(t, "stepmode")
		switch {
		case s > 0 && mode < 2: // unchanged profile
			st.Desired = append([]c28Ent(nil), prev...)
		case s > 0 && mode == 2: // everything goes
		default:
			for _, e := range prev {
				switch k := rapid.IntRange(0, 9).Draw(t, "fate"); {
				case k < 6:
					st.Desired = append(st.Desired, e)
				case k < 8:
					e.S = (e.S + 1 + rapid.IntRange(0, 2).Draw(t, "newsrc")) % 4
					st.Desired = append(st.Desired, e)
				case k == 8:
					e.K = rapid.SampledFrom([]string{"bind", "rbind", "tmpfs", "file", "symlink"}).Draw(t, "newkind")
					st.Desired = append(st.Desired, e)
				}
			}
			lo := 1
			if s == 0 {
				lo = 2
			}
			nNew := rapid.IntRange(lo, 4).Draw(t, "nnew")
			for i := 0; i < nNew; i++ {
				e := c28GenEnt(t, pool)
				st.Desired = append(st.Desired, e)
				pool = append(pool, e.P)
			}
			if rapid.Bool().Draw(t, "shuffle") {
				st.Desired = rapid.Permutation(st.Desired).Draw(t, "perm")
			}
		}
		st.Desired = c28Normalize(st.Desired)
		if rapid.IntRange(0, 8).Draw(t, "hasfail") == 0 {
			st.Fail = rapid.SliceOfN(rapid.IntRange(0, 40), 1, 2).Draw(t, "fail")
		}
		switch rapid.IntRange(0, 3).Draw(t, "mimicmode") {
		case 0:
			st.RO = true
		case 1:
			st.Mimic = rapid.SliceOfN(rapid.IntRange(0, 40), 1, 3).Draw(t, "mimic")
		}
		st.Mat = rapid.IntRange(0, 3).Draw(t, "mat") != 0
		prev = st.Desired
		c.Steps = append(c.Steps, st)
	}
	return c
}

func TestVerifC28History(t *testing.T) {
	verifkit.Check(t, verifkit.Spec[c28Case]{
		ID: "C28", Engine: "history",
		Gen: c28Gen,
		Run: c28Run,
		Floors: map[string]float64{
			"keep+unmount+mount":         0.30,
			"nested":                     0.50,
			"mimic":                      0.15,
			"perform-failure":            0.05,
			"pure-keep-step":             0.10,
			"rootfs":                     0.10,
			"changed-parent-above-mimic": 0.10,
		},
		// about a third of the histories run into a known finding (F-C28-1, -5) and are
		// not counted as non-trivial by the kit; of the others about 40 % are non-trivial
		NonTrivialFloor: 0.20,
	})
}
