package config_test

// C29, engine "examples": the reference model of verif_c29_test.go is run ALONE
// (no snapd code involved) over the documented example scripts of
// transaction_test.go (setGetTests: `set`, `get`, `getroot`, `commit`,
// `setunder`, `getunder`, `getrootunder`) and must give the answers written in
// that table.  A disagreement means the oracle is wrong: it is reported as a
// harness error (inconclusive), never as a property verdict.  Afterwards every
// script is also replayed through the real code with the full per-step oracle
// of the histories engine (that part can produce a verdict).

import (
	"encoding/json"
	"fmt"
	"strings"
	"testing"

	"github.com/snapcore/snapd/verifkit"
)

func c29ExampleModel(script []setGetOp) error {
	const sn = "core"
	committed := map[string]c29Tree{sn: {}}
	tx := &c29ModelTx{base: c29CloneAll(committed)}
	norm := func(v interface{}) interface{} {
		b, _ := json.Marshal(v)
		d, err := c29Decode(string(b))
		if err != nil {
			panic("HARNESS: " + err.Error())
		}
		return d
	}
	for i, op := range script {
		where := fmt.Sprintf("op %d %q", i, string(op))
		switch op.kind() {
		case "set":
			if strings.Contains(op.error(), "invalid option name") {
				continue // key syntax is not part of the model
			}
			for k, v := range op.args() {
				path := strings.Split(k, ".")
				blocked := c29Blocked(tx.view(sn), path) || c29Blocked(c29CloneTree(tx.base[sn]), path)
				if blocked != op.fails() {
					return fmt.Errorf("%s: model blocked=%v, table fails=%v", where, blocked, op.fails())
				}
				if !blocked {
					tx.log = append(tx.log, c29LogEntry{snap: sn, path: path, val: norm(v)})
				}
			}
		case "get":
			for k, expected := range op.args() {
				got, status := c29Lookup(tx.view(sn), strings.Split(k, "."))
				switch {
				case op.fails():
					if status != c29NotMap {
						return fmt.Errorf("%s: model status %d, table says error", where, status)
					}
				case expected == "-":
					if status != c29Missing {
						return fmt.Errorf("%s: model has %s=%s, table says unset", where, k, c29Canon(got))
					}
				default:
					if status != c29Found || c29Canon(got) != c29Canon(norm(expected)) {
						return fmt.Errorf("%s: model has %s=%s (status %d), table says %s", where, k, c29Canon(got), status, c29Canon(norm(expected)))
					}
				}
			}
		case "getroot":
			view := tx.view(sn)
			if op.fails() {
				if len(view) != 0 {
					return fmt.Errorf("%s: model root %s, table says no configuration", where, c29Canon(view))
				}
				continue
			}
			if c29Canon(view) != c29Canon(norm(op.args()[""])) {
				return fmt.Errorf("%s: model root %s", where, c29Canon(view))
			}
		case "commit":
			if len(tx.log) == 0 {
				continue
			}
			committed[sn] = c29Apply(c29CloneTree(committed[sn]), tx.log, sn)
			tx.base = c29CloneAll(committed)
			tx.log = nil
		case "setunder":
			for k, v := range op.args() {
				if v == "-" {
					delete(committed[sn], k)
				} else {
					committed[sn][k] = norm(v)
				}
			}
		case "getunder":
			for k, expected := range op.args() {
				got, ok := committed[sn][k]
				if expected == "-" {
					if ok {
						return fmt.Errorf("%s: model committed has %s=%s", where, k, c29Canon(got))
					}
					continue
				}
				if !ok || c29Canon(got) != c29Canon(norm(expected)) {
					return fmt.Errorf("%s: model committed %s=%s, table says %s", where, k, c29Canon(got), c29Canon(norm(expected)))
				}
			}
		case "getrootunder":
			for _, expected := range op.args() {
				if c29Canon(committed[sn]) != c29Canon(norm(expected)) {
					return fmt.Errorf("%s: model committed root %s, table says %s", where, c29Canon(committed[sn]), c29Canon(norm(expected)))
				}
			}
		case "changes":
		default:
			return fmt.Errorf("%s: unknown op kind", where)
		}
	}
	return nil
}

// c29ExampleCase converts a script without direct state manipulation into a
// history for the real code (single transaction, snap-a).
func c29ExampleCase(script []setGetOp) (c29Case, bool) {
	c := c29Case{NTx: 1}
	for _, op := range script {
		switch op.kind() {
		case "setunder":
			return c, false
		case "set":
			if strings.Contains(op.error(), "invalid option name") {
				return c, false
			}
			args := op.args()
			for _, k := range verifkit.SortedKeys(args) {
				b, _ := json.Marshal(args[k])
				c.Ops = append(c.Ops, c29Op{Op: "set", Key: k, Val: string(b)})
			}
		case "get":
			for _, k := range verifkit.SortedKeys(op.args()) {
				c.Ops = append(c.Ops, c29Op{Op: "get", Key: k}, c29Op{Op: "getmaybe", Key: k})
			}
		case "getroot":
			c.Ops = append(c.Ops, c29Op{Op: "get"})
		case "commit":
			c.Ops = append(c.Ops, c29Op{Op: "commit"})
		}
	}
	return c, len(c.Ops) > 0
}

func TestVerifC29Examples(t *testing.T) {
	e := verifkit.NewEnum(t, "C29", "examples")
	defer e.Done()
	if raw, ok := e.Replaying(); ok {
		var c c29Case
		if err := json.Unmarshal(raw, &c); err != nil {
			t.Fatalf("cannot decode replay case: %v", err)
		}
		if _, err := c29Run(c); err != nil {
			e.Fail(c, "%v", err)
		}
		return
	}
	if len(setGetTests) < 10 {
		t.Fatalf("HARNESS: documented example table unexpectedly small (%d scripts)", len(setGetTests))
	}
	var n, nt int64
	for i, script := range setGetTests {
		if err := c29ExampleModel(script); err != nil {
			// the oracle itself contradicts the documented examples
			t.Fatalf("HARNESS: reference model disagrees with documented example script %d: %v", i, err)
		}
		c, ok := c29ExampleCase(script)
		if !ok {
			continue
		}
		o, err := c29Run(c)
		n++
		if o.NonTrivial {
			nt++
		}
		if err != nil {
			e.Fail(c, "documented example script %d: %v", i, err)
		}
	}
	e.Bulk(n, nt, "example-script")
	e.Sample(fmt.Sprintf("%d documented example scripts of setGetTests checked against the model alone; %d of them replayed through the real code with the per-step oracle", len(setGetTests), n))
	e.Exhaustive(true)
}
