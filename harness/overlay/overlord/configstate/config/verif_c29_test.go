package config_test

// C29 — config transactions are isolated, read their own writes, never lose
// updates; revision config snapshots restore exactly.
//
// Only exported API is driven (NewTransaction, Set, Get, GetMaybe, Commit,
// Save/Restore/DiscardRevisionConfig, DeleteSnapConfig, GetSnapConfig) plus
// export_test.go's ClearExternalConfigMap to make sure no external
// configuration is registered.
//
// Reference model (written from the doc comments of Transaction / Set / Get /
// Commit and the documented examples in transaction_test.go's setGetTests, not
// from PatchConfig/commitChange): the committed configuration is one JSON tree
// per snap; a transaction is (base = copy of all committed trees taken when it
// was created or when it last committed something, log = ordered list of
// accepted writes).  The transaction's view of a snap is its base with the log
// applied in order, where a write creates intermediate maps and nulls (written
// directly or inside written values) remove options.  Commit applies the log,
// in order, to the *latest* committed trees (and may there overwrite non-map
// values that were unknown to the transaction: "Unknown scalars may be
// overwritten though"), empties the log and re-bases.  Nothing else changes
// the committed trees.  Revision snapshots: map (snap, rev) -> tree.
//
// Oracle clauses (each is checked after *every* operation, for every live
// transaction and for the committed state):
//  ryw        Get(root) of every transaction == model view (read your writes,
//             nulls remove options, nothing visible elsewhere before commit)
//  get        Get/GetMaybe of a dotted key: found / NoOption / "not a map" error
//  set-err    Set through a non-map of the transaction's view must fail and
//             change nothing; Set through maps / missing / nulled keys must work
//  commit     committed state (fresh transaction's root Get, and the raw state
//             entry which must not contain nulls) == model committed
//  revisions  "revision-config" state entry == model snapshot map; restore
//             replaces the snap's committed tree by exactly what was saved
//
// Corners where nothing is promised and therefore NO claim is made:
//  * Set through a non-map that exists only in the transaction's *base* while
//    the transaction itself already replaced it by a map/null (base scalar
//    shadowed by own pending writes): both "rejected, nothing changed" and
//    "accepted" are tolerated; the model follows what happened.
//  * Commit of a transaction without accepted writes: committed state must be
//    unchanged, but whether the transaction's observed configuration is
//    refreshed is not claimed (the transaction is retired and replaced).
//  * SaveRevisionConfig for a snap whose configuration exists but is empty
//    ({}): "no configuration" vs "empty configuration" is not distinguished by
//    the documentation; the operation is not issued.
//  * nulls inside lists are not generated (only options, i.e. map entries, are
//    said to be removed by nulls).
//  * error texts and NoOptionError.Key are not compared.
//
// Finding F-C29-1 (fixed in the repository by commit d59fe80): Commit re-read
// "config" *into* the old pristine map, so a snap whose configuration was
// deleted (DeleteSnapConfig) after the transaction was created was written
// back from the stale copy.  If that exact divergence comes back (committed
// state equals the model computed with the stale base for the deleted snaps
// only) the violation carries the fingerprint F-C29-1; it is not tolerated.

import (
	"encoding/json"
	"errors"
	"fmt"
	"sort"
	"strings"
	"testing"

	"pgregory.net/rapid"

	"github.com/snapcore/snapd/overlord/configstate/config"
	"github.com/snapcore/snapd/overlord/state"
	"github.com/snapcore/snapd/snap"
	"github.com/snapcore/snapd/verifkit"
)

// ---------------------------------------------------------------------------
// reference model

type c29Tree = map[string]interface{}

func c29Decode(s string) (interface{}, error) {
	dec := json.NewDecoder(strings.NewReader(s))
	dec.UseNumber()
	var v interface{}
	if err := dec.Decode(&v); err != nil {
		return nil, err
	}
	return v, nil
}

func c29Canon(v interface{}) string {
	if t, ok := v.(c29Tree); ok && t == nil {
		return "{}"
	}
	b, err := json.Marshal(v)
	if err != nil {
		panic(fmt.Sprintf("HARNESS: cannot marshal %#v: %v", v, err))
	}
	return string(b)
}

func c29Clone(v interface{}) interface{} {
	switch x := v.(type) {
	case c29Tree:
		out := make(c29Tree, len(x))
		for k, e := range x {
			out[k] = c29Clone(e)
		}
		return out
	case []interface{}:
		out := make([]interface{}, len(x))
		for i, e := range x {
			out[i] = c29Clone(e)
		}
		return out
	}
	return v
}

func c29CloneTree(t c29Tree) c29Tree {
	if t == nil {
		return c29Tree{}
	}
	return c29Clone(t).(c29Tree)
}

func c29CloneAll(m map[string]c29Tree) map[string]c29Tree {
	out := make(map[string]c29Tree, len(m))
	for k, t := range m {
		out[k] = c29CloneTree(t)
	}
	return out
}

// c29Purge removes options whose value is null, at any map depth.  Emptied
// maps stay (documented: `set doc.one.three=null` leaves "one":{}).
func c29Purge(t c29Tree) {
	for k, v := range t {
		if v == nil {
			delete(t, k)
		} else if m, ok := v.(c29Tree); ok {
			c29Purge(m)
		}
	}
}

// c29Write sets path to val creating intermediate maps; anything on the way
// that is not a map (missing, null, or - at commit time only, Set refuses it
// otherwise - an unknown non-map) is replaced by a fresh map.
func c29Write(root c29Tree, path []string, val interface{}) {
	cur := root
	for _, k := range path[:len(path)-1] {
		next, ok := cur[k].(c29Tree)
		if !ok {
			next = c29Tree{}
			cur[k] = next
		}
		cur = next
	}
	cur[path[len(path)-1]] = c29Clone(val)
}

// c29Blocked: does a strict prefix of path name an existing non-null value that
// is not a map?
func c29Blocked(root c29Tree, path []string) bool {
	cur := root
	for _, k := range path[:len(path)-1] {
		v, ok := cur[k]
		if !ok || v == nil {
			return false
		}
		m, ok := v.(c29Tree)
		if !ok {
			return true
		}
		cur = m
	}
	return false
}

const (
	c29Found = iota
	c29Missing
	c29NotMap
)

func c29Lookup(root c29Tree, path []string) (interface{}, int) {
	cur := root
	for i, k := range path {
		v, ok := cur[k]
		if !ok {
			return nil, c29Missing
		}
		if i == len(path)-1 {
			return v, c29Found
		}
		m, ok := v.(c29Tree)
		if !ok {
			return nil, c29NotMap
		}
		cur = m
	}
	panic("HARNESS: lookup with empty path")
}

type c29LogEntry struct {
	snap string
	path []string
	val  interface{}
}

type c29ModelTx struct {
	id        int
	base      map[string]c29Tree
	log       []c29LogEntry
	baseEpoch int
}

func c29Apply(t c29Tree, log []c29LogEntry, snapName string) c29Tree {
	for _, w := range log {
		if w.snap == snapName {
			c29Write(t, w.path, w.val)
		}
	}
	c29Purge(t)
	return t
}

func (tx *c29ModelTx) view(snapName string) c29Tree {
	return c29Apply(c29CloneTree(tx.base[snapName]), tx.log, snapName)
}

func (tx *c29ModelTx) touched() []string {
	seen := map[string]bool{}
	for _, w := range tx.log {
		seen[w.snap] = true
	}
	return verifkit.SortedKeys(seen)
}

// ---------------------------------------------------------------------------
// case

type c29Op struct {
	Op   string `json:"op"` // set get getmaybe commit newtx save restore discard delete
	Tx   int    `json:"tx,omitempty"`
	Snap int    `json:"snap,omitempty"`
	Key  string `json:"key,omitempty"`
	Val  string `json:"val,omitempty"` // JSON text of the value for set
	Rev  int    `json:"rev,omitempty"`
}

type c29Case struct {
	NTx  int     `json:"ntx"`
	Init []c29Op `json:"init,omitempty"` // set ops committed before the transactions are created
	Ops  []c29Op `json:"ops"`
}

var c29Snaps = []string{"snap-a", "snap-b"}
var c29Revs = []snap.Revision{snap.R(1), snap.R(2), snap.R(3), snap.R(-1)}

// Tx (for commit) and Rev (for restore/discard) values >= c29Pick are resolved
// at run time among what is applicable (see doOp).
const c29Pick = 100

func c29Mod(i, n int) int {
	i %= n
	if i < 0 {
		i += n
	}
	return i
}

// ---------------------------------------------------------------------------
// execution

type c29World struct {
	st  *state.State
	txs []*config.Transaction

	committed   map[string]c29Tree // entry present: the snap has a configuration document
	everTouched map[string]bool
	revs        map[string]map[string]c29Tree
	mtxs        []*c29ModelTx
	nextTxID    int
	epoch       int
	commits     []c29CommitRec

	labels map[string]bool
}

type c29CommitRec struct {
	epoch, tx int
	tops      map[string]bool
}

func (w *c29World) newTx(slot int) {
	w.nextTxID++
	mtx := &c29ModelTx{id: w.nextTxID, base: c29CloneAll(w.committed), baseEpoch: w.epoch}
	rtx := config.NewTransaction(w.st)
	if slot == len(w.txs) {
		w.txs = append(w.txs, rtx)
		w.mtxs = append(w.mtxs, mtx)
	} else {
		w.txs[slot], w.mtxs[slot] = rtx, mtx
	}
}

func c29GetRoot(tx *config.Transaction, snapName string) (c29Tree, error) {
	var res interface{}
	err := tx.Get(snapName, "", &res)
	if config.IsNoOption(err) {
		return c29Tree{}, nil
	}
	if err != nil {
		return nil, err
	}
	m, ok := res.(map[string]interface{})
	if !ok {
		return nil, fmt.Errorf("root document is %T", res)
	}
	if len(m) == 0 {
		return nil, fmt.Errorf("root Get returned an empty document instead of a no-option error")
	}
	return m, nil
}

// cmpCommitted compares the committed configuration as seen through a fresh
// transaction and as stored raw with the given model trees.
func (w *c29World) cmpCommitted(want map[string]c29Tree) error {
	fresh := config.NewTransaction(w.st)
	for _, sn := range c29Snaps {
		wantS := c29Canon(c29CloneTree(want[sn]))
		got, err := c29GetRoot(fresh, sn)
		if err != nil {
			return fmt.Errorf("committed config of %s unreadable: %v", sn, err)
		}
		if g := c29Canon(got); g != wantS {
			return fmt.Errorf("committed config of %s is %s, model says %s", sn, g, wantS)
		}
		raw, err := config.GetSnapConfig(w.st, sn)
		if err != nil {
			return fmt.Errorf("GetSnapConfig(%s): %v", sn, err)
		}
		if raw == nil {
			if wantS != "{}" {
				return fmt.Errorf("stored config of %s is absent, model says %s", sn, wantS)
			}
			continue
		}
		v, err := c29Decode(string(*raw))
		if err != nil {
			return fmt.Errorf("stored config of %s does not decode: %v", sn, err)
		}
		if v == nil {
			v = c29Tree{}
		}
		if g := c29Canon(v); g != wantS {
			return fmt.Errorf("stored config of %s is %s, model says %s (nulls must not be committed)", sn, g, wantS)
		}
	}
	return nil
}

func (w *c29World) cmpRevisions() error {
	var stored map[string]map[string]json.RawMessage
	err := w.st.Get("revision-config", &stored)
	if err != nil && !errors.Is(err, state.ErrNoState) {
		return fmt.Errorf("revision-config unreadable: %v", err)
	}
	got := map[string]string{}
	for sn, revs := range stored {
		for r, raw := range revs {
			v, err := c29Decode(string(raw))
			if err != nil {
				return fmt.Errorf("revision-config %s/%s does not decode: %v", sn, r, err)
			}
			got[sn+"/"+r] = c29Canon(v)
		}
	}
	want := map[string]string{}
	for sn, revs := range w.revs {
		for r, t := range revs {
			want[sn+"/"+r] = c29Canon(t)
		}
	}
	for _, k := range verifkit.SortedKeys(want) {
		if g, ok := got[k]; !ok {
			return fmt.Errorf("revision snapshot %s missing, model says %s", k, want[k])
		} else if g != want[k] {
			return fmt.Errorf("revision snapshot %s is %s, model says %s", k, g, want[k])
		}
	}
	for _, k := range verifkit.SortedKeys(got) {
		if _, ok := want[k]; !ok {
			return fmt.Errorf("unexpected revision snapshot %s = %s", k, got[k])
		}
	}
	return nil
}

func (w *c29World) cmpViews() error {
	for i, tx := range w.txs {
		for _, sn := range c29Snaps {
			want := c29Canon(w.mtxs[i].view(sn))
			got, err := c29GetRoot(tx, sn)
			if err != nil {
				return fmt.Errorf("tx%d: root Get of %s failed: %v (model view %s)", i, sn, err, want)
			}
			if g := c29Canon(got); g != want {
				return fmt.Errorf("tx%d sees %s = %s, model view is %s", i, sn, g, want)
			}
		}
	}
	return nil
}

// checkGet compares Get or GetMaybe of one key with the model view.
func c29CheckGet(tx *config.Transaction, who, snapName, key string, view c29Tree, maybe bool) error {
	var res interface{}
	var err error
	if maybe {
		err = tx.GetMaybe(snapName, key, &res)
	} else {
		err = tx.Get(snapName, key, &res)
	}
	var want interface{}
	status := c29Found
	if key == "" {
		if len(view) == 0 {
			status = c29Missing
		} else {
			want = view
		}
	} else {
		want, status = c29Lookup(view, strings.Split(key, "."))
	}
	name := "Get"
	if maybe {
		name = "GetMaybe"
	}
	switch status {
	case c29Found:
		if err != nil {
			return verifkit.Violatef("%s %s(%s,%q) failed: %v; model says %s", who, name, snapName, key, err, c29Canon(want))
		}
		if g, m := c29Canon(res), c29Canon(want); g != m {
			return verifkit.Violatef("%s %s(%s,%q) = %s; model says %s", who, name, snapName, key, g, m)
		}
	case c29Missing:
		if maybe {
			if err != nil || res != nil {
				return verifkit.Violatef("%s GetMaybe(%s,%q) of an unset option = %s, err %v", who, snapName, key, c29Canon(res), err)
			}
		} else if !config.IsNoOption(err) {
			return verifkit.Violatef("%s Get(%s,%q) of an unset option = %s, err %v; want a no-option error", who, snapName, key, c29Canon(res), err)
		}
	case c29NotMap:
		if err == nil || config.IsNoOption(err) {
			return verifkit.Violatef("%s %s(%s,%q) through a non-map = %s, err %v; want a not-a-map error", who, name, snapName, key, c29Canon(res), err)
		}
	}
	return nil
}

func c29PrefixRelated(a, b []string) bool {
	n := len(a)
	if len(b) < n {
		n = len(b)
	}
	for i := 0; i < n; i++ {
		if a[i] != b[i] {
			return false
		}
	}
	return true
}

func c29ValidKey(key string) bool {
	if key == "" {
		return false
	}
	_, err := config.ParseKey(key)
	return err == nil
}

func (w *c29World) doSet(slot int, sn, key, valJSON string) error {
	val, err := c29Decode(valJSON)
	if err != nil || !c29ValidKey(key) {
		return nil // not a case of the domain (hand-edited replay)
	}
	mtx, rtx := w.mtxs[slot], w.txs[slot]
	path := strings.Split(key, ".")
	blockedView := c29Blocked(mtx.view(sn), path)
	blockedBase := c29Blocked(c29CloneTree(mtx.base[sn]), path)
	serr := rtx.Set(sn, key, val)
	switch {
	case blockedView:
		w.labels["through-nonmap"] = true
		w.labels["set-rejected"] = true
		if serr == nil {
			return verifkit.Violatef("tx%d Set(%s,%q,%s) through a non-map value of its own view was accepted", slot, sn, key, valJSON)
		}
	case blockedBase:
		// non-map only in the base, shadowed by the transaction's own writes:
		// nothing is promised; follow what happened.
		w.labels["through-nonmap"] = true
		w.labels["may-base-nonmap"] = true
	default:
		if serr != nil {
			return verifkit.Violatef("tx%d Set(%s,%q,%s) failed: %v; nothing non-map on the path in view %s", slot, sn, key, valJSON, serr, c29Canon(mtx.view(sn)))
		}
	}
	if serr != nil {
		return nil
	}
	if val != nil {
		for _, e := range mtx.log {
			if e.snap == sn && e.val == nil && c29PrefixRelated(e.path, path) {
				w.labels["null-reset"] = true
			}
		}
	} else {
		w.labels["null-write"] = true
	}
	mtx.log = append(mtx.log, c29LogEntry{snap: sn, path: path, val: val})
	return nil
}

func (w *c29World) doCommit(slot int) error {
	mtx, rtx := w.mtxs[slot], w.txs[slot]
	if len(mtx.log) == 0 {
		rtx.Commit()
		if err := w.cmpCommitted(w.committed); err != nil {
			return verifkit.Violatef("commit of tx%d without writes changed the committed state: %v", slot, err)
		}
		stale := false
		for _, sn := range c29Snaps {
			if c29Canon(c29CloneTree(mtx.base[sn])) != c29Canon(c29CloneTree(w.committed[sn])) {
				stale = true
			}
		}
		if stale {
			// no claim about what the transaction observes from here on
			w.labels["empty-commit-stale"] = true
			w.newTx(slot)
		}
		return nil
	}
	if mtx.baseEpoch < w.epoch {
		w.labels["stale-commit"] = true
	}
	// model: log applied to the latest committed trees
	next := c29CloneAll(w.committed)
	alt := c29CloneAll(w.committed) // F-C29-1 hypothesis: deleted snaps come back from the stale base
	altDiffers := false
	for sn, t := range mtx.base {
		if _, ok := w.committed[sn]; !ok {
			alt[sn] = c29CloneTree(t)
			if len(t) > 0 {
				altDiffers = true
			}
		}
	}
	tops := map[string]bool{}
	for _, e := range mtx.log {
		t, ok := next[e.snap]
		if !ok {
			t = c29Tree{}
			next[e.snap] = t
		}
		if c29Blocked(t, e.path) {
			w.labels["through-nonmap"] = true
			w.labels["commit-over-unknown-nonmap"] = true
		}
		c29Write(t, e.path, e.val)
		ta, ok := alt[e.snap]
		if !ok {
			ta = c29Tree{}
			alt[e.snap] = ta
		}
		c29Write(ta, e.path, e.val)
		tops[e.snap+"/"+e.path[0]] = true
	}
	for _, sn := range mtx.touched() {
		c29Purge(next[sn])
		c29Purge(alt[sn])
		w.everTouched[sn] = true
	}
	for _, rec := range w.commits {
		if rec.epoch > mtx.baseEpoch && rec.tx != mtx.id {
			for k := range tops {
				if rec.tops[k] {
					w.labels["overlap-commit"] = true
				}
			}
		}
	}

	rtx.Commit()

	if err := w.cmpCommitted(next); err != nil {
		if altDiffers && w.cmpCommitted(alt) == nil {
			// exactly the F-C29-1 divergence (fixed in the repository by d59fe80):
			// a violation like any other, only with a recognisable fingerprint
			return verifkit.Knownf("F-C29-1", "commit of tx%d wrote back the configuration of a snap deleted after the transaction was created: %v", slot, err)
		}
		return verifkit.Violatef("after commit of tx%d: %v", slot, err)
	}
	w.committed = next
	w.epoch++
	w.commits = append(w.commits, c29CommitRec{epoch: w.epoch, tx: mtx.id, tops: tops})
	mtx.base = c29CloneAll(w.committed)
	mtx.log = nil
	mtx.baseEpoch = w.epoch
	return nil
}

func (w *c29World) doOp(op c29Op, ntx int) error {
	slot := c29Mod(op.Tx, ntx)
	if op.Op == "commit" && op.Tx >= c29Pick {
		// resolved at run time: among the transactions that have pending writes
		var pending []int
		for i, mtx := range w.mtxs {
			if len(mtx.log) > 0 {
				pending = append(pending, i)
			}
		}
		if len(pending) > 0 {
			slot = pending[c29Mod(op.Tx-c29Pick, len(pending))]
		}
	}
	sn := c29Snaps[c29Mod(op.Snap, len(c29Snaps))]
	rev := c29Revs[c29Mod(op.Rev, len(c29Revs))]
	if op.Rev >= c29Pick {
		// resolved at run time: among the revisions that have a snapshot
		if have := verifkit.SortedKeys(w.revs[sn]); len(have) > 0 {
			want := have[c29Mod(op.Rev-c29Pick, len(have))]
			for _, r := range c29Revs {
				if r.String() == want {
					rev = r
				}
			}
		}
	}
	switch op.Op {
	case "set":
		return w.doSet(slot, sn, op.Key, op.Val)
	case "get", "getmaybe":
		if op.Key != "" && !c29ValidKey(op.Key) {
			return nil
		}
		return c29CheckGet(w.txs[slot], fmt.Sprintf("tx%d", slot), sn, op.Key, w.mtxs[slot].view(sn), op.Op == "getmaybe")
	case "commit":
		return w.doCommit(slot)
	case "newtx":
		w.newTx(slot)
	case "save":
		t, ok := w.committed[sn]
		if len(t) == 0 && (ok || w.everTouched[sn]) {
			// existing-but-empty configuration: no claim, not issued
			w.labels["save-empty-skipped"] = true
			return nil
		}
		if err := config.SaveRevisionConfig(w.st, sn, rev); err != nil {
			return verifkit.Violatef("SaveRevisionConfig(%s,%s): %v", sn, rev, err)
		}
		if ok {
			if w.revs[sn] == nil {
				w.revs[sn] = map[string]c29Tree{}
			}
			if _, had := w.revs[sn][rev.String()]; had {
				w.labels["save-overwrite"] = true
			}
			w.revs[sn][rev.String()] = c29CloneTree(t)
			w.labels["save"] = true
		}
	case "restore":
		if err := config.RestoreRevisionConfig(w.st, sn, rev); err != nil {
			return verifkit.Violatef("RestoreRevisionConfig(%s,%s): %v", sn, rev, err)
		}
		if t, ok := w.revs[sn][rev.String()]; ok {
			if c29Canon(t) != c29Canon(c29CloneTree(w.committed[sn])) {
				w.labels["restore-changes"] = true
			}
			w.committed[sn] = c29CloneTree(t)
			w.everTouched[sn] = true
			w.epoch++ // concurrent change of the committed state
			w.labels["restore"] = true
		}
	case "discard":
		if err := config.DiscardRevisionConfig(w.st, sn, rev); err != nil {
			return verifkit.Violatef("DiscardRevisionConfig(%s,%s): %v", sn, rev, err)
		}
		if _, ok := w.revs[sn][rev.String()]; ok {
			delete(w.revs[sn], rev.String())
			w.labels["discard"] = true
		}
	case "delete":
		if err := config.DeleteSnapConfig(w.st, sn); err != nil {
			return verifkit.Violatef("DeleteSnapConfig(%s): %v", sn, err)
		}
		if _, ok := w.committed[sn]; ok {
			delete(w.committed, sn)
			w.epoch++
			w.labels["delete"] = true
		}
	}
	return nil
}

func (w *c29World) checkAll(after string) error {
	if err := w.cmpCommitted(w.committed); err != nil {
		return verifkit.Violatef("after %s: %v", after, err)
	}
	if err := w.cmpViews(); err != nil {
		return verifkit.Violatef("after %s: %v", after, err)
	}
	if err := w.cmpRevisions(); err != nil {
		return verifkit.Violatef("after %s: %v", after, err)
	}
	return nil
}

var c29Alphabet = []string{"a", "b", "c"}

func c29AllKeys(depth int) []string {
	out := []string{""}
	prev := []string{""}
	for d := 1; d <= depth; d++ {
		var cur []string
		for _, p := range prev {
			for _, l := range c29Alphabet {
				if p == "" {
					cur = append(cur, l)
				} else {
					cur = append(cur, p+"."+l)
				}
			}
		}
		out = append(out, cur...)
		prev = cur
	}
	return out
}

var c29SweepKeys = c29AllKeys(3)

func c29Run(c c29Case) (verifkit.Outcome, error) {
	o := verifkit.Outcome{}
	if c.NTx < 1 || c.NTx > 8 || len(c.Ops) == 0 {
		o.Skip = true
		return o, nil
	}
	config.ClearExternalConfigMap()
	st := state.New(nil)
	st.Lock()
	defer st.Unlock()

	w := &c29World{
		st: st, committed: map[string]c29Tree{}, everTouched: map[string]bool{},
		revs: map[string]map[string]c29Tree{}, labels: map[string]bool{},
	}
	finish := func(err error) (verifkit.Outcome, error) {
		o.Labels = verifkit.SortedKeys(w.labels)
		sort.Strings(o.Labels)
		o.NonTrivial = w.labels["overlap-commit"] || w.labels["through-nonmap"] || w.labels["null-reset"]
		return o, err
	}

	if len(c.Init) > 0 {
		w.newTx(0)
		for _, op := range c.Init {
			if op.Op != "set" {
				continue
			}
			if err := w.doSet(0, c29Snaps[c29Mod(op.Snap, len(c29Snaps))], op.Key, op.Val); err != nil {
				return finish(err)
			}
		}
		if err := w.doCommit(0); err != nil {
			return finish(err)
		}
		w.txs, w.mtxs = nil, nil
		// what happened while seeding is not what the labels are about
		w.labels = map[string]bool{}
	}
	for i := 0; i < c.NTx; i++ {
		w.newTx(i)
	}
	if err := w.checkAll("setup"); err != nil {
		return finish(err)
	}
	for i, op := range c.Ops {
		if err := w.doOp(op, c.NTx); err != nil {
			return finish(err)
		}
		if err := w.checkAll(fmt.Sprintf("op %d (%s)", i, op.Op)); err != nil {
			return finish(err)
		}
	}
	// final sweep: every dotted key up to depth 3 of every transaction
	for i, tx := range w.txs {
		for _, sn := range c29Snaps {
			view := w.mtxs[i].view(sn)
			for _, k := range c29SweepKeys {
				if err := c29CheckGet(tx, fmt.Sprintf("tx%d (final sweep)", i), sn, k, view, false); err != nil {
					return finish(err)
				}
			}
		}
	}
	return finish(nil)
}

// ---------------------------------------------------------------------------
// generators

func c29GenSeg() *rapid.Generator[string] {
	return rapid.SampledFrom([]string{"a", "a", "a", "a", "a", "b", "b", "b", "c", "c"})
}

func c29GenKey(t *rapid.T) string {
	d := rapid.SampledFrom([]int{1, 1, 1, 2, 2, 2, 2, 3, 3, 3}).Draw(t, "depth")
	segs := make([]string, d)
	for i := range segs {
		segs[i] = c29GenSeg().Draw(t, "seg")
	}
	return strings.Join(segs, ".")
}

func c29GenScalar(t *rapid.T) interface{} {
	switch rapid.IntRange(0, 5).Draw(t, "scalar") {
	case 0, 1, 2:
		return rapid.IntRange(0, 9).Draw(t, "int")
	case 3, 4:
		return rapid.SampledFrom([]string{"x", "y", "", "null"}).Draw(t, "str")
	default:
		return rapid.Bool().Draw(t, "bool")
	}
}

func c29GenMap(t *rapid.T, depth int, nulls bool) map[string]interface{} {
	n := rapid.IntRange(0, 3).Draw(t, "nkeys")
	m := map[string]interface{}{}
	for i := 0; i < n; i++ {
		k := c29GenSeg().Draw(t, "mk")
		m[k] = c29GenValue(t, depth-1, nulls)
	}
	return m
}

func c29GenValue(t *rapid.T, depth int, nulls bool) interface{} {
	kind := rapid.IntRange(0, 99).Draw(t, "kind")
	switch {
	case kind < 22:
		if nulls {
			return nil
		}
		return c29GenScalar(t)
	case kind < 52:
		return c29GenScalar(t)
	case kind < 62:
		n := rapid.IntRange(0, 2).Draw(t, "nlist")
		l := make([]interface{}, n)
		for i := range l {
			if depth > 0 && rapid.IntRange(0, 3).Draw(t, "lmap") == 0 {
				l[i] = c29GenMap(t, 1, false)
			} else {
				l[i] = c29GenScalar(t)
			}
		}
		return l
	default:
		if depth <= 0 {
			return c29GenScalar(t)
		}
		return c29GenMap(t, depth, nulls)
	}
}

func c29GenSet(t *rapid.T, ntx int) c29Op {
	v := c29GenValue(t, 2, true)
	b, err := json.Marshal(v)
	if err != nil {
		panic("HARNESS: " + err.Error())
	}
	return c29Op{
		Op: "set", Tx: rapid.IntRange(0, ntx-1).Draw(t, "tx"),
		Snap: rapid.SampledFrom([]int{0, 0, 0, 0, 0, 0, 1}).Draw(t, "snap"),
		Key:  c29GenKey(t), Val: string(b),
	}
}

func c29GenCase(t *rapid.T) c29Case {
	c := c29Case{NTx: rapid.IntRange(2, 4).Draw(t, "ntx")}
	ninit := rapid.SampledFrom([]int{0, 1, 2, 2, 3, 4}).Draw(t, "ninit")
	for i := 0; i < ninit; i++ {
		op := c29GenSet(t, 1)
		c.Init = append(c.Init, op)
	}
	maxOps := verifkit.Size(30, 40)
	n := rapid.IntRange(4, maxOps).Draw(t, "nops")
	if n < 12 && rapid.Bool().Draw(t, "longer") {
		n += 12
	}
	for i := 0; i < n; i++ {
		k := rapid.IntRange(0, 99).Draw(t, "op")
		var op c29Op
		switch {
		case k < 44:
			op = c29GenSet(t, c.NTx)
		case k < 52:
			op = c29Op{Op: "get"}
			if rapid.IntRange(0, 5).Draw(t, "root") > 0 {
				op.Key = c29GenKey(t)
			}
		case k < 55:
			op = c29Op{Op: "getmaybe", Key: c29GenKey(t)}
		case k < 58:
			op = c29Op{Op: "newtx"}
		case k < 59: // rapid favours the ends of a range: the rare op sits in the middle
			op = c29Op{Op: "delete"}
		case k < 62:
			op = c29Op{Op: "discard"}
		case k < 70:
			op = c29Op{Op: "save"}
		case k < 78:
			op = c29Op{Op: "restore"}
		default:
			op = c29Op{Op: "commit"}
		}
		if op.Op != "set" {
			op.Tx = rapid.IntRange(0, c.NTx-1).Draw(t, "tx")
			op.Snap = rapid.SampledFrom([]int{0, 0, 0, 0, 0, 0, 1}).Draw(t, "snap")
			switch op.Op {
			case "save", "restore", "discard":
				op.Rev = rapid.SampledFrom([]int{0, 0, 0, 0, 1, 1, 2, 3}).Draw(t, "rev")
				op.Snap = rapid.SampledFrom([]int{0, 0, 0, 0, 0, 0, 0, 0, 0, 1}).Draw(t, "rsnap")
				if op.Op != "save" && rapid.IntRange(0, 3).Draw(t, "pickrev") > 0 {
					op.Rev += c29Pick
				}
			case "commit":
				if rapid.IntRange(0, 3).Draw(t, "picktx") > 0 {
					op.Tx += c29Pick
				}
			}
		}
		c.Ops = append(c.Ops, op)
	}
	return c
}

func TestVerifC29Histories(t *testing.T) {
	verifkit.Check(t, verifkit.Spec[c29Case]{
		ID: "C29", Engine: "histories",
		Gen: c29GenCase,
		Run: c29Run,
		Floors: map[string]float64{
			"overlap-commit": 0.20,
			"through-nonmap": 0.20,
			"null-reset":     0.20,
			"stale-commit":   0.20,
			"restore":        0.04,
		},
		NonTrivialFloor: 0.5,
	})
}
