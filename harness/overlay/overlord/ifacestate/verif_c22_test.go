package ifacestate_test

// C22 — interface connect/disconnect changes are transactional; the persisted
// connections ("conns" in the state) and the in-memory connections (the
// interfaces repository) agree after every settled change and after a restart.
//
// A generated case is a small world (four snaps with plugs/slots of two test
// interfaces, a generated set of interface hooks) and a history of operations:
// connect, disconnect, forget, install (setup-profiles, link, auto-connect),
// remove (auto-disconnect, unlink, remove-profiles, discard-conns) and
// restart (state serialised, read back, new managers => reloadConnections).
//
// For every operation that creates a change EVERY task of that change is used
// as failure point before the operation is finally run without fault:
//   - "trigger": an error-trigger task wired in front of task k (task k fails
//     at its very start; everything before it is done and gets undone),
//   - "hook": the hook of run-hook task k exits non-zero,
//   - "setup": the j-th security backend Setup call made by task k fails
//     (connect, disconnect and setup-profiles tasks),
//   - "after": for manual connect/disconnect/forget an error-trigger appended
//     after the whole task set (same lanes, waiting for its last task): the
//     connection's own connect/disconnect task is done and then undone; such a
//     failed change is followed by a restart (clause 4).
// Tasks injected at run time (by auto-connect / auto-disconnect) are
// enumerated as soon as they exist.
//
// Oracle (from the property statement, not from the handlers):
//   (1) a failed change leaves the "conns" document (incl. undesired flags and
//       attributes) and the repository connections (incl. dynamic attributes)
//       exactly as before;
//   (2) after every settled change and after a restart: {ids in conns that are
//       neither undesired nor hotplug-gone} == {ids connected in the repository};
//   (3) after a failed change, for every snap whose security profile was in
//       sync before the change, the connection set seen at the LAST backend
//       Setup(snap) equals the snap's connection set in the repository.

import (
	"bytes"
	"encoding/json"
	"errors"
	"fmt"
	"sort"
	"strings"
	"sync"
	"testing"
	"time"

	"gopkg.in/check.v1"
	"gopkg.in/tomb.v2"
	"pgregory.net/rapid"

	"github.com/snapcore/snapd/interfaces"
	"github.com/snapcore/snapd/interfaces/ifacetest"
	"github.com/snapcore/snapd/overlord"
	"github.com/snapcore/snapd/overlord/assertstate"
	"github.com/snapcore/snapd/overlord/hookstate"
	"github.com/snapcore/snapd/overlord/ifacestate"
	"github.com/snapcore/snapd/overlord/snapstate"
	"github.com/snapcore/snapd/overlord/snapstate/snapstatetest"
	"github.com/snapcore/snapd/overlord/state"
	"github.com/snapcore/snapd/snap"
	"github.com/snapcore/snapd/snap/snaptest"
	"github.com/snapcore/snapd/timings"
	"github.com/snapcore/snapd/verifkit"
)

// ---------------------------------------------------------------- the world

type c22Endpoint struct {
	Snap, Name, Iface string
	Plug              bool
}

var c22Snaps = []string{"alpha", "beta", "gamma", "delta"}

// test: alpha:p, beta:p -> gamma:s, delta:s ; test2: alpha:q, delta:q -> gamma:r
var c22Endpoints = []c22Endpoint{
	{"alpha", "p", "test", true},
	{"alpha", "q", "test2", true},
	{"beta", "p", "test", true},
	{"gamma", "s", "test", false},
	{"gamma", "r", "test2", false},
	{"delta", "s", "test", false},
	{"delta", "q", "test2", true},
}

type c22Pair struct{ PlugSnap, Plug, SlotSnap, Slot string }

func (p c22Pair) id() string {
	return fmt.Sprintf("%s:%s %s:%s", p.PlugSnap, p.Plug, p.SlotSnap, p.Slot)
}

func c22Pairs(compatible bool) []c22Pair {
	var out []c22Pair
	for _, p := range c22Endpoints {
		if !p.Plug {
			continue
		}
		for _, s := range c22Endpoints {
			if s.Plug || s.Snap == p.Snap {
				continue
			}
			if (p.Iface == s.Iface) == compatible {
				out = append(out, c22Pair{p.Snap, p.Name, s.Snap, s.Name})
			}
		}
	}
	return out
}

// hook bits per endpoint
const (
	c22HookPrepare = 1 << iota
	c22HookConnect
	c22HookDisconnect
	c22HookUnprepare
)

type c22Op struct {
	K   string // connect | disconnect | forget | install | remove | restart
	A   int    // selection index, resolved modulo what is applicable
	Bad bool   `json:",omitempty"` // connect: plug and slot of different interfaces (organic failure)
	Und bool   `json:",omitempty"` // connect: prefer a remembered undesired connection
	Con bool   `json:",omitempty"` // remove: prefer a snap that has connections
}

type c22Case struct {
	Installed []bool // per c22Snaps: present when the managers start
	HookMask  []int  // per c22Endpoints: which interface hooks the snap declares
	Dyn       bool   // prepare hooks set a dynamic attribute
	Ops       []c22Op
}

func c22Yaml(snapIdx int, c c22Case) string {
	name := c22Snaps[snapIdx]
	var plugs, slots, hooks []string
	for i, ep := range c22Endpoints {
		if ep.Snap != name {
			continue
		}
		side := "slot"
		if ep.Plug {
			side = "plug"
			plugs = append(plugs, fmt.Sprintf("  %s:\n    interface: %s\n    attr: %s-%s\n", ep.Name, ep.Iface, ep.Snap, ep.Name))
		} else {
			slots = append(slots, fmt.Sprintf("  %s:\n    interface: %s\n    attr: %s-%s\n", ep.Name, ep.Iface, ep.Snap, ep.Name))
		}
		mask := 0
		if i < len(c.HookMask) {
			mask = c.HookMask[i]
		}
		for bit, prefix := range map[int]string{c22HookPrepare: "prepare", c22HookConnect: "connect", c22HookDisconnect: "disconnect", c22HookUnprepare: "unprepare"} {
			if mask&bit != 0 {
				hooks = append(hooks, fmt.Sprintf("  %s-%s-%s:\n", prefix, side, ep.Name))
			}
		}
	}
	sort.Strings(hooks)
	y := fmt.Sprintf("name: %s\nversion: 1\napps:\n  app:\n", name)
	if len(plugs) > 0 {
		y += "plugs:\n" + strings.Join(plugs, "")
	}
	if len(slots) > 0 {
		y += "slots:\n" + strings.Join(slots, "")
	}
	if len(hooks) > 0 {
		y += "hooks:\n" + strings.Join(hooks, "")
	}
	return y
}

// ------------------------------------------------- recording security backend

// c22Backend records, per Setup(snap), the connections of the snap as seen in
// the repository at that moment; it can be told to fail one Setup call.
type c22Backend struct {
	mu    sync.Mutex
	view  map[string][]string // snap -> sorted conn ids at the last Setup
	doing map[string]bool     // ids of tasks in Doing (maintained by the status handler)
	// armed fault: fail the failJ-th Setup call made while failTask is Doing
	failTask string
	failJ    int
	seen     int
	fired    bool
	setups   int64
}

func (b *c22Backend) Initialize(*interfaces.SecurityBackendOptions) error { return nil }
func (b *c22Backend) Name() interfaces.SecuritySystem                     { return "verifc22" }
func (b *c22Backend) NewSpecification(*interfaces.SnapAppSet, interfaces.ConfinementOptions) interfaces.Specification {
	return &ifacetest.Specification{}
}
func (b *c22Backend) SandboxFeatures() []string { return nil }

func c22SortedIDs(refs []*interfaces.ConnRef) []string {
	ids := make([]string, 0, len(refs))
	for _, r := range refs {
		ids = append(ids, r.ID())
	}
	sort.Strings(ids)
	return ids
}

func (b *c22Backend) Setup(appSet *interfaces.SnapAppSet, opts interfaces.ConfinementOptions, repo *interfaces.Repository, tm timings.Measurer) error {
	name := appSet.InstanceName()
	b.mu.Lock()
	defer b.mu.Unlock()
	b.setups++
	if b.failTask != "" && !b.fired && b.doing[b.failTask] {
		b.seen++
		if b.seen-1 == b.failJ {
			b.fired = true
			// a failing backend writes nothing: the previous profile stays
			return fmt.Errorf("verif: injected security backend failure for snap %q", name)
		}
	}
	refs, err := repo.Connections(name)
	if err != nil {
		return err
	}
	b.view[name] = c22SortedIDs(refs)
	return nil
}

func (b *c22Backend) Remove(snapName string) error {
	b.mu.Lock()
	defer b.mu.Unlock()
	delete(b.view, snapName)
	return nil
}

func (b *c22Backend) arm(task string, j int) {
	b.mu.Lock()
	b.failTask, b.failJ, b.seen, b.fired = task, j, 0, false
	b.mu.Unlock()
}

func (b *c22Backend) disarm() (fired bool) {
	b.mu.Lock()
	defer b.mu.Unlock()
	fired = b.fired
	b.failTask, b.fired, b.seen = "", false, 0
	return fired
}

// state backend of the restarted overlord (nothing is written to disk; the
// harness drives Ensure itself)
type c22StateBackend struct{}

func (c22StateBackend) Checkpoint([]byte) error    { return nil }
func (c22StateBackend) EnsureBefore(time.Duration) {}

// ---------------------------------------------------------------- the fixture

type c22Suite struct {
	interfaceManagerSuite
	body func(c *check.C)
}

func (s *c22Suite) TestVerifC22Body(c *check.C) { s.body(c) }

type c22Fault struct {
	Mode string // trigger | hook | setup | after
	Task *state.Task
	Key  string
	J    int
	Set  []*state.Task // after: the whole task set
}

func (f c22Fault) String() string {
	switch f.Mode {
	case "setup":
		return fmt.Sprintf("security backend Setup call #%d of task [%s] fails", f.J, f.Key)
	case "hook":
		return fmt.Sprintf("hook of task [%s] fails", f.Key)
	case "after":
		return "a task appended after the whole task set (same lanes, waiting for its last task) fails"
	}
	return fmt.Sprintf("task [%s] fails at its start (error-trigger wired in front)", f.Key)
}

type c22Run struct {
	c    c22Case
	s    *c22Suite
	gc   *check.C
	be   *c22Backend
	o    verifkit.Outcome
	err  error
	hist []string

	hookMu       sync.Mutex
	failHookTask string
	failHookName string
	hookFired    bool
	hookSeq      int

	labels    map[string]bool
	nExcluded int64 // failure points left out while listing those of the current attempt
}

func (r *c22Run) logf(format string, args ...interface{}) {
	r.hist = append(r.hist, fmt.Sprintf(format, args...))
}

func (r *c22Run) st() *state.State           { return r.s.state }
func (r *c22Run) repo() *interfaces.Repository { return r.s.manager(r.gc).Repository() }

func (r *c22Run) hookDeclared(snapName, hook string) bool {
	for i, ep := range c22Endpoints {
		if ep.Snap != snapName || i >= len(r.c.HookMask) {
			continue
		}
		side := "slot"
		if ep.Plug {
			side = "plug"
		}
		for bit, prefix := range map[int]string{c22HookPrepare: "prepare", c22HookConnect: "connect", c22HookDisconnect: "disconnect", c22HookUnprepare: "unprepare"} {
			if r.c.HookMask[i]&bit != 0 && hook == fmt.Sprintf("%s-%s-%s", prefix, side, ep.Name) {
				return true
			}
		}
	}
	return false
}

// runHook stands in for the execution of "snap run --hook".
func (r *c22Run) runHook(ctx *hookstate.Context, _ *tomb.Tomb) ([]byte, error) {
	t, _ := ctx.Task()
	r.hookMu.Lock()
	fail := t != nil && r.failHookTask != "" && t.ID() == r.failHookTask && ctx.HookName() == r.failHookName
	if fail {
		r.hookFired = true
	}
	r.hookSeq++
	seq := r.hookSeq
	r.hookMu.Unlock()
	if fail {
		return []byte("verif: injected hook failure"), errors.New("exit status 1")
	}
	if r.c.Dyn && (strings.HasPrefix(ctx.HookName(), "prepare-plug-") || strings.HasPrefix(ctx.HookName(), "prepare-slot-")) {
		which := "plug-dynamic"
		if strings.HasPrefix(ctx.HookName(), "prepare-slot-") {
			which = "slot-dynamic"
		}
		ctx.Lock()
		var id string
		if err := ctx.Get("attrs-task", &id); err == nil {
			if at := ctx.State().Task(id); at != nil {
				dyn := map[string]interface{}{}
				at.Get(which, &dyn)
				if dyn == nil {
					dyn = map[string]interface{}{}
				}
				dyn["dyn"] = fmt.Sprintf("v%d", seq)
				at.Set(which, dyn)
			}
		}
		ctx.Unlock()
	}
	return nil, nil
}

func c22Snapsup(name string) *snapstate.SnapSetup {
	return &snapstate.SnapSetup{SideInfo: &snap.SideInfo{RealName: name, Revision: snap.R(1)}}
}

// registerHandlers adds the stand-ins for the snapstate tasks surrounding the
// interface tasks in install/remove changes and the Doing tracker.
func (r *c22Run) registerHandlers() {
	runner := r.s.o.TaskRunner()
	st := r.st()
	snapOf := func(t *state.Task) (string, *snapstate.SnapSetup, error) {
		var name string
		if err := t.Get("verif-snap", &name); err != nil {
			return "", nil, err
		}
		return name, c22Snapsup(name), nil
	}
	runner.AddHandler("verif-link-snap", func(t *state.Task, _ *tomb.Tomb) error {
		st.Lock()
		defer st.Unlock()
		name, snapsup, err := snapOf(t)
		if err != nil {
			return err
		}
		snapstate.Set(st, name, &snapstate.SnapState{
			Active:   true,
			Sequence: snapstatetest.NewSequenceFromSnapSideInfos([]*snap.SideInfo{snapsup.SideInfo}),
			Current:  snapsup.SideInfo.Revision,
			SnapType: "app",
		})
		return ifacestate.OnSnapLinkageChanged(st, snapsup)
	}, func(t *state.Task, _ *tomb.Tomb) error {
		st.Lock()
		defer st.Unlock()
		name, snapsup, err := snapOf(t)
		if err != nil {
			return err
		}
		snapstate.Set(st, name, nil)
		return ifacestate.OnSnapLinkageChanged(st, snapsup)
	})
	setActive := func(active bool) state.HandlerFunc {
		return func(t *state.Task, _ *tomb.Tomb) error {
			st.Lock()
			defer st.Unlock()
			name, snapsup, err := snapOf(t)
			if err != nil {
				return err
			}
			var snapst snapstate.SnapState
			if err := snapstate.Get(st, name, &snapst); err != nil {
				return err
			}
			snapst.Active = active
			snapstate.Set(st, name, &snapst)
			return ifacestate.OnSnapLinkageChanged(st, snapsup)
		}
	}
	runner.AddHandler("verif-unlink-snap", setActive(false), setActive(true))
	runner.AddHandler("verif-discard-snap", func(t *state.Task, _ *tomb.Tomb) error {
		st.Lock()
		defer st.Unlock()
		name, _, err := snapOf(t)
		if err != nil {
			return err
		}
		snapstate.Set(st, name, nil)
		return nil
	}, nil)
	runner.AddHandler("verif-noop", func(*state.Task, *tomb.Tomb) error { return nil }, func(*state.Task, *tomb.Tomb) error { return nil })

	be := r.be
	st.Lock()
	st.AddTaskStatusChangedHandler(func(t *state.Task, old, new state.Status) {
		be.mu.Lock()
		if new == state.DoingStatus {
			be.doing[t.ID()] = true
		} else {
			delete(be.doing, t.ID())
		}
		be.mu.Unlock()
	})
	st.Unlock()
}

// ------------------------------------------------------------------ snapshots

type c22Snapshot struct {
	Conns map[string]string // id -> canonical JSON of the persisted connection state
	Repo  map[string]string // id -> canonical JSON of the static and dynamic attributes in the repository
}

func c22Canon(v interface{}) string {
	b, err := json.Marshal(v)
	if err != nil {
		return "!" + err.Error()
	}
	var g interface{}
	if err := json.Unmarshal(b, &g); err != nil {
		return "!" + err.Error()
	}
	b, _ = json.Marshal(g)
	return string(b)
}

func c22Attrs(m map[string]interface{}) interface{} {
	if len(m) == 0 {
		return map[string]interface{}{}
	}
	return m
}

// rawConns reads the persisted "conns" document; state lock held.
func (r *c22Run) rawConns() map[string]map[string]interface{} {
	var conns map[string]map[string]interface{}
	if err := r.st().Get("conns", &conns); err != nil && !errors.Is(err, state.ErrNoState) {
		panic(fmt.Sprintf("conns document unreadable: %v", err))
	}
	if conns == nil {
		conns = map[string]map[string]interface{}{}
	}
	return conns
}

// snapshot: state lock held.
func (r *c22Run) snapshot() c22Snapshot {
	s := c22Snapshot{Conns: map[string]string{}, Repo: map[string]string{}}
	for id, cs := range r.rawConns() {
		s.Conns[id] = c22Canon(cs)
	}
	repo := r.repo()
	for _, ref := range repo.Interfaces().Connections {
		conn, err := repo.Connection(ref)
		if err != nil {
			panic(fmt.Sprintf("repository lists %s but cannot return it: %v", ref.ID(), err))
		}
		s.Repo[ref.ID()] = c22Canon(map[string]interface{}{
			"plug-static":  c22Attrs(conn.Plug.StaticAttrs()),
			"plug-dynamic": c22Attrs(conn.Plug.DynamicAttrs()),
			"slot-static":  c22Attrs(conn.Slot.StaticAttrs()),
			"slot-dynamic": c22Attrs(conn.Slot.DynamicAttrs()),
		})
	}
	return s
}

func c22DiffMaps(what string, before, after map[string]string) []string {
	var out []string
	for _, k := range verifkit.SortedKeys(before) {
		a, ok := after[k]
		if !ok {
			out = append(out, fmt.Sprintf("%s: %q was %s, now absent", what, k, before[k]))
		} else if a != before[k] {
			out = append(out, fmt.Sprintf("%s: %q was %s, now %s", what, k, before[k], a))
		}
	}
	for _, k := range verifkit.SortedKeys(after) {
		if _, ok := before[k]; !ok {
			out = append(out, fmt.Sprintf("%s: %q was absent, now %s", what, k, after[k]))
		}
	}
	return out
}

// activeVsRepo implements clause (2); state lock held.
func (r *c22Run) activeVsRepo() []string {
	active := map[string]string{}
	for id, cs := range r.rawConns() {
		und, _ := cs["undesired"].(bool)
		gone, _ := cs["hotplug-gone"].(bool)
		if !und && !gone {
			active[id] = "connected"
		}
	}
	inRepo := map[string]string{}
	for _, ref := range r.repo().Interfaces().Connections {
		inRepo[ref.ID()] = "connected"
	}
	var out []string
	for _, k := range verifkit.SortedKeys(active) {
		if _, ok := inRepo[k]; !ok {
			out = append(out, fmt.Sprintf("%q is active in the persisted conns but not connected in the repository", k))
		}
	}
	for _, k := range verifkit.SortedKeys(inRepo) {
		if _, ok := active[k]; !ok {
			out = append(out, fmt.Sprintf("%q is connected in the repository but not active in the persisted conns (%s)", k, c22Canon(r.rawConns()[k])))
		}
	}
	return out
}

func (r *c22Run) installed(name string) bool {
	var snapst snapstate.SnapState
	return snapstate.Get(r.st(), name, &snapst) == nil && snapst.IsInstalled()
}

// profileSync returns, per installed snap known to the repository, whether the
// connection set seen at the last Setup equals the current one; lock held.
func (r *c22Run) profileSync() (insync map[string]bool, detail map[string]string) {
	insync = map[string]bool{}
	detail = map[string]string{}
	repo := r.repo()
	for _, name := range c22Snaps {
		if !r.installed(name) || (len(repo.Plugs(name)) == 0 && len(repo.Slots(name)) == 0) {
			continue
		}
		refs, err := repo.Connections(name)
		if err != nil {
			continue
		}
		want := c22SortedIDs(refs)
		r.be.mu.Lock()
		got := append([]string{}, r.be.view[name]...)
		r.be.mu.Unlock()
		insync[name] = fmt.Sprint(got) == fmt.Sprint(want)
		detail[name] = fmt.Sprintf("last Setup(%s) saw connections %v, the repository now has %v", name, got, want)
	}
	return insync, detail
}

// ------------------------------------------------------------------ execution

func c22TaskKey(st *state.State, t *state.Task) string {
	key := t.Kind() + " " + t.Summary()
	if t.Kind() == "run-hook" {
		var hs hookstate.HookSetup
		if t.Get("hook-setup", &hs) == nil {
			key = fmt.Sprintf("run-hook %s of %s", hs.Hook, hs.Snap)
		}
		var hctx map[string]interface{}
		if t.Get("hook-context", &hctx) == nil {
			if id, ok := hctx["attrs-task"].(string); ok {
				if at := st.Task(id); at != nil {
					key += " for " + at.Summary()
				}
			}
		}
	}
	if name := ""; t.Get("verif-snap", &name) == nil {
		key += " " + name
	}
	return key
}

// faultsFor lists the failure points of the given tasks (already ordered).
func (r *c22Run) faultsFor(tasks []*state.Task) []c22Fault {
	st := r.st()
	var out []c22Fault
	for _, t := range tasks {
		key := c22TaskKey(st, t)
		hookFault := false
		if t.Kind() == "run-hook" {
			var hs hookstate.HookSetup
			if t.Get("hook-setup", &hs) == nil && !hs.IgnoreError && r.hookDeclared(hs.Snap, hs.Hook) {
				hookFault = true
			}
		}
		if hookFault {
			out = append(out, c22Fault{Mode: "hook", Task: t, Key: key})
		} else {
			out = append(out, c22Fault{Mode: "trigger", Task: t, Key: key})
		}
		nsetup := 0
		switch t.Kind() {
		case "connect":
			var delayed bool
			t.Get("delayed-setup-profiles", &delayed)
			if !delayed {
				nsetup = 2
			}
		case "disconnect":
			var plugRef interfaces.PlugRef
			var slotRef interfaces.SlotRef
			if t.Get("plug", &plugRef) == nil && t.Get("slot", &slotRef) == nil {
				ref := &interfaces.ConnRef{PlugRef: plugRef, SlotRef: slotRef}
				if _, err := r.repo().Connection(ref); err == nil {
					nsetup = 2
				}
			}
		case "setup-profiles":
			// the snap itself is always set up first, then (sorted) the
			// other ends of the connections made by the connect tasks
			// this task waits for
			nsetup = 1
			if snapsup, err := snapstate.TaskSnapSetup(t); err == nil {
				peers := map[string]bool{}
				for _, w := range t.WaitTasks() {
					var plugRef interfaces.PlugRef
					var slotRef interfaces.SlotRef
					if w.Kind() == "connect" && w.Get("plug", &plugRef) == nil && w.Get("slot", &slotRef) == nil {
						peers[plugRef.Snap] = true
						peers[slotRef.Snap] = true
					}
				}
				delete(peers, snapsup.InstanceName())
				nsetup += len(peers)
			}
		}
		for j := 0; j < nsetup; j++ {
			if f := (c22Fault{Mode: "setup", Task: t, Key: key, J: j}); !r.excluded(f) {
				out = append(out, f)
			}
		}
	}
	return out
}

func (r *c22Run) wire(chg *state.Change, f c22Fault) {
	switch f.Mode {
	case "trigger":
		et := r.st().NewTask("error-trigger", "verif: failure in front of "+f.Key)
		for _, w := range f.Task.WaitTasks() {
			et.WaitFor(w)
		}
		f.Task.WaitFor(et)
		for _, l := range f.Task.Lanes() {
			if l != 0 {
				et.JoinLane(l)
			}
		}
		chg.AddTask(et)
	case "hook":
		var hs hookstate.HookSetup
		f.Task.Get("hook-setup", &hs)
		r.hookMu.Lock()
		r.failHookTask, r.failHookName, r.hookFired = f.Task.ID(), hs.Hook, false
		r.hookMu.Unlock()
	case "setup":
		r.be.arm(f.Task.ID(), f.J)
	case "after":
		et := r.st().NewTask("error-trigger", "verif: failure after the whole task set")
		inSet := map[string]bool{}
		for _, t := range f.Set {
			inSet[t.ID()] = true
		}
		lanes := map[int]bool{}
		for _, t := range f.Set {
			last := true
			for _, h := range t.HaltTasks() {
				if inSet[h.ID()] {
					last = false
				}
			}
			if last {
				et.WaitFor(t)
			}
			for _, l := range t.Lanes() {
				if l != 0 && !lanes[l] {
					lanes[l] = true
					et.JoinLane(l)
				}
			}
		}
		chg.AddTask(et)
	}
}

type c22Plan struct {
	desc    string
	build   func() (*state.Change, *state.Task, []*state.Task, error) // change, dynamic task (or nil), static fault-able tasks
	manual  bool
	install string
	remove  string
	// manual plans: the connection concerned and whether it was connected
	// in the repository when the operation was chosen
	connID    string
	wasActive bool
}

type c22Attempt struct {
	chg     *state.Change
	armed   *c22Fault
	status  state.Status
	touched bool // a connect/disconnect task got to run
	report  string
}

func c22DescribeChange(st *state.State, chg *state.Change) string {
	var b strings.Builder
	fmt.Fprintf(&b, "change %s: %s\n", chg.Kind(), chg.Status())
	tasks := chg.Tasks()
	for _, t := range tasks {
		fmt.Fprintf(&b, "  %-8s %s\n", t.Status(), c22TaskKey(st, t))
		for _, l := range t.Log() {
			fmt.Fprintf(&b, "             %s\n", l)
		}
	}
	return b.String()
}

// attempt builds the change of plan, arms fault number f (if there are that
// many) and drives the change until it is ready and clean.
func (r *c22Run) attempt(plan *c22Plan, f int) (*c22Attempt, error) {
	st := r.st()
	st.Lock()
	chg, dyn, static, err := plan.build()
	if err != nil || chg == nil {
		st.Unlock()
		return nil, err
	}
	a := &c22Attempt{chg: chg}
	r.nExcluded = 0
	faultsA := r.faultsFor(static)
	if plan.manual && len(static) > 0 {
		faultsA = append(faultsA, c22Fault{Mode: "after", Key: "after the whole task set", Set: static})
	}
	if f < len(faultsA) {
		a.armed = &faultsA[f]
		r.wire(chg, faultsA[f])
	}
	known := map[string]bool{}
	for _, t := range chg.Tasks() {
		known[t.ID()] = true
	}
	st.Unlock()

	dynDone := dyn == nil
	settled := false
	for i := 0; i < 4000 && !settled; i++ {
		r.s.se.Ensure()
		r.s.se.Wait()
		st.Lock()
		if !dynDone && dyn.Status() == state.DoneStatus {
			dynDone = true
			var injected []*state.Task
			for _, t := range chg.Tasks() {
				if !known[t.ID()] && t.Kind() != "error-trigger" {
					injected = append(injected, t)
				}
			}
			sort.SliceStable(injected, func(i, j int) bool { return c22TaskKey(st, injected[i]) < c22TaskKey(st, injected[j]) })
			faultsB := r.faultsFor(injected)
			if a.armed == nil && f-len(faultsA) < len(faultsB) {
				a.armed = &faultsB[f-len(faultsA)]
				r.wire(chg, *a.armed)
			}
		}
		settled = chg.IsReady() && chg.IsClean()
		st.Unlock()
	}
	setupFired := r.be.disarm()
	r.hookMu.Lock()
	hookFired := r.hookFired
	r.failHookTask, r.failHookName, r.hookFired = "", "", false
	r.hookMu.Unlock()

	st.Lock()
	defer st.Unlock()
	a.status = chg.Status()
	a.report = c22DescribeChange(st, chg)
	if !settled {
		return a, verifkit.Violatef("C22: the change does not settle\n%s", a.report)
	}
	for _, t := range chg.Tasks() {
		if (t.Kind() == "connect" || t.Kind() == "disconnect") && (t.Status() == state.DoneStatus || t.Status() == state.UndoneStatus || t.Status() == state.ErrorStatus) {
			a.touched = true
		}
	}
	if a.armed != nil {
		switch {
		case a.armed.Mode == "setup" && !setupFired && a.status == state.DoneStatus:
			panic(fmt.Sprintf("HARNESS: predicted Setup call did not happen: %s\n%s", a.armed, a.report))
		case a.armed.Mode == "hook" && !hookFired && a.status == state.DoneStatus:
			panic(fmt.Sprintf("HARNESS: hook to fail was never run: %s\n%s", a.armed, a.report))
		case a.status == state.DoneStatus:
			panic(fmt.Sprintf("HARNESS: change completed despite injected fault: %s\n%s", a.armed, a.report))
		}
	}
	return a, nil
}

func (r *c22Run) context(opIdx int, plan *c22Plan, a *c22Attempt) string {
	fault := "no injected fault"
	if a != nil && a.armed != nil {
		fault = a.armed.String()
	}
	rep := ""
	if a != nil {
		rep = a.report
	}
	return fmt.Sprintf("op %d (%s), %s\n%s-- history:\n%s", opIdx, plan.desc, fault, rep, strings.Join(r.hist, "\n"))
}

// runPlan enumerates all failure points of the plan's change and finally runs
// it without fault.
func (r *c22Run) runPlan(opIdx int, plan *c22Plan) error {
	for f := 0; ; f++ {
		if f > 400 {
			panic("HARNESS: more than 400 failure points in one change")
		}
		st := r.st() // a restart may have replaced it
		st.Lock()
		before := r.snapshot()
		syncBefore, _ := r.profileSync()
		st.Unlock()

		a, err := r.attempt(plan, f)
		if err != nil {
			if a == nil {
				if _, ok := err.(*verifkit.Violation); ok {
					return err
				}
				r.logf("op %d (%s): not applicable: %v", opIdx, plan.desc, err)
				return nil
			}
			return verifkit.Violatef("%v\n%s", err, r.context(opIdx, plan, a))
		}
		if a == nil {
			return nil
		}
		r.o.Extra["changes_settled"]++

		st.Lock()
		after := r.snapshot()
		mismatch := r.activeVsRepo()
		syncAfter, detail := r.profileSync()
		st.Unlock()

		failed := a.status != state.DoneStatus
		if a.armed != nil {
			r.o.Extra["fault_points"]++
			r.o.Extra["fault_points_"+a.armed.Mode]++
			if a.touched {
				r.o.Extra["fault_points_nontrivial"]++
				r.o.NonTrivial = true
				r.labels["fail-at-or-after-"+plan.kindLabel()] = true
			}
			r.labels["fault-"+a.armed.Mode] = true
		}
		if failed && a.armed != nil && a.armed.Mode == "after" && r.observedForgetInactive(plan, before, after) {
			r.logf("op %d (%s): observed: undo of the forget re-connected the inactive connection in the repository (repaired by the harness)", opIdx, plan.desc)
			continue
		}
		if failed {
			diff := append(c22DiffMaps("persisted conns", before.Conns, after.Conns), c22DiffMaps("repository", before.Repo, after.Repo)...)
			if len(diff) > 0 {
				return r.classify(a, plan, fmt.Sprintf("C22(1): the failed change (%s) did not leave the connections as they were:\n  %s\n%s",
					a.status, strings.Join(diff, "\n  "), r.context(opIdx, plan, a)))
			}
		}
		if len(mismatch) > 0 {
			return r.classify(a, plan, fmt.Sprintf("C22(2): persisted and in-memory connections differ after the settled change (%s):\n  %s\n%s",
				a.status, strings.Join(mismatch, "\n  "), r.context(opIdx, plan, a)))
		}
		if failed {
			for _, name := range c22Snaps {
				if syncBefore[name] && !syncAfter[name] {
					if _, still := syncAfter[name]; !still {
						continue
					}
					if err := r.classifyProfile(a, plan, name, fmt.Sprintf("C22(3): security profile of %q not regenerated for the restored connections after the failed change: %s\n%s",
						name, detail[name], r.context(opIdx, plan, a))); err != nil {
						return err
					}
				}
			}
		} else {
			for _, name := range c22Snaps {
				if in, ok := syncAfter[name]; ok && !in {
					r.o.Extra["profile_out_of_sync_after_successful_change"]++
				}
			}
		}
		if failed && a.armed != nil && a.armed.Mode == "after" {
			// clause (4) right after a failed change whose connect/disconnect
			// task was undone
			r.labels["restart-after-undone-manual-change"] = true
			if err := r.restart(opIdx); err != nil {
				return verifkit.Violatef("%v\n-- the restart followed the failed change:\n%s", err, r.context(opIdx, plan, a))
			}
			r.st().Lock()
			afterRestart := r.snapshot()
			r.st().Unlock()
			diff := append(c22DiffMaps("persisted conns", before.Conns, afterRestart.Conns), c22DiffMaps("repository", before.Repo, afterRestart.Repo)...)
			if len(diff) > 0 {
				return verifkit.Violatef("C22(1)+(4): after the failed change and a restart the connections are not what they were before the change:\n  %s\n%s",
					strings.Join(diff, "\n  "), r.context(opIdx, plan, a))
			}
		}
		if a.armed == nil {
			if r.nExcluded > 0 {
				// counted once per change: on its final, fault-free run
				r.o.Extra["excluded_"+c22FpDisconnectSetup] += r.nExcluded
			}
			if failed {
				r.labels["organic-failure"] = true
				r.logf("op %d (%s): failed by itself", opIdx, plan.desc)
			} else {
				r.logf("op %d (%s): done after %d failure points", opIdx, plan.desc, f)
			}
			return nil
		}
	}
}

func (p *c22Plan) kindLabel() string {
	switch {
	case p.install != "":
		return "auto-connect"
	case p.remove != "":
		return "auto-disconnect"
	}
	return strings.Fields(p.desc)[0]
}

// observedForgetInactive recognises the one synthetic situation that is
// observed, not judged: a "forget" of a connection that was NOT connected (a
// remembered undesired one) followed by a failure after its only task.  No
// caller in snapd puts a task behind a forget task (the daemon gives every
// connection its own lane).  undoDisconnect then restores the conns entry
// (undesired) but also connects plug and slot in the repository.  The harness
// counts it, disconnects the pair again and goes on.
func (r *c22Run) observedForgetInactive(plan *c22Plan, before, after c22Snapshot) bool {
	if !strings.HasPrefix(plan.desc, "forget ") || plan.wasActive {
		return false
	}
	if len(c22DiffMaps("persisted conns", before.Conns, after.Conns)) != 0 {
		return false
	}
	if _, was := before.Repo[plan.connID]; was {
		return false
	}
	for id := range after.Repo {
		if _, was := before.Repo[id]; !was && id != plan.connID {
			return false
		}
	}
	if _, now := after.Repo[plan.connID]; !now || len(after.Repo) != len(before.Repo)+1 {
		return false
	}
	ref, err := interfaces.ParseConnRef(plan.connID)
	if err != nil {
		return false
	}
	st := r.st()
	st.Lock()
	defer st.Unlock()
	repo := r.repo()
	if err := repo.Disconnect(ref.PlugRef.Snap, ref.PlugRef.Name, ref.SlotRef.Snap, ref.SlotRef.Name); err != nil {
		panic("HARNESS: cannot repair the repository: " + err.Error())
	}
	r.be.mu.Lock()
	for _, name := range []string{ref.PlugRef.Snap, ref.SlotRef.Snap} {
		if refs, err := repo.Connections(name); err == nil {
			r.be.view[name] = c22SortedIDs(refs)
		}
	}
	r.be.mu.Unlock()
	r.o.Extra["observed_forget_inactive_undo_reconnects"]++
	return true
}

// Findings confirmed against the unchanged tree (see mutants/C22/RESULTS.md
// and the final report).  Each predicate isolates exactly one defect.
const (
	// a failed install: the batch setup-profiles task of the auto-connections
	// ran (and its undo runs BEFORE the undo of the connect tasks); the
	// delayed-setup-profiles connect tasks do not regenerate profiles in their
	// undo and nobody else does: the snap at the other end keeps a profile
	// generated with the auto-connection.
	c22FpInstallPeer = "F-C22-1"
	// doConnect: the second Setup (plug snap) fails after the first one (slot
	// snap) wrote a profile that includes the new connection; the connection
	// is dropped from the repository but the slot snap is not set up again.
	c22FpConnectSetup = "F-C22-2"
	// doDisconnect: a Setup failure after repo.Disconnect leaves the
	// repository disconnected while conns still lists the connection.
	c22FpDisconnectSetup = "F-C22-3"
)

// excluded reports whether a failure point is left out because it can only
// reproduce a finding listed as known (the search goes on around it).
func (r *c22Run) excluded(f c22Fault) bool {
	if f.Mode == "setup" && f.Task.Kind() == "disconnect" && verifkit.IsKnown("C22", c22FpDisconnectSetup) {
		r.nExcluded++
		return true
	}
	return false
}

func (r *c22Run) classify(a *c22Attempt, plan *c22Plan, msg string) error {
	r.st().Lock()
	defer r.st().Unlock()
	if a.armed != nil && a.armed.Mode == "setup" && a.armed.Task.Kind() == "disconnect" && a.armed.Task.Status() == state.ErrorStatus {
		return verifkit.Knownf(c22FpDisconnectSetup, "%s", msg)
	}
	return verifkit.Violatef("%s", msg)
}

// classifyProfile judges a clause (3) violation for snap name; it returns nil
// when the violation is a known finding and the enumeration can go on (the
// recorded view of the snap is then brought in line with the repository).
func (r *c22Run) classifyProfile(a *c22Attempt, plan *c22Plan, name, msg string) error {
	st := r.st()
	st.Lock()
	defer st.Unlock()
	refs, _ := r.repo().Connections(name)
	now := map[string]bool{}
	for _, id := range c22SortedIDs(refs) {
		now[id] = true
	}
	r.be.mu.Lock()
	view := append([]string{}, r.be.view[name]...)
	r.be.mu.Unlock()
	var extra []string // seen by the last Setup, not connected any more
	for _, id := range view {
		if !now[id] {
			extra = append(extra, id)
		}
		delete(now, id)
	}
	fp := ""
	switch {
	case len(now) > 0 || len(extra) == 0:
		// a connection missing from the profile: none of the known findings
	case plan.install != "" && name != plan.install:
		batchUndone := false
		for _, t := range a.chg.Tasks() {
			// the batch task ran: it was done and undone, or failed half-way
			// (one Setup failed, the other affected snaps were still set up)
			if t.Kind() == "setup-profiles" && len(t.WaitTasks()) > 0 && t.WaitTasks()[0].Kind() == "connect" && (t.Status() == state.UndoneStatus || t.Status() == state.ErrorStatus) {
				batchUndone = true
			}
		}
		onlyNew := true
		for _, id := range extra {
			ref, err := interfaces.ParseConnRef(id)
			if err != nil || (ref.PlugRef.Snap != plan.install && ref.SlotRef.Snap != plan.install) {
				onlyNew = false
			}
		}
		if batchUndone && onlyNew {
			fp = c22FpInstallPeer
		}
	case a.armed != nil && a.armed.Mode == "setup" && a.armed.J == 1 && a.armed.Task.Kind() == "connect" && a.armed.Task.Status() == state.ErrorStatus:
		var plugRef interfaces.PlugRef
		var slotRef interfaces.SlotRef
		a.armed.Task.Get("plug", &plugRef)
		a.armed.Task.Get("slot", &slotRef)
		id := (&interfaces.ConnRef{PlugRef: plugRef, SlotRef: slotRef}).ID()
		if name == slotRef.Snap && len(extra) == 1 && extra[0] == id {
			fp = c22FpConnectSetup
		}
	}
	if fp == "" {
		return verifkit.Violatef("%s", msg)
	}
	if verifkit.IsKnown("C22", fp) {
		r.o.Extra["known_"+fp]++
		// go on as if the profile had been regenerated, so that the known
		// finding does not mask clause (3) for this snap from here on
		r.be.mu.Lock()
		r.be.view[name] = c22SortedIDs(refs)
		r.be.mu.Unlock()
		return nil
	}
	return verifkit.Knownf(fp, "%s", msg)
}

// ------------------------------------------------------------------ operations

func (r *c22Run) planFor(opIdx int, op c22Op) *c22Plan {
	st := r.st()
	pick := func(n int) int {
		a := op.A % n
		if a < 0 {
			a += n
		}
		return a
	}
	switch op.K {
	case "connect":
		st.Lock()
		conns := r.rawConns()
		var cands []c22Pair
		if op.Bad {
			cands = c22Pairs(false)
		} else {
			var undesired []c22Pair
			for _, p := range c22Pairs(true) {
				if !r.installed(p.PlugSnap) || !r.installed(p.SlotSnap) {
					continue
				}
				cs, ok := conns[p.id()]
				und, _ := cs["undesired"].(bool)
				if ok && !und {
					continue
				}
				cands = append(cands, p)
				if und {
					undesired = append(undesired, p)
				}
			}
			if op.Und && len(undesired) > 0 {
				cands = undesired
			}
		}
		var usable []c22Pair
		for _, p := range cands {
			if r.installed(p.PlugSnap) && r.installed(p.SlotSnap) {
				usable = append(usable, p)
			}
		}
		st.Unlock()
		if len(usable) == 0 {
			return nil
		}
		p := usable[pick(len(usable))]
		wasUndesired := false
		if cs, ok := conns[p.id()]; ok {
			wasUndesired, _ = cs["undesired"].(bool)
		}
		if wasUndesired {
			r.labels["undesired-reconnect"] = true
			r.o.NonTrivial = true
		}
		return &c22Plan{desc: "connect " + p.id(), manual: true, connID: p.id(), build: func() (*state.Change, *state.Task, []*state.Task, error) {
			st := r.st() // a restart may have replaced it
			ts, err := ifacestate.Connect(st, p.PlugSnap, p.Plug, p.SlotSnap, p.Slot)
			if err != nil {
				return nil, nil, nil, err
			}
			chg := st.NewChange("connect-snap", "connect "+p.id())
			chg.AddAll(ts)
			return chg, nil, ts.Tasks(), nil
		}}
	case "disconnect":
		st.Lock()
		refs := r.repo().Interfaces().Connections
		st.Unlock()
		if len(refs) == 0 {
			return nil
		}
		ref := refs[pick(len(refs))]
		return &c22Plan{desc: "disconnect " + ref.ID(), manual: true, connID: ref.ID(), wasActive: true, build: func() (*state.Change, *state.Task, []*state.Task, error) {
			st := r.st() // a restart may have replaced it
			conn, err := r.repo().Connection(ref)
			if err != nil {
				return nil, nil, nil, err
			}
			ts, err := ifacestate.Disconnect(st, conn)
			if err != nil {
				return nil, nil, nil, err
			}
			chg := st.NewChange("disconnect-snap", "disconnect "+ref.ID())
			chg.AddAll(ts)
			return chg, nil, ts.Tasks(), nil
		}}
	case "forget":
		st.Lock()
		ids := verifkit.SortedKeys(r.rawConns())
		st.Unlock()
		if len(ids) == 0 {
			return nil
		}
		id := ids[pick(len(ids))]
		ref, err := interfaces.ParseConnRef(id)
		if err != nil {
			panic("HARNESS: " + err.Error())
		}
		st.Lock()
		_, cerr := r.repo().Connection(ref)
		st.Unlock()
		return &c22Plan{desc: "forget " + id, manual: true, connID: id, wasActive: cerr == nil, build: func() (*state.Change, *state.Task, []*state.Task, error) {
			st := r.st() // a restart may have replaced it
			ts, err := ifacestate.Forget(st, r.repo(), ref)
			if err != nil {
				return nil, nil, nil, err
			}
			chg := st.NewChange("disconnect-snap", "forget "+id)
			chg.AddAll(ts)
			return chg, nil, ts.Tasks(), nil
		}}
	case "install":
		var cands []string
		st.Lock()
		for _, n := range c22Snaps {
			if !r.installed(n) {
				cands = append(cands, n)
			}
		}
		st.Unlock()
		if len(cands) == 0 {
			return nil
		}
		name := cands[pick(len(cands))]
		return &c22Plan{desc: "install " + name, install: name, build: func() (*state.Change, *state.Task, []*state.Task, error) {
			st := r.st() // a restart may have replaced it
			snapsup := c22Snapsup(name)
			chg := st.NewChange("install-snap", "install "+name)
			setup := st.NewTask("setup-profiles", fmt.Sprintf("Setup snap %q security profiles", name))
			setup.Set("snap-setup", snapsup)
			setup.Set("component-setup-tasks", []string{})
			link := st.NewTask("verif-link-snap", "Make snap available")
			link.Set("verif-snap", name)
			link.WaitFor(setup)
			auto := st.NewTask("auto-connect", fmt.Sprintf("Automatically connect eligible plugs and slots of snap %q", name))
			auto.Set("snap-setup", snapsup)
			auto.WaitFor(link)
			// stands for the rest of an install change (aliases, services, configure hook...)
			tail := st.NewTask("verif-noop", "Rest of the install change")
			tail.Set("verif-snap", name)
			tail.WaitFor(auto)
			all := []*state.Task{setup, link, auto, tail}
			for _, t := range all {
				chg.AddTask(t)
			}
			return chg, auto, all, nil
		}}
	case "remove":
		var cands []string
		st.Lock()
		var connected []string
		for _, n := range c22Snaps {
			if r.installed(n) {
				cands = append(cands, n)
				if refs, err := r.repo().Connections(n); err == nil && len(refs) > 0 {
					connected = append(connected, n)
				}
			}
		}
		st.Unlock()
		if op.Con && len(connected) > 0 {
			cands = connected
		}
		if len(cands) == 0 {
			return nil
		}
		name := cands[pick(len(cands))]
		return &c22Plan{desc: "remove " + name, remove: name, build: func() (*state.Change, *state.Task, []*state.Task, error) {
			st := r.st() // a restart may have replaced it
			snapsup := c22Snapsup(name)
			chg := st.NewChange("remove-snap", "remove "+name)
			auto := st.NewTask("auto-disconnect", fmt.Sprintf("Disconnect interfaces of snap %q", name))
			auto.Set("snap-setup", snapsup)
			unlink := st.NewTask("verif-unlink-snap", "Make snap unavailable")
			unlink.Set("verif-snap", name)
			unlink.WaitFor(auto)
			rmprof := st.NewTask("remove-profiles", fmt.Sprintf("Remove security profile for snap %q", name))
			rmprof.Set("snap-setup", snapsup)
			rmprof.Set("component-setup-tasks", []string{})
			rmprof.WaitFor(unlink)
			discard := st.NewTask("verif-discard-snap", "Remove snap from the system")
			discard.Set("verif-snap", name)
			discard.WaitFor(rmprof)
			dconns := st.NewTask("discard-conns", fmt.Sprintf("Discard interface connections for snap %q", name))
			dconns.Set("snap-setup", snapsup)
			dconns.WaitFor(discard)
			for _, t := range []*state.Task{auto, unlink, rmprof, discard, dconns} {
				chg.AddTask(t)
			}
			// failure points end at the point of no return (discard-snap has no undo)
			return chg, auto, []*state.Task{auto, unlink, rmprof, discard}, nil
		}}
	}
	return nil
}

// restart serialises the state, reads it back into a fresh State and starts
// new managers over it (InterfaceManager.StartUp => reloadConnections).
func (r *c22Run) restart(opIdx int) error {
	s := r.s
	st := r.st()
	st.Lock()
	before := r.snapshot()
	nActive, nUndesired := 0, 0
	for _, cs := range r.rawConns() {
		if und, _ := cs["undesired"].(bool); und {
			nUndesired++
		} else {
			nActive++
		}
	}
	data, err := json.Marshal(st)
	st.Unlock()
	if err != nil {
		panic("HARNESS: cannot serialise state: " + err.Error())
	}
	s.se.Stop()
	nst, err := state.ReadState(c22StateBackend{}, bytes.NewReader(data))
	if err != nil {
		return verifkit.Violatef("C22: persisted state cannot be read back: %v", err)
	}
	s.o = overlord.MockWithState(nst)
	s.state = nst
	s.se = s.o.StateEngine()
	s.privateMgr = nil
	s.privateHookMgr = nil
	s.AssertsMock.st = nst
	nst.Lock()
	assertstate.ReplaceDB(nst, s.Db)
	nst.Unlock()
	s.manager(r.gc)
	r.registerHandlers()

	nst.Lock()
	defer nst.Unlock()
	after := r.snapshot()
	mismatch := r.activeVsRepo()
	if nActive > 0 {
		r.labels["restart-with-connections"] = true
	}
	if nUndesired > 0 {
		r.labels["restart-with-undesired"] = true
	}
	r.logf("op %d (restart): %d active, %d undesired", opIdx, nActive, nUndesired)
	if len(mismatch) > 0 {
		return verifkit.Violatef("C22(4): persisted and in-memory connections differ after a restart:\n  %s\n-- history:\n%s", strings.Join(mismatch, "\n  "), strings.Join(r.hist, "\n"))
	}
	// nothing was installed, removed or refreshed: what was connected stays connected
	var lost []string
	for _, id := range verifkit.SortedKeys(before.Repo) {
		if _, ok := after.Repo[id]; !ok {
			lost = append(lost, id)
		}
	}
	if len(lost) > 0 {
		return verifkit.Violatef("C22(4): connections %v were dropped from both the persisted conns and the repository by a restart\n-- history:\n%s", lost, strings.Join(r.hist, "\n"))
	}
	return nil
}

func (r *c22Run) body(c *check.C) {
	r.gc = c
	s := r.s
	s.mockIfaces(&ifacetest.TestInterface{InterfaceName: "test"}, &ifacetest.TestInterface{InterfaceName: "test2"})
	for i := range c22Snaps {
		yaml := c22Yaml(i, r.c)
		if i < len(r.c.Installed) && r.c.Installed[i] {
			s.mockSnap(c, yaml)
		} else {
			snaptest.MockSnapInstance(c, "", yaml, &snap.SideInfo{Revision: snap.R(1)})
		}
	}
	s.mockSecBackend(r.be)
	restore := hookstate.MockRunHook(r.runHook)
	defer restore()
	s.manager(c)
	r.registerHandlers()

	for i, op := range r.c.Ops {
		if op.K == "restart" {
			if r.err = r.restart(i); r.err != nil {
				return
			}
			continue
		}
		plan := r.planFor(i, op)
		if plan == nil {
			r.logf("op %d (%s): nothing to apply it to", i, op.K)
			continue
		}
		r.labels["op-"+op.K] = true
		if r.err = r.runPlan(i, plan); r.err != nil {
			return
		}
	}
}

func c22RunCase(c c22Case) (o verifkit.Outcome, err error) {
	r := &c22Run{c: c, labels: map[string]bool{}}
	r.o = verifkit.Outcome{Extra: map[string]int64{}}
	r.be = &c22Backend{view: map[string][]string{}, doing: map[string]bool{}}
	suite := &c22Suite{}
	r.s = suite
	var panicked interface{}
	suite.body = func(gc *check.C) {
		defer func() {
			if p := recover(); p != nil {
				panicked = p
			}
		}()
		r.body(gc)
	}
	var out bytes.Buffer
	res := check.Run(suite, &check.RunConf{Filter: "TestVerifC22Body$", Output: &out})
	for _, l := range verifkit.SortedKeys(r.labels) {
		r.o.Labels = append(r.o.Labels, l)
	}
	r.o.Desc = fmt.Sprintf("installed=%v hooks=%v dyn=%v | %s", c.Installed, c.HookMask, c.Dyn, strings.Join(r.hist, "; "))
	if panicked != nil {
		panic(panicked)
	}
	if r.err != nil {
		return r.o, r.err
	}
	if res.RunError != nil || res.Succeeded != 1 {
		return r.o, verifkit.Violatef("C22: fixture of the package's own test suite reported a failure: %s\n%s\n-- history:\n%s", res.String(), out.String(), strings.Join(r.hist, "\n"))
	}
	return r.o, nil
}

// ------------------------------------------------------------------ generator

func c22Gen(t *rapid.T) c22Case {
	c := c22Case{}
	template := rapid.IntRange(0, 9).Draw(t, "template")
	for i := range c22Snaps {
		switch {
		case template < 3:
			c.Installed = append(c.Installed, i == 0 || i == 2)
		case template < 5:
			c.Installed = append(c.Installed, true)
		default:
			c.Installed = append(c.Installed, rapid.IntRange(0, 9).Draw(t, "installed") < 6)
		}
	}
	hookProfile := rapid.IntRange(0, 3).Draw(t, "hookProfile")
	for range c22Endpoints {
		m := 0
		switch hookProfile {
		case 1:
			m = c22HookConnect | c22HookDisconnect
		case 2:
			m = rapid.IntRange(0, 15).Draw(t, "hookMask")
		case 3:
			m = rapid.SampledFrom([]int{0, 0, c22HookPrepare, c22HookConnect, c22HookDisconnect, 15}).Draw(t, "hookMask")
		}
		c.HookMask = append(c.HookMask, m)
	}
	c.Dyn = rapid.Bool().Draw(t, "dyn")
	maybeRestart := func() {
		if rapid.Bool().Draw(t, "restartBetween") {
			c.Ops = append(c.Ops, c22Op{K: "restart"})
		}
	}
	switch {
	case template < 3:
		// auto-connect on install, manual disconnect (=> undesired), connect again
		c.Ops = append(c.Ops,
			c22Op{K: "install", A: rapid.IntRange(0, 1).Draw(t, "a")},
			c22Op{K: "disconnect", A: rapid.IntRange(0, 3).Draw(t, "a")})
		maybeRestart()
		c.Ops = append(c.Ops, c22Op{K: "connect", A: rapid.IntRange(0, 5).Draw(t, "a"), Und: true})
	case template < 5:
		// manual connections, then removal of a connected snap (auto-disconnect)
		for i, n := 0, rapid.IntRange(1, 3).Draw(t, "nconnect"); i < n; i++ {
			c.Ops = append(c.Ops, c22Op{K: "connect", A: rapid.IntRange(0, 5).Draw(t, "a")})
		}
		maybeRestart()
		c.Ops = append(c.Ops, c22Op{K: "remove", A: rapid.IntRange(0, 3).Draw(t, "a"), Con: true})
	}
	n := rapid.IntRange(2, verifkit.Size(5, 7)).Draw(t, "nops")
	for len(c.Ops) < n+1 {
		w := rapid.IntRange(0, 99).Draw(t, "kind")
		op := c22Op{A: rapid.IntRange(0, 11).Draw(t, "a")}
		switch {
		case w < 26:
			op.K = "connect"
			op.Und = rapid.Bool().Draw(t, "und")
			op.Bad = rapid.IntRange(0, 19).Draw(t, "bad") == 0
		case w < 41:
			op.K = "disconnect"
		case w < 53:
			op.K = "forget"
		case w < 69:
			op.K = "install"
		case w < 83:
			op.K = "remove"
			op.Con = rapid.Bool().Draw(t, "con")
		default:
			op.K = "restart"
			op.A = 0
		}
		c.Ops = append(c.Ops, op)
	}
	return c
}

func TestVerifC22(t *testing.T) {
	verifkit.Check(t, verifkit.Spec[c22Case]{
		ID: "C22", Engine: "history",
		Gen: c22Gen,
		Run: c22RunCase,
		Floors: map[string]float64{
			"fail-at-or-after-connect":         0.25,
			"fail-at-or-after-disconnect":      0.15,
			"fail-at-or-after-auto-connect":    0.10,
			"fail-at-or-after-auto-disconnect": 0.08,
			"undesired-reconnect":              0.10,
			"restart-with-connections":         0.10,
			"restart-with-undesired":           0.05,
			"fault-setup":                      0.30,
			"fault-hook":                       0.15,
		},
		NonTrivialFloor: 0.4,
	})
}
