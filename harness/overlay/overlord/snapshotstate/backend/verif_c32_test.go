package backend

// C32 — snapshot import and restore cannot escape or corrupt snap data.
//
// Unexported identifiers used: tarAsUser, userLookup, usersForUsernames,
// isTesting (package-level hooks, replaced and restored per case);
// archiveName/metadataName/metaHashName (entry names of the snapshot format).
//
// Engine "import" (TestVerifC32Import): tar streams built from generated member
// lists (hostile names with "..", absolute and nested paths, missing "_",
// content.json / export.json present, absent, malformed, directory / link /
// device members, valid and corrupt snapshot zips and garbage as bodies),
// then truncated and byte-mutated, are handed to Import.  Oracle (property
// sentence 1):
//   * the recursive digest of everything around the snapshots directory
//     (sentinel files and directories up to several levels above) is unchanged;
//   * inside the snapshots directory the pre-existing entries are unchanged and
//     every new entry is a direct child named "<setID>_…";
//   (what a failed import leaves inside the snapshots directory is recorded as
//   a label only: the property does not speak about it).
//
// Engine "restore" (TestVerifC32Restore): a real snapshot is produced by Save
// (external tar) from a generated data tree (system data + up to two users,
// revision + common directories, files, modes, symlinks); the data in place is
// then replaced by generated "existing" data (other contents, other revisions,
// files / symlinks / dangling symlinks in place of directories, missing or
// non-directory parents) and the snapshot is restored intact or after one fault:
// archive bytes swapped for another valid archive, flipped, truncated, extended
// (zip rebuilt, so only the recorded digest disagrees), recorded digest or
// recorded size altered, raw byte flip in the zip file, tar dying after n bytes
// at the k-th archive, context cancelled at the k-th archive.  Oracle (property
// sentence 2 + doc comments of Restore / RestoreState):
//   * error  ⇒ digest (names, types, modes, contents, symlink targets) of the
//     whole root is what it was before — also on repeated attempts; no
//     ".snapshot*" temp or ".~…~" backup directories left;
//   * a snapshot whose archive disagrees with its recorded size or digest, or
//     whose extraction is interrupted, never restores successfully;
//   * success + Cleanup ⇒ the common and revision directories of every restored
//     place equal the saved trees, nothing else changed, no temp/backup left;
//   * success + Revert  ⇒ everything as before the restore;
//   * an intact snapshot over unobstructed data restores successfully.

import (
	"archive/tar"
	"archive/zip"
	"bytes"
	"compress/gzip"
	"context"
	"crypto"
	"crypto/sha256"
	"encoding/json"
	"fmt"
	"hash/crc32"
	"io"
	"os"
	"os/exec"
	"os/user"
	"path/filepath"
	"regexp"
	"sort"
	"strings"
	"testing"
	"time"

	"github.com/snapcore/snapd/client"
	"github.com/snapcore/snapd/dirs"
	"github.com/snapcore/snapd/snap"
	"github.com/snapcore/snapd/verifkit"
	"pgregory.net/rapid"
)

// ---------------------------------------------------------------------------
// shared: file tree model, digest
// ---------------------------------------------------------------------------

type c32Node struct {
	P   string `json:"p"`
	K   int    `json:"k"` // 0 file, 1 directory, 2 symlink
	M   uint32 `json:"m"`
	D   string `json:"d"`
	Big int    `json:"big,omitempty"` // KiB of incompressible content derived from D
}

type c32Dir struct {
	Kind  int       `json:"kind"` // 0 absent, 1 directory, 2 regular file, 3 symlink to a directory, 4 dangling symlink
	Mode  uint32    `json:"mode,omitempty"`
	Nodes []c32Node `json:"nodes,omitempty"`
}

func c32Content(n c32Node) []byte {
	if n.Big <= 0 {
		return []byte(n.D)
	}
	big := n.Big
	if big > 512 {
		big = 512
	}
	out := make([]byte, 0, big*1024+32)
	h := sha256.Sum256([]byte(n.D))
	for len(out) < big*1024 {
		out = append(out, h[:]...)
		h = sha256.Sum256(h[:])
	}
	return out
}

func c32FileMode(m uint32) os.FileMode {
	fm := os.FileMode(m & 0777)
	if m&04000 != 0 {
		fm |= os.ModeSetuid
	}
	if m&02000 != 0 {
		fm |= os.ModeSetgid
	}
	if m&01000 != 0 {
		fm |= os.ModeSticky
	}
	return fm
}

// c32SafeParent makes sure that the parent of root/rel exists and is reached
// without crossing a symlink or a non-directory.
func c32SafeParent(root, rel string) bool {
	rel = filepath.Clean("/" + rel)[1:]
	if rel == "" {
		return false
	}
	comps := strings.Split(rel, "/")
	cur := root
	for _, comp := range comps[:len(comps)-1] {
		cur = filepath.Join(cur, comp)
		fi, err := os.Lstat(cur)
		if err != nil {
			if os.Mkdir(cur, 0755) != nil {
				return false
			}
			continue
		}
		if !fi.IsDir() {
			return false
		}
	}
	return true
}

func c32Materialize(path string, d c32Dir) {
	switch d.Kind {
	case 1:
		os.MkdirAll(path, 0755)
		for _, n := range d.Nodes {
			if !c32SafeParent(path, n.P) {
				continue
			}
			full := filepath.Join(path, filepath.Clean("/" + n.P)[1:])
			if _, err := os.Lstat(full); err == nil {
				continue
			}
			switch n.K {
			case 0:
				if os.WriteFile(full, c32Content(n), 0600) == nil {
					os.Chmod(full, c32FileMode(n.M))
				}
			case 1:
				if os.Mkdir(full, 0755) == nil {
					os.Chmod(full, c32FileMode(n.M))
				}
			case 2:
				os.Symlink(n.D, full)
			}
		}
		if d.Mode != 0 {
			os.Chmod(path, c32FileMode(d.Mode))
		}
	case 2:
		os.MkdirAll(filepath.Dir(path), 0755)
		os.WriteFile(path, []byte("a plain file where a directory is expected\n"), 0644)
	case 3:
		os.MkdirAll(path+"-lnktarget", 0755)
		os.WriteFile(filepath.Join(path+"-lnktarget", "kept"), []byte("behind the symlink\n"), 0644)
		os.Symlink(filepath.Base(path)+"-lnktarget", path)
	case 4:
		os.MkdirAll(filepath.Dir(path), 0755)
		os.Symlink("does-not-exist", path)
	}
}

const c32ModeBits = os.ModePerm | os.ModeSetuid | os.ModeSetgid | os.ModeSticky

// c32Digest describes every entry below root (root itself is key ".").
func c32Digest(root string, skip func(rel string) bool) map[string]string {
	out := map[string]string{}
	filepath.Walk(root, func(p string, fi os.FileInfo, err error) error {
		rel, _ := filepath.Rel(root, p)
		if err != nil {
			out[rel] = "error:" + err.Error()
			return nil
		}
		if skip != nil && rel != "." && skip(rel) {
			if fi.IsDir() {
				return filepath.SkipDir
			}
			return nil
		}
		switch {
		case fi.Mode()&os.ModeSymlink != 0:
			tgt, _ := os.Readlink(p)
			out[rel] = "symlink:" + tgt
		case fi.IsDir():
			out[rel] = fmt.Sprintf("dir:%o", fi.Mode()&c32ModeBits)
		case fi.Mode().IsRegular():
			data, rerr := os.ReadFile(p)
			if rerr != nil {
				out[rel] = "unreadable:" + rerr.Error()
				return nil
			}
			out[rel] = fmt.Sprintf("file:%o:%d:%x", fi.Mode()&c32ModeBits, len(data), sha256.Sum256(data))
		default:
			out[rel] = fmt.Sprintf("other:%v", fi.Mode())
		}
		return nil
	})
	return out
}

func c32Sub(d map[string]string, prefix string) map[string]string {
	out := map[string]string{}
	for k, v := range d {
		if k == prefix {
			out["."] = v
		} else if strings.HasPrefix(k, prefix+"/") {
			out[k[len(prefix)+1:]] = v
		}
	}
	return out
}

func c32Diff(before, after map[string]string) string {
	var diffs []string
	keys := map[string]bool{}
	for k := range before {
		keys[k] = true
	}
	for k := range after {
		keys[k] = true
	}
	ks := make([]string, 0, len(keys))
	for k := range keys {
		ks = append(ks, k)
	}
	sort.Strings(ks)
	for _, k := range ks {
		b, okb := before[k]
		a, oka := after[k]
		switch {
		case okb && !oka:
			diffs = append(diffs, fmt.Sprintf("%q gone (was %.40s)", k, b))
		case !okb && oka:
			diffs = append(diffs, fmt.Sprintf("%q appeared (%.40s)", k, a))
		case a != b:
			diffs = append(diffs, fmt.Sprintf("%q changed (%.40s -> %.40s)", k, b, a))
		}
	}
	if len(diffs) == 0 {
		return ""
	}
	n := len(diffs)
	if n > 6 {
		diffs = append(diffs[:6], fmt.Sprintf("… %d differences in total", n))
	}
	return strings.Join(diffs, "; ")
}

// c32SimpleTgz builds a small, cleanly extractable gzip'ed tar with the given
// top-level directories, each holding one marker file.
func c32SimpleTgz(topDirs []string, marker string) []byte {
	var buf bytes.Buffer
	gz := gzip.NewWriter(&buf)
	tw := tar.NewWriter(gz)
	mt := time.Date(2021, 3, 4, 5, 6, 7, 0, time.UTC)
	for _, d := range topDirs {
		tw.WriteHeader(&tar.Header{Typeflag: tar.TypeDir, Name: d + "/", Mode: 0755, ModTime: mt})
		body := []byte("marker " + marker + "\n")
		tw.WriteHeader(&tar.Header{Typeflag: tar.TypeReg, Name: d + "/swapped-in", Mode: 0644, Size: int64(len(body)), ModTime: mt})
		tw.Write(body)
	}
	tw.Close()
	gz.Close()
	return buf.Bytes()
}

// zip handling ----------------------------------------------------------------

type c32ZipEntry struct {
	name     string
	data     []byte
	declSize int64 // when > 0: the header declares this uncompressed size instead of len(data)
}

func c32ReadZip(fn string) ([]c32ZipEntry, error) {
	zr, err := zip.OpenReader(fn)
	if err != nil {
		return nil, err
	}
	defer zr.Close()
	var out []c32ZipEntry
	for _, f := range zr.File {
		rc, err := f.Open()
		if err != nil {
			return nil, err
		}
		data, err := io.ReadAll(rc)
		rc.Close()
		if err != nil {
			return nil, err
		}
		out = append(out, c32ZipEntry{name: f.Name, data: data})
	}
	return out, nil
}

func c32ZipBytes(entries []c32ZipEntry) []byte {
	var buf bytes.Buffer
	zw := zip.NewWriter(&buf)
	for _, e := range entries {
		if e.declSize > 0 {
			w, err := zw.CreateRaw(&zip.FileHeader{Name: e.name, Method: zip.Store, CRC32: crc32.ChecksumIEEE(e.data),
				CompressedSize64: uint64(len(e.data)), UncompressedSize64: uint64(e.declSize)})
			if err == nil {
				w.Write(e.data)
			}
			continue
		}
		w, err := zw.CreateHeader(&zip.FileHeader{Name: e.name, Method: zip.Store})
		if err == nil {
			w.Write(e.data)
		}
	}
	zw.Close()
	return buf.Bytes()
}

func c32Sha3(data []byte) string {
	h := crypto.SHA3_384.New()
	h.Write(data)
	return fmt.Sprintf("%x", h.Sum(nil))
}

// c32MetaEntries encodes the metadata the way the snapshot format asks for:
// meta.json plus the sha3-384 of exactly those bytes.
func c32MetaEntries(sn *client.Snapshot) []c32ZipEntry {
	var mb bytes.Buffer
	json.NewEncoder(&mb).Encode(sn)
	return []c32ZipEntry{{name: metadataName, data: mb.Bytes()}, {name: metaHashName, data: []byte(c32Sha3(mb.Bytes()) + "\n")}}
}

// ---------------------------------------------------------------------------
// engine 1: import streams
// ---------------------------------------------------------------------------

type c32Member struct {
	Name string `json:"name"`
	Type string `json:"type"` // one tar typeflag character
	Link string `json:"link,omitempty"`
	// Body: "zip" valid snapshot, "zip-badhash" archive digest mismatch, "zip-badmeta"
	// metadata digest mismatch, "garbage", "empty", "content" valid content.json,
	// "content-dup" content.json naming an existing set, "content-bad", "export", "export-bad"
	Body string `json:"body"`
	Seed string `json:"seed,omitempty"`
}

type c32Flip struct {
	Pos int `json:"pos"` // permille of the stream length
	Xor int `json:"xor"`
}

type c32ImportCase struct {
	ID       uint64      `json:"id"`
	Members  []c32Member `json:"members"`
	Format   int         `json:"format"` // 0 automatic, 1 PAX, 2 GNU
	Trunc    int         `json:"trunc"`  // -1: complete stream; else cut at this permille
	Flips    []c32Flip   `json:"flips,omitempty"`
	Existing []string    `json:"existing,omitempty"` // pre-existing entries of the snapshots directory (tokens)
	NoDup    bool        `json:"nodup"`
}

var c32Time = time.Date(2020, 2, 3, 4, 5, 6, 0, time.UTC)

type c32ZipMemo struct {
	data []byte
	sn   *client.Snapshot
}

// memo of a pure function (building the same bytes again and again is the
// most expensive part of an import case)
var c32ZipCache = map[string]c32ZipMemo{}

// c32SnapshotZip builds a snapshot file in pure Go.
func c32SnapshotZip(setID uint64, seed string, broken string) ([]byte, *client.Snapshot) {
	key := fmt.Sprintf("%d|%s|%s", setID, seed, broken)
	if m, ok := c32ZipCache[key]; ok {
		return m.data, m.sn
	}
	data, sn := c32SnapshotZipUncached(setID, seed, broken)
	if len(c32ZipCache) < 256 {
		c32ZipCache[key] = c32ZipMemo{data, sn}
	}
	return data, sn
}

func c32SnapshotZipUncached(setID uint64, seed string, broken string) ([]byte, *client.Snapshot) {
	if seed == "" {
		seed = "s"
	}
	arch := c32SimpleTgz([]string{"common", "7"}, seed)
	sn := &client.Snapshot{SetID: setID, Snap: "imp-" + strings.Map(func(r rune) rune {
		if r >= 'a' && r <= 'z' {
			return r
		}
		return 'x'
	}, seed), SnapID: "id-" + seed, Revision: snap.R(7), Version: "1.0", Time: c32Time,
		SHA3_384: map[string]string{archiveName: c32Sha3(arch)}, Size: int64(len(arch))}
	if broken == "zip-badhash" {
		sn.SHA3_384[archiveName] = c32Sha3(append([]byte("x"), arch...))
	}
	entries := []c32ZipEntry{{name: archiveName, data: arch}}
	meta := c32MetaEntries(sn)
	if broken == "zip-badmeta" {
		meta[1].data = []byte(c32Sha3([]byte("something else")) + "\n")
	}
	return c32ZipBytes(append(entries, meta...)), sn
}

const c32ExistingSeed = "preexisting"

func c32MemberBody(m c32Member) []byte {
	switch m.Body {
	case "zip", "zip-badhash", "zip-badmeta":
		b, _ := c32SnapshotZip(1, m.Seed, m.Body)
		return b
	case "garbage":
		return c32Content(c32Node{D: m.Seed, Big: 1})[:200+len(m.Seed)]
	case "content":
		h := sha256.Sum256([]byte("content " + m.Seed))
		b, _ := json.Marshal(contentJSON{ContentHash: h[:]})
		return b
	case "content-dup":
		_, sn := c32SnapshotZip(3, c32ExistingSeed, "")
		h, _ := (&client.SnapshotSet{ID: 3, Snapshots: []*client.Snapshot{sn}}).ContentHash()
		b, _ := json.Marshal(contentJSON{ContentHash: h})
		return b
	case "content-bad":
		return []byte(`{"content-hash": [` + m.Seed)
	case "export":
		return []byte(`{"format":1,"date":"2020-02-03T04:05:06Z","files":[]}`)
	case "export-bad":
		return []byte("}{" + m.Seed)
	}
	return nil
}

var c32SaneName = regexp.MustCompile(`^[0-9a-z]*_[A-Za-z0-9._ ü-]+$`)

// c32Hostile: the member name tries to leave the "<setID>_<file>" scheme.
func c32Hostile(name string) bool {
	if strings.HasPrefix(name, "/") {
		return true
	}
	for _, comp := range strings.Split(name, "/") {
		if comp == ".." {
			return true
		}
	}
	if i := strings.Index(name, "_"); i >= 0 && strings.Contains(name[i:], "/") {
		return true
	}
	return false
}

func c32BuildStream(c c32ImportCase, base string) (stream []byte, hdrEnd []int) {
	var buf bytes.Buffer
	tw := tar.NewWriter(&buf)
	for _, m := range c.Members {
		name := strings.Replace(m.Name, "@BASE@", base, -1)
		link := strings.Replace(m.Link, "@BASE@", base, -1)
		tf := byte('0')
		if len(m.Type) == 1 {
			tf = m.Type[0]
		}
		hdr := &tar.Header{Typeflag: tf, Name: name, Linkname: link, Mode: 0640, ModTime: c32Time}
		var body []byte
		if tf == '0' {
			body = c32MemberBody(m)
			hdr.Size = int64(len(body))
		}
		switch c.Format {
		case 1:
			hdr.Format = tar.FormatPAX
		case 2:
			hdr.Format = tar.FormatGNU
		}
		if err := tw.WriteHeader(hdr); err != nil {
			hdr.Format = tar.FormatUnknown
			if err := tw.WriteHeader(hdr); err != nil {
				// a name the tar format cannot carry at all (e.g. NUL): leave it out
				hdrEnd = append(hdrEnd, -1)
				continue
			}
		}
		hdrEnd = append(hdrEnd, buf.Len())
		if len(body) > 0 {
			tw.Write(body)
		}
	}
	tw.Close()
	stream = buf.Bytes()
	return stream, hdrEnd
}

func c32ExistingEntry(dir, token string) {
	switch token {
	case "other-valid":
		b, _ := c32SnapshotZip(3, c32ExistingSeed, "")
		os.WriteFile(filepath.Join(dir, "3_imp-preexisting_1.0_7.zip"), b, 0600)
	case "other-garbage":
		os.WriteFile(filepath.Join(dir, "9_garbage.zip"), []byte("not a zip"), 0600)
	case "other-15":
		b, _ := c32SnapshotZip(15, "fifteen", "")
		os.WriteFile(filepath.Join(dir, "15_imp-fifteen_1.0_7.zip"), b, 0600)
	case "notes":
		os.WriteFile(filepath.Join(dir, "notes.txt"), []byte("not a snapshot\n"), 0644)
	case "subdir":
		os.MkdirAll(filepath.Join(dir, "subdir"), 0755)
		os.WriteFile(filepath.Join(dir, "subdir", "inner.zip"), []byte("inner\n"), 0644)
	case "other-importing":
		os.WriteFile(filepath.Join(dir, "77_importing"), nil, 0644)
	}
}

func c32RunImport(c c32ImportCase) (verifkit.Outcome, error) {
	o := verifkit.Outcome{}
	if c.ID == 0 || c.ID == 3 || c.ID == 9 || c.ID == 15 || c.ID == 77 {
		o.Skip = true // the set id handed to Import is always a fresh one
		return o, nil
	}
	base, err := os.MkdirTemp("", "c32i")
	if err != nil {
		panic("HARNESS: " + err.Error())
	}
	defer os.RemoveAll(base)
	// the snapshots directory sits 11 levels below base: no generated name has
	// more than 12 ".." components, so even broken code stays inside base
	root := filepath.Join(base, "l1", "l2", "l3", "l4", "l5", "l6", "root")
	dirs.SetRootDir(root)
	defer dirs.SetRootDir("")
	defer func(old bool) { isTesting = old }(isTesting)
	isTesting = false
	snapshots := dirs.SnapshotsDir
	snapdDir := filepath.Dir(snapshots)
	if filepath.Base(snapshots) != "snapshots" || !strings.HasPrefix(snapshots, root+"/") {
		panic("HARNESS: unexpected snapshots dir " + snapshots)
	}
	os.MkdirAll(snapshots, 0700)
	os.MkdirAll(filepath.Join(snapdDir, "sentinel-dir"), 0755)
	os.MkdirAll(filepath.Join(root, "etc"), 0755)
	for _, f := range []string{filepath.Join(snapdDir, "sentinel-file"), filepath.Join(snapdDir, "sentinel-dir", "inner.zip"),
		filepath.Join(snapdDir, "state.json"), filepath.Join(root, "etc", "passwd"), filepath.Join(root, "var", "sentinel"),
		filepath.Join(base, "top-sentinel"), filepath.Join(base, "l1", "l2", "mid-sentinel")} {
		os.WriteFile(f, []byte("sentinel content of "+filepath.Base(f)+", longer than anything that would be written over it ........................................\n"), 0644)
	}
	for _, tok := range c.Existing {
		c32ExistingEntry(snapshots, tok)
	}

	stream, hdrEnd := c32BuildStream(c, base)
	full := len(stream)
	firstDamage := full + 1
	if c.Trunc >= 0 && c.Trunc < 1000 {
		cut := full * c.Trunc / 1000
		stream = stream[:cut]
		firstDamage = cut
	}
	for _, f := range c.Flips {
		if len(stream) == 0 || f.Xor&0xff == 0 {
			continue
		}
		pos := (len(stream) - 1) * (f.Pos % 1000) / 1000
		if pos < 0 {
			pos = 0
		}
		stream[pos] ^= byte(f.Xor)
		if pos < firstDamage {
			firstDamage = pos
		}
	}

	// which members does the unpack loop get to see (by construction of the stream)?
	reachedHostile, reachedDotDot, reachedWrite := false, false, false
	passThrough := true
	for i, m := range c.Members {
		if i >= len(hdrEnd) || hdrEnd[i] < 0 || hdrEnd[i] > firstDamage || !passThrough {
			break
		}
		name := strings.Replace(m.Name, "@BASE@", base, -1)
		if c32Hostile(name) {
			reachedHostile = true
			if strings.Contains(name, "../") {
				reachedDotDot = true
			} else if strings.Contains(name, "_") && m.Type != "5" {
				reachedWrite = true
			}
		}
		switch {
		case m.Type != "0" && m.Type != "":
			passThrough = name == "export.json" && m.Type != "5"
		case name == "content.json":
			passThrough = m.Body == "content"
		case name == "export.json":
		default:
			passThrough = m.Body == "zip" && c32SaneName.MatchString(name) && strings.HasSuffix(name, ".zip")
		}
	}

	skipSnapshots := func(rel string) bool {
		return strings.HasSuffix("/"+rel, "/root/var/lib/snapd/snapshots")
	}
	outsideBefore := c32Digest(base, skipSnapshots)
	insideBefore := c32Digest(snapshots, nil)

	flags := &ImportFlags{NoDuplicatedImportCheck: c.NoDup}
	names, ierr := Import(context.Background(), c.ID, bytes.NewReader(stream), flags)
	_ = names

	o.NonTrivial = reachedHostile
	if reachedDotDot {
		o.Labels = append(o.Labels, "hostile-dotdot-reached")
	}
	if reachedWrite {
		o.Labels = append(o.Labels, "hostile-name-reaches-write")
	}
	if ierr == nil {
		o.Labels = append(o.Labels, "import-ok")
	} else if _, ok := ierr.(DuplicatedSnapshotImportError); ok {
		o.Labels = append(o.Labels, "duplicate")
	}
	if firstDamage <= full {
		o.Labels = append(o.Labels, "damaged-stream")
	}
	o.Desc = fmt.Sprintf("id=%d members=%s trunc=%d flips=%d existing=%v -> err=%v", c.ID, c32MemberSummary(c.Members), c.Trunc, len(c.Flips), c.Existing, ierr)

	if d := c32Diff(outsideBefore, c32Digest(base, skipSnapshots)); d != "" {
		return o, verifkit.Violatef("import (err=%v) created or modified files outside the snapshots directory: %s", ierr, d)
	}
	insideAfter := c32Digest(snapshots, nil)
	prefix := fmt.Sprintf("%d_", c.ID)
	var leftovers, leftNonZip []string
	for _, k := range verifkit.SortedKeys(insideAfter) {
		v := insideAfter[k]
		if b, ok := insideBefore[k]; ok {
			if b != v {
				return o, verifkit.Violatef("import (err=%v) modified the pre-existing entry %q of the snapshots directory: %s -> %s", ierr, k, b, v)
			}
			continue
		}
		if strings.Contains(k, "/") || !strings.HasPrefix(k, prefix) {
			return o, verifkit.Violatef("import of set %d (err=%v) created %q in the snapshots directory, which is not a file of that set", c.ID, ierr, k)
		}
		if !strings.HasPrefix(v, "file:") {
			return o, verifkit.Violatef("import of set %d (err=%v) created %q as %s", c.ID, ierr, k, v)
		}
		leftovers = append(leftovers, k)
		if !strings.HasSuffix(k, ".zip") {
			leftNonZip = append(leftNonZip, k)
		}
	}
	for k := range insideBefore {
		if _, ok := insideAfter[k]; !ok {
			return o, verifkit.Violatef("import (err=%v) removed the pre-existing entry %q of the snapshots directory", ierr, k)
		}
	}
	// Observation only (the property speaks about files outside the snapshots
	// directory): what a failed import leaves behind inside it.  Cancel's doc
	// comment promises a cleanup of the set's files but only removes <id>_*.zip.
	if ierr != nil && len(leftovers) > 0 {
		o.Labels = append(o.Labels, "import-leftover-in-snapshots-dir")
		if len(leftNonZip) != len(leftovers) {
			o.Labels = append(o.Labels, "import-leftover-zip-in-snapshots-dir")
		}
	}
	return o, nil
}

func c32MemberSummary(ms []c32Member) string {
	var parts []string
	for _, m := range ms {
		n := m.Name
		if len(n) > 60 {
			n = n[:60] + "…"
		}
		parts = append(parts, fmt.Sprintf("%q/%s/%s", n, m.Type, m.Body))
	}
	return "[" + strings.Join(parts, " ") + "]"
}

var c32Prefixes = []string{"1", "1", "1", "12", "5", "007", "", "x", "..", "../1", "/1", "a/b", "1/..", "-1", "18446744073709551616", "../..", "./1"}
// names after the "<id>_" part that carry a "../": the unpack loop must refuse them
var c32RestsDotDot = []string{
	"../sentinel-file", "/../../sentinel-file", "x/../../sentinel-file", "/../../sentinel-dir/inner.zip", "x/../../sentinel-dir/new.zip",
	"/../3_imp-preexisting_1.0_7.zip", "x/../9_garbage.zip", "/../subdir/new.zip", "/../notes.txt", "/../new-in-snapshots.zip",
	"/../../../../../etc/passwd", "x/../../../../../etc/passwd", "/../../../../../../../../../../mid-sentinel", "/../../state.json",
	"/../../snapshots/3_imp-preexisting_1.0_7.zip", "..//..//sentinel-file", "x/./../../sentinel-file", "/..zip/../../sentinel-file",
	"x/..\\../sentinel-file", "/../", "x/../", "/../../snapshots5_new.zip", "/../../../snapd/sentinel-file", "a/b/../../../../sentinel-file",
}

// hostile or odd names without "../": they get as far as the file creation
var c32RestsWrite = []string{
	"/..", "x/..", "x.zip/..", "a/b/..", "sub/x.zip", "subdir/x.zip", "sub/dir/x.zip", "/abs.zip", "./x.zip", "a//b.zip", "/", "x/", "/.",
	"..", "..zip", "...", "importing", "noext", "", ".zip", "ü.zip", "sp ace.zip", "back\\slash.zip", "*.zip", "..\\..\\x.zip",
	"snap_1.0_7.zip", "s.zip", "imp-s_1.0_7.zip",
}
var c32Whole = []string{"", "nounderscore", "..", "../x", "../../x_y.zip", "/etc/passwd", "@BASE@/top-sentinel", "@BASE@/new_file.zip",
	"/verif-c32-no-such-dir/x_y.zip", "content.json/", "./export.json", "./content.json", "_", "__", "_/..", "_x/../../sentinel-file"}

func c32GenMember(t *rapid.T) c32Member {
	m := c32Member{Type: "0", Seed: rapid.SampledFrom([]string{"a", "b", "c", c32ExistingSeed}).Draw(t, "seed")}
	switch rapid.IntRange(0, 15).Draw(t, "what") {
	case 0:
		m.Name = "content.json"
		m.Body = rapid.SampledFrom([]string{"content", "content", "content", "content-dup", "content-bad", "empty"}).Draw(t, "cbody")
	case 2:
		m.Name = "export.json"
		m.Body = rapid.SampledFrom([]string{"export", "export", "export", "export-bad", "empty"}).Draw(t, "ebody")
	case 4:
		m.Name = rapid.SampledFrom([]string{"1", "12", "5"}).Draw(t, "vp") + "_" + rapid.SampledFrom([]string{"snap_1.0_7.zip", "s.zip", "imp-a_1.0_7.zip", "other_2_x1.zip"}).Draw(t, "vr")
		m.Body = rapid.SampledFrom([]string{"zip", "zip", "zip", "zip", "zip-badhash", "zip-badmeta", "garbage", "empty"}).Draw(t, "zbody")
	case 6, 1:
		m.Name = rapid.SampledFrom(c32Whole).Draw(t, "whole")
		m.Body = rapid.SampledFrom([]string{"zip", "garbage", "empty"}).Draw(t, "wbody")
	case 7, 3:
		n := rapid.SampledFrom([]int{90, 101, 160, 260, 600}).Draw(t, "long")
		m.Name = "1_" + strings.Repeat(rapid.SampledFrom([]string{"a", "ab/", "../", "/..", "x/../"}).Draw(t, "unit"), n)[:n] + ".zip"
		if strings.Count(m.Name, "..") > 8 {
			// keep even broken code inside the scratch tree
			m.Name = "1_" + strings.Repeat("a", n) + "/../../sentinel-file"
		}
		m.Body = rapid.SampledFrom([]string{"zip", "garbage"}).Draw(t, "lbody")
	case 8, 9, 10, 11, 12:
		m.Name = rapid.SampledFrom(c32Prefixes).Draw(t, "prefix") + "_" + rapid.SampledFrom(c32RestsDotDot).Draw(t, "rest-dotdot")
		m.Body = rapid.SampledFrom([]string{"zip", "zip", "zip", "zip-badhash", "garbage", "empty"}).Draw(t, "hbody")
	default:
		m.Name = rapid.SampledFrom(c32Prefixes).Draw(t, "prefix") + "_" + rapid.SampledFrom(c32RestsWrite).Draw(t, "rest-write")
		m.Body = rapid.SampledFrom([]string{"zip", "zip", "zip", "zip-badhash", "garbage", "empty"}).Draw(t, "hbody")
	}
	if rapid.IntRange(0, 11).Draw(t, "special") == 0 {
		m.Type = rapid.SampledFrom([]string{"5", "5", "2", "1", "3", "6", "g", "7"}).Draw(t, "type")
		m.Link = rapid.SampledFrom([]string{"", "../sentinel-file", "@BASE@/top-sentinel", "1_snap_1.0_7.zip", "/verif-c32-no-such-dir/x"}).Draw(t, "link")
		if m.Type == "5" && rapid.Bool().Draw(t, "slash") {
			m.Name += "/"
		}
	}
	return m
}

func c32GenImport(t *rapid.T) c32ImportCase {
	c := c32ImportCase{Trunc: -1}
	c.ID = rapid.SampledFrom([]uint64{5, 5, 12, 1, 100}).Draw(t, "id")
	n := rapid.IntRange(1, 5).Draw(t, "members")
	// mostly well-formed streams with one odd member: the unpack loop must get to it
	shape := rapid.IntRange(0, 9).Draw(t, "shape")
	for i := 0; i < n; i++ {
		if shape < 6 && i < n-1 {
			switch rapid.IntRange(0, 3).Draw(t, "good") {
			case 0:
				c.Members = append(c.Members, c32Member{Name: "content.json", Type: "0", Body: "content", Seed: "a"})
			case 1:
				c.Members = append(c.Members, c32Member{Name: "export.json", Type: "0", Body: "export"})
			default:
				c.Members = append(c.Members, c32Member{Name: fmt.Sprintf("1_imp-%c_1.0_7.zip", 'a'+i), Type: "0", Body: "zip", Seed: string(rune('a' + i))})
			}
			continue
		}
		c.Members = append(c.Members, c32GenMember(t))
	}
	if rapid.IntRange(0, 2).Draw(t, "tail") == 0 {
		c.Members = append(c.Members, c32Member{Name: "export.json", Type: "0", Body: "export"})
	}
	c.Format = rapid.SampledFrom([]int{0, 0, 0, 1, 2}).Draw(t, "format")
	if rapid.IntRange(0, 9).Draw(t, "cut") == 0 {
		c.Trunc = rapid.IntRange(0, 999).Draw(t, "trunc")
	}
	if rapid.IntRange(0, 7).Draw(t, "mutate") == 0 {
		nf := rapid.IntRange(1, 3).Draw(t, "nflips")
		for i := 0; i < nf; i++ {
			c.Flips = append(c.Flips, c32Flip{Pos: rapid.IntRange(0, 999).Draw(t, "pos"), Xor: rapid.SampledFrom([]int{1, 0x80, 0xff, 0x20, 0x0f}).Draw(t, "xor")})
		}
	}
	for _, tok := range []string{"other-valid", "other-garbage", "other-15", "notes", "subdir", "other-importing"} {
		if rapid.IntRange(0, 2).Draw(t, tok) != 0 {
			c.Existing = append(c.Existing, tok)
		}
	}
	c.NoDup = rapid.IntRange(0, 3).Draw(t, "nodup") == 0
	return c
}

func TestVerifC32Import(t *testing.T) {
	verifkit.Check(t, verifkit.Spec[c32ImportCase]{
		ID: "C32", Engine: "import",
		Gen:             c32GenImport,
		Run:             c32RunImport,
		Floors:          map[string]float64{"hostile-dotdot-reached": 0.08, "hostile-name-reaches-write": 0.08, "import-ok": 0.03, "damaged-stream": 0.1},
		NonTrivialFloor: 0.3,
	})
}

// ---------------------------------------------------------------------------
// engine 2: restore with corruption / interruption
// ---------------------------------------------------------------------------

// c32Names are the entries of a snap data parent the generator talks about:
// the common directory, the snapshot's revision, another revision that may be
// "current", and an unrelated old revision.
var c32Names = []string{"common", "42", "43", "41"}

const (
	c32Rev      = 42
	c32OtherRev = 43
)

type c32SavedPlace struct {
	Rev    c32Dir `json:"rev"`
	Common c32Dir `json:"common"`
}

type c32ExistingPlace struct {
	Home   int      `json:"home"`   // users only: 0 directory, 1 absent, 2 regular file
	Parent int      `json:"parent"` // 0 directory, 1 absent, 2 absent together with its own parent, 3 regular file
	Dirs   []c32Dir `json:"dirs"`   // indexed like c32Names
}

type c32Fault struct {
	// Kind: "none", "swap", "flip", "trunc", "append", "meta-digest", "zip-size", "raw-flip",
	// "tar-dies", "cancel"
	Kind  string `json:"kind"`
	Entry int    `json:"entry"` // index (modulo) into the sorted entry names, counted from the end
	Pos   int    `json:"pos"`   // permille position / byte count
	Val   int    `json:"val"`
	K     int    `json:"k"` // which extraction is hit, counted back from the last one (0 = last); cancel: -1 = before the restore starts
	Kill  bool   `json:"kill,omitempty"`
}

type c32RestoreCase struct {
	Instance bool               `json:"instance"`
	Hidden   bool               `json:"hidden"`
	Users    int                `json:"users"`
	Saved    []c32SavedPlace    `json:"saved"`    // index 0 system, 1.. users
	Existing []c32ExistingPlace `json:"existing"` // same indexing
	Current  int                `json:"current"`  // 0 unset, else revision passed as current
	Filter   int                `json:"filter"`   // bit mask of users named in the restore request; 0 = all
	Fault    c32Fault           `json:"fault"`
	After    int                `json:"after"` // after a success: 0 Cleanup, 1 Revert
}

var c32TempRx = regexp.MustCompile(`(^|/)\.snapshot[^/]*$|\.~[a-zA-Z0-9]{9}~$`)

type c32Rig struct {
	c        c32RestoreCase
	base     string
	root     string
	snapName string
	opts     *dirs.SnapDirOptions
	users    []*user.User
	parents  []string // absolute data parents, index like Saved
	calls    int      // extractions started during the current Restore
	fault    c32Fault
	cancel   context.CancelFunc
	tarPath  string
	headPath string
	shPath   string
}

func (r *c32Rig) tarCmd(username string, args ...string) *exec.Cmd {
	if len(args) == 0 || args[0] != "--extract" {
		return exec.Command(r.tarPath, args...)
	}
	r.calls++
	switch r.fault.Kind {
	case "cancel":
		if r.calls == r.fault.K && r.cancel != nil {
			r.cancel()
		}
	case "tar-dies":
		if r.calls == r.fault.K {
			end := "exit 2"
			if r.fault.Kill {
				end = "kill -9 $$"
			}
			script := fmt.Sprintf(`%s -c %d | %s "$@"; %s`, r.headPath, r.fault.Pos, r.tarPath, end)
			return exec.Command(r.shPath, append([]string{"-c", script, "sh"}, args...)...)
		}
	}
	return exec.Command(r.tarPath, args...)
}

func (r *c32Rig) relParent(i int) string {
	rel, _ := filepath.Rel(r.root, r.parents[i])
	return rel
}

func c32Look(name string) string {
	p, err := exec.LookPath(name)
	if err != nil {
		panic("HARNESS: " + name + " not found: " + err.Error())
	}
	return p
}

func c32HarnessErr(format string, args ...interface{}) error {
	return verifkit.Violatef("HARNESS: "+format, args...)
}

func c32RunRestore(c c32RestoreCase) (verifkit.Outcome, error) {
	o := verifkit.Outcome{Extra: map[string]int64{}}
	if c.Users < 0 || c.Users > 2 || len(c.Saved) != c.Users+1 || len(c.Existing) != c.Users+1 {
		o.Skip = true
		return o, nil
	}
	for _, e := range c.Existing {
		if len(e.Dirs) != len(c32Names) {
			o.Skip = true
			return o, nil
		}
	}
	anyData := false
	for _, s := range c.Saved {
		if s.Rev.Kind == 1 || s.Common.Kind == 1 {
			anyData = true
		}
	}
	if !anyData {
		o.Skip = true // nothing to save: no snapshot
		return o, nil
	}

	base, err := os.MkdirTemp("", "c32r")
	if err != nil {
		panic("HARNESS: " + err.Error())
	}
	defer func() {
		if os.Geteuid() != 0 {
			exec.Command("chmod", "-R", "u+rwx", base).Run()
		}
		os.RemoveAll(base)
	}()
	r := &c32Rig{c: c, base: base, root: filepath.Join(base, "root"), snapName: "hello-snap",
		tarPath: c32Look("tar"), headPath: c32Look("head"), shPath: c32Look("sh")}
	if c.Instance {
		r.snapName = "hello-snap_inst"
	}
	if c.Hidden {
		r.opts = &dirs.SnapDirOptions{HiddenSnapDataDir: true}
	}
	dirs.SetRootDir(r.root)
	defer dirs.SetRootDir("")
	for i := 0; i < c.Users; i++ {
		r.users = append(r.users, &user.User{Uid: "0", Gid: "0", Username: fmt.Sprintf("user%d", i+1), HomeDir: filepath.Join(r.root, "home", fmt.Sprintf("user%d", i+1))})
	}
	defer func(a func(string, ...string) *exec.Cmd, b func(string) (*user.User, error), d func([]string, *dirs.SnapDirOptions) ([]*user.User, error), e bool) {
		tarAsUser, userLookup, usersForUsernames, isTesting = a, b, d, e
	}(tarAsUser, userLookup, usersForUsernames, isTesting)
	isTesting = false
	tarAsUser = r.tarCmd
	userLookup = func(name string) (*user.User, error) {
		for _, u := range r.users {
			if u.Username == name {
				return u, nil
			}
		}
		return nil, user.UnknownUserError(name)
	}
	usersForUsernames = func([]string, *dirs.SnapDirOptions) ([]*user.User, error) { return r.users, nil }

	name, key := snap.SplitInstanceName(r.snapName)
	info := &snap.Info{SideInfo: snap.SideInfo{RealName: name, Revision: snap.R(c32Rev), SnapID: "hello-id"}, InstanceKey: key, Version: "v1.33"}
	r.parents = []string{snap.BaseDataDir(r.snapName)}
	for _, u := range r.users {
		r.parents = append(r.parents, filepath.Dir(info.UserDataDir(u.HomeDir, r.opts)))
	}

	// 1. the data that gets saved
	type savedDigest struct{ rev, common map[string]string }
	saved := make([]savedDigest, len(c.Saved))
	for i, s := range c.Saved {
		os.MkdirAll(r.parents[i], 0755)
		if s.Rev.Kind == 1 {
			c32Materialize(filepath.Join(r.parents[i], "42"), s.Rev)
			saved[i].rev = c32Digest(filepath.Join(r.parents[i], "42"), nil)
		}
		if s.Common.Kind == 1 {
			c32Materialize(filepath.Join(r.parents[i], "common"), s.Common)
			saved[i].common = c32Digest(filepath.Join(r.parents[i], "common"), nil)
		}
	}
	sn, err := Save(context.Background(), 12, info, map[string]interface{}{"some-setting": "v"}, nil, nil, r.opts)
	if err != nil {
		return o, c32HarnessErr("Save failed: %v", err)
	}
	zipName := Filename(sn)
	entryNames := make([]string, 0, len(sn.SHA3_384))
	for k := range sn.SHA3_384 {
		entryNames = append(entryNames, k)
	}
	sort.Strings(entryNames)
	entryPlace := func(entry string) int {
		if entry == archiveName {
			return 0
		}
		for i, u := range r.users {
			if entry == userArchiveName(u) {
				return i + 1
			}
		}
		return -1
	}
	for i, s := range c.Saved {
		has := false
		for _, e := range entryNames {
			if entryPlace(e) == i {
				has = true
			}
		}
		if has != (s.Rev.Kind == 1 || s.Common.Kind == 1) {
			return o, c32HarnessErr("snapshot entries %v do not match the saved places", entryNames)
		}
	}

	// 2. replace the data in place by the generated existing data
	if os.Geteuid() != 0 {
		exec.Command("chmod", "-R", "u+rwx", filepath.Join(r.root, "var", "snap"), filepath.Join(r.root, "home")).Run()
	}
	os.RemoveAll(filepath.Join(r.root, "var", "snap"))
	os.RemoveAll(filepath.Join(r.root, "home"))
	os.MkdirAll(filepath.Join(r.root, "var", "snap", "other-snap", "common"), 0755)
	os.WriteFile(filepath.Join(r.root, "var", "snap", "other-snap", "common", "unrelated"), []byte("unrelated snap\n"), 0644)
	os.MkdirAll(filepath.Join(r.root, "home"), 0755)
	for i, e := range c.Existing {
		if i > 0 {
			home := r.users[i-1].HomeDir
			switch e.Home {
			case 1:
				continue
			case 2:
				os.WriteFile(home, []byte("home is a file\n"), 0644)
				continue
			}
			os.MkdirAll(home, 0755)
			os.WriteFile(filepath.Join(home, ".profile"), []byte("unrelated home content\n"), 0644)
		}
		switch e.Parent {
		case 1:
			os.MkdirAll(filepath.Dir(r.parents[i]), 0755)
			continue
		case 2:
			if i == 0 {
				os.MkdirAll(filepath.Dir(r.parents[i]), 0755)
			}
			continue
		case 3:
			os.MkdirAll(filepath.Dir(r.parents[i]), 0755)
			os.WriteFile(r.parents[i], []byte("parent is a file\n"), 0644)
			continue
		}
		os.MkdirAll(r.parents[i], 0755)
		for j, d := range e.Dirs {
			c32Materialize(filepath.Join(r.parents[i], c32Names[j]), d)
		}
	}

	// 3. the fault in the snapshot file
	f := c.Fault
	// Entry counts from the end of the sorted names: the system archive is
	// listed first in the metadata and therefore mostly restored first
	f.Entry = len(entryNames) - 1 - ((f.Entry%len(entryNames))+len(entryNames))%len(entryNames)
	faultEntry := entryNames[f.Entry]
	archiveFault := false
	switch f.Kind {
	case "swap", "flip", "trunc", "append", "meta-digest", "zip-size":
		entries, err := c32ReadZip(zipName)
		if err != nil {
			return o, c32HarnessErr("cannot read back %s: %v", zipName, err)
		}
		for i := range entries {
			e := &entries[i]
			if e.name != faultEntry {
				continue
			}
			switch f.Kind {
			case "swap":
				alt := c32SimpleTgz([]string{"common", "42"}, fmt.Sprint(f.Val))
				if !bytes.Equal(alt, e.data) {
					e.data = alt
					archiveFault = true
				}
			case "flip":
				if len(e.data) > 0 && f.Val&0xff != 0 {
					pos := (len(e.data) - 1) * (((f.Pos % 1000) + 1000) % 1000) / 1000
					if f.Pos < 0 { // small absolute offsets: the gzip header
						pos = (-f.Pos) % len(e.data)
					}
					e.data = append([]byte(nil), e.data...)
					e.data[pos] ^= byte(f.Val)
					archiveFault = true
				}
			case "trunc":
				cut := len(e.data) * (((f.Pos % 1000) + 1000) % 1000) / 1000
				if cut < len(e.data) {
					e.data = e.data[:cut]
					archiveFault = true
				}
			case "append":
				e.data = append(append([]byte(nil), e.data...), c32Content(c32Node{D: fmt.Sprint(f.Val), Big: 1})[:1+((f.Val%700)+700)%700]...)
				archiveFault = true
			case "zip-size":
				delta := int64(f.Val%5) - 2
				if delta >= 0 {
					delta++
				}
				if int64(len(e.data))+delta > 0 {
					e.declSize = int64(len(e.data)) + delta
					archiveFault = true
				}
			}
		}
		if f.Kind == "meta-digest" {
			sn2 := *sn
			sn2.SHA3_384 = map[string]string{}
			for k, v := range sn.SHA3_384 {
				sn2.SHA3_384[k] = v
			}
			old := sn2.SHA3_384[faultEntry]
			pos := ((f.Pos % len(old)) + len(old)) % len(old)
			repl := byte('0')
			if old[pos] == '0' {
				repl = 'f'
			}
			sn2.SHA3_384[faultEntry] = old[:pos] + string(repl) + old[pos+1:]
			var kept []c32ZipEntry
			for _, e := range entries {
				if e.name != metadataName && e.name != metaHashName {
					kept = append(kept, e)
				}
			}
			entries = append(kept, c32MetaEntries(&sn2)...)
			archiveFault = true
		}
		if err := os.WriteFile(zipName, c32ZipBytes(entries), 0600); err != nil {
			return o, c32HarnessErr("cannot rewrite %s: %v", zipName, err)
		}
	case "raw-flip":
		data, err := os.ReadFile(zipName)
		if err != nil || len(data) == 0 {
			return o, c32HarnessErr("cannot read %s: %v", zipName, err)
		}
		if f.Val&0xff != 0 {
			pos := (len(data) - 1) * (((f.Pos % 1000) + 1000) % 1000) / 1000
			data[pos] ^= byte(f.Val)
			os.WriteFile(zipName, data, 0600)
		}
	}
	r.fault = f

	// 4. expectations that follow from the case alone
	var usernames []string
	if c.Filter != 0 {
		for i, u := range r.users {
			if c.Filter&(1<<uint(i)) != 0 {
				usernames = append(usernames, u.Username)
			}
		}
	}
	processed := func(place int) bool { // will Restore deal with this place's archive at all?
		if c.Saved[place].Rev.Kind != 1 && c.Saved[place].Common.Kind != 1 {
			return false
		}
		if place == 0 {
			return true
		}
		if len(usernames) > 0 && c.Filter&(1<<uint(place-1)) == 0 {
			return false
		}
		return c.Existing[place].Home == 0
	}
	nProcessed := 0
	for i := range c.Saved {
		if processed(i) {
			nProcessed++
		}
	}
	destRev := "42"
	current := snap.R(0)
	if c.Current != 0 {
		current = snap.R(c.Current)
		destRev = current.String()
	}
	destIdx := -1
	for j, n := range c32Names {
		if n == destRev {
			destIdx = j
		}
	}
	obstructed, refusedValid := false, false
	for i := range c.Saved {
		if !processed(i) {
			continue
		}
		e := c.Existing[i]
		if e.Parent == 3 {
			obstructed = true
		}
		if e.Parent == 0 {
			for j, d := range e.Dirs {
				if d.Kind == 4 && (j == 0 || j == destIdx) {
					obstructed = true
				}
			}
		}
		if destRev != "42" && c.Saved[i].Rev.Kind != 1 {
			// the archive has no revision directory to rename to the current revision
			refusedValid = true
		}
		if destIdx < 0 {
			obstructed = true
		}
	}
	// K counts back from the last archive that will be dealt with
	if f.Kind == "tar-dies" || (f.Kind == "cancel" && f.K >= 0) {
		if nProcessed > 0 {
			f.K = nProcessed - f.K%nProcessed
		} else {
			f.K = 1
		}
	} else if f.Kind == "cancel" {
		f.K = 0
	}
	r.fault = f
	mustFail := false
	switch f.Kind {
	case "swap", "flip", "trunc", "append", "meta-digest", "zip-size":
		mustFail = archiveFault && processed(entryPlace(faultEntry))
	case "tar-dies":
		mustFail = f.K >= 1 && f.K <= nProcessed
	}
	// (a cancelled context that is not honoured is no violation as long as the
	// restore then completes: the success clauses below judge that)
	mustSucceed := f.Kind == "none" && !obstructed && !refusedValid

	// 5. restore
	reader, oerr := Open(zipName, ExtractFnameSetID)
	if oerr != nil {
		if f.Kind != "raw-flip" {
			return o, c32HarnessErr("cannot open the snapshot for fault %q: %v", f.Kind, oerr)
		}
		o.Labels = append(o.Labels, "open-fails")
		o.Desc = fmt.Sprintf("raw flip makes Open fail: %v", oerr)
		return o, nil
	}
	defer reader.Close()

	skipSnapshots := func(rel string) bool { return rel == "var/lib/snapd/snapshots" }
	before := c32Digest(r.root, skipSnapshots)
	// directories above a data parent may be created on the way and stay
	ancestors := map[string]bool{}
	for i := range r.parents {
		for p := filepath.Dir(r.relParent(i)); p != "." && p != "/"; p = filepath.Dir(p) {
			ancestors[p] = true
		}
	}
	// normalise forgets directories above a data parent that did not exist
	// before: MkdirAll creates them on the way and nobody promises to remove
	// them (after a failure only when nothing else is in them).
	normalise := func(d map[string]string, success bool) map[string]string {
		for p := range ancestors {
			if _, was := before[p]; !was && strings.HasPrefix(d[p], "dir:") {
				empty := true
				for k := range d {
					if strings.HasPrefix(k, p+"/") && !(ancestors[k] && strings.HasPrefix(d[k], "dir:")) {
						empty = false
					}
				}
				if empty || success {
					delete(d, p)
				}
			}
		}
		return d
	}
	var logs []string
	logf := func(format string, args ...interface{}) { logs = append(logs, fmt.Sprintf(format, args...)) }

	// failing restores are repeated: the data must be as before every time, and
	// which archive comes first follows map iteration inside Restore
	attempts := 1
	if f.Kind != "none" || obstructed {
		attempts = 2
	}
	maxCompleted := 0
	var lastErr error
	for a := 0; a < attempts; a++ {
		r.calls = 0
		ctx, cancel := context.WithCancel(context.Background())
		r.cancel = cancel
		if f.Kind == "cancel" && f.K == 0 {
			cancel()
		}
		rs, rerr := reader.Restore(ctx, current, usernames, logf, r.opts)
		cancel()
		lastErr = rerr
		o.Extra["restore_attempts"]++
		desc := fmt.Sprintf("snapshot entries %v, fault %+v, current=%v, users=%v, attempt %d", entryNames, f, current, usernames, a+1)
		if rerr != nil {
			if rs != nil {
				return o, verifkit.Violatef("Restore returned both a restore state and an error (%v); %s", rerr, desc)
			}
			if mustSucceed {
				return o, verifkit.Violatef("an intact snapshot over unobstructed data was refused: %v; %s", rerr, desc)
			}
			after := normalise(c32Digest(r.root, skipSnapshots), false)
			if d := c32Diff(before, after); d != "" {
				return o, verifkit.Violatef("failed restore (%v) did not leave the existing data as before: %s; %s (extractions started: %d)", rerr, d, desc, r.calls)
			}
			completed := r.calls - 1
			if completed > maxCompleted {
				maxCompleted = completed
			}
			continue
		}
		// success
		if rs == nil {
			return o, verifkit.Violatef("Restore returned neither a restore state nor an error; %s", desc)
		}
		if mustFail {
			return o, verifkit.Violatef("restore succeeded although the snapshot is corrupt or the restore was interrupted; %s", desc)
		}
		if c.After == 1 {
			rs.Revert()
			after := normalise(c32Digest(r.root, skipSnapshots), false)
			if d := c32Diff(before, after); d != "" {
				return o, verifkit.Violatef("Revert after a successful restore did not bring the previous data back: %s; %s", d, desc)
			}
			o.Labels = append(o.Labels, "success-revert")
			break
		}
		rs.Cleanup()
		after := normalise(c32Digest(r.root, skipSnapshots), true)
		for i := range r.parents {
			for k := range after {
				if filepath.Dir(k) == r.relParent(i) && c32TempRx.MatchString(filepath.Base(k)) && before[k] == "" {
					return o, verifkit.Violatef("temporary or backup entry %q left after a successful restore and Cleanup; %s", k, desc)
				}
			}
		}
		beforeRest, afterRest := map[string]string{}, map[string]string{}
		for k, v := range before {
			beforeRest[k] = v
		}
		for k, v := range after {
			afterRest[k] = v
		}
		drop := func(m map[string]string, prefix string) {
			for k := range m {
				if k == prefix || strings.HasPrefix(k, prefix+"/") {
					delete(m, k)
				}
			}
		}
		for i := range c.Saved {
			if !processed(i) {
				continue
			}
			rel := r.relParent(i)
			if saved[i].common != nil {
				if d := c32Diff(saved[i].common, c32Sub(after, rel+"/common")); d != "" {
					return o, verifkit.Violatef("successful restore does not reproduce the saved common data of %s: %s; %s", rel, d, desc)
				}
				drop(beforeRest, rel+"/common")
				drop(afterRest, rel+"/common")
			}
			if saved[i].rev != nil {
				if d := c32Diff(saved[i].rev, c32Sub(after, rel+"/"+destRev)); d != "" {
					return o, verifkit.Violatef("successful restore does not reproduce the saved revision data of %s in %s: %s; %s", rel, destRev, d, desc)
				}
				drop(beforeRest, rel+"/"+destRev)
				drop(afterRest, rel+"/"+destRev)
			}
			// the parent itself may have been created
			if _, was := before[rel]; !was {
				delete(afterRest, rel)
			}
		}
		if d := c32Diff(beforeRest, afterRest); d != "" {
			return o, verifkit.Violatef("successful restore changed something besides the restored directories: %s; %s", d, desc)
		}
		o.Labels = append(o.Labels, "success-cleanup")
		break
	}

	if lastErr != nil {
		o.Labels = append(o.Labels, "failed:"+f.Kind)
		if refusedValid && f.Kind == "none" && !obstructed {
			o.Labels = append(o.Labels, "valid-snapshot-without-revision-dir-refused")
		}
		if maxCompleted >= 1 {
			o.NonTrivial = true
			o.Extra["failed_after_an_archive_was_moved"]++
		}
	}
	if obstructed {
		o.Labels = append(o.Labels, "obstructed")
	}
	if nProcessed >= 2 {
		o.Labels = append(o.Labels, "multi-archive")
	}
	defer func() {
		if os.Getenv("VERIF_C32_DEBUG") != "" {
			fmt.Fprintf(os.Stderr, "C32DEBUG nontrivial=%v %s\n", o.NonTrivial, o.Desc)
		}
	}()
	o.Desc = fmt.Sprintf("entries %v processed=%d fault=%+v current=%v filter=%v obstructed=%v -> err=%v (archives completed before the failure: %d)", entryNames, nProcessed, f, current, usernames, obstructed, lastErr, maxCompleted)
	return o, nil
}

var c32Comps = []string{"a", "b", "data", "x.txt", "sp ace", "-dash", "ünï", "common", "42", ".snapshotX", "c.~abcdefghi~", "nl\nx", "deep", "*"}

func c32GenDir(t *rapid.T, label string, kinds []int) c32Dir {
	d := c32Dir{Kind: rapid.SampledFrom(kinds).Draw(t, label+"-kind")}
	if d.Kind != 1 {
		return d
	}
	d.Mode = rapid.SampledFrom([]uint32{0755, 0755, 0700, 0750, 01777, 0555}).Draw(t, label+"-mode")
	n := rapid.IntRange(0, 5).Draw(t, label+"-n")
	for i := 0; i < n; i++ {
		depth := rapid.IntRange(1, 3).Draw(t, "depth")
		var comps []string
		for j := 0; j < depth; j++ {
			comps = append(comps, rapid.SampledFrom(c32Comps).Draw(t, "comp"))
		}
		nd := c32Node{P: strings.Join(comps, "/")}
		switch rapid.IntRange(0, 9).Draw(t, "nk") {
		case 0, 1:
			nd.K = 1
			nd.M = rapid.SampledFrom([]uint32{0755, 0700, 0500, 01777, 02775}).Draw(t, "dm")
		case 2:
			nd.K = 2
			nd.D = rapid.SampledFrom([]string{"x.txt", "../common", "/nonexistent/abs", ".", "does-not-exist", "../../../../etc/passwd"}).Draw(t, "lt")
		default:
			nd.M = rapid.SampledFrom([]uint32{0644, 0644, 0600, 0755, 0444, 0, 04755, 0664}).Draw(t, "fm")
			nd.D = rapid.SampledFrom([]string{"", "hello\n", "other content\n", "v1", "v2", "\x00\x01\x02binary"}).Draw(t, "fd")
			if rapid.IntRange(0, 7).Draw(t, "big") == 0 {
				nd.Big = rapid.SampledFrom([]int{1, 8, 40, 120}).Draw(t, "kib")
			}
		}
		d.Nodes = append(d.Nodes, nd)
	}
	return d
}

func c32GenRestore(t *rapid.T) c32RestoreCase {
	c := c32RestoreCase{}
	c.Users = rapid.SampledFrom([]int{2, 2, 2, 2, 2, 1, 1, 1, 0}).Draw(t, "users")
	c.Instance = rapid.IntRange(0, 4).Draw(t, "instance") == 0
	c.Hidden = rapid.IntRange(0, 4).Draw(t, "hidden") == 0
	for i := 0; i <= c.Users; i++ {
		s := c32SavedPlace{
			Rev:    c32GenDir(t, "saved-rev", []int{1, 1, 1, 1, 1, 1, 0}),
			Common: c32GenDir(t, "saved-common", []int{1, 1, 1, 0}),
		}
		c.Saved = append(c.Saved, s)
		e := c32ExistingPlace{}
		if i > 0 {
			e.Home = rapid.SampledFrom([]int{0, 0, 0, 0, 0, 0, 0, 0, 0, 0, 0, 0, 0, 1, 2}).Draw(t, "home")
		}
		e.Parent = rapid.SampledFrom([]int{0, 0, 0, 0, 0, 0, 0, 0, 0, 0, 0, 0, 0, 0, 0, 0, 0, 0, 0, 0, 0, 0, 0, 0, 1, 1, 1, 2, 2, 3}).Draw(t, "parent")
		for range c32Names {
			e.Dirs = append(e.Dirs, c32GenDir(t, "existing", []int{1, 1, 1, 1, 1, 1, 1, 1, 1, 1, 1, 1, 1, 1, 1, 1, 1, 0, 0, 0, 0, 0, 2, 2, 2, 3, 3, 3, 4}))
		}
		c.Existing = append(c.Existing, e)
	}
	c.Current = rapid.SampledFrom([]int{0, 0, c32Rev, c32OtherRev, c32OtherRev}).Draw(t, "current")
	if c.Users > 0 && rapid.IntRange(0, 5).Draw(t, "filtered") == 0 {
		c.Filter = rapid.IntRange(1, (1<<uint(c.Users))-1).Draw(t, "filter")
	}
	c.After = rapid.SampledFrom([]int{0, 0, 1}).Draw(t, "after")
	f := c32Fault{Kind: rapid.SampledFrom([]string{"swap", "none", "tar-dies", "flip", "none", "cancel", "trunc", "meta-digest", "tar-dies", "append", "none", "zip-size",
		"swap", "raw-flip", "flip", "tar-dies", "cancel", "none"}).Draw(t, "fault")}
	f.Entry = rapid.SampledFrom([]int{0, 0, 0, 1, 1, 2}).Draw(t, "entry")
	f.Pos = rapid.IntRange(0, 999).Draw(t, "pos")
	f.Val = rapid.SampledFrom([]int{1, 0x80, 0xff, 0x20, 7, 300}).Draw(t, "val")
	switch f.Kind {
	case "flip":
		if rapid.IntRange(0, 2).Draw(t, "hdr") == 0 {
			f.Pos = -rapid.IntRange(3, 9).Draw(t, "gzhdr") // gzip flags/mtime/xfl/os bytes
		}
	case "tar-dies":
		f.K = rapid.SampledFrom([]int{0, 0, 0, 0, 1, 2}).Draw(t, "k")
		f.Pos = rapid.SampledFrom([]int{0, 1, 10, 100, 300, 512, 1024, 4096, 20000, 1 << 30}).Draw(t, "bytes")
		f.Kill = rapid.Bool().Draw(t, "kill")
	case "cancel":
		f.K = rapid.SampledFrom([]int{0, 0, 0, 0, 1, 2, -1}).Draw(t, "k")
	}
	c.Fault = f
	return c
}

func TestVerifC32Restore(t *testing.T) {
	if os.Geteuid() != 0 {
		t.Log("not running as root: ownership-related paths are not exercised")
	}
	verifkit.Check(t, verifkit.Spec[c32RestoreCase]{
		ID: "C32", Engine: "restore",
		Gen:             c32GenRestore,
		Run:             c32RunRestore,
		// DESIGN asks for 30 % non-trivial; the generator delivers about 40 %, the
		// floor leaves room for the sampling noise of a 100-case quick run
		Floors:          map[string]float64{"success-cleanup": 0.05, "success-revert": 0.02, "multi-archive": 0.3},
		NonTrivialFloor: 0.25,
	})
}
