package registrystate_test

// C30, engine "system" (L1): the system entry points registrystate.SetViaView /
// GetViaView on databags kept in a real state.State, with the view served by a
// signed registry assertion in the state's assertion database.
//
// The databag calls cannot be traced at this level, so the clauses are stated
// on what is observable (DESIGN §3 C30, "databag content before/after each
// request"):
//
//  rejection  a refused request leaves state["registry-databags"] unchanged
//  access     every storage path whose content differs after an accepted
//             request lies on a path a writable rule maps for one of the
//             request's fields; a request with a field no writable rule matches
//             is refused; GetViaView only returns fields a readable rule matches
//  ryw        single-field Set through the only matching rule (read-write), then
//             GetViaView of that field returns the value
//  schema     the stored databag satisfies the storage schema after every
//             accepted request
//  unrelated  a request on one registry never changes another registry's databag

import (
	"encoding/json"
	"fmt"
	"reflect"
	"strings"
	"sync"
	"testing"

	"github.com/snapcore/snapd/asserts"
	"github.com/snapcore/snapd/asserts/assertstest"
	"github.com/snapcore/snapd/overlord/assertstate"
	"github.com/snapcore/snapd/overlord/assertstate/assertstatetest"
	"github.com/snapcore/snapd/overlord/registrystate"
	"github.com/snapcore/snapd/overlord/state"
	"github.com/snapcore/snapd/registry"
	"github.com/snapcore/snapd/registry/verifc30"
	"github.com/snapcore/snapd/verifkit"
	"pgregory.net/rapid"
)

// FOtherRegistryWiped: committing the first databag of a registry replaces the
// whole "registry-databags" map, dropping the databags of every other registry.
const FOtherRegistryWiped = "F-C30-4"

type c30Signing struct {
	store     *assertstest.StoreStack
	devAcc    *asserts.Account
	devAccKey *asserts.AccountKey
	signingDB *assertstest.SigningDB
	accID     string
}

var (
	c30SignOnce sync.Once
	c30Sign     c30Signing
)

func c30Signer() *c30Signing {
	c30SignOnce.Do(func() {
		s := &c30Sign
		s.store = assertstest.NewStoreStack("can0nical", nil)
		s.devAcc = assertstest.NewAccount(s.store, "developer1", nil, "")
		if err := s.store.Add(s.devAcc); err != nil {
			panic("HARNESS: " + err.Error())
		}
		devPrivKey, _ := assertstest.GenerateKey(752)
		s.devAccKey = assertstest.NewAccountKey(s.store, s.devAcc, nil, devPrivKey.PublicKey(), "")
		if err := s.store.Add(s.devAccKey); err != nil {
			panic("HARNESS: " + err.Error())
		}
		s.signingDB = assertstest.NewSigningDB("developer1", devPrivKey)
		s.accID = s.devAccKey.AccountID()
	})
	return &c30Sign
}

// c30World is a fresh state with the assertions of one case.
func c30World(c verifc30.Case) (st *state.State, accID string, refused error) {
	s := c30Signer()
	st = state.New(nil)
	st.Lock()
	defer st.Unlock()
	db, err := asserts.OpenDatabase(&asserts.DatabaseConfig{
		Backstore: asserts.NewMemoryBackstore(),
		Trusted:   s.store.Trusted,
	})
	if err != nil {
		panic("HARNESS: " + err.Error())
	}
	if err := db.Add(s.store.StoreAccountKey("")); err != nil {
		panic("HARNESS: " + err.Error())
	}
	assertstate.ReplaceDB(st, db)
	assertstatetest.AddMany(st, s.store.StoreAccountKey(""), s.devAcc, s.devAccKey)

	sign := func(name string, views map[string]interface{}, schema []byte) error {
		var schemaDef interface{}
		if err := json.Unmarshal(schema, &schemaDef); err != nil {
			panic("HARNESS: " + err.Error())
		}
		// the assertion format wants the body indented by 2 with sorted keys
		body, _ := json.MarshalIndent(map[string]interface{}{"storage": schemaDef}, "", "  ")
		as, err := s.signingDB.Sign(asserts.RegistryType, map[string]interface{}{
			"authority-id": s.accID,
			"account-id":   s.accID,
			"name":         name,
			"views":        views,
			"timestamp":    "2030-11-06T09:16:26Z",
		}, body, "")
		if err != nil {
			return err
		}
		return assertstate.Add(st, as)
	}
	if err := sign("reg0", verifc30.ViewsDef(c), verifc30.SchemaJSON(c, true)); err != nil {
		return nil, "", err
	}
	other := map[string]interface{}{"v": map[string]interface{}{"rules": []interface{}{
		map[string]interface{}{"request": "p", "storage": "p"},
	}}}
	if err := sign("reg1", other, []byte(`{"schema":{"p":"any"}}`)); err != nil {
		panic("HARNESS: fixed registry refused: " + err.Error())
	}
	return st, s.accID, nil
}

func c30Bags(st *state.State, accID string) map[string]verifc30.Bag {
	var databags map[string]map[string]registry.JSONDataBag
	out := map[string]verifc30.Bag{}
	if err := st.Get("registry-databags", &databags); err != nil {
		return out
	}
	for name, bag := range databags[accID] {
		b, err := verifc30.BagContent(bag)
		if err != nil {
			panic("HARNESS: stored bag unreadable: " + err.Error())
		}
		out[name] = b
	}
	return out
}

// c30Diff lists the minimal storage paths whose content differs.
func c30Diff(a, b interface{}, path []string) [][]string {
	am, aok := a.(map[string]interface{})
	bm, bok := b.(map[string]interface{})
	if aok && bok {
		var out [][]string
		keys := map[string]bool{}
		for k := range am {
			keys[k] = true
		}
		for k := range bm {
			keys[k] = true
		}
		for _, k := range verifkit.SortedKeys(keys) {
			av, ain := am[k]
			bv, bin := bm[k]
			p := append(append([]string{}, path...), k)
			switch {
			case ain && bin:
				out = append(out, c30Diff(av, bv, p)...)
			default:
				out = append(out, p)
			}
		}
		return out
	}
	if reflect.DeepEqual(a, b) {
		return nil
	}
	return [][]string{path}
}

// c30Touchable: the changed path lies on (above, at or below) a storage path
// that a writable rule maps for the request field.
func c30Touchable(m *verifc30.Model, fields map[string]interface{}, changed []string) bool {
	for field := range fields {
		if !verifc30.ValidRequest(field) {
			continue
		}
		req := verifc30.Split(field)
		for _, f := range m.Matching(req) {
			if !f.Writable() {
				continue
			}
			bound := map[string]string{}
			for i, seg := range req {
				if verifc30.IsPH(f.Req[i]) {
					bound[f.Req[i]] = seg
				}
			}
			ok := true
			for j := 0; j < len(f.Sto) && j < len(changed); j++ {
				seg := f.Sto[j]
				if verifc30.IsPH(seg) {
					b, isBound := bound[seg]
					if !isBound {
						continue
					}
					seg = b
				}
				if seg != changed[j] {
					ok = false
					break
				}
			}
			if ok {
				return true
			}
		}
	}
	return false
}

func c30RunSystem(c verifc30.Case) (verifkit.Outcome, error) {
	stt := &verifc30.Stats{}
	m := verifc30.NewModel(c)
	st, accID, refused := c30World(c)
	if refused != nil {
		return verifkit.Outcome{Skip: true, Labels: []string{"view-refused"}}, nil
	}
	st.Lock()
	defer st.Unlock()

	// seeds: the registry's databag as left by earlier requests
	seedBag := registry.NewJSONDataBag()
	seedModel := verifc30.Bag{}
	if err := m.ApplySeeds(c, seedBag, seedModel); err != nil {
		panic("HARNESS: seed refused: " + err.Error())
	}
	if len(seedModel) > 0 {
		st.Set("registry-databags", map[string]map[string]registry.JSONDataBag{accID: {"reg0": seedBag}})
	}
	fail := func(err error) (verifkit.Outcome, error) { return stt.Outcome(c, ""), err }

	for n, op := range c.Ops {
		regName := "reg0"
		if op.Reg == 1 {
			regName = "reg1"
		}
		when := fmt.Sprintf("op %d (%s %s %s)", n, op.Kind, regName, verifc30.JS(op.Fields))
		switch op.Kind {
		case "set":
			if len(op.Fields) == 0 {
				continue
			}
			fields := verifc30.DeepCopy(op.Fields).(map[string]interface{})
			before := c30Bags(st, accID)
			spins := false
			if op.Reg == 0 {
				for field, val := range op.Fields {
					if m.SetSpins(field, val) {
						spins = true
					}
				}
			}
			var err error
			if spins {
				stt.Label("unused-empty-map")
				var verdict error
				err, verdict = verifc30.Guarded(when, func() error { return registrystate.SetViaView(st, accID, regName, "v", fields) })
				if verdict != nil {
					return fail(verdict)
				}
			} else {
				err = registrystate.SetViaView(st, accID, regName, "v", fields)
			}
			after := c30Bags(st, accID)
			for name, b := range before {
				if name == regName {
					continue
				}
				if !verifc30.Same(b, after[name]) {
					if _, had := before[regName]; !had && after[name] == nil {
						return fail(verifkit.Knownf(FOtherRegistryWiped, "unrelated: %s: the first commit of %s's databag dropped the databag of %s (%s)", when, regName, name, verifc30.JS(b)))
					}
					return fail(verifkit.Violatef("unrelated: %s changed the databag of %s: %s -> %s", when, name, verifc30.JS(b), verifc30.JS(after[name])))
				}
			}
			if op.Reg == 1 {
				if err != nil {
					return fail(verifkit.Violatef("%s refused: %v", when, err))
				}
				continue
			}
			old, cur := before[regName], after[regName]
			if old == nil {
				old = verifc30.Bag{}
			}
			if cur == nil {
				cur = verifc30.Bag{}
			}
			allMatch := true
			for field, val := range op.Fields {
				kind := "set"
				if val == nil {
					kind = "unset"
				}
				stt.NoteWrite(m, kind, field, val, err)
				if !verifc30.ValidRequest(field) || !c30AnyWritable(m, field) {
					allMatch = false
				}
			}
			if len(op.Fields) > 1 {
				// one verdict for the whole request
				if err != nil {
					stt.Rejected -= len(op.Fields) - 1
				} else {
					stt.Accepted -= len(op.Fields) - 1
				}
			}
			if err != nil {
				if verifc30.JS(old) != verifc30.JS(cur) {
					return fail(verifkit.Violatef("rejection: %s was refused (%v) but the stored databag changed: %s -> %s", when, err, verifc30.JS(old), verifc30.JS(cur)))
				}
				continue
			}
			if !allMatch {
				return fail(verifkit.Violatef("access: %s accepted although a field is malformed or matches no writable rule (rules %v)", when, m.Rules))
			}
			if !m.ValidData(cur) {
				return fail(verifkit.Violatef("rejection: %s accepted and stored %s which violates the storage schema %s", when, verifc30.JS(cur), verifc30.SchemaJSON(c, true)))
			}
			for _, changed := range c30Diff(map[string]interface{}(old), map[string]interface{}(cur), nil) {
				if !c30Touchable(m, op.Fields, changed) {
					return fail(verifkit.Violatef("access: %s changed storage path %q (%s -> %s) which no writable rule maps for the request (rules %v)", when, strings.Join(changed, "."), verifc30.JS(old), verifc30.JS(cur), m.Rules))
				}
			}
			if len(op.Fields) == 1 {
				for field, val := range op.Fields {
					if val == nil {
						continue
					}
					// writes unknown at this level: one pseudo write marks "something was written"
					wrote := []verifc30.Call{}
					if verifc30.JS(old) != verifc30.JS(cur) {
						wrote = append(wrote, verifc30.Call{Op: "set"})
					}
					applies, exact, rule := m.RYW(field, val, wrote)
					if !applies {
						continue
					}
					stt.RYW++
					res, gerr := registrystate.GetViaView(st, accID, regName, "v", []string{field})
					var got interface{}
					if gerr == nil {
						rm, ok := res.(map[string]interface{})
						if !ok || len(rm) != 1 {
							return fail(verifkit.Violatef("read-your-write: GetViaView(%q) returned %s", field, verifc30.JS(res)))
						}
						got = rm[field]
					}
					if verr := verifc30.CheckRYW(field, val, exact, rule, got, gerr); verr != nil {
						return fail(verr)
					}
				}
			}
		case "get":
			var fields []string
			for f := range op.Fields {
				fields = append(fields, f)
			}
			before := c30Bags(st, accID)
			res, err := registrystate.GetViaView(st, accID, regName, "v", fields)
			if after := c30Bags(st, accID); verifc30.JS(before) != verifc30.JS(after) {
				return fail(verifkit.Violatef("%s: a Get changed the stored databags: %s -> %s", when, verifc30.JS(before), verifc30.JS(after)))
			}
			if err != nil || len(fields) == 0 || op.Reg == 1 {
				continue
			}
			rm, ok := res.(map[string]interface{})
			if !ok {
				return fail(verifkit.Violatef("%s returned %s", when, verifc30.JS(res)))
			}
			for k := range rm {
				if _, asked := op.Fields[k]; !asked {
					return fail(verifkit.Violatef("access: %s returned field %q that was not asked for", when, k))
				}
				// "" asks for the whole view
				if (k != "" && !verifc30.ValidRequest(k)) || !c30AnyReadable(m, k) {
					return fail(verifkit.Violatef("access: %s returned a value for %q which no readable rule matches (rules %v)", when, k, m.Rules))
				}
				if m.MixedAccess(verifc30.Split(k)) {
					stt.Mixed = true
				}
			}
		}
	}
	return stt.Outcome(c, ""), nil
}

func c30AnyWritable(m *verifc30.Model, field string) bool {
	for _, f := range m.Matching(verifc30.Split(field)) {
		if f.Writable() {
			return true
		}
	}
	return false
}

func c30AnyReadable(m *verifc30.Model, field string) bool {
	for _, f := range m.Matching(verifc30.Split(field)) {
		if f.Readable() {
			return true
		}
	}
	return false
}

func TestVerifC30System(t *testing.T) {
	c30Signer()
	verifkit.Check(t, verifkit.Spec[verifc30.Case]{
		ID: "C30", Engine: "system",
		Gen: func(t *rapid.T) verifc30.Case {
			return verifc30.GenRequests(t, verifkit.Size(16, 22))
		},
		Run:             c30RunSystem,
		Floors:          map[string]float64{"multi-access": 0.2, "prefix-map": 0.2, "reject-after-accept": 0.2, "typed": 0.2, "ryw-checked": 0.15},
		NonTrivialFloor: 0.5,
	})
}
