// Package verifc07 hosts the C07 harness: one TaskRunner on which the REAL
// hookstate, snapstate, ifacestate and devicestate manager constructors have
// registered their blocked predicates (in production order); every handler is
// then replaced by a blocking stub so the completion schedule is an input.
//
// Exported API used only: state.New/NewTaskRunner/AddHandler/AddCleanup,
// hookstate.Manager, snapstate.Manager, ifacestate.Manager, devicestate.Manager.
package verifc07

import (
	"errors"
	"fmt"
	"os"
	"sort"
	"strings"
	"sync"
	"testing"
	"time"

	"gopkg.in/tomb.v2"
	"pgregory.net/rapid"

	"github.com/snapcore/snapd/dirs"
	"github.com/snapcore/snapd/overlord/devicestate"
	"github.com/snapcore/snapd/overlord/hookstate"
	"github.com/snapcore/snapd/overlord/ifacestate"
	"github.com/snapcore/snapd/overlord/snapstate"
	"github.com/snapcore/snapd/overlord/state"
	"github.com/snapcore/snapd/verifkit"
)

// classes, written from the property statement
var c07IfaceKinds = map[string]bool{
	"connect": true, "disconnect": true, "setup-profiles": true, "remove-profiles": true, "discard-conns": true,
	"auto-connect": true, "auto-disconnect": true, "hotplug-add-slot": true, "hotplug-connect": true,
	"hotplug-update-slot": true, "hotplug-remove-slot": true, "hotplug-disconnect": true, "transition-ubuntu-core": true,
}

var c07Kinds = []string{
	"run-hook", "run-hook", "run-hook",
	"connect", "disconnect", "setup-profiles", "remove-profiles", "discard-conns", "auto-connect", "auto-disconnect",
	"hotplug-add-slot", "hotplug-connect", "hotplug-update-slot", "hotplug-remove-slot", "hotplug-disconnect", "transition-ubuntu-core",
	"hotplug-seq-wait",
	"prerequisites", "prerequisites",
	"update-gadget-assets",
	"link-snap", "download-snap", "mount-snap", "set-model", "prepare-remodeling", "request-serial",
}

var c07CleanupKinds = map[string]bool{"set-model": true, "prepare-remodeling": true}

type c07Task struct {
	Kind  string `json:"kind"`
	Snap  int    `json:"snap"` // run-hook: 0..2 snap index, -1 no hook-setup, -2 malformed hook-setup
	Hook  string `json:"hook,omitempty"`
	Chg   int    `json:"chg"`
	Waits []int  `json:"waits,omitempty"`
	Fail  bool   `json:"fail,omitempty"`
}

type c07Op struct {
	Op  string `json:"op"` // ensure | release | abort
	Arg int    `json:"arg,omitempty"`
}

type c07Case struct {
	Tasks    []c07Task `json:"tasks"`
	NChanges int       `json:"nchanges"`
	Ops      []c07Op   `json:"ops"`
}

type c07Backend struct {
	mu   sync.Mutex
	soon bool
}

func (b *c07Backend) Checkpoint([]byte) error { return nil }
func (b *c07Backend) EnsureBefore(d time.Duration) {
	b.mu.Lock()
	b.soon = true
	b.mu.Unlock()
}

type c07Blocked struct {
	phase string
	ch    chan struct{}
	tb    *tomb.Tomb
}

type c07Run struct {
	c       c07Case
	st      *state.State
	r       *state.TaskRunner
	be      *c07Backend
	tasks   []*state.Task
	chgs    []*state.Change
	index   map[string]int
	mu      sync.Mutex
	blocked map[int]*c07Blocked
	arrived chan int
	viol    []string
	history []string
	contended map[string]bool
}

func (h *c07Run) logf(f string, a ...interface{}) { h.history = append(h.history, fmt.Sprintf(f, a...)) }

func (h *c07Run) snapOf(i int) (string, bool) {
	ts := h.c.Tasks[i]
	if ts.Kind != "run-hook" || ts.Snap < 0 {
		return "", false
	}
	return fmt.Sprintf("snap%d", ts.Snap), true
}

// onStart: called under state lock + h.mu when handler i (do/undo) starts;
// judges the exclusions against everything currently between start and release.
func (h *c07Run) onStart(i int, phase string) {
	kind := h.c.Tasks[i].Kind
	var others []int
	for j, b := range h.blocked {
		if j != i && b.phase != "cleanup" {
			others = append(others, j)
		}
	}
	sort.Ints(others)
	for _, j := range others {
		ok := h.c.Tasks[j].Kind
		if si, isHook := h.snapOf(i); isHook {
			if sj, isHook2 := h.snapOf(j); isHook2 && si == sj {
				h.viol = append(h.viol, fmt.Sprintf("two hooks of snap %s run at once: task %d started while task %d is running", si, i, j))
			}
		}
		if c07IfaceKinds[kind] && c07IfaceKinds[ok] {
			h.viol = append(h.viol, fmt.Sprintf("two interface tasks run at once: %s (task %d) started while %s (task %d) is running", kind, i, ok, j))
		}
		if kind == "prerequisites" && ok == "prerequisites" {
			h.viol = append(h.viol, fmt.Sprintf("two prerequisites tasks run at once: task %d started while task %d is running", i, j))
		}
		if kind == "update-gadget-assets" || ok == "update-gadget-assets" {
			h.viol = append(h.viol, fmt.Sprintf("update-gadget-assets runs alongside another task: %s (task %d) started while %s (task %d) is running", kind, i, ok, j))
		}
	}
	h.logf("    start %s %s(%d) with running %v", phase, kind, i, others)
}

func (h *c07Run) handler(phase string) state.HandlerFunc {
	return func(t *state.Task, tb *tomb.Tomb) error {
		st := t.State()
		st.Lock()
		i := h.index[t.ID()]
		h.mu.Lock()
		if phase != "cleanup" {
			h.onStart(i, phase)
		}
		b := &c07Blocked{phase: phase, ch: make(chan struct{}), tb: tb}
		h.blocked[i] = b
		h.mu.Unlock()
		st.Unlock()
		h.arrived <- i
		<-b.ch
		if phase == "do" && h.c.Tasks[i].Fail {
			return errors.New("boom")
		}
		return nil
	}
}

func newC07Run(c c07Case) (*c07Run, error) {
	h := &c07Run{c: c, be: &c07Backend{}, index: map[string]int{}, blocked: map[int]*c07Blocked{}, arrived: make(chan int, 256), contended: map[string]bool{}}
	h.st = state.New(h.be)
	h.r = state.NewTaskRunner(h.st)
	hookMgr, err := hookstate.Manager(h.st, h.r)
	if err != nil {
		return nil, err
	}
	if _, err := snapstate.Manager(h.st, h.r); err != nil {
		return nil, err
	}
	if _, err := ifacestate.Manager(h.st, hookMgr, h.r, nil, nil); err != nil {
		return nil, err
	}
	if _, err := devicestate.Manager(h.st, hookMgr, h.r, nil); err != nil {
		return nil, err
	}
	known := map[string]bool{}
	for _, k := range h.r.KnownTaskKinds() {
		known[k] = true
	}
	for _, k := range c07Kinds {
		if !known[k] {
			return nil, fmt.Errorf("kind %q is not registered by the real managers any more", k)
		}
	}
	for k := range known {
		h.r.AddHandler(k, h.handler("do"), h.handler("undo"))
	}
	for k := range c07CleanupKinds {
		h.r.AddCleanup(k, h.handler("cleanup"))
	}
	h.st.Lock()
	defer h.st.Unlock()
	for i := 0; i < c.NChanges; i++ {
		h.chgs = append(h.chgs, h.st.NewChange(fmt.Sprintf("chg%d", i), "..."))
	}
	for i, ts := range c.Tasks {
		t := h.st.NewTask(ts.Kind, fmt.Sprintf("task-%d", i))
		if ts.Kind == "run-hook" {
			switch {
			case ts.Snap >= 0:
				t.Set("hook-setup", &hookstate.HookSetup{Snap: fmt.Sprintf("snap%d", ts.Snap), Hook: ts.Hook})
			case ts.Snap == -2:
				t.Set("hook-setup", []int{1, 2})
			}
		}
		h.tasks = append(h.tasks, t)
		h.index[t.ID()] = i
	}
	for i, ts := range c.Tasks {
		for _, w := range ts.Waits {
			h.tasks[i].WaitFor(h.tasks[w])
		}
		h.chgs[ts.Chg].AddTask(h.tasks[i])
	}
	return h, nil
}

func (h *c07Run) expectedRunning() int {
	h.st.Lock()
	defer h.st.Unlock()
	n := 0
	for i, t := range h.tasks {
		s := t.Status()
		switch {
		case s == state.DoingStatus || s == state.UndoingStatus:
			n++
		case s == state.AbortStatus:
			h.mu.Lock()
			if _, ok := h.blocked[i]; ok {
				n++
			}
			h.mu.Unlock()
		case s.Ready() && !t.IsClean() && c07CleanupKinds[t.Kind()] && t.Change().IsReady():
			// Ensure starts a cleanup goroutine for every such task
			n++
		}
	}
	return n
}

func (h *c07Run) numBlocked() int {
	h.mu.Lock()
	defer h.mu.Unlock()
	return len(h.blocked)
}

func (h *c07Run) settle() {
	// wait until every task the runner put in Doing/Undoing has reached its blocking point
	deadline := time.Now().Add(20 * time.Second)
	for h.numBlocked() < h.expectedRunning() {
		select {
		case <-h.arrived:
		case <-time.After(50 * time.Millisecond):
			if time.Now().After(deadline) {
				panic("HARNESS: handler did not arrive")
			}
		}
	}
	for {
		select {
		case <-h.arrived:
		default:
			return
		}
	}
}

func (h *c07Run) snapshot() string {
	h.st.Lock()
	defer h.st.Unlock()
	var sb strings.Builder
	for _, t := range h.tasks {
		sb.WriteString(t.Status().String())
		if t.IsClean() {
			sb.WriteByte('c')
		}
		sb.WriteByte(',')
	}
	return sb.String() + fmt.Sprint(h.numBlocked())
}

// noteContention records which exclusive classes have >= 2 simultaneously runnable members.
func (h *c07Run) noteContention() {
	h.st.Lock()
	defer h.st.Unlock()
	hooks := map[string]int{}
	iface, prereq, gadget, any := 0, 0, 0, 0
	for i, t := range h.tasks {
		s := t.Status()
		runnable := false
		if s == state.DoStatus {
			runnable = true
			for _, w := range t.WaitTasks() {
				if w.Status() != state.DoneStatus {
					runnable = false
				}
			}
		}
		if s == state.DoingStatus || s == state.UndoingStatus {
			runnable = true
		}
		if !runnable {
			continue
		}
		any++
		k := h.c.Tasks[i].Kind
		if sn, ok := h.snapOf(i); ok {
			hooks[sn]++
		}
		if c07IfaceKinds[k] {
			iface++
		}
		if k == "prerequisites" {
			prereq++
		}
		if k == "update-gadget-assets" {
			gadget++
		}
	}
	for _, n := range hooks {
		if n >= 2 {
			h.contended["hooks"] = true
		}
	}
	if iface >= 2 {
		h.contended["iface"] = true
	}
	if prereq >= 2 {
		h.contended["prerequisites"] = true
	}
	if gadget >= 1 && any >= 2 {
		h.contended["gadget"] = true
	}
}

func (h *c07Run) ensure() {
	for pass := 0; pass < len(h.tasks)+4; pass++ {
		before := h.snapshot()
		h.noteContention()
		h.be.mu.Lock()
		h.be.soon = false
		h.be.mu.Unlock()
		h.r.Ensure()
		h.settle()
		if h.snapshot() == before {
			break
		}
	}
}

func (h *c07Run) blockedSorted() []int {
	h.mu.Lock()
	defer h.mu.Unlock()
	var ids []int
	for i := range h.blocked {
		ids = append(ids, i)
	}
	sort.Ints(ids)
	return ids
}

func (h *c07Run) release(i int) {
	h.mu.Lock()
	b := h.blocked[i]
	delete(h.blocked, i)
	h.mu.Unlock()
	h.logf("  release %s(%d)", b.phase, i)
	close(b.ch)
	b.tb.Wait()
}

func (h *c07Run) drain() bool {
	for step := 0; step < 60*len(h.tasks)+100; step++ {
		h.ensure()
		if ids := h.blockedSorted(); len(ids) > 0 {
			h.release(ids[0])
			continue
		}
		h.be.mu.Lock()
		soon := h.be.soon
		h.be.mu.Unlock()
		if soon {
			continue
		}
		return true
	}
	return false
}

func (h *c07Run) abandon() {
	h.mu.Lock()
	bs := h.blocked
	h.blocked = map[int]*c07Blocked{}
	h.mu.Unlock()
	for _, b := range bs {
		close(b.ch)
	}
	for _, b := range bs {
		b.tb.Wait()
	}
}

func c07Valid(c c07Case) bool {
	if len(c.Tasks) == 0 || c.NChanges < 1 {
		return false
	}
	for i, ts := range c.Tasks {
		if ts.Chg < 0 || ts.Chg >= c.NChanges {
			return false
		}
		okKind := false
		for _, k := range c07Kinds {
			if k == ts.Kind {
				okKind = true
			}
		}
		if !okKind {
			return false
		}
		for _, w := range ts.Waits {
			if w < 0 || w >= i {
				return false
			}
		}
	}
	return true
}

func c07Exec(c c07Case) (verifkit.Outcome, error) {
	o := verifkit.Outcome{}
	if !c07Valid(c) {
		o.Skip = true
		return o, nil
	}
	h, err := newC07Run(c)
	if err != nil {
		panic("HARNESS: " + err.Error())
	}
	for _, op := range c.Ops {
		switch op.Op {
		case "ensure":
			h.logf("  ensure")
			h.ensure()
		case "release":
			if ids := h.blockedSorted(); len(ids) > 0 {
				h.release(ids[op.Arg%len(ids)])
			} else {
				h.ensure()
			}
		case "abort":
			h.st.Lock()
			chg := h.chgs[op.Arg%len(h.chgs)]
			if !chg.IsReady() {
				h.logf("  abort %s", chg.Kind())
				chg.Abort()
			}
			h.st.Unlock()
		}
		if len(h.viol) > 0 {
			break
		}
	}
	settled := true
	if len(h.viol) == 0 {
		settled = h.drain()
	}
	h.abandon()
	for cl := range h.contended {
		o.Labels = append(o.Labels, "contended-"+cl)
	}
	sort.Strings(o.Labels)
	o.NonTrivial = len(h.contended) > 0
	tail := h.history
	if len(tail) > 50 {
		tail = tail[len(tail)-50:]
	}
	if len(h.viol) > 0 {
		return o, verifkit.Violatef("C07: %s\n%s", h.viol[0], strings.Join(tail, "\n"))
	}
	if !settled {
		return o, verifkit.Violatef("C07: tasks left blocked although nothing is running (did not settle)\n%s", strings.Join(tail, "\n"))
	}
	h.st.Lock()
	defer h.st.Unlock()
	for i, t := range h.tasks {
		if !t.Status().Ready() {
			return o, verifkit.Violatef("C07: task %d (%s) left in %s with nothing running\n%s", i, t.Kind(), t.Status(), strings.Join(tail, "\n"))
		}
	}
	return o, nil
}

func c07Gen(t *rapid.T) c07Case {
	c := c07Case{NChanges: rapid.IntRange(1, 4).Draw(t, "nchg")}
	n := rapid.IntRange(2, verifkit.Size(9, 14)).Draw(t, "n")
	focus := rapid.SampledFrom([]string{"", "", "run-hook", "iface", "prerequisites", "update-gadget-assets"}).Draw(t, "focus")
	dens := rapid.IntRange(0, 4).Draw(t, "density")
	for i := 0; i < n; i++ {
		kind := rapid.SampledFrom(c07Kinds).Draw(t, "kind")
		if focus != "" && rapid.IntRange(0, 2).Draw(t, "usefocus") > 0 {
			switch focus {
			case "iface":
				kind = rapid.SampledFrom(c07Kinds[3:16]).Draw(t, "ikind")
			default:
				kind = focus
			}
		}
		ts := c07Task{Kind: kind, Chg: rapid.IntRange(0, c.NChanges-1).Draw(t, "chg"), Snap: -1}
		if kind == "run-hook" {
			ts.Snap = rapid.SampledFrom([]int{0, 0, 0, 1, 1, 2, -1, -2}).Draw(t, "snap")
			ts.Hook = rapid.SampledFrom([]string{"configure", "install", "connect-plug-x", "configure"}).Draw(t, "hook")
		}
		for j := 0; j < i; j++ {
			if c.Tasks[j].Chg == ts.Chg && rapid.IntRange(0, 9).Draw(t, "edge") < dens {
				ts.Waits = append(ts.Waits, j)
			}
		}
		ts.Fail = rapid.IntRange(0, 11).Draw(t, "fail") == 0
		c.Tasks = append(c.Tasks, ts)
	}
	nops := rapid.IntRange(0, 4*n).Draw(t, "nops")
	for i := 0; i < nops; i++ {
		op := c07Op{Op: rapid.SampledFrom([]string{"ensure", "ensure", "release", "release", "release", "abort"}).Draw(t, "op")}
		if op.Op != "ensure" {
			op.Arg = rapid.IntRange(0, 7).Draw(t, "arg")
		}
		c.Ops = append(c.Ops, op)
	}
	return c
}

func TestVerifC07(t *testing.T) {
	dir, err := os.MkdirTemp("", "c07")
	if err != nil {
		t.Fatal(err)
	}
	defer os.RemoveAll(dir)
	dirs.SetRootDir(dir)
	defer dirs.SetRootDir("/")
	verifkit.Check(t, verifkit.Spec[c07Case]{
		ID: "C07", Engine: "sched",
		Gen: c07Gen,
		Run: c07Exec,
		Floors: map[string]float64{"contended-hooks": 0.08, "contended-iface": 0.15, "contended-prerequisites": 0.08, "contended-gadget": 0.10},
		NonTrivialFloor: 0.4,
	})
}
