package ctlcmd

// C25 — non-root callers can only run snapctl's read-only commands.
//
// Unexported identifiers used: commands (the registration table, only its
// generator field is replaced, per case, and restored), the command struct types
// (embedded in the spies so that go-flags sees exactly the real option set),
// kmodCheckConnection/kmodLoadModule/kmodUnloadModule (safety mocks), Run.
//
// Observation: every registered command is replaced by a spy that embeds the real
// command struct and overrides Execute to note "command X ran".  The real
// Run(ctx, argv, uid) is called: real gate, real go-flags parser, real dispatch.
// kmod's sub-commands carry their own Execute on field types the spy cannot
// override; they run with a nil context where their first action (ensureContext)
// yields *MissingContextError — that is the observation "a kmod sub-command
// started executing" (its effect functions are mocked as a second line).
//
// Oracle (from the property statement; the allow list below is the statement's
// list, it is NOT read from nonRootAllowed):
//   O1  uid != 0 and command X ran          => X is one of the six read-only commands
//   O2  uid != 0 and nothing ran            => the result is a ForbiddenCommandError or a
//                                             go-flags error (help, usage, parse); no output
//   O3  uid == 0                             => never a ForbiddenCommandError; every registered
//                                             command runs from its minimal argv (enum engine)
//   O4  whatever a non-root caller may run, root runs too (same argv, same command)
//   O5  argv[0] is a read-only command       => non-root gets exactly what root gets
//                                             ("can be performed even when ... not by root")
//   O6  at most one command runs per invocation
// uid 0 with the same argv is the differential telling which command the parser selects.

import (
	"encoding/json"
	"fmt"
	"os"
	"reflect"
	"sort"
	"strings"
	"testing"

	"github.com/jessevdk/go-flags"

	"github.com/snapcore/snapd/overlord/hookstate"
	"github.com/snapcore/snapd/verifkit"
	"pgregory.net/rapid"
)

// the statement's list
var c25ReadOnly = map[string]bool{"get": true, "services": true, "set-health": true, "is-connected": true, "system-mode": true, "model": true}

// ---- spies ------------------------------------------------------------------

var c25Ran []string

func c25Note(name string) error {
	c25Ran = append(c25Ran, name)
	return nil
}

type c25SpyFdeSetupRequest struct{ fdeSetupRequestCommand }
type c25SpyFdeSetupResult struct{ fdeSetupResultCommand }
type c25SpyGet struct{ getCommand }
type c25SpyHealth struct{ healthCommand }
type c25SpyInstall struct{ installCommand }
type c25SpyIsConnected struct{ isConnectedCommand }
type c25SpyKmod struct{ kmodCommand }
type c25SpyModel struct{ modelCommand }
type c25SpyMount struct{ mountCommand }
type c25SpyReboot struct{ rebootCommand }
type c25SpyRefresh struct{ refreshCommand }
type c25SpyRemove struct{ removeCommand }
type c25SpyRestart struct{ restartCommand }
type c25SpyServices struct{ servicesCommand }
type c25SpySet struct{ setCommand }
type c25SpyStart struct{ startCommand }
type c25SpyStop struct{ stopCommand }
type c25SpySystemMode struct{ systemModeCommand }
type c25SpyUmount struct{ umountCommand }
type c25SpyUnset struct{ unsetCommand }

func (*c25SpyFdeSetupRequest) Execute([]string) error { return c25Note("fde-setup-request") }
func (*c25SpyFdeSetupResult) Execute([]string) error  { return c25Note("fde-setup-result") }
func (*c25SpyGet) Execute([]string) error             { return c25Note("get") }
func (*c25SpyHealth) Execute([]string) error          { return c25Note("set-health") }
func (*c25SpyInstall) Execute([]string) error         { return c25Note("install") }
func (*c25SpyIsConnected) Execute([]string) error     { return c25Note("is-connected") }
func (*c25SpyKmod) Execute([]string) error            { return c25Note("kmod") }
func (*c25SpyModel) Execute([]string) error           { return c25Note("model") }
func (*c25SpyMount) Execute([]string) error           { return c25Note("mount") }
func (*c25SpyReboot) Execute([]string) error          { return c25Note("reboot") }
func (*c25SpyRefresh) Execute([]string) error         { return c25Note("refresh") }
func (*c25SpyRemove) Execute([]string) error          { return c25Note("remove") }
func (*c25SpyRestart) Execute([]string) error         { return c25Note("restart") }
func (*c25SpyServices) Execute([]string) error        { return c25Note("services") }
func (*c25SpySet) Execute([]string) error             { return c25Note("set") }
func (*c25SpyStart) Execute([]string) error           { return c25Note("start") }
func (*c25SpyStop) Execute([]string) error            { return c25Note("stop") }
func (*c25SpySystemMode) Execute([]string) error      { return c25Note("system-mode") }
func (*c25SpyUmount) Execute([]string) error          { return c25Note("umount") }
func (*c25SpyUnset) Execute([]string) error           { return c25Note("unset") }

var c25Spies = map[string]func() command{
	"fde-setup-request": func() command { return &c25SpyFdeSetupRequest{} },
	"fde-setup-result":  func() command { return &c25SpyFdeSetupResult{} },
	"get":               func() command { return &c25SpyGet{} },
	"set-health":        func() command { return &c25SpyHealth{} },
	"install":           func() command { return &c25SpyInstall{} },
	"is-connected":      func() command { return &c25SpyIsConnected{} },
	"kmod": func() command {
		s := &c25SpyKmod{}
		s.InsertCmd.kmod = &s.kmodCommand
		s.RemoveCmd.kmod = &s.kmodCommand
		return s
	},
	"model":       func() command { return &c25SpyModel{} },
	"mount":       func() command { return &c25SpyMount{} },
	"reboot":      func() command { return &c25SpyReboot{} },
	"refresh":     func() command { return &c25SpyRefresh{} },
	"remove":      func() command { return &c25SpyRemove{} },
	"restart":     func() command { return &c25SpyRestart{} },
	"services":    func() command { return &c25SpyServices{} },
	"set":         func() command { return &c25SpySet{} },
	"start":       func() command { return &c25SpyStart{} },
	"stop":        func() command { return &c25SpyStop{} },
	"system-mode": func() command { return &c25SpySystemMode{} },
	"umount":      func() command { return &c25SpyUmount{} },
	"unset":       func() command { return &c25SpyUnset{} },
}

// ---- command table harvested by reflection ----------------------------------------

type c25Opt struct {
	Short, Long string
	Valued      bool
}

type c25Cmd struct {
	Name   string
	Opts   []c25Opt
	Subs   []c25Cmd
	ReqPos int
}

func c25Walk(t reflect.Type, ci *c25Cmd) {
	for i := 0; i < t.NumField(); i++ {
		f := t.Field(i)
		if sub := f.Tag.Get("command"); sub != "" && f.Type.Kind() == reflect.Struct {
			s := c25Cmd{Name: sub}
			c25Walk(f.Type, &s)
			ci.Subs = append(ci.Subs, s)
			continue
		}
		if f.Tag.Get("positional-args") != "" && f.Type.Kind() == reflect.Struct {
			for j := 0; j < f.Type.NumField(); j++ {
				if f.Type.Field(j).Tag.Get("required") != "" {
					ci.ReqPos++
				}
			}
			continue
		}
		sh, lo := f.Tag.Get("short"), f.Tag.Get("long")
		if sh != "" || lo != "" {
			ci.Opts = append(ci.Opts, c25Opt{Short: sh, Long: lo, Valued: f.Type.Kind() != reflect.Bool})
			continue
		}
		if f.Type.Kind() == reflect.Struct {
			c25Walk(f.Type, ci)
		}
	}
}

type c25Table struct {
	cmds       []c25Cmd // sorted by name
	byName     map[string]c25Cmd
	names      []string
	restricted []c25Cmd // registered and not in the statement's list
	valued     []c25Cmd // restricted commands that have an option taking a value
	allOpts    []c25Opt
	orig       map[string]func() command
}

var c25Tab *c25Table

// c25Setup validates the spy table against the registered commands and harvests
// the option table.  Any mismatch is a harness problem (inconclusive), never green.
func c25Setup(t *testing.T) *c25Table {
	os.Unsetenv("GO_FLAGS_COMPLETION")
	if c25Tab != nil {
		return c25Tab
	}
	tab := &c25Table{byName: map[string]c25Cmd{}, orig: map[string]func() command{}}
	var problems []string
	for name := range c25Spies {
		if commands[name] == nil {
			problems = append(problems, fmt.Sprintf("spy for %q but no such registered command", name))
		}
	}
	for _, name := range verifkit.SortedKeys(commands) {
		info := commands[name]
		mk := c25Spies[name]
		if mk == nil {
			problems = append(problems, fmt.Sprintf("registered command %q has no spy", name))
			continue
		}
		ot := reflect.TypeOf(info.generator())
		st := reflect.TypeOf(mk())
		if ot.Kind() != reflect.Ptr || ot.Elem().Kind() != reflect.Struct || st.Kind() != reflect.Ptr {
			problems = append(problems, fmt.Sprintf("command %q: unexpected generator type %v", name, ot))
			continue
		}
		se := st.Elem()
		if se.NumField() != 1 || !se.Field(0).Anonymous || se.Field(0).Type != ot.Elem() || se.Field(0).Tag != "" {
			problems = append(problems, fmt.Sprintf("command %q: spy %v does not embed exactly the registered type %v", name, st, ot))
			continue
		}
		ci := c25Cmd{Name: name}
		c25Walk(ot.Elem(), &ci)
		tab.cmds = append(tab.cmds, ci)
		tab.byName[name] = ci
		tab.names = append(tab.names, name)
		tab.orig[name] = info.generator
		if !c25ReadOnly[name] {
			tab.restricted = append(tab.restricted, ci)
			for _, o := range ci.Opts {
				if o.Valued {
					tab.valued = append(tab.valued, ci)
					break
				}
			}
		}
		tab.allOpts = append(tab.allOpts, ci.Opts...)
		for _, s := range ci.Subs {
			tab.allOpts = append(tab.allOpts, s.Opts...)
		}
	}
	for name := range c25ReadOnly {
		if commands[name] == nil {
			problems = append(problems, fmt.Sprintf("the statement's read-only command %q is not registered", name))
		}
	}
	if len(problems) > 0 {
		sort.Strings(problems)
		t.Fatalf("HARNESS: spy table out of date, run is inconclusive:\n%s", strings.Join(problems, "\n"))
	}
	c25Tab = tab
	return tab
}

func c25Install(tab *c25Table) (restore func()) {
	for name, mk := range c25Spies {
		commands[name].generator = mk
	}
	r1 := MockKmodCheckConnection(func(*hookstate.Context, string, []string) error { c25Note("kmod"); return fmt.Errorf("c25 mock") })
	r2 := MockKmodLoadModule(func(string, []string) error { c25Note("kmod"); return fmt.Errorf("c25 mock") })
	r3 := MockKmodUnloadModule(func(string) error { c25Note("kmod"); return fmt.Errorf("c25 mock") })
	return func() {
		r3()
		r2()
		r1()
		for name, g := range tab.orig {
			commands[name].generator = g
		}
	}
}

// ---- one invocation ---------------------------------------------------------------

type c25Result struct {
	ran    []string
	kind   string // none | forbidden | help | parse:<type> | other:<type>
	err    error
	output int
}

func c25Invoke(argv []string, uid uint32) c25Result {
	c25Ran = nil
	args := append([]string(nil), argv...)
	stdout, stderr, err := Run(nil, args, uid)
	r := c25Result{err: err, output: len(stdout) + len(stderr)}
	switch e := err.(type) {
	case nil:
		r.kind = "none"
	case *ForbiddenCommandError:
		r.kind = "forbidden"
	case *MissingContextError:
		// only reachable from a kmod sub-command's own Execute: everything
		// else is a spy that never asks for the context
		c25Note("kmod")
		r.kind = "none"
	case *flags.Error:
		if e.Type == flags.ErrHelp {
			r.kind = "help"
		} else {
			r.kind = "parse:" + e.Type.String()
		}
	default:
		r.kind = fmt.Sprintf("other:%T", err)
	}
	r.ran = append([]string(nil), c25Ran...)
	c25Ran = nil
	return r
}

type c25Case struct {
	Argv []string
	Uid  uint32
}

func c25IsHelpTok(s string) bool { return s == "-h" || s == "--help" }

// c25Special: argv contains -h/--help (as a token or inside one), "--", or a token
// that gives a value to an option of the selected command.
func c25Special(tab *c25Table, cmd string, argv []string) (special bool, labels []string) {
	seen := map[string]bool{}
	dd := false
	for _, a := range argv {
		switch {
		case a == "--":
			dd = true
			seen["has-dashdash"] = true
		case c25IsHelpTok(a):
			if dd {
				seen["help-after-dashdash"] = true
			} else {
				seen["help-before-dashdash"] = true
			}
		case strings.Contains(a, "-h") && (strings.HasSuffix(a, "-h") || strings.HasSuffix(a, "--help")):
			seen["help-inside-token"] = true
		}
	}
	ci := tab.byName[cmd]
	opts := append([]c25Opt(nil), ci.Opts...)
	for _, s := range ci.Subs {
		opts = append(opts, s.Opts...)
	}
	for _, a := range argv {
		for _, o := range opts {
			if !o.Valued {
				continue
			}
			if o.Long != "" && (a == "--"+o.Long || strings.HasPrefix(a, "--"+o.Long+"=")) {
				seen["option-value"] = true
			}
			if o.Short != "" && strings.HasPrefix(a, "-"+o.Short) {
				seen["option-value"] = true
			}
		}
	}
	for k := range seen {
		labels = append(labels, k)
	}
	sort.Strings(labels)
	return len(labels) > 0, labels
}

// c25Run executes one argv as root and as the non-root uid and judges it.
// Labels[0] is the outcome class of the non-root call (a partition).
func c25Run(c c25Case) (verifkit.Outcome, error) {
	o := verifkit.Outcome{}
	tab := c25Tab
	if tab == nil {
		panic("HARNESS: c25Setup not called")
	}
	if len(c.Argv) == 0 || c.Uid == 0 {
		o.Skip = true
		return o, nil
	}
	restore := c25Install(tab)
	defer restore()

	root := c25Invoke(c.Argv, 0)
	user := c25Invoke(c.Argv, c.Uid)
	desc := fmt.Sprintf("argv=%q uid=%d: root ran %v (%s), non-root ran %v (%s)", c.Argv, c.Uid, root.ran, root.kind, user.ran, user.kind)
	o.Desc = desc

	// O1
	for _, x := range user.ran {
		if !c25ReadOnly[x] {
			return o, verifkit.Violatef("non-root uid %d executed %q, which is not a read-only command; %s", c.Uid, x, desc)
		}
	}
	// O6
	if len(user.ran) > 1 || len(root.ran) > 1 {
		return o, verifkit.Violatef("more than one command executed in one invocation; %s", desc)
	}
	// O2
	if len(user.ran) == 0 {
		ok := user.kind == "forbidden" || user.kind == "help" || strings.HasPrefix(user.kind, "parse:")
		if !ok {
			return o, verifkit.Violatef("non-root invocation neither ran a command nor failed with a forbidden/help/usage error (err=%v); %s", user.err, desc)
		}
		if user.output != 0 {
			return o, verifkit.Violatef("non-root invocation that ran no command produced %d bytes of command output; %s", user.output, desc)
		}
	}
	// O3
	if root.kind == "forbidden" {
		return o, verifkit.Violatef("root was refused: %v; %s", root.err, desc)
	}
	if len(root.ran) == 0 && !(root.kind == "help" || strings.HasPrefix(root.kind, "parse:")) {
		return o, verifkit.Violatef("root invocation neither ran a command nor failed with a help/usage error (err=%v); %s", root.err, desc)
	}
	// O4
	if len(user.ran) == 1 && (len(root.ran) != 1 || root.ran[0] != user.ran[0]) {
		return o, verifkit.Violatef("non-root ran %q but root did not run the same command; %s", user.ran[0], desc)
	}
	// O5
	if c25ReadOnly[c.Argv[0]] {
		if fmt.Sprint(user.ran) != fmt.Sprint(root.ran) || user.kind != root.kind {
			return o, verifkit.Violatef("read-only command %q behaves differently for non-root; %s", c.Argv[0], desc)
		}
	}

	// classification
	class := "user-" + user.kind
	switch {
	case len(user.ran) == 1:
		class = "user-ran-readonly"
	case strings.HasPrefix(user.kind, "parse:"):
		class = "user-usage-error"
	}
	o.Labels = []string{class}
	sel := ""
	if len(root.ran) == 1 {
		sel = root.ran[0]
	}
	special, sl := c25Special(tab, sel, c.Argv)
	if sel != "" && !c25ReadOnly[sel] {
		o.Labels = append(o.Labels, "root-ran-restricted")
		o.NonTrivial = special
		for _, l := range sl {
			o.Labels = append(o.Labels, "restricted+"+l)
		}
		if sel == "kmod" {
			o.Labels = append(o.Labels, "restricted-nested-kmod")
		}
	}
	return o, nil
}

// ---- generator --------------------------------------------------------------------

func c25Pick(t *rapid.T, label string, xs []string) string {
	return rapid.SampledFrom(xs).Draw(t, label)
}

var c25Values = []string{"val", "all", "ext4", "ro,bind", "7", "", "-1", "-x", "-h", "--help", "--", "-h", "--help", "-h=1", "x-h"}
var c25Free = []string{"foo", "a=b", "key", "svc", "snap.app", ":plug", "+comp", "snap+comp", "/mnt/x", "okay", "x-h", "a=--help", "a=-h",
	"-", "---", "", "insert", "remove", "set", "get", "mount", "help", "h"}
var c25HelpLike = []string{"-h", "--help", "-h", "--help", "-help", "--h", "-H", "--help=", "--help=1", "-h=1", "--HELP", "-?", " -h", "-hh", "--helpx"}
var c25AfterDD = []string{"-h", "--help", "-h", "--help", "--", "foo", "-t", "--halt", "--hold", "-x", "a=b"}
var c25Unknown = []string{"frob", "gets", "Get", "SET", "set ", "help", "snapctl", "sett", "kmod-insert"}

func c25Spell(t *rapid.T, tab *c25Table, o c25Opt, goodValue bool) []string {
	long, short := o.Long, o.Short
	if !o.Valued {
		form := rapid.IntRange(0, 9).Draw(t, "boolform")
		switch {
		case form <= 4 && long != "":
			return []string{"--" + long}
		case form == 5 && long != "":
			return []string{"--" + long + "=" + c25Pick(t, "boolval", []string{"true", "false", "-h", ""})}
		case short != "" && form <= 7:
			return []string{"-" + short}
		case short != "":
			other := c25Pick(t, "combine", []string{"h", "h", "t", "s", "d", "g", "u", "o", "x"})
			if rapid.Bool().Draw(t, "order") {
				return []string{"-" + short + other}
			}
			return []string{"-" + other + short}
		}
		return []string{"--" + long}
	}
	v := c25Pick(t, "value", c25Values)
	if goodValue {
		v = c25Pick(t, "goodvalue", []string{"val", "all", "ext4", "ro,bind", "7"})
	}
	form := rapid.IntRange(0, 9).Draw(t, "valform")
	switch {
	case form <= 2 && long != "":
		return []string{"--" + long + "=" + v}
	case form <= 4 && long != "":
		return []string{"--" + long, v}
	case form <= 6 && short != "":
		return []string{"-" + short + v}
	case form <= 8 && short != "":
		return []string{"-" + short, v}
	case short != "":
		return []string{"-" + short + "=" + v}
	}
	return []string{"--" + long + "=" + v}
}

func c25Insert(xs []string, pos int, s ...string) []string {
	out := append([]string(nil), xs[:pos]...)
	out = append(out, s...)
	return append(out, xs[pos:]...)
}

func c25GenStructured(t *rapid.T, tab *c25Table) []string {
	var cmd c25Cmd
	if w := rapid.IntRange(0, 11).Draw(t, "restricted"); w >= 9 && len(tab.valued) > 0 {
		cmd = tab.valued[rapid.IntRange(0, len(tab.valued)-1).Draw(t, "valuedcmd")]
	} else if w >= 2 {
		cmd = tab.restricted[rapid.IntRange(0, len(tab.restricted)-1).Draw(t, "cmd")]
	} else {
		cmd = tab.cmds[rapid.IntRange(0, len(tab.cmds)-1).Draw(t, "anycmd")]
	}
	var argv []string
	if rapid.IntRange(0, 13).Draw(t, "pre") == 0 {
		argv = append(argv, c25Pick(t, "pretok", []string{"-h", "--help", "--", "-t", "foo", "get", "model", "services", "--view", "-d"}))
	}
	argv = append(argv, cmd.Name)
	head := len(argv)
	cur := cmd
	if len(cmd.Subs) > 0 && rapid.IntRange(0, 11).Draw(t, "sub") > 0 {
		cur = cmd.Subs[rapid.IntRange(0, len(cmd.Subs)-1).Draw(t, "subcmd")]
		argv = append(argv, cur.Name)
	}
	// decoration plan
	plan := rapid.IntRange(0, 99).Draw(t, "plan")
	var pieces [][]string
	nopt := rapid.SampledFrom([]int{0, 0, 1, 1, 1, 2}).Draw(t, "nopt")
	hasValued := false
	for _, o := range cur.Opts {
		if o.Valued {
			hasValued = true
		}
	}
	for i := 0; i < nopt; i++ {
		var o c25Opt
		if len(cur.Opts) > 0 && rapid.IntRange(0, 7).Draw(t, "own") > 0 {
			o = cur.Opts[rapid.IntRange(0, len(cur.Opts)-1).Draw(t, "opt")]
		} else {
			o = tab.allOpts[rapid.IntRange(0, len(tab.allOpts)-1).Draw(t, "foreignopt")]
		}
		pieces = append(pieces, c25Spell(t, tab, o, false))
	}
	if hasValued && plan >= 55 && plan < 80 {
		// a valued option of the command itself, value joined (never validated by the parser) or separate
		var vo []c25Opt
		for _, o := range cur.Opts {
			if o.Valued {
				vo = append(vo, o)
			}
		}
		o := vo[rapid.IntRange(0, len(vo)-1).Draw(t, "vopt")]
		pieces = append(pieces, c25Spell(t, tab, o, plan < 62))
	}
	npos := cur.ReqPos + rapid.SampledFrom([]int{0, 0, 0, 1, 1, 2}).Draw(t, "extra")
	if cur.ReqPos > 0 && rapid.IntRange(0, 14).Draw(t, "short") == 0 {
		npos = cur.ReqPos - 1
	}
	for i := 0; i < npos; i++ {
		pieces = append(pieces, []string{c25Pick(t, "free", c25Free)})
	}
	if len(pieces) > 1 {
		pieces = rapid.Permutation(pieces).Draw(t, "order")
	}
	for _, p := range pieces {
		argv = append(argv, p...)
	}
	if plan < 55 || (!hasValued && plan < 80) {
		// "--" somewhere after the command, usually followed by help-looking tokens
		pos := rapid.IntRange(head, len(argv)).Draw(t, "ddpos")
		argv = c25Insert(argv, pos, "--")
		n := rapid.SampledFrom([]int{0, 1, 1, 1, 2}).Draw(t, "afterdd")
		for i := 0; i < n; i++ {
			p := rapid.IntRange(pos+1, len(argv)).Draw(t, "afterpos")
			argv = c25Insert(argv, p, c25Pick(t, "aftertok", c25AfterDD))
		}
	} else if plan >= 88 {
		pos := rapid.IntRange(0, len(argv)).Draw(t, "helppos")
		argv = c25Insert(argv, pos, c25Pick(t, "helptok", c25HelpLike))
	}
	return argv
}

func c25Pool(tab *c25Table) []string {
	pool := append([]string(nil), tab.names...)
	pool = append(pool, "insert", "remove", "-h", "--help", "-h", "--help", "--", "--", "--")
	pool = append(pool, c25Free...)
	pool = append(pool, c25HelpLike...)
	pool = append(pool, c25Unknown...)
	for _, o := range tab.allOpts {
		if o.Long != "" {
			pool = append(pool, "--"+o.Long)
			if o.Valued {
				pool = append(pool, "--"+o.Long+"=-h", "--"+o.Long+"=v")
			}
		}
		if o.Short != "" {
			pool = append(pool, "-"+o.Short, "-"+o.Short+"h")
			if o.Valued {
				pool = append(pool, "-"+o.Short+"-h", "-"+o.Short+"v")
			}
		}
	}
	return pool
}

func c25Gen(t *rapid.T) c25Case {
	tab := c25Tab
	c := c25Case{Uid: rapid.SampledFrom([]uint32{1000, 1000, 1000, 1, 65534, 4294967295, 1001}).Draw(t, "uid")}
	mode := rapid.IntRange(0, 19).Draw(t, "mode")
	switch {
	case mode <= 14:
		c.Argv = c25GenStructured(t, tab)
	case mode <= 17:
		// structured, then one or two token-level edits
		argv := c25GenStructured(t, tab)
		pool := c25Pool(tab)
		n := rapid.IntRange(1, 2).Draw(t, "edits")
		for i := 0; i < n && len(argv) > 0; i++ {
			p := rapid.IntRange(0, len(argv)-1).Draw(t, "editpos")
			switch rapid.IntRange(0, 4).Draw(t, "edit") {
			case 0:
				if len(argv) > 1 {
					argv = append(argv[:p:p], argv[p+1:]...)
				}
			case 1:
				argv = c25Insert(argv, p, argv[p])
			case 2:
				if p+1 < len(argv) {
					argv[p], argv[p+1] = argv[p+1], argv[p]
				}
			case 3:
				argv[p] = c25Pick(t, "repl", pool)
			case 4:
				argv = c25Insert(argv, p, c25Pick(t, "ins", pool))
			}
		}
		c.Argv = argv
	default:
		pool := c25Pool(tab)
		n := rapid.IntRange(1, 7).Draw(t, "n")
		if rapid.Bool().Draw(t, "cmdfirst") {
			c.Argv = append(c.Argv, c25Pick(t, "first", tab.names))
		}
		for len(c.Argv) < n {
			c.Argv = append(c.Argv, c25Pick(t, "tok", pool))
		}
	}
	if len(c.Argv) > 8 {
		c.Argv = c.Argv[:8]
	}
	return c
}

func TestVerifC25Random(t *testing.T) {
	c25Setup(t)
	verifkit.Check(t, verifkit.Spec[c25Case]{
		ID: "C25", Engine: "random",
		Gen: c25Gen,
		Run: c25Run,
		Floors: map[string]float64{
			"root-ran-restricted":            0.40,
			"restricted+has-dashdash":        0.15,
			"restricted+help-after-dashdash": 0.08,
			"restricted+option-value":        0.03,
			"restricted+help-inside-token":   0.01,
			"restricted-nested-kmod":         0.01,
			"user-forbidden":                 0.30,
			"user-help":                      0.04,
			"user-usage-error":               0.02,
			"user-ran-readonly":              0.05,
		},
		NonTrivialFloor: 0.40,
	})
}

// ---- bounded enumeration ------------------------------------------------------------

// c25Alphabet: the tokens that may follow head in the enumeration.
func c25Alphabet(tab *c25Table, head string) []string {
	ci, ok := tab.byName[head]
	if !ok {
		return []string{"-h", "--help", "--", "foo", "set", "get", "mount", "-t"}
	}
	al := []string{"-h", "--help", "--", "foo"}
	if c25ReadOnly[head] {
		al = append(al, "set")
	} else {
		al = append(al, "get")
	}
	opts := append([]c25Opt(nil), ci.Opts...)
	for _, s := range ci.Subs {
		al = append(al, s.Name)
		opts = append(opts, s.Opts...)
	}
	comb := false
	for _, o := range opts {
		name := "--" + o.Long
		if o.Long == "" {
			name = "-" + o.Short
		}
		al = append(al, name)
		if o.Valued {
			if o.Long != "" {
				al = append(al, "--"+o.Long+"=-h")
			}
			if o.Short != "" {
				al = append(al, "-"+o.Short+"-h")
			}
		} else if o.Short != "" && !comb {
			al = append(al, "-"+o.Short+"h")
			comb = true
		}
	}
	if !comb {
		al = append(al, "-th")
	}
	return al
}

func TestVerifC25Enum(t *testing.T) {
	e := verifkit.NewEnum(t, "C25", "enum")
	defer e.Done()
	tab := c25Setup(t)
	judge := func(c c25Case) (verifkit.Outcome, bool) {
		o, err := c25Run(c)
		if err != nil {
			if v, ok := err.(*verifkit.Violation); ok && e.Known(v.Fingerprint) {
				return o, false
			}
			e.Fail(c, "%v", err)
		}
		return o, true
	}
	if raw, ok := e.Replaying(); ok {
		var c c25Case
		if err := json.Unmarshal(raw, &c); err != nil {
			t.Fatalf("HARNESS: cannot decode replay case: %v", err)
		}
		judge(c)
		return
	}
	shard, shards := verifkit.EnvInt("VERIF_SHARD", 0), verifkit.EnvInt("VERIF_SHARDS", 1)
	depth := verifkit.Size(3, 4)

	// O3 witness: every registered command runs for root from its minimal argv,
	// and does so for non-root exactly when it is one of the six.
	for _, ci := range tab.cmds {
		variants := [][]string{{ci.Name}}
		req := []int{ci.ReqPos}
		if len(ci.Subs) > 0 {
			variants, req = nil, nil
			for _, s := range ci.Subs {
				variants = append(variants, []string{ci.Name, s.Name})
				req = append(req, s.ReqPos)
			}
		}
		for i, argv := range variants {
			for j := 0; j < req[i]; j++ {
				argv = append(argv, "x")
			}
			c := c25Case{Argv: argv, Uid: 1000}
			restore := c25Install(tab)
			root := c25Invoke(argv, 0)
			user := c25Invoke(argv, 1000)
			restore()
			if len(root.ran) != 1 || root.ran[0] != ci.Name {
				e.Fail(c, "root cannot run registered command %q from its minimal argv %q: ran %v, err %v", ci.Name, argv, root.ran, root.err)
			}
			if c25ReadOnly[ci.Name] != (len(user.ran) == 1) {
				e.Fail(c, "minimal argv %q as non-root: ran %v (%s), read-only=%v", argv, user.ran, user.kind, c25ReadOnly[ci.Name])
			}
			judge(c)
		}
	}

	heads := append([]string(nil), tab.names...)
	heads = append(heads, "-h", "--help", "--", "foo")
	counts := map[string][2]int64{}
	var idx int64
	var total int64
	for _, head := range heads {
		al := c25Alphabet(tab, head)
		for d := 0; d <= depth; d++ {
			n := 1
			for i := 0; i < d; i++ {
				n *= len(al)
			}
			for k := 0; k < n; k++ {
				idx++
				if int(idx%int64(shards)) != shard {
					continue
				}
				argv := make([]string, 0, d+1)
				argv = append(argv, head)
				x := k
				for i := 0; i < d; i++ {
					argv = append(argv, al[x%len(al)])
					x /= len(al)
				}
				o, counted := judge(c25Case{Argv: argv, Uid: 1000})
				if !counted || len(o.Labels) == 0 {
					continue
				}
				total++
				cnt := counts[o.Labels[0]]
				cnt[0]++
				if o.NonTrivial {
					cnt[1]++
					if total%997 == 0 {
						e.Sample(o.Desc)
					}
				}
				counts[o.Labels[0]] = cnt
			}
		}
	}
	for _, class := range verifkit.SortedKeys(counts) {
		e.Bulk(counts[class][0], counts[class][1], class)
	}
	e.Sample(fmt.Sprintf("every argv = head + up to %d tokens, head over %d registered commands and {-h,--help,--,foo}, tokens over the head's own alphabet "+
		"(help, --, free argument, a command name, sub-commands, each own option, valued options joined with -h, one combined short cluster); e.g. mount: %q (shard %d/%d)",
		depth, len(tab.names), c25Alphabet(tab, "mount"), shard, shards))
	e.Exhaustive(true)
	if shard == 0 { // numeric extras are summed over shards by the driver
		e.Extra("max_tokens_after_head", depth)
		e.Extra("registered_commands", len(tab.names))
	}
}
