package snapstate_test

// C11 — after every settled change the recorded snap state matches the system.
//
// A case is a history of requests over several snaps (plain, with services,
// instance-keyed): install, refresh (new / kept revision), revert, enable,
// disable, remove (whole snap, --purge, single revision), switch, config writes —
// each optionally with one injected failure (an always-failing task in front of a
// task of the change, or a fault inside the fake backend), each settled before the
// next.  After every settle (and after every refused request) the oracle
// world.consistency() cross-checks snapstate.All against the world model folded
// from the backend's operation log:
//
//	current ∈ kept; set(kept) = revisions present on the system;
//	linked revision = current iff active, no link when inactive;
//	not installed => nothing present, nothing linked, no configuration
//	(aliases of a snap that is gone are recorded as an observation only: the statement does not list them);
//	no record with an empty list of kept revisions persists.
//
// Also: every change settles with no task left pending.

import (
	"fmt"
	"strings"
	"testing"

	"gopkg.in/check.v1"
	"pgregory.net/rapid"

	"github.com/snapcore/snapd/overlord/snapstate"
	"github.com/snapcore/snapd/overlord/state"
	"github.com/snapcore/snapd/verifkit"
)

type c11Step struct {
	Req worldReq `json:"req"`
	// Fault: 0 none; k>0: the task with index (k-1) modulo the number of tasks of the change fails
	Fault int `json:"fault,omitempty"`
	// BFault: backend op that fails the first time it is called during the change ("" none)
	BFault string `json:"bfault,omitempty"`
}

type c11Case struct {
	Aliases bool      `json:"aliases,omitempty"`
	Steps   []c11Step `json:"steps"`
}

var c11Snaps = []string{"some-snap", "some-snap", "some-other-snap", "services-snap", "some-snap_foo"}

var c11BackendFaults = []string{"link-snap", "copy-data", "unlink-snap", "setup-profiles:Doing", "auto-connect:Doing",
	"start-snap-services", "update-aliases", "remove-snap-data", "remove-profiles:Doing", "auto-disconnect:Doing", "remove-snap-aliases"}

var c11Kinds = []string{
	"install", "install", "refresh", "refresh", "refresh", "refresh", "refresh", "refresh-kept", "refresh-kept",
	"revert", "revert", "revert-to", "enable", "disable", "disable", "remove", "remove", "remove", "remove-rev", "remove-rev", "remove-rev", "remove-rev", "remove-rev",
	"switch", "set-config", "set-config", "set-retain", "episode-disabled", "episode-disabled",
	"episode-remove-current", "episode-remove-current", "episode-remove-current", "episode-remove-current", "episode-remove-current",
	"remove",
}

func c11Gen(t *rapid.T) c11Case {
	c := c11Case{Aliases: rapid.IntRange(0, 2).Draw(t, "aliases") == 0}
	n := rapid.IntRange(5, verifkit.Size(16, 25)).Draw(t, "nsteps")
	// histories concentrate on one or two snaps so that revisions pile up
	focus := rapid.SampledFrom(c11Snaps).Draw(t, "focus")
	for len(c.Steps) < n {
		name := focus
		if rapid.IntRange(0, 3).Draw(t, "other") == 0 {
			name = rapid.SampledFrom(c11Snaps).Draw(t, "snap")
		}
		kinds := c11Kinds
		switch len(c.Steps) {
		case 0:
			name, kinds = focus, []string{"install"}
		case 1:
			name, kinds = focus, []string{"refresh"}
		case 2:
			if rapid.Bool().Draw(t, "retain-early") {
				c.Steps = append(c.Steps, c11Step{Req: worldReq{Op: "set-retain", Snap: focus, Retain: rapid.IntRange(3, 5).Draw(t, "retain")}})
				continue
			}
		}
		kind := rapid.SampledFrom(kinds).Draw(t, "kind")
		if kind == "episode-disabled" {
			// disable, then requests that must be refused or handled while disabled, then enable
			c.Steps = append(c.Steps, c11Step{Req: worldReq{Op: "disable", Snap: name}})
			mid := worldGenReq(t, name, []string{"refresh", "refresh", "refresh-kept", "revert", "remove-rev"})
			c.Steps = append(c.Steps, c11Step{Req: mid})
			c.Steps = append(c.Steps, c11Step{Req: worldReq{Op: "enable", Snap: name}})
			continue
		}
		if kind == "episode-remove-current" {
			// a single revision that is the CURRENT one of a DISABLED snap is removed:
			// snapstate accepts it and has to pick a new current among the remaining kept
			// revisions.  Preceded by refreshes/reverts so that current sits first, in the
			// middle or last in the kept sequence; followed by enable (or whatever comes next).
			for i, k := 0, rapid.IntRange(0, 2).Draw(t, "pre-refresh"); i < k; i++ {
				c.Steps = append(c.Steps, c11Step{Req: worldGenReq(t, name, []string{"refresh"})})
			}
			switch rapid.IntRange(0, 3).Draw(t, "pre-revert") {
			case 0, 1:
				c.Steps = append(c.Steps, c11Step{Req: worldGenReq(t, name, []string{"revert"})})
			case 2:
				c.Steps = append(c.Steps, c11Step{Req: worldGenReq(t, name, []string{"revert-to"})})
			}
			c.Steps = append(c.Steps, c11Step{Req: worldReq{Op: "disable", Snap: name}})
			rm := c11Step{Req: worldReq{Op: "remove-rev", Snap: name, Purge: rapid.Bool().Draw(t, "purge")}}
			if rapid.IntRange(0, 3).Draw(t, "any") == 0 {
				rm.Req.PickAny, rm.Req.Pick = true, rapid.IntRange(0, 5).Draw(t, "pick")
			} else {
				rm.Req.PickCurrent = true
			}
			if rapid.IntRange(0, 5).Draw(t, "rm-faulty") == 0 {
				rm.Fault = rapid.IntRange(1, 4).Draw(t, "fault")
			}
			c.Steps = append(c.Steps, rm)
			if rapid.IntRange(0, 2).Draw(t, "enable-after") > 0 {
				c.Steps = append(c.Steps, c11Step{Req: worldReq{Op: "enable", Snap: name}})
			}
			continue
		}
		st := c11Step{Req: worldGenReq(t, name, []string{kind})}
		faulty := rapid.IntRange(0, 9).Draw(t, "faulty")
		if len(c.Steps) < 2 || (kind == "remove-rev" && faulty > 0) {
			faulty = 9
		}
		switch faulty {
		case 0, 1, 2:
			st.Fault = rapid.IntRange(1, 40).Draw(t, "fault")
		case 3:
			st.BFault = rapid.SampledFrom(c11BackendFaults).Draw(t, "bfault")
		}
		c.Steps = append(c.Steps, st)
	}
	return c
}

type c11SnapTrack struct {
	failedBefore bool // a failed operation on this snap happened
	disabledRej  bool // a refresh/revert was refused while the snap was disabled
}

func c11Run(c *check.C, cs c11Case) (verifkit.Outcome, error) {
	o := verifkit.Outcome{Extra: map[string]int64{}}
	if len(cs.Steps) == 0 {
		o.Skip = true
		return o, nil
	}
	opts := worldOpts{ParallelInstances: true}
	if cs.Aliases {
		opts.AliasSnaps = []string{"some-snap", "some-snap_foo", "services-snap"}
	}
	w := newWorld(c, opts)
	defer w.close()

	var hist []string
	track := map[string]*c11SnapTrack{}
	var failedThenOK, removeNonCurrent, disabledEpisode, wholeRemove, failedRemove, refusedSeen bool
	var removeCurDisabled, removeCurDisabledNotLast, enabledAfterRemoveCur bool
	removedCurOf := map[string]bool{}
	tail := func() string {
		h := hist
		if len(h) > 14 {
			h = h[len(h)-14:]
		}
		return strings.Join(h, "\n    ")
	}
	aliasObs := false
	checkNow := func(what string) error {
		if left := w.aliasLeftovers(); len(left) > 0 && !aliasObs {
			// outside the statement (it lists kept revisions, the link and configuration): recorded only
			aliasObs = true
			o.Extra["obs_histories_with_aliases_left_behind"]++
		}
		if p := w.consistency(); len(p) > 0 {
			return verifkit.Violatef("C11: recorded state and system disagree %s:\n    %s\n  history (latest last):\n    %s", what, strings.Join(p, "\n    "), tail())
		}
		return nil
	}

	for i, step := range cs.Steps {
		r := step.Req
		if r.Snap == "" {
			continue
		}
		tr := track[r.Snap]
		if tr == nil {
			tr = &c11SnapTrack{}
			track[r.Snap] = tr
		}
		snapst, present := w.snapState(r.Snap)
		// adapt the request to what exists (the generator cannot know)
		if !present && r.Op != "install" && r.Op != "set-retain" {
			r.Op, r.ByRev, r.LeaveCohort, r.Pick = "install", false, false, 0
			if r.Cohort != "" || r.Rev > 6 {
				r.Rev = 0
			}
		} else if present && r.Op == "install" {
			r.Op, r.Rev = "refresh", 0
		}
		rr, ok := w.resolve(r)
		disabled := present && !snapst.Active
		if !ok && disabled && (r.Op == "refresh" || r.Op == "refresh-kept" || r.Op == "revert" || r.Op == "revert-to") {
			// issue it anyway: snapstate has to refuse (or handle) it
			rr, ok = r, true
			if rr.Rev <= 0 {
				rr.Rev = worldMax(worldSeq(snapst), 0) + 1
			}
			if others := w.keptNotCurrent(r.Snap); len(others) > 0 && r.Op != "refresh" {
				rr.Rev = others[r.Pick%len(others)]
				if r.Op == "refresh-kept" {
					rr.ByRev = true
				}
			}
		}
		if !ok {
			o.Extra["steps_inapplicable"]++
			continue
		}
		seqBefore := []int(nil)
		curBefore := 0
		if present {
			seqBefore, curBefore = worldSeq(snapst), snapst.Current.N
		}
		opsFrom := w.opCount()
		chg, err := w.request(rr)
		if err != nil {
			o.Extra["steps_refused"]++
			refusedSeen = true
			hist = append(hist, fmt.Sprintf("%d. %s -> refused: %v", i, rr, err))
			if disabled {
				tr.disabledRej = true
			}
			w.fold()
			if err := checkNow(fmt.Sprintf("after refused request %s", rr)); err != nil {
				return o, err
			}
			continue
		}
		if chg == nil {
			hist = append(hist, fmt.Sprintf("%d. %s", i, rr))
			o.Extra["steps_nonchange"]++
			continue
		}
		where := ""
		tasks := worldFaultTasks(w.state, chg)
		if step.Fault > 0 && len(tasks) > 0 {
			k := (step.Fault - 1) % len(tasks)
			w.state.Lock()
			where = fmt.Sprintf(" [fails before task %d/%d %s]", k, len(tasks), tasks[k].Kind())
			w.state.Unlock()
			w.failBefore(chg, tasks[k])
		} else if step.BFault != "" && len(tasks) > 0 {
			target := rr.Rev
			w.state.Lock()
			if snapsup, err := snapstate.TaskSnapSetup(tasks[0]); err == nil {
				target = snapsup.Revision().N
			}
			w.state.Unlock()
			w.failBackend(step.BFault, rr.Snap, target)
			where = fmt.Sprintf(" [backend op %s fails]", step.BFault)
		}
		settleErr := w.run()
		fired := w.clearFaults(opsFrom)
		status, unready, lines := w.changeReport(chg)
		hist = append(hist, fmt.Sprintf("%d. %s%s -> %s; %s", i, rr, where, status, w.view(rr.Snap)))
		o.Extra["steps_changes"]++
		if settleErr != nil {
			return o, verifkit.Violatef("C11: change for %s%s does not settle: %v\n  tasks: %v\n  history:\n    %s", rr, where, settleErr, lines, tail())
		}
		if len(unready) > 0 {
			return o, verifkit.Violatef("C11: change for %s%s settled with tasks left pending: %v\n  history:\n    %s", rr, where, unready, tail())
		}
		if step.BFault != "" && !fired {
			o.Extra["backend_faults_not_fired"]++
		}
		if err := checkNow(fmt.Sprintf("after %s%s settled %s (%s)", rr, where, status, strings.ReplaceAll(w.changeErr(chg), "\n", " | "))); err != nil {
			return o, err
		}
		switch status {
		case state.DoneStatus:
			o.Extra["changes_done"]++
			if tr.failedBefore {
				failedThenOK = true
			}
			if tr.disabledRej && rr.Op == "enable" {
				disabledEpisode = true
			}
			if rr.Op == "enable" {
				tr.disabledRej = false
			}
			if rr.Op == "remove-rev" && len(seqBefore) > 1 && rr.Rev != curBefore {
				removeNonCurrent = true
			}
			if rr.Op == "remove-rev" && len(seqBefore) > 1 && rr.Rev == curBefore && disabled {
				removeCurDisabled = true
				removedCurOf[rr.Snap] = true
				switch {
				case seqBefore[0] == curBefore:
					o.Extra["remove_current_disabled_first"]++
					removeCurDisabledNotLast = true
				case seqBefore[len(seqBefore)-1] == curBefore:
					o.Extra["remove_current_disabled_last"]++
				default:
					o.Extra["remove_current_disabled_middle"]++
					removeCurDisabledNotLast = true
				}
			}
			if rr.Op == "enable" && removedCurOf[rr.Snap] {
				enabledAfterRemoveCur = true
			}
			if rr.Op == "remove" {
				wholeRemove = true
			}
		case state.ErrorStatus:
			o.Extra["changes_failed"]++
			tr.failedBefore = true
			if rr.Op == "remove" || rr.Op == "remove-rev" {
				failedRemove = true
			}
		default:
			return o, verifkit.Violatef("C11: change for %s%s settled in status %s\n  tasks: %v", rr, where, status, lines)
		}
	}

	o.NonTrivial = failedThenOK || removeNonCurrent || disabledEpisode || removeCurDisabled
	if removeCurDisabled {
		o.Labels = append(o.Labels, "remove-current-of-disabled")
	}
	if removeCurDisabledNotLast {
		o.Labels = append(o.Labels, "remove-current-of-disabled-not-last")
	}
	if enabledAfterRemoveCur {
		o.Labels = append(o.Labels, "enabled-after-remove-current")
	}
	if failedThenOK {
		o.Labels = append(o.Labels, "failed-then-ok")
	}
	if removeNonCurrent {
		o.Labels = append(o.Labels, "remove-noncurrent")
	}
	if disabledEpisode {
		o.Labels = append(o.Labels, "disabled-refused-enabled")
	}
	if wholeRemove {
		o.Labels = append(o.Labels, "whole-remove")
	}
	if failedRemove {
		o.Labels = append(o.Labels, "failed-remove")
	}
	if refusedSeen {
		o.Labels = append(o.Labels, "refused-request")
	}
	if aliasObs {
		o.Labels = append(o.Labels, "obs-aliases-left-behind")
	}
	if len(track) > 1 {
		o.Labels = append(o.Labels, "several-snaps")
	}
	if _, ok := track["some-snap_foo"]; ok {
		o.Labels = append(o.Labels, "instance-key")
	}
	var finals []string
	for _, n := range verifkit.SortedKeys(track) {
		finals = append(finals, n+"="+w.view(n).String())
	}
	o.Desc = fmt.Sprintf("%d steps (%d changes, %d failed, %d refused); final: %s", len(cs.Steps), o.Extra["steps_changes"], o.Extra["changes_failed"], o.Extra["steps_refused"], strings.Join(finals, " "))
	return o, nil
}

func TestVerifC11(t *testing.T) {
	worldRun(t, func(c *check.C) {
		verifkit.Check(t, verifkit.Spec[c11Case]{
			ID: "C11", Engine: "histories",
			Gen:             c11Gen,
			Run:             func(cs c11Case) (verifkit.Outcome, error) { return c11Run(c, cs) },
			Floors:          map[string]float64{"failed-then-ok": 0.25, "remove-noncurrent": 0.15, "whole-remove": 0.05, "refused-request": 0.07,
				"remove-current-of-disabled": 0.08, "remove-current-of-disabled-not-last": 0.04, "enabled-after-remove-current": 0.03},
			NonTrivialFloor: 0.5,
		})
	})
}
