package snapstate_test

// C12 — a refresh keeps at most refresh.retain revisions and never discards the
// ones in use.
//
// Three engines share one oracle (c12Judge), which is written from the property
// statement: given the kept revisions before a refresh (K0, ordered), the old
// current revision, the target t, the retain setting r as the *reference reading*
// of the configured value, the revisions the boot environment names (U) and the
// kept revisions afterwards (K1):
//
//	(1) |K1 \ X| <= max(r, |K0|)            X = K1 ∩ U \ {t}
//	(2) t not kept before  =>  |K1 \ X'| <= r   X' = in-use survivors that are not among the newest r-1
//	(3) nothing positioned after the old current survives, except t
//	(4) t is kept (and current); nothing in use at or before the old current is discarded
//	(5) K1 \ {t} is a subsequence of K0 (no new members, order unchanged), t is last
//	(6) the retain value snapd reads equals the reference reading of the setting
//	(7) not more is discarded than the setting asks for: of the revisions up to the old
//	    current (without t) at least min(their number, r-1) survive, and the discarded
//	    ones are older than every surviving one that is not in use.
//
// Engines:
//
//	dynamic  app-snap histories (install, refresh to new/kept revisions through the store,
//	         refresh from a LOCAL FILE via snapstate.InstallPath - asserted revision or
//	         unasserted x-revision, an unpacked snap directory as container -, reverts) run
//	         through the real entry points and settled, with refresh.retain re-written
//	         between operations (unset / JSON number / legacy string; classic and core
//	         defaults); K0/K1 are the recorded sequences, cross-checked against the world
//	         model (what is present on the system).  U = ∅ for app snaps.
//	static   task-generation level with boot in-use answers: a kernel / core / base snap
//	         record with a generated sequence, generated snap_<x>/snap_try_<x> boot
//	         variables on the mock bootloader (real boot.InUse), snapstate.Update called
//	         and the discard-snap tasks of the returned task set read;
//	         K1 = K0 − discarded + t.
//	retain   exhaustive: every accepted spelling of refresh.retain × classic/core,
//	         snapstate's reading against the reference reading.
//
// Cut line used for the static engine: the refresh of a boot snap is not run (it
// would need reboot handling); the in-use decision is taken at task generation and
// that is what is judged.  A boot variable naming a revision positioned *after* the
// current one is generated in a small share of cases and only recorded (rules 3 and
// 4 pull in opposite directions there).

import (
	"encoding/json"
	"fmt"
	"os"
	"path/filepath"
	"sort"
	"strings"
	"testing"

	"gopkg.in/check.v1"
	"pgregory.net/rapid"

	"github.com/snapcore/snapd/overlord/configstate/config"
	"github.com/snapcore/snapd/overlord/snapstate"
	"github.com/snapcore/snapd/overlord/snapstate/sequence"
	"github.com/snapcore/snapd/overlord/snapstate/snapstatetest"
	"github.com/snapcore/snapd/overlord/state"
	"github.com/snapcore/snapd/release"
	"github.com/snapcore/snapd/snap"
	"github.com/snapcore/snapd/verifkit"
)

// ---------------------------------------------------------------- the retain setting

// c12Retain is one way of writing refresh.retain.
type c12Retain struct {
	Kind string `json:"kind"`          // unset | num | str
	Val  int    `json:"val,omitempty"` // 2..20
	Pad  int    `json:"pad,omitempty"` // str: number of leading zeros ("07" is accepted by the configuration check)
}

func (r c12Retain) String() string {
	switch r.Kind {
	case "num":
		return fmt.Sprintf("%d", r.Val)
	case "str":
		return fmt.Sprintf("%q", r.text())
	}
	return "unset"
}

func (r c12Retain) text() string { return strings.Repeat("0", r.Pad) + fmt.Sprint(r.Val) }

// ref is the reference reading: the decimal number written, default 2 on classic, 3 on core.
func (r c12Retain) ref(classic bool) int {
	if r.Kind == "num" || r.Kind == "str" {
		return r.Val
	}
	if classic {
		return 2
	}
	return 3
}

// write stores the setting the way the configuration system does (state lock taken here).
func (r c12Retain) write(st *state.State) {
	st.Lock()
	defer st.Unlock()
	tr := config.NewTransaction(st)
	var val interface{}
	switch r.Kind {
	case "num":
		val = r.Val
	case "str":
		val = r.text()
	}
	if err := tr.Set("core", "refresh.retain", val); err != nil {
		panic(fmt.Sprintf("HARNESS: cannot set refresh.retain=%v: %v", val, err))
	}
	tr.Commit()
}

func c12ReadRetain(st *state.State) int {
	st.Lock()
	defer st.Unlock()
	return snapstate.RefreshRetain(st)
}

func c12GenRetain(t *rapid.T) c12Retain {
	kind := rapid.SampledFrom([]string{"unset", "num", "num", "num", "str", "str", "str"}).Draw(t, "retain-kind")
	if kind == "unset" {
		return c12Retain{Kind: kind}
	}
	r := c12Retain{Kind: kind}
	if rapid.IntRange(0, 9).Draw(t, "retain-big") == 0 {
		r.Val = rapid.IntRange(7, 20).Draw(t, "retain-val-big")
	} else {
		r.Val = rapid.SampledFrom([]int{2, 2, 2, 3, 3, 3, 4, 4, 5, 6}).Draw(t, "retain-val")
	}
	if kind == "str" && rapid.IntRange(0, 5).Draw(t, "retain-pad") == 0 {
		r.Pad = rapid.IntRange(1, 2).Draw(t, "retain-npad")
	}
	return r
}

// ---------------------------------------------------------------- oracle

type c12Refresh struct {
	K0   []int // kept revisions before, in order
	Cur0 int   // current revision before
	T    int   // target
	K1   []int // kept revisions after, in order
	Cur1 int   // current revision after; 0 = not observed (static engine)
	R    int   // reference reading of refresh.retain
	U    []int // revisions of this snap named by the boot environment
}

func (x c12Refresh) String() string {
	return fmt.Sprintf("kept before %v (current %d), target %d, retain %d, in use %v, kept after %v", x.K0, x.Cur0, x.T, x.R, x.U, x.K1)
}

func c12Index(xs []int, x int) int {
	for i, y := range xs {
		if y == x {
			return i
		}
	}
	return -1
}

func c12Max(a, b int) int {
	if a > b {
		return a
	}
	return b
}

func c12Min(a, b int) int {
	if a < b {
		return a
	}
	return b
}

// c12Judge applies rules 1-5 and 7.  obs: outcomes that are only recorded.
func c12Judge(x c12Refresh) (violations []string, obs []string) {
	bad := func(format string, args ...interface{}) {
		violations = append(violations, fmt.Sprintf(format, args...))
	}
	ci := c12Index(x.K0, x.Cur0)
	if ci < 0 {
		panic(fmt.Sprintf("HARNESS: current %d not among kept %v", x.Cur0, x.K0))
	}
	seen := map[int]bool{}
	for _, k := range x.K1 {
		if seen[k] {
			bad("revision %d is listed twice among the kept revisions", k)
		}
		seen[k] = true
	}
	inUse := func(k int) bool { return worldContains(x.U, k) }
	tWasKept := worldContains(x.K0, x.T)

	// (4) target kept and current
	if !worldContains(x.K1, x.T) {
		bad("rule 4: the target revision %d is not kept after the refresh", x.T)
	}
	if x.Cur1 != 0 && x.Cur1 != x.T {
		bad("rule 4: current revision is %d after the refresh, not the target %d", x.Cur1, x.T)
	}
	// (5) no new members, order of survivors unchanged, t last
	if n := len(x.K1); n > 0 && x.K1[n-1] != x.T && worldContains(x.K1, x.T) {
		bad("rule 5: the target %d is not the last kept revision", x.T)
	}
	last := -1
	for _, k := range x.K1 {
		if k == x.T {
			continue
		}
		i := c12Index(x.K0, k)
		if i < 0 {
			bad("rule 5: revision %d is kept after the refresh but was neither kept before nor the target", k)
			continue
		}
		if i < last {
			bad("rule 5: the order of the surviving revisions changed")
		}
		last = i
	}
	// (3) left-overs of a revert are gone; (4) in-use revisions survive
	for i, k := range x.K0 {
		if k == x.T {
			continue
		}
		survived := worldContains(x.K1, k)
		switch {
		case i > ci && inUse(k):
			// a boot variable names a revision after current: only while a revert's reboot is pending
			if survived {
				obs = append(obs, "inuse-after-current-kept")
			} else {
				obs = append(obs, "inuse-after-current-discarded")
			}
		case i > ci && survived:
			bad("rule 3: revision %d sat after the current revision %d (left over from a revert) and is still kept", k, x.Cur0)
		case i <= ci && inUse(k) && !survived:
			bad("rule 4: revision %d is in use for booting and was discarded", k)
		}
	}
	// counts
	var xAll, p []int
	for _, k := range x.K1 {
		if k != x.T && inUse(k) {
			xAll = append(xAll, k)
		}
	}
	for _, k := range x.K0[:ci+1] {
		if k != x.T {
			p = append(p, k)
		}
	}
	if n := len(x.K1) - len(xAll); n > c12Max(x.R, len(x.K0)) {
		bad("rule 1: %d revisions kept (not counting %d kept for booting), more than retain=%d and more than the %d kept before", n, len(xAll), x.R, len(x.K0))
	}
	if !tWasKept {
		// the newest r-1 of p would be kept anyway; in-use revisions outside them are the excused extras
		newest := p
		if len(p) > x.R-1 {
			newest = p[len(p)-(x.R-1):]
		}
		extras := 0
		for _, k := range xAll {
			if !worldContains(newest, k) {
				extras++
			}
		}
		if n := len(x.K1) - extras; n > x.R {
			bad("rule 2: refresh to a new revision leaves %d revisions kept (not counting %d kept only for booting), retain=%d", n, extras, x.R)
		}
	}
	// (7) nothing discarded that the setting does not ask for; oldest go first
	var surv []int
	for _, k := range p {
		if worldContains(x.K1, k) {
			surv = append(surv, k)
		}
	}
	if need := c12Min(len(p), x.R-1); len(surv) < need {
		bad("rule 7: of the %d revisions up to the old current only %d survive; retain=%d asks for at least %d", len(p), len(surv), x.R, need)
	}
	oldestSurvivor := -1
	for i, k := range p {
		if worldContains(x.K1, k) && !inUse(k) {
			oldestSurvivor = i
			break
		}
	}
	if oldestSurvivor >= 0 {
		for i, k := range p {
			if i > oldestSurvivor && !worldContains(x.K1, k) {
				bad("rule 7: revision %d was discarded although the older revision %d (not in use) is kept", k, p[oldestSurvivor])
			}
		}
	}
	return violations, obs
}

// c12Classes: which of the interesting classes a judged refresh belongs to.
func c12Classes(x c12Refresh, settingChanged bool) []string {
	var out []string
	ci := c12Index(x.K0, x.Cur0)
	if ci+1 >= x.R {
		out = append(out, "gc-must-act")
	}
	if ci != len(x.K0)-1 {
		out = append(out, "current-not-last")
	}
	if len(x.U) > 0 {
		out = append(out, "in-use")
	}
	if settingChanged {
		out = append(out, "setting-changed")
	}
	if i := c12Index(x.K0, x.T); i >= 0 {
		out = append(out, "target-kept")
		if i < ci {
			out = append(out, "target-before-current")
		}
	} else {
		out = append(out, "target-new")
	}
	if len(x.K0) > x.R {
		out = append(out, "more-than-retain-before")
	}
	return out
}

// ---------------------------------------------------------------- engine: dynamic

type c12Step struct {
	// Req.Op "install-path" (not a world op): refresh from a local file, as
	// `snap install ./foo_N.snap` over the installed snap does; Req.Rev as for "refresh"
	Req    worldReq   `json:"req"`
	Retain *c12Retain `json:"retain,omitempty"` // Req.Op == "set-retain"
	Local  bool       `json:"local,omitempty"`  // install-path: no revision given (unasserted file => next x-revision)
}

type c12DynCase struct {
	Snap    string    `json:"snap"`
	Classic bool      `json:"classic"`
	Steps   []c12Step `json:"steps"`
}

func c12GenDyn(t *rapid.T) c12DynCase {
	cs := c12DynCase{
		Snap:    rapid.SampledFrom([]string{"some-snap", "some-snap", "services-snap", "some-snap_foo"}).Draw(t, "snap"),
		Classic: rapid.Bool().Draw(t, "classic"),
	}
	cs.Steps = append(cs.Steps, c12Step{Req: worldReq{Op: "install", Snap: cs.Snap, Rev: rapid.IntRange(1, 4).Draw(t, "first")}})
	n := rapid.IntRange(5, verifkit.Size(12, 18)).Draw(t, "nsteps")
	for i := 0; i < n; i++ {
		kind := rapid.SampledFrom([]string{"refresh", "refresh", "refresh", "refresh", "refresh", "refresh-kept", "refresh-kept",
			"install-path", "install-path", "install-path",
			"revert", "revert", "revert-to", "set-retain", "set-retain", "set-retain"}).Draw(t, "kind")
		// shape: often a larger setting first (revisions pile up) and a small one half way
		// (more kept than the setting allows)
		shaped := 0
		if i == 0 && rapid.IntRange(0, 9).Draw(t, "retain-first") < 5 {
			kind, shaped = "set-retain", rapid.IntRange(3, 6).Draw(t, "retain-first-val")
		}
		if i == n/2 && i > 0 && rapid.IntRange(0, 9).Draw(t, "retain-lowered") < 4 {
			kind, shaped = "set-retain", rapid.IntRange(2, 3).Draw(t, "retain-lowered-val")
		}
		st := c12Step{Req: worldReq{Op: kind, Snap: cs.Snap}}
		switch kind {
		case "refresh":
			// 0 = the next unused revision; otherwise any number (may be a kept one, a gap, an older one)
			if rapid.IntRange(0, 3).Draw(t, "anyrev") == 0 {
				st.Req.Rev = rapid.IntRange(1, 14).Draw(t, "rev")
			}
			st.Req.ByRev = rapid.IntRange(0, 3).Draw(t, "byrev") == 0
		case "install-path":
			if rapid.IntRange(0, 3).Draw(t, "anyrev") == 0 {
				st.Req.Rev = rapid.IntRange(1, 14).Draw(t, "rev")
			}
			st.Local = rapid.IntRange(0, 4).Draw(t, "local") == 0
		case "refresh-kept", "revert-to":
			st.Req.Pick = rapid.IntRange(0, 7).Draw(t, "pick")
			st.Req.NotBlocked = kind == "revert-to" && rapid.Bool().Draw(t, "notblocked")
		case "revert":
			st.Req.NotBlocked = rapid.Bool().Draw(t, "notblocked")
		case "set-retain":
			r := c12GenRetain(t)
			if shaped != 0 && r.Kind != "unset" {
				r.Val = shaped
			}
			st.Retain = &r
		}
		cs.Steps = append(cs.Steps, st)
	}
	return cs
}

// c12InstallPath requests a refresh of the installed snap from a local file, the way
// the daemon's sideload handler does (snapstate.InstallPath, then NewChange+AddAll).
// The "file" is an unpacked snap directory (no mksquashfs here).  rev 0: no revision
// given, snapd assigns the next local (x) revision.
func c12InstallPath(w *world, instance string, rev int) (*state.Change, error) {
	dir, err := os.MkdirTemp("", "verif-c12-snapdir-")
	if err != nil {
		panic(fmt.Sprintf("HARNESS: %v", err))
	}
	if err := os.Chmod(dir, 0755); err != nil {
		panic(fmt.Sprintf("HARNESS: %v", err))
	}
	if err := os.MkdirAll(filepath.Join(dir, "meta"), 0755); err != nil {
		panic(fmt.Sprintf("HARNESS: %v", err))
	}
	name := snap.InstanceSnap(instance)
	yaml := fmt.Sprintf("name: %s\nversion: 1.0\n", name)
	if name != "services-snap" {
		// the fake backend presents the installed revisions of the other snaps with epoch 1*
		yaml += "epoch: 1*\n"
	}
	if err := os.WriteFile(filepath.Join(dir, "meta", "snap.yaml"), []byte(yaml), 0644); err != nil {
		panic(fmt.Sprintf("HARNESS: %v", err))
	}
	si := &snap.SideInfo{RealName: name}
	if rev != 0 {
		si.SnapID = worldSnapID(instance)
		si.Revision = snap.R(rev)
	}
	st := w.state
	st.Lock()
	defer st.Unlock()
	ts, _, err := snapstate.InstallPath(st, si, dir, instance, "", snapstate.Flags{}, nil)
	if err != nil {
		return nil, err
	}
	chg := st.NewChange("install-snap", fmt.Sprintf("verif: install %s from a file", instance))
	chg.AddAll(ts)
	return chg, nil
}

func c12RunDyn(c *check.C, cs c12DynCase) (verifkit.Outcome, error) {
	o := verifkit.Outcome{Extra: map[string]int64{}}
	if cs.Snap == "" || len(cs.Steps) == 0 {
		o.Skip = true
		return o, nil
	}
	w := newWorld(c, worldOpts{ParallelInstances: strings.Contains(cs.Snap, "_")})
	defer w.close()
	w.AddCleanup(release.MockOnClassic(cs.Classic))

	cfg := c12Retain{Kind: "unset"}
	prevR := 0 // retain at the previous refresh
	classes := map[string]bool{}
	var trail []string
	for i, step := range cs.Steps {
		req := step.Req
		req.Snap = cs.Snap
		if req.Op == "set-retain" {
			if step.Retain == nil {
				continue
			}
			cfg = *step.Retain
			cfg.write(w.state)
			// rule 6
			if got, want := c12ReadRetain(w.state), cfg.ref(cs.Classic); got != want {
				return o, verifkit.Violatef("C12 rule 6: refresh.retain set to %s (classic=%v) is read as %d, reference reading %d", cfg, cs.Classic, got, want)
			}
			trail = append(trail, "retain="+cfg.String())
			continue
		}
		var rr worldReq
		var chg *state.Change
		var err error
		before := w.view(cs.Snap)
		if req.Op == "install-path" {
			if !before.Present || !before.Active {
				o.Extra["inapplicable_steps"]++
				continue
			}
			rr = req
			if rr.Rev <= 0 || rr.Rev == before.Current {
				rr.Rev = worldMax(before.Seq, 0) + 1
			}
			if step.Local {
				rr.Rev = 0
			}
			chg, err = c12InstallPath(w, cs.Snap, rr.Rev)
			if step.Local {
				// an unasserted file gets the next local revision: x1, x2, ... (-1, -2, ...)
				lowest := 0
				for _, k := range before.Seq {
					if k < lowest {
						lowest = k
					}
				}
				rr.Rev = lowest - 1
			}
		} else {
			var ok bool
			rr, ok = w.resolve(req)
			if !ok {
				o.Extra["inapplicable_steps"]++
				continue
			}
			chg, err = w.request(rr)
		}
		if err != nil {
			o.Extra["refused_steps"]++
			trail = append(trail, fmt.Sprintf("%s refused", rr.Op))
			if os.Getenv("VERIF_DEBUG") != "" {
				fmt.Printf("DEBUG %s refused: %v\n", rr, err)
			}
			continue
		}
		if err := w.run(); err != nil {
			return o, verifkit.Violatef("C12: step %d %s does not settle: %v", i, rr, err)
		}
		if st, _, lines := w.changeReport(chg); st != state.DoneStatus {
			return o, verifkit.Violatef("C12: step %d %s (nothing made to fail) ended %s: %s\n  kept before: %v current %d\n  tasks: %v",
				i, rr, st, strings.ReplaceAll(w.changeErr(chg), "\n", " | "), before.Seq, before.Current, lines)
		}
		after := w.view(cs.Snap)
		if p := w.consistency(); len(p) > 0 {
			return o, verifkit.Violatef("C12: after step %d %s the recorded kept revisions and the system disagree: %s\n  before %s\n  after  %s",
				i, rr, strings.Join(p, "; "), before, after)
		}
		if rr.Op != "refresh" && rr.Op != "refresh-kept" && rr.Op != "install-path" {
			trail = append(trail, fmt.Sprintf("%s->%v@%d", rr.Op, after.Seq, after.Current))
			continue
		}
		if !before.Present {
			continue
		}
		r := cfg.ref(cs.Classic)
		x := c12Refresh{K0: before.Seq, Cur0: before.Current, T: rr.Rev, K1: after.Seq, Cur1: after.Current, R: r}
		if got := c12ReadRetain(w.state); got != r {
			return o, verifkit.Violatef("C12 rule 6: refresh.retain %s (classic=%v) is read as %d, reference reading %d", cfg, cs.Classic, got, r)
		}
		viol, _ := c12Judge(x)
		if len(viol) > 0 {
			return o, verifkit.Violatef("C12: refresh (step %d, %s) breaks the retain rules:\n    %s\n  %s\n  setting: %s, classic=%v", i, rr, strings.Join(viol, "\n    "), x, cfg, cs.Classic)
		}
		for _, cl := range c12Classes(x, prevR != 0 && prevR != r) {
			classes[cl] = true
		}
		if cfg.Kind == "str" {
			classes["string-setting"] = true
		}
		if rr.Op == "install-path" {
			classes["path-refresh"] = true
			if rr.Rev < 0 {
				classes["path-refresh-local-revision"] = true
			}
			if c12Index(before.Seq, before.Current)+1 >= r {
				classes["path-refresh-gc-must-act"] = true
			}
			if !worldContains(before.Seq, rr.Rev) {
				classes["path-refresh-new-revision"] = true
			}
			o.Extra["path_refreshes_judged"]++
		}
		if cfg.Kind == "unset" && !cs.Classic {
			classes["core-default"] = true
		}
		if cfg.Kind == "unset" && cs.Classic {
			classes["classic-default"] = true
		}
		prevR = r
		o.Extra["refreshes_judged"]++
		what := "refresh"
		if rr.Op == "install-path" {
			what = "path"
		}
		trail = append(trail, fmt.Sprintf("%s(%d,r=%d):%v@%d->%v", what, rr.Rev, r, before.Seq, before.Current, after.Seq))
	}
	for cl := range classes {
		o.Labels = append(o.Labels, cl)
	}
	sort.Strings(o.Labels)
	o.NonTrivial = classes["gc-must-act"] || classes["current-not-last"] || classes["setting-changed"]
	o.Desc = fmt.Sprintf("%s classic=%v: %s", cs.Snap, cs.Classic, strings.Join(trail, " "))
	return o, nil
}

func TestVerifC12Dynamic(t *testing.T) {
	worldRun(t, func(c *check.C) {
		verifkit.Check(t, verifkit.Spec[c12DynCase]{
			ID: "C12", Engine: "dynamic",
			Gen: c12GenDyn,
			Run: func(cs c12DynCase) (verifkit.Outcome, error) { return c12RunDyn(c, cs) },
			Floors: map[string]float64{"gc-must-act": 0.20, "current-not-last": 0.20, "setting-changed": 0.20,
				"target-kept": 0.20, "string-setting": 0.15, "target-before-current": 0.05, "more-than-retain-before": 0.03,
				"path-refresh": 0.40, "path-refresh-gc-must-act": 0.20, "path-refresh-new-revision": 0.35, "path-refresh-local-revision": 0.05},
			NonTrivialFloor: 0.6,
		})
	})
}

// ---------------------------------------------------------------- engine: static (boot in-use answers)

type c12StaticCase struct {
	Snap    string    `json:"snap"` // kernel | core | core18
	Seq     []int     `json:"seq"`
	Cur     int       `json:"cur"`    // index into Seq
	Target  int       `json:"target"` // revision; a kept one or a new one
	ByRev   bool      `json:"byrev,omitempty"`
	Retain  c12Retain `json:"retain"`
	Classic bool      `json:"classic,omitempty"` // release.OnClassic (decides the default only; the model stays a core model)
	// boot variables: index into Seq, or -1 = a revision that is not kept, -2 = variable empty (try only)
	Boot      int    `json:"boot"`
	Try       int    `json:"try"`
	BootOther bool   `json:"bootother,omitempty"` // the variables name another snap with the same revisions
	Mode      string `json:"mode,omitempty"`      // snap_mode
}

var c12StaticSnaps = map[string]struct {
	id, typ, bootVar, model string
}{
	"kernel": {"kernel-id", "kernel", "kernel", ""},
	"core":   {"core-snap-id", "os", "core", ""},
	"core18": {"core18-snap-id", "base", "core", "core18"},
}

func c12GenStatic(t *rapid.T) c12StaticCase {
	cs := c12StaticCase{Snap: rapid.SampledFrom([]string{"kernel", "kernel", "core", "core18"}).Draw(t, "snap")}
	n := rapid.SampledFrom([]int{1, 2, 2, 3, 3, 3, 4, 4, 5, 6, 7, 8}).Draw(t, "nseq")
	pool := rapid.Permutation([]int{1, 2, 3, 4, 5, 6, 7, 8, 9, 10, 11, 12, 13, 14}).Draw(t, "revs")
	cs.Seq = append([]int(nil), pool[:n]...)
	if rapid.IntRange(0, 3).Draw(t, "sorted") != 0 {
		sort.Ints(cs.Seq)
	}
	cs.Cur = n - 1
	if n > 1 && rapid.IntRange(0, 9).Draw(t, "cur-not-last") < 4 {
		cs.Cur = rapid.IntRange(0, n-2).Draw(t, "cur")
	}
	if n > 1 && rapid.IntRange(0, 9).Draw(t, "target-kept") < 4 {
		i := rapid.IntRange(0, n-2).Draw(t, "target-idx")
		if i >= cs.Cur {
			i++
		}
		cs.Target = cs.Seq[i]
	} else {
		cs.Target = pool[n+rapid.IntRange(0, len(pool)-n-1).Draw(t, "target-new")]
	}
	cs.ByRev = rapid.Bool().Draw(t, "byrev")
	cs.Retain = c12GenRetain(t)
	cs.Classic = rapid.IntRange(0, 3).Draw(t, "classic") == 0
	upTo := func(label string) int { return rapid.IntRange(0, cs.Cur).Draw(t, label) }
	switch rapid.IntRange(0, 9).Draw(t, "boot") {
	case 0:
		cs.Boot = -1
	case 1, 2, 3:
		cs.Boot = upTo("boot-idx")
	case 4:
		cs.Boot = rapid.IntRange(0, n-1).Draw(t, "boot-any")
	default:
		cs.Boot = cs.Cur
	}
	switch rapid.IntRange(0, 9).Draw(t, "try") {
	case 0:
		cs.Try = -1
	case 1, 2, 3:
		cs.Try = upTo("try-idx")
	case 4:
		cs.Try = rapid.IntRange(0, n-1).Draw(t, "try-any")
	default:
		cs.Try = -2
	}
	cs.BootOther = rapid.IntRange(0, 11).Draw(t, "bootother") == 0
	cs.Mode = rapid.SampledFrom([]string{"", "", "try", "trying"}).Draw(t, "mode")
	return cs
}

const c12NotKeptRev = 77

func c12RunStatic(c *check.C, cs c12StaticCase) (verifkit.Outcome, error) {
	o := verifkit.Outcome{Extra: map[string]int64{}}
	meta, ok := c12StaticSnaps[cs.Snap]
	if !ok || len(cs.Seq) == 0 || cs.Cur < 0 || cs.Cur >= len(cs.Seq) || cs.Target <= 0 || cs.Target == cs.Seq[cs.Cur] ||
		cs.Boot < -1 || cs.Boot >= len(cs.Seq) || cs.Try < -2 || cs.Try >= len(cs.Seq) {
		o.Skip = true
		return o, nil
	}
	w := newWorld(c, worldOpts{})
	defer w.close()
	w.AddCleanup(release.MockOnClassic(cs.Classic))
	if meta.model != "" {
		w.AddCleanup(snapstatetest.MockDeviceModel(ModelWithBase(meta.model)))
	}
	// the fake backend's ReadInfo reports every snap it has no special case for as an
	// app; an installed revision of a kernel/base snap says what it is
	w.AddCleanup(snapstate.MockSnapReadInfo(func(name string, si *snap.SideInfo) (*snap.Info, error) {
		info, err := w.fakeBackend.ReadInfo(name, si)
		if err == nil && name == cs.Snap {
			info.SnapType = snap.Type(meta.typ)
		}
		return info, err
	}))
	st := w.state

	// boot environment
	bootName := cs.Snap
	if cs.BootOther {
		bootName = "other-" + cs.Snap
	}
	fileOf := func(idx int) (string, int) {
		switch {
		case idx == -2:
			return "", 0
		case idx == -1:
			return fmt.Sprintf("%s_%d.snap", bootName, c12NotKeptRev), c12NotKeptRev
		}
		return fmt.Sprintf("%s_%d.snap", bootName, cs.Seq[idx]), cs.Seq[idx]
	}
	bootFile, bootRev := fileOf(cs.Boot)
	tryFile, tryRev := fileOf(cs.Try)
	if err := w.bl.SetBootVars(map[string]string{"snap_mode": cs.Mode, "snap_" + meta.bootVar: bootFile, "snap_try_" + meta.bootVar: tryFile}); err != nil {
		panic(fmt.Sprintf("HARNESS: cannot set boot variables: %v", err))
	}
	var u []int
	if !cs.BootOther {
		for _, r := range []int{bootRev, tryRev} {
			if r != 0 && worldContains(cs.Seq, r) && !worldContains(u, r) {
				u = append(u, r)
			}
		}
	}

	// the record
	cs.Retain.write(st)
	if got, want := c12ReadRetain(st), cs.Retain.ref(cs.Classic); got != want {
		return o, verifkit.Violatef("C12 rule 6: refresh.retain set to %s (classic=%v) is read as %d, reference reading %d", cs.Retain, cs.Classic, got, want)
	}
	st.Lock()
	defer st.Unlock()
	var revs []*sequence.RevisionSideState
	for _, r := range cs.Seq {
		revs = append(revs, sequence.NewRevisionSideState(&snap.SideInfo{RealName: cs.Snap, SnapID: meta.id, Revision: snap.R(r)}, nil))
	}
	snapstate.Set(st, cs.Snap, &snapstate.SnapState{
		Active: true, SnapType: meta.typ, TrackingChannel: "latest/stable",
		Sequence: snapstatetest.NewSequenceFromRevisionSideInfos(revs), Current: snap.R(cs.Seq[cs.Cur]),
	})
	w.fakeStore.refreshRevnos = map[string]snap.Revision{meta.id: snap.R(cs.Target)}
	opts := &snapstate.RevisionOptions{}
	if cs.ByRev {
		opts.Revision = snap.R(cs.Target)
	}
	ts, err := snapstate.Update(st, cs.Snap, opts, 0, snapstate.Flags{})
	if err != nil {
		o.Labels = append(o.Labels, "refused")
		o.Extra["refused"]++
		o.Desc = fmt.Sprintf("%s refused: %v", cs.Snap, err)
		return o, nil
	}
	var discarded []int
	target := 0
	for _, t := range ts.Tasks() {
		snapsup, err := c12TaskSnapSetup(ts, t)
		if os.Getenv("VERIF_DEBUG") != "" {
			fmt.Printf("DEBUG task %s %s: snapsup %v err %v\n", t.ID(), t.Kind(), snapsup, err)
		}
		if err != nil {
			continue
		}
		if t.Kind() == "link-snap" && snapsup.InstanceName() == cs.Snap {
			target = snapsup.Revision().N
			if string(snapsup.Type) != meta.typ {
				panic(fmt.Sprintf("HARNESS: the fixture presents %s as a snap of type %q, wanted %q", cs.Snap, snapsup.Type, meta.typ))
			}
		}
		if t.Kind() != "discard-snap" {
			continue
		}
		if snapsup.InstanceName() != cs.Snap {
			return o, verifkit.Violatef("C12: refresh of %s schedules the removal of a revision of %s", cs.Snap, snapsup.InstanceName())
		}
		rev := snapsup.Revision().N
		if worldContains(discarded, rev) {
			return o, verifkit.Violatef("C12: refresh of %s schedules the removal of revision %d twice", cs.Snap, rev)
		}
		discarded = append(discarded, rev)
	}
	if target != cs.Target {
		panic(fmt.Sprintf("HARNESS: generated refresh goes to revision %d, wanted %d", target, cs.Target))
	}
	x := c12Refresh{K0: cs.Seq, Cur0: cs.Seq[cs.Cur], T: cs.Target, R: cs.Retain.ref(cs.Classic), U: u}
	for _, d := range discarded {
		if !worldContains(cs.Seq, d) {
			return o, verifkit.Violatef("C12: refresh of %s schedules the removal of revision %d which is not kept (%v)", cs.Snap, d, cs.Seq)
		}
		if d == cs.Target {
			return o, verifkit.Violatef("C12 rule 4: the refresh schedules the removal of its own target revision %d\n  %s", d, x)
		}
	}
	for _, k := range cs.Seq {
		if k != cs.Target && !worldContains(discarded, k) {
			x.K1 = append(x.K1, k)
		}
	}
	x.K1 = append(x.K1, cs.Target)
	viol, obs := c12Judge(x)
	if len(viol) > 0 {
		return o, verifkit.Violatef("C12: the removals scheduled by the refresh of %s break the retain rules:\n    %s\n  %s\n  removals scheduled: %v\n  boot variables: snap_%s=%q snap_try_%s=%q snap_mode=%q; setting %s, classic=%v",
			cs.Snap, strings.Join(viol, "\n    "), x, discarded, meta.bootVar, bootFile, meta.bootVar, tryFile, cs.Mode, cs.Retain, cs.Classic)
	}
	for _, ob := range obs {
		o.Extra["obs_"+ob]++
	}
	o.Labels = c12Classes(x, false)
	o.Labels = append(o.Labels, "snap-"+cs.Snap)
	keptForBoot := false
	ci := cs.Cur
	for i, k := range cs.Seq[:ci+1] {
		// in use, survives, and lies in the range retain alone would have discarded
		p := ci + 1
		if worldContains(u, k) && k != cs.Target && i < p-(x.R-1) {
			keptForBoot = true
		}
	}
	if keptForBoot {
		o.Labels = append(o.Labels, "kept-only-for-boot")
	}
	if cs.Retain.Kind == "str" {
		o.Labels = append(o.Labels, "string-setting")
	}
	if len(obs) > 0 {
		o.Labels = append(o.Labels, "in-use-after-current")
	}
	o.NonTrivial = c12ContainsStr(o.Labels, "gc-must-act") || c12ContainsStr(o.Labels, "current-not-last") || len(u) > 0
	o.Desc = fmt.Sprintf("%s %s; boot %q try %q mode %q; removals %v", cs.Snap, x, bootFile, tryFile, cs.Mode, discarded)
	return o, nil
}

// c12TaskSnapSetup reads the snap-setup of a task that is not linked to a change yet
// (snapstate.TaskSnapSetup resolves "snap-setup-task" through State.Task, which only
// knows linked tasks).
func c12TaskSnapSetup(ts *state.TaskSet, t *state.Task) (*snapstate.SnapSetup, error) {
	var snapsup snapstate.SnapSetup
	err := t.Get("snap-setup", &snapsup)
	if err == nil {
		return &snapsup, nil
	}
	var id string
	if err := t.Get("snap-setup-task", &id); err != nil {
		return nil, err
	}
	for _, o := range ts.Tasks() {
		if o.ID() == id {
			if err := o.Get("snap-setup", &snapsup); err != nil {
				return nil, err
			}
			return &snapsup, nil
		}
	}
	return nil, fmt.Errorf("snap-setup task %s not in the task set", id)
}

func c12ContainsStr(xs []string, x string) bool {
	for _, y := range xs {
		if y == x {
			return true
		}
	}
	return false
}

func TestVerifC12Static(t *testing.T) {
	worldRun(t, func(c *check.C) {
		verifkit.Check(t, verifkit.Spec[c12StaticCase]{
			ID: "C12", Engine: "static",
			Gen: c12GenStatic,
			Run: func(cs c12StaticCase) (verifkit.Outcome, error) { return c12RunStatic(c, cs) },
			Floors: map[string]float64{"gc-must-act": 0.20, "current-not-last": 0.20, "in-use": 0.20, "kept-only-for-boot": 0.05,
				"target-kept": 0.15, "snap-kernel": 0.2, "snap-core": 0.1, "snap-core18": 0.1},
			NonTrivialFloor: 0.6,
		})
	})
}

// ---------------------------------------------------------------- engine: retain (exhaustive reading)

func TestVerifC12Retain(t *testing.T) {
	worldRun(t, func(c *check.C) {
		e := verifkit.NewEnum(t, "C12", "retain")
		defer e.Done()
		type rcase struct {
			Retain  c12Retain `json:"retain"`
			Classic bool      `json:"classic"`
			Prev    c12Retain `json:"prev"` // what was set before (overwriting must not leave traces)
		}
		run := func(rc rcase) {
			w := newWorld(c, worldOpts{})
			defer w.close()
			w.AddCleanup(release.MockOnClassic(rc.Classic))
			rc.Prev.write(w.state)
			rc.Retain.write(w.state)
			got, want := c12ReadRetain(w.state), rc.Retain.ref(rc.Classic)
			if got != want {
				e.Fail(rc, "C12 rule 6: refresh.retain set to %s (after %s, classic=%v) is read as %d, reference reading %d", rc.Retain, rc.Prev, rc.Classic, got, want)
			}
		}
		if raw, ok := e.Replaying(); ok {
			var rc rcase
			if err := json.Unmarshal(raw, &rc); err != nil {
				t.Fatalf("cannot decode replay: %v", err)
			}
			run(rc)
			return
		}
		var all []c12Retain
		all = append(all, c12Retain{Kind: "unset"})
		for v := 2; v <= 20; v++ {
			all = append(all, c12Retain{Kind: "num", Val: v})
			for pad := 0; pad <= 2; pad++ {
				all = append(all, c12Retain{Kind: "str", Val: v, Pad: pad})
			}
		}
		prevs := []c12Retain{{Kind: "unset"}, {Kind: "num", Val: 5}, {Kind: "str", Val: 7}}
		for _, classic := range []bool{true, false} {
			for i, r := range all {
				rc := rcase{Retain: r, Classic: classic, Prev: prevs[i%len(prevs)]}
				run(rc)
				label := "kind-" + r.Kind
				e.Case(fmt.Sprintf("%s classic=%v prev=%s", r, classic, rc.Prev), true, label)
			}
		}
		e.Exhaustive(true)
	})
}
