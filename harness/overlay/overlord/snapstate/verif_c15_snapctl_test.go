package snapstate_test

// C15, second harness (DESIGN.md §3 C15): the same bound model, but every hold and
// proceed is issued the way a snap issues it — `snapctl refresh --hold` /
// `--proceed` run through ctlcmd.Run inside a gate-auto-refresh hook context, the
// hook handler's Done, and the hook handler's Error path (a failing hook is taken
// as "hold").  This binds the call sites themselves: they must ask for the default
// (maximum) duration at level auto-refresh for exactly the snaps affecting the
// calling snap, so that the bounds judged by the model in verif_c15_test.go hold for
// what snaps can actually request.
//
// World (classic system): snap-a and snap-b are apps with a gate-auto-refresh hook
// on base snap-c; snap-d is the kernel.  A snap is affected by its own update, by
// its base's and by the kernel's (snapstate.AffectingSnapsForAffectedByRefreshCandidates
// is used to learn the request's snap set; it is an input here, not the judged part).
//
// Not held across ctlcmd.Run / handler calls: the state lock (they take it).

import (
	"errors"
	"fmt"
	"os"
	"path/filepath"
	"strings"
	"sync"
	"testing"
	"time"

	"pgregory.net/rapid"

	"github.com/snapcore/snapd/dirs"
	"github.com/snapcore/snapd/interfaces"
	"github.com/snapcore/snapd/overlord/hookstate"
	"github.com/snapcore/snapd/overlord/hookstate/ctlcmd"
	"github.com/snapcore/snapd/overlord/hookstate/hooktest"
	"github.com/snapcore/snapd/overlord/ifacestate/ifacerepo"
	"github.com/snapcore/snapd/overlord/snapstate"
	"github.com/snapcore/snapd/overlord/state"
	"github.com/snapcore/snapd/release"
	"github.com/snapcore/snapd/snap"
	"github.com/snapcore/snapd/verifkit"
)

var c15CtlYaml = []string{
	"name: snap-a\nversion: 1\nbase: snap-c\nhooks:\n gate-auto-refresh:\n",
	"name: snap-b\nversion: 1\nbase: snap-c\nhooks:\n gate-auto-refresh:\n",
	"name: snap-c\nversion: 1\ntype: base\n",
	"name: snap-d\nversion: 1\ntype: kernel\n",
}

var c15CtlTypes = []string{"app", "app", "base", "kernel"}

var (
	c15CtlRootOnce sync.Once
	c15CtlRoot     string
)

type c15CtlOp struct {
	Op    string `json:"op"`              // candidates snapctl-hold hook-error snapctl-proceed hook-noaction hold-then-proceed proceed-then-hold hook-run refresh advance tobound
	G     int    `json:"g,omitempty"`     // gating snap (0/1) or refreshed snap (0..3)
	Snaps []int  `json:"snaps,omitempty"` // candidates
	Secs  int64  `json:"secs,omitempty"`
	Pick  int    `json:"pick,omitempty"`
	// hook-run: one run of the gate-auto-refresh hook of snap G: the snapctl calls
	// the hook makes ("hold" / "proceed", in order) and whether the hook then exits
	// non-zero (handler Error path) or zero (handler Done)
	Calls []string `json:"calls,omitempty"`
	Fail  bool     `json:"fail,omitempty"`
}

type c15CtlCase struct {
	AgeSecs []int64    `json:"age_secs"` // 4 snaps
	Ops     []c15CtlOp `json:"ops"`
}

func c15CtlGen(t *rapid.T) c15CtlCase {
	c := c15CtlCase{}
	for i := 0; i < 4; i++ {
		c.AgeSecs = append(c.AgeSecs, c15GenAge().Draw(t, "age"))
	}
	c.Ops = append(c.Ops, c15CtlOp{Op: "candidates", Snaps: c15GenSubset(t, 4, "candidates")})
	nops := rapid.IntRange(6, 30).Draw(t, "nops")
	for i := 0; i < nops; i++ {
		var op c15CtlOp
		switch k := rapid.IntRange(0, 99).Draw(t, "opkind"); {
		case k < 26:
			op = c15CtlGenHookRun(t, rapid.IntRange(0, 1).Draw(t, "g"))
		case k < 34:
			// a gating snap over several auto-refresh attempts: hold granted, the
			// allowance runs out, the next hook runs ask again (and may fail)
			g := rapid.IntRange(0, 1).Draw(t, "g")
			if rapid.IntRange(0, 2).Draw(t, "other") != 0 {
				// ... affected by an update of its base or of the kernel (48 h allowance)
				other := rapid.IntRange(2, 3).Draw(t, "which")
				if rapid.Bool().Draw(t, "fresh") {
					c.Ops = append(c.Ops, c15CtlOp{Op: "refresh", G: other})
				}
				cands := []int{other}
				for _, s := range c15GenSubset(t, 4, "more") {
					if s != other {
						cands = append(cands, s)
					}
				}
				c.Ops = append(c.Ops, c15CtlOp{Op: "candidates", Snaps: cands})
			}
			c.Ops = append(c.Ops, c15CtlOp{Op: "hook-run", G: g, Calls: []string{"hold"}, Fail: rapid.Bool().Draw(t, "fail0")})
			runs := rapid.IntRange(1, 3).Draw(t, "runs")
			for j := 0; j < runs; j++ {
				var secs int64
				switch rapid.IntRange(0, 3).Draw(t, "gap") {
				case 0:
					secs = rapid.Int64Range(1, 47).Draw(t, "hours") * 3600
				case 1:
					secs = 48*3600 + rapid.Int64Range(-1, 1).Draw(t, "off")
				case 2:
					secs = rapid.Int64Range(48*3600, 60*3600).Draw(t, "secs")
				default:
					secs = 3600
				}
				c.Ops = append(c.Ops, c15CtlOp{Op: "advance", Secs: secs})
				run := c15CtlGenHookRun(t, g)
				if rapid.IntRange(0, 2).Draw(t, "askagain") != 0 {
					run.Calls = []string{"hold"}
				}
				c.Ops = append(c.Ops, run)
				if rapid.Bool().Draw(t, "look") {
					c.Ops = append(c.Ops, c15CtlOp{Op: "advance", Secs: 3600})
				}
			}
			op = c15CtlGenHookRun(t, g)
		case k < 44:
			op = c15CtlOp{Op: "snapctl-hold", G: rapid.IntRange(0, 1).Draw(t, "g")}
		case k < 49:
			op = c15CtlOp{Op: "hook-error", G: rapid.IntRange(0, 1).Draw(t, "g")}
		case k < 52:
			op = c15CtlOp{Op: "snapctl-proceed", G: rapid.IntRange(0, 1).Draw(t, "g")}
		case k < 54:
			op = c15CtlOp{Op: "hook-noaction", G: rapid.IntRange(0, 1).Draw(t, "g")}
		case k < 56:
			op = c15CtlOp{Op: "hold-then-proceed", G: rapid.IntRange(0, 1).Draw(t, "g")}
		case k < 59:
			op = c15CtlOp{Op: "proceed-then-hold", G: rapid.IntRange(0, 1).Draw(t, "g")}
		case k < 65:
			op = c15CtlOp{Op: "candidates", Snaps: c15GenSubset(t, 4, "candidates")}
		case k < 74:
			op = c15CtlOp{Op: "refresh", G: rapid.IntRange(0, 3).Draw(t, "snap")}
		case k < 91:
			op = c15CtlOp{Op: "advance", Secs: c15GenAdvance(t)}
		default:
			op = c15CtlOp{Op: "tobound", Pick: rapid.IntRange(0, 5).Draw(t, "pick"), Secs: rapid.Int64Range(-1, 1).Draw(t, "off")}
		}
		c.Ops = append(c.Ops, op)
	}
	return c
}

// c15CtlGenHookRun draws one hook run: which snapctl calls the hook makes and how
// it exits.  Whether a --hold is granted or refused is decided by the history.
func c15CtlGenHookRun(t *rapid.T, g int) c15CtlOp {
	op := c15CtlOp{Op: "hook-run", G: g}
	switch k := rapid.IntRange(0, 99).Draw(t, "calls"); {
	case k < 54:
		op.Calls = []string{"hold"}
	case k < 68:
		// no snapctl call at all
	case k < 76:
		op.Calls = []string{"proceed"}
	case k < 83:
		op.Calls = []string{"hold", "proceed"}
	case k < 90:
		op.Calls = []string{"proceed", "hold"}
	case k < 96:
		op.Calls = []string{"hold", "hold"}
	default:
		op.Calls = []string{"proceed", "hold", "proceed"}
	}
	op.Fail = rapid.Bool().Draw(t, "fail")
	return op
}

type c15CtlRun struct {
	*c15Run
	locked bool
}

func (w *c15CtlRun) lock() {
	if !w.locked {
		w.st.Lock()
		w.locked = true
	}
}

func (w *c15CtlRun) unlock() {
	if w.locked {
		w.st.Unlock()
		w.locked = false
	}
}

// hookContext builds the context a gate-auto-refresh hook of snap g runs in.
func (w *c15CtlRun) hookContext(g int) (*hookstate.Context, error) {
	task := w.st.NewTask("run-hook", "gate-auto-refresh hook")
	setup := &hookstate.HookSetup{Snap: c15Names[g], Revision: snap.R(1), Hook: "gate-auto-refresh", Optional: true}
	return hookstate.NewContext(task, w.st, setup, hooktest.NewMockHandler(), "")
}

func c15CtlWriteSnap(i int) error {
	name := c15Names[i]
	meta := filepath.Join(snap.MountDir(name, snap.R(1)), "meta")
	if err := os.MkdirAll(meta, 0755); err != nil {
		return err
	}
	if err := os.WriteFile(filepath.Join(meta, "snap.yaml"), []byte(c15CtlYaml[i]), 0644); err != nil {
		return err
	}
	blob := snap.MountFile(name, snap.R(1))
	if err := os.MkdirAll(filepath.Dir(blob), 0755); err != nil {
		return err
	}
	return os.WriteFile(blob, nil, 0644)
}

func (w *c15CtlRun) apply(i int, op c15CtlOp) error {
	when := fmt.Sprintf("op %d (%s)", i, op.Op)
	r := w.c15Run
	switch op.Op {
	case "advance", "tobound":
		return r.apply(i, c15Op{Op: op.Op, Secs: op.Secs, Pick: op.Pick})
	case "refresh":
		return r.apply(i, c15Op{Op: "refresh", G: op.G})
	case "candidates":
		// a new auto-refresh round: candidates stored, holds on snaps without an
		// update forgotten (autoRefreshPhase1)
		cands := map[string]interface{}{}
		for _, s := range r.norm(op.Snaps, true) {
			cands[c15Names[s]] = snapstate.MockRefreshCandidate(&snapstate.SnapSetup{
				SideInfo: &snap.SideInfo{RealName: c15Names[s], Revision: snap.R(2)},
			})
		}
		r.st.Set("refresh-candidates", cands)
		return r.apply(i, c15Op{Op: "prune", Snaps: op.Snaps})
	}
	g := op.G
	if g < 0 {
		g = -g
	}
	g %= 2
	affNames, err := snapstate.AffectingSnapsForAffectedByRefreshCandidates(r.st, c15Names[g])
	if err != nil {
		panic(fmt.Sprintf("HARNESS: cannot compute affecting snaps: %v", err))
	}
	var aff []int
	for _, n := range affNames {
		aff = append(aff, r.idx(n))
	}
	if len(aff) == 0 {
		// the hook of an unaffected snap is not run
		return nil
	}
	ctx, err := w.hookContext(g)
	if err != nil {
		panic(fmt.Sprintf("HARNESS: cannot create hook context: %v", err))
	}
	handler := hookstate.NewGateAutoRefreshHookHandler(ctx)
	snapctl := func(args ...string) (string, error) {
		w.unlock()
		stdout, _, err := ctlcmd.Run(ctx, args, 0)
		w.lock()
		return string(stdout), err
	}
	done := func() error {
		w.unlock()
		err := handler.Done()
		w.lock()
		return err
	}
	proceedModel := func() {
		for p := range r.hold {
			if p.holder == g {
				delete(r.hold, p)
				r.label("proceed-unholds")
			}
		}
	}
	holdViaSnapctl := func() error {
		plan := r.planHold(g, aff)
		out, err := snapctl("refresh", "--hold")
		var rem time.Duration
		if err == nil {
			if !strings.HasPrefix(out, "hold: ") {
				return verifkit.Violatef("%s: snapctl refresh --hold of %s printed %q", when, c15Names[g], out)
			}
			rem, err = time.ParseDuration(strings.TrimSpace(strings.TrimPrefix(out, "hold: ")))
			if err != nil {
				return verifkit.Violatef("%s: snapctl refresh --hold of %s printed %q", when, c15Names[g], out)
			}
		}
		if verr := r.judgeHold(when, plan, true, rem, err); verr != nil {
			return verr
		}
		r.label("via-snapctl")
		return nil
	}
	switch op.Op {
	case "snapctl-hold":
		if verr := holdViaSnapctl(); verr != nil {
			return verr
		}
		if err := done(); err != nil {
			return verifkit.Violatef("%s: hook handler Done failed: %v", when, err)
		}
	case "hold-then-proceed":
		// --proceed after --hold in the same hook run: the last action wins at Done
		if verr := holdViaSnapctl(); verr != nil {
			return verr
		}
		if verr := r.check(when + " before --proceed"); verr != nil {
			return verr
		}
		if _, err := snapctl("refresh", "--proceed"); err != nil {
			return verifkit.Violatef("%s: snapctl refresh --proceed of %s failed: %v", when, c15Names[g], err)
		}
		// documented: proceeding must not take effect before the hook is done
		if verr := r.check(when + " after --proceed, hook still running"); verr != nil {
			return verr
		}
		if err := done(); err != nil {
			return verifkit.Violatef("%s: hook handler Done failed: %v", when, err)
		}
		proceedModel()
	case "proceed-then-hold":
		// --hold after --proceed in the same hook run must not start a fresh episode
		// (ctlcmd/refresh.go: "we cannot call ProceedWithRefresh() immediately as this
		// would reset holdState, allowing the snap to --hold with fresh duration limit")
		if _, err := snapctl("refresh", "--proceed"); err != nil {
			return verifkit.Violatef("%s: snapctl refresh --proceed of %s failed: %v", when, c15Names[g], err)
		}
		if verr := holdViaSnapctl(); verr != nil {
			return verr
		}
		if err := done(); err != nil {
			return verifkit.Violatef("%s: hook handler Done failed: %v", when, err)
		}
		r.label("proceed-then-hold")
	case "hook-run":
		// action = what the hook context has cached when the hook exits: the last
		// snapctl refresh --hold / --proceed call, whether or not the hold was granted
		action, shape, refused48 := "", "nocall", false
		calls := op.Calls
		if len(calls) > 4 {
			calls = calls[:4]
		}
		for ci, call := range calls {
			switch call {
			case "hold":
				plan := r.planHold(g, aff)
				if verr := holdViaSnapctl(); verr != nil {
					return verr
				}
				action = "hold"
				if len(plan.bad) > 0 {
					shape = "hold-refused"
					for _, a := range plan.aff {
						if plan.bad[c15Names[a]] && r.now.Before(r.last[a].Add(c15MaxAny)) {
							refused48 = true // the 48 h episode allowance (not the 90 days) ran out
						}
					}
				} else {
					shape = "hold-ok"
				}
			case "proceed":
				if _, err := snapctl("refresh", "--proceed"); err != nil {
					return verifkit.Violatef("%s: snapctl refresh --proceed of %s failed: %v", when, c15Names[g], err)
				}
				action, shape = "proceed", "proceed"
			default:
				continue
			}
			// a granted hold is in force at once, a refused one drops the requester's
			// holds at once, --proceed changes nothing before the hook is done
			if verr := r.check(fmt.Sprintf("%s after call %d (--%s), hook still running", when, ci, call)); verr != nil {
				return verr
			}
		}
		if !op.Fail {
			// hook exits 0: hold stays as requested; --proceed or no call = proceed
			if err := done(); err != nil {
				return verifkit.Violatef("%s: hook handler Done failed: %v", when, err)
			}
			if action != "hold" {
				proceedModel()
			}
			r.label("run:" + shape + "+done")
			break
		}
		// hook exits non-zero: "nothing to do if the hook already requested hold"
		// (granted or refused); otherwise the failure is taken as a hold request
		// with the default duration
		var plan c15HoldPlan
		if action != "hold" {
			plan = r.planHold(g, aff)
		}
		w.unlock()
		ignore, err := handler.Error(errors.New("hook failed"))
		w.lock()
		if err != nil || !ignore {
			return verifkit.Violatef("%s: hook handler Error of %s returned (%v, %v)", when, c15Names[g], ignore, err)
		}
		if action != "hold" {
			if verr := r.judgeHold(when, plan, false, 0, nil); verr != nil {
				return verr
			}
			r.label("via-hook-error")
		}
		r.label("run:" + shape + "+error")
		if shape == "hold-refused" && refused48 {
			r.label("run:refused-48h+error")
		}
	case "hook-error":
		plan := r.planHold(g, aff)
		w.unlock()
		ignore, err := handler.Error(errors.New("hook failed"))
		w.lock()
		if err != nil || !ignore {
			return verifkit.Violatef("%s: hook handler Error of %s returned (%v, %v)", when, c15Names[g], ignore, err)
		}
		if verr := r.judgeHold(when, plan, false, 0, nil); verr != nil {
			return verr
		}
		r.label("via-hook-error")
	case "snapctl-proceed":
		if _, err := snapctl("refresh", "--proceed"); err != nil {
			return verifkit.Violatef("%s: snapctl refresh --proceed of %s failed: %v", when, c15Names[g], err)
		}
		if verr := r.check(when + ", hook still running"); verr != nil {
			return verr
		}
		if err := done(); err != nil {
			return verifkit.Violatef("%s: hook handler Done failed: %v", when, err)
		}
		proceedModel()
	case "hook-noaction":
		if err := done(); err != nil {
			return verifkit.Violatef("%s: hook handler Done failed: %v", when, err)
		}
		proceedModel()
	default:
		return nil
	}
	return r.check(when)
}

func c15CtlDesc(c c15CtlCase) string {
	var sb strings.Builder
	sb.WriteString("last refreshed")
	for _, a := range c.AgeSecs {
		fmt.Fprintf(&sb, " %s", (time.Duration(a) * time.Second).String())
	}
	sb.WriteString(" ago;")
	nm := func(i int) string { return string(rune('a' + i%4)) }
	for _, op := range c.Ops {
		switch op.Op {
		case "advance":
			fmt.Fprintf(&sb, " +%s", (time.Duration(op.Secs) * time.Second).String())
		case "tobound":
			fmt.Fprintf(&sb, " ->bound#%d%+ds", op.Pick, op.Secs)
		case "candidates":
			sb.WriteString(" candidates[")
			for _, s := range op.Snaps {
				sb.WriteString(nm(s))
			}
			sb.WriteString("]")
		case "hook-run":
			exit := "exit0"
			if op.Fail {
				exit = "exit1"
			}
			fmt.Fprintf(&sb, " hook(%s:%s;%s)", nm(op.G), strings.Join(op.Calls, ","), exit)
		default:
			fmt.Fprintf(&sb, " %s(%s)", op.Op, nm(op.G))
		}
	}
	return sb.String()
}

func c15CtlRunCase(c c15CtlCase) (verifkit.Outcome, error) {
	o := verifkit.Outcome{}
	if len(c.AgeSecs) != 4 {
		o.Skip = true
		return o, nil
	}
	// the on-disk part of the world (snap.yaml files) never changes: one root per process
	c15CtlRootOnce.Do(func() {
		root, err := os.MkdirTemp("", "verif-c15-")
		if err != nil {
			panic("HARNESS: " + err.Error())
		}
		dirs.SetRootDir(root)
		for i := range c15CtlYaml {
			if err := c15CtlWriteSnap(i); err != nil {
				panic("HARNESS: " + err.Error())
			}
		}
		c15CtlRoot = root
	})
	dirs.SetRootDir(c15CtlRoot)
	defer dirs.SetRootDir("/")
	defer release.MockOnClassic(true)()

	st := state.New(nil)
	r := &c15Run{st: st, n: 4, now: c15Start, typ: c15CtlTypes,
		hold: map[c15Pair]*c15Hold{}, sys: map[int]*c15Sys{}, refreshedSince: map[c15Pair]bool{},
		labels: map[string]bool{}, extra: map[string]int64{}}
	w := &c15CtlRun{c15Run: r}
	defer snapstate.MockTimeNow(func() time.Time { return r.now })()
	w.lock()
	defer w.unlock()
	ifacerepo.Replace(st, interfaces.NewRepository())
	for i, a := range c.AgeSecs {
		if a < 0 {
			a = -a
		}
		lr := c15Start.Add(-time.Duration(a) * time.Second)
		r.inst = append(r.inst, true)
		r.last = append(r.last, lr)
		r.setSnap(i, lr)
	}
	verr := r.check("initially")
	for i, op := range c.Ops {
		if verr != nil {
			break
		}
		verr = w.apply(i, op)
	}
	o.Labels = verifkit.SortedKeys(r.labels)
	o.NonTrivial = r.labels["rehold"] || r.labels["past-bound"] || r.labels["refresh-between"]
	o.Desc = c15CtlDesc(c)
	return o, verr
}

// TestVerifC15Snapctl: hold/proceed histories issued through snapctl and the
// gate-auto-refresh hook handler.
func TestVerifC15Snapctl(t *testing.T) {
	verifkit.Check(t, verifkit.Spec[c15CtlCase]{
		ID: "C15", Engine: "snapctl",
		Gen: c15CtlGen,
		Run: c15CtlRunCase,
		Floors: map[string]float64{
			"via-snapctl": 0.5, "via-hook-error": 0.3, "rehold": 0.15, "past-bound": 0.2,
			"run:hold-ok+done": 0.2, "run:hold-ok+error": 0.2, "run:hold-refused+done": 0.15, "run:hold-refused+error": 0.2,
			"run:nocall+error": 0.12, "run:nocall+done": 0.12, "run:proceed+error": 0.1, "run:refused-48h+error": 0.05,
			"expired-48h": 0.05, "proceed-unholds": 0.1,
		},
		NonTrivialFloor: 0.4,
	})
}
