package snapstate_test

// C14 — no two in-progress changes ever operate on the same snap; exclusive
// changes; stale requests are rejected.
//
// A case is an initial population of 5 snaps (plain, services, instance-keyed,
// snapd with three versions) and a list of 10..40 operations:
//
//	req        one single-snap request (install, refresh, refresh to a kept revision,
//	           revert, revert-to, remove, remove one revision, enable, disable, switch)
//	           issued exactly as the daemon does (entry point under the state lock,
//	           then NewChange+AddAll) — through the shared world harness
//	many       refresh-many (names or all), install-many, remove-many
//	alias      snapstate.Alias / RemoveManualAlias / DisableAllAliases
//	excl       a request for an exclusive change: remodel, create-/remove-recovery-system
//	           (as devicestate issues them: CheckChangeConflictRunExclusively, then a
//	           change of that kind), a core transition (created by the snap manager
//	           itself, no request-time check); snapd downgrades are ordinary
//	           refresh-kept/revert requests on the seeded "snapd" (versions grow
//	           with revisions)
//	exempt     a pre-download change (pre-download-snap task with a snap-setup of the
//	           snap) or a become-operational change, kept unready
//	stale      install / refresh / refresh-many during whose store round trip (state
//	           unlocked) the snap's record is changed: directly (refresh-inhibit mark)
//	           or by another operation that runs to completion meanwhile
//	progress k k rounds of Ensure+Wait (changes advance by k layers of tasks)
//	finish     Settle
//	abort i    abort the i-th unready change
//	release i  let the i-th held (exclusive model) change complete at the next progress
//
// Oracle (model = what the harness itself issued; S of a request = the snaps the
// request names, for the -many forms the names the entry point reports back):
//
//	(1) after every step: the snap sets of any two unready, non-exempt changes are
//	    disjoint — both by the harness's bookkeeping and by reading the snap named in
//	    the snap-setup of every task of every unready change straight from the state;
//	(2) a request naming a snap that an unready non-exempt change operates on is
//	    refused; when the request is otherwise valid for the recorded state the error
//	    is a *ChangeConflictError; a refused (conflict) request leaves the change list,
//	    the task count, snapstate.All and the system (backend op log) unchanged;
//	(3) while an exclusive change is unready every request is refused the same way; a
//	    request for an exclusive change is refused while any non-exempt change is unready;
//	(4) a store-backed request whose snap record changed during the store round trip
//	    is refused with a conflict error and creates nothing.
//
// No claim is made that non-conflicting requests succeed.

import (
	"context"
	"encoding/json"
	"errors"
	"fmt"
	"os"
	"path/filepath"
	"sort"
	"strings"
	"testing"
	"time"

	"gopkg.in/check.v1"
	"gopkg.in/tomb.v2"
	"pgregory.net/rapid"

	"github.com/snapcore/snapd/dirs"
	"github.com/snapcore/snapd/overlord/auth"
	"github.com/snapcore/snapd/overlord/snapstate"
	"github.com/snapcore/snapd/overlord/snapstate/snapstatetest"
	"github.com/snapcore/snapd/overlord/state"
	"github.com/snapcore/snapd/snap"
	"github.com/snapcore/snapd/store"
	"github.com/snapcore/snapd/verifkit"
)

// ---------------------------------------------------------------- case data

type c14Seed struct {
	Snap     string `json:"snap"`
	Revs     int    `json:"revs"`          // 0: not installed; else kept revisions 1..Revs
	Cur      int    `json:"cur,omitempty"` // current revision = 1 + Cur mod Revs
	Inactive bool   `json:"inactive,omitempty"`
}

type c14Op struct {
	Kind   string    `json:"kind"`
	Req    *worldReq `json:"req,omitempty"`    // req, stale
	Many   string    `json:"many,omitempty"`   // many, stale: refresh-many | install-many | remove-many
	Names  []string  `json:"names,omitempty"`  // many (empty with refresh-many = refresh all)
	Snap   string    `json:"snap,omitempty"`   // alias ops, exempt
	Alias  string    `json:"alias,omitempty"`  // alias, unalias
	ExKind string    `json:"exkind,omitempty"` // excl, exempt
	K      int       `json:"k,omitempty"`      // progress rounds / pick
	Interf string    `json:"interf,omitempty"` // stale: inhibit | switch | disable | remove | install
}

type c14Case struct {
	Seeds []c14Seed `json:"seeds"`
	Ops   []c14Op   `json:"ops"`
}

var c14AppSnaps = []string{"some-snap", "some-other-snap", "services-snap", "some-snap_foo"}

const c14Snapd = "snapd"

var c14ReqKinds = []string{"install", "install", "refresh", "refresh", "refresh", "refresh-kept", "revert", "revert-to",
	"remove", "remove", "remove-rev", "enable", "disable", "disable", "switch"}

var c14ExclKinds = []string{"remodel", "create-recovery-system", "remove-recovery-system", "transition-ubuntu-core", "transition-to-snapd-snap"}

func c14GenReq(t *rapid.T, name string) *worldReq {
	var r worldReq
	if name == c14Snapd {
		// only operations among the three kept versions (the fake store has no usable snapd)
		r = worldReq{Op: rapid.SampledFrom([]string{"refresh-kept", "refresh-kept", "revert", "revert-to"}).Draw(t, "op"), Snap: name}
		r.Pick = rapid.IntRange(0, 3).Draw(t, "pick")
		return &r
	}
	r = worldGenReq(t, name, c14ReqKinds)
	// keep the requests plain: confinement/validation flags bring refusals that have
	// nothing to do with conflicts
	r.DevMode, r.JailMode, r.Classic, r.IgnoreValidation, r.Cohort, r.LeaveCohort = false, false, false, false, "", false
	if r.Op == "install" {
		r.Rev = 0
	}
	return &r
}

func c14Gen(t *rapid.T) c14Case {
	var c c14Case
	for _, n := range c14AppSnaps {
		s := c14Seed{Snap: n, Revs: rapid.SampledFrom([]int{0, 1, 2, 3, 3}).Draw(t, "revs")}
		if s.Revs > 0 {
			s.Cur = rapid.IntRange(0, 2).Draw(t, "cur")
			s.Inactive = rapid.IntRange(0, 7).Draw(t, "inactive") == 0
		}
		c.Seeds = append(c.Seeds, s)
	}
	// requests concentrate on two snaps so that they meet
	focus := []string{rapid.SampledFrom(c14AppSnaps).Draw(t, "focus1"), rapid.SampledFrom(c14AppSnaps).Draw(t, "focus2")}
	pickSnap := func() string {
		switch rapid.IntRange(0, 19).Draw(t, "which") {
		case 0, 1, 2, 3:
			return rapid.SampledFrom(c14AppSnaps).Draw(t, "snap")
		case 4:
			return c14Snapd
		default:
			return rapid.SampledFrom(focus).Draw(t, "fsnap")
		}
	}
	pickApp := func() string {
		n := pickSnap()
		if n == c14Snapd {
			return focus[0]
		}
		return n
	}
	n := rapid.IntRange(10, verifkit.Size(28, 40)).Draw(t, "nops")
	for len(c.Ops) < n {
		w := rapid.IntRange(0, 99).Draw(t, "opw")
		switch {
		case w < 44:
			c.Ops = append(c.Ops, c14Op{Kind: "req", Req: c14GenReq(t, pickSnap())})
		case w < 54:
			op := c14Op{Kind: "many", Many: rapid.SampledFrom([]string{"refresh-many", "refresh-many", "install-many", "remove-many"}).Draw(t, "many")}
			k := rapid.IntRange(0, 3).Draw(t, "nnames")
			if op.Many != "refresh-many" && k == 0 {
				k = 2
			}
			seen := map[string]bool{}
			for i := 0; i < k; i++ {
				nm := pickApp()
				if !seen[nm] {
					seen[nm] = true
					op.Names = append(op.Names, nm)
				}
			}
			c.Ops = append(c.Ops, op)
		case w < 61:
			op := c14Op{Kind: rapid.SampledFrom([]string{"alias", "alias", "unalias", "disable-aliases"}).Draw(t, "akind"), Snap: pickApp()}
			op.Alias = rapid.SampledFrom([]string{"al1", "al2"}).Draw(t, "alias")
			c.Ops = append(c.Ops, op)
		case w < 67:
			c.Ops = append(c.Ops, c14Op{Kind: "excl", ExKind: rapid.SampledFrom(c14ExclKinds).Draw(t, "exkind")})
		case w < 71:
			op := c14Op{Kind: "exempt", ExKind: rapid.SampledFrom([]string{"pre-download", "pre-download", "become-operational"}).Draw(t, "exempt"), Snap: pickApp()}
			c.Ops = append(c.Ops, op)
		case w < 79:
			op := c14Op{Kind: "stale"}
			name := pickApp()
			switch rapid.IntRange(0, 3).Draw(t, "stalekind") {
			case 0:
				op.Req = &worldReq{Op: "install", Snap: name}
				op.Interf = "install"
			case 1:
				op.Many = "refresh-many"
				op.Names = []string{name}
				if other := pickApp(); other != name {
					op.Names = append(op.Names, other)
				}
				op.Snap = name
				op.Interf = rapid.SampledFrom([]string{"inhibit", "switch", "disable", "remove"}).Draw(t, "interf")
			default:
				op.Req = &worldReq{Op: "refresh", Snap: name, Rev: rapid.IntRange(4, 12).Draw(t, "rev")}
				op.Interf = rapid.SampledFrom([]string{"inhibit", "inhibit", "switch", "disable", "remove"}).Draw(t, "interf")
			}
			c.Ops = append(c.Ops, op)
		case w < 89:
			c.Ops = append(c.Ops, c14Op{Kind: "progress", K: rapid.IntRange(1, 12).Draw(t, "k")})
		case w < 94:
			c.Ops = append(c.Ops, c14Op{Kind: "finish"})
		case w < 97:
			c.Ops = append(c.Ops, c14Op{Kind: "abort", K: rapid.IntRange(0, 5).Draw(t, "k")})
		default:
			c.Ops = append(c.Ops, c14Op{Kind: "release", K: rapid.IntRange(0, 5).Draw(t, "k")})
		}
	}
	return c
}

// ---------------------------------------------------------------- harness state

// c14Store lets the harness act while a request is talking to the store (the state is
// unlocked then — the window the stale check of the property is about).
type c14Store struct {
	*fakeStore
	hook func()
}

func (s *c14Store) SnapAction(ctx context.Context, cur []*store.CurrentSnap, actions []*store.SnapAction, aq store.AssertionQuery, user *auth.UserState, opts *store.RefreshOptions) ([]store.SnapActionResult, []store.AssertionResult, error) {
	if h := s.hook; h != nil {
		s.hook = nil
		h()
	}
	return s.fakeStore.SnapAction(ctx, cur, actions, aq, user, opts)
}

type c14Chg struct {
	chg       *state.Change
	id        string
	desc      string
	snaps     map[string]bool
	exclusive bool
	exempt    bool
	gate      *state.Task // held open by the harness until released
	downRev   int         // snapd downgrade: the revision it moves to
}

type c14H struct {
	w     *world
	store *c14Store
	chgs  []*c14Chg
	hist  []string
	o     *verifkit.Outcome

	sawOverlap, sawExcl, sawStale, sawExempt, sawPartial, sawAbort, sawMany, sawDowngrade, sawAliasOverlap bool
}

func (h *c14H) logf(format string, args ...interface{}) {
	h.hist = append(h.hist, fmt.Sprintf(format, args...))
	if testing.Verbose() && verifkit.ReplayRequested() {
		fmt.Printf("C14-TRACE %s\n", h.hist[len(h.hist)-1])
	}
}

func (h *c14H) tail() string {
	x := h.hist
	if len(x) > 18 {
		x = x[len(x)-18:]
	}
	return strings.Join(x, "\n    ")
}

func (h *c14H) violatef(format string, args ...interface{}) error {
	return verifkit.Violatef("C14: %s\n  history (latest last):\n    %s", fmt.Sprintf(format, args...), h.tail())
}

func c14SnapdVersion(rev int) string { return fmt.Sprintf("2.%d", 50+rev) }

func c14SideInfo(name string, rev int) *snap.SideInfo {
	id := worldSnapID(name)
	if name == c14Snapd {
		id = "snapd-snap-id"
	}
	return &snap.SideInfo{RealName: snap.InstanceSnap(name), SnapID: id, Revision: snap.R(rev), Channel: "stable"}
}

func c14NewHarness(c *check.C, cs c14Case, o *verifkit.Outcome) *c14H {
	w := newWorld(c, worldOpts{ParallelInstances: true})
	h := &c14H{w: w, o: o}
	// every snap has an app "cmd1" (manual aliases need a target); snapd's version grows with its revision
	w.AddCleanup(snapstate.MockSnapReadInfo(func(name string, si *snap.SideInfo) (*snap.Info, error) {
		info, err := w.fakeBackend.ReadInfo(name, si)
		if err != nil {
			return info, err
		}
		if info.Apps == nil {
			info.Apps = map[string]*snap.AppInfo{}
		}
		if info.Apps["cmd1"] == nil {
			info.Apps["cmd1"] = &snap.AppInfo{Snap: info, Name: "cmd1"}
		}
		if name == c14Snapd {
			info.Version = c14SnapdVersion(si.Revision.N)
		}
		return info, nil
	}))
	// a task kind of the harness's own: the body of the modelled exclusive changes
	w.o.TaskRunner().AddHandler("c14-gate", func(*state.Task, *tomb.Tomb) error { return nil }, nil)

	st := w.state
	st.Lock()
	defer st.Unlock()
	h.store = &c14Store{fakeStore: w.fakeStore}
	snapstate.ReplaceStore(st, h.store)
	seed := func(name string, revs, cur int, inactive bool, typ string) {
		var sis []*snap.SideInfo
		for r := 1; r <= revs; r++ {
			sis = append(sis, c14SideInfo(name, r))
		}
		_, key := snap.SplitInstanceName(name)
		snapstate.Set(st, name, &snapstate.SnapState{
			Active:          !inactive,
			Sequence:        snapstatetest.NewSequenceFromSnapSideInfos(sis),
			Current:         snap.R(1 + cur%revs),
			TrackingChannel: "latest/stable",
			SnapType:        typ,
			InstanceKey:     key,
		})
	}
	for _, s := range cs.Seeds {
		if s.Revs > 0 {
			seed(s.Snap, s.Revs, s.Cur, s.Inactive, "app")
		}
	}
	seed(c14Snapd, 3, 1, false, "snapd")
	// the snap manager reads the info file of the current snapd (the fixture writes it for revisions 1 and 11 only)
	for rev := 1; rev <= 3; rev++ {
		infoFile := filepath.Join(dirs.SnapMountDir, c14Snapd, fmt.Sprint(rev), dirs.CoreLibExecDir, "info")
		if err := os.MkdirAll(filepath.Dir(infoFile), 0755); err != nil {
			panic("HARNESS: " + err.Error())
		}
		if err := os.WriteFile(infoFile, []byte(fmt.Sprintf("VERSION=%s\nSNAPD_APPARMOR_REEXEC=1\n", c14SnapdVersion(rev))), 0644); err != nil {
			panic("HARNESS: " + err.Error())
		}
	}
	return h
}

func (h *c14H) close() { h.w.close() }

// ---------------------------------------------------------------- observations (state lock NOT held by callers)

func (h *c14H) unready(c *c14Chg) bool {
	h.w.state.Lock()
	defer h.w.state.Unlock()
	return !c.chg.Status().Ready()
}

func (h *c14H) unreadyChanges() []*c14Chg {
	var out []*c14Chg
	for _, c := range h.chgs {
		if h.unready(c) {
			out = append(out, c)
		}
	}
	return out
}

// blockers: the unready, non-exempt changes the model says operate on one of names.
func (h *c14H) blockers(names []string) []*c14Chg {
	var out []*c14Chg
	for _, c := range h.unreadyChanges() {
		if c.exempt {
			continue
		}
		for _, n := range names {
			if c.snaps[n] {
				out = append(out, c)
				break
			}
		}
	}
	return out
}

func (h *c14H) exclusiveUnready() []*c14Chg {
	var out []*c14Chg
	for _, c := range h.unreadyChanges() {
		if c.exclusive {
			out = append(out, c)
		}
	}
	return out
}

func (h *c14H) nonExemptUnready() []*c14Chg {
	var out []*c14Chg
	for _, c := range h.unreadyChanges() {
		if !c.exempt {
			out = append(out, c)
		}
	}
	return out
}

// F-C14-1: checkChangeConflictExclusiveKinds lets a request for an exclusive change
// pass when every unfinished change is an ordinary refresh-snap / revert-snap change
// (its snapd-downgrade case `continue`s past the "other changes in progress" refusal).
func (h *c14H) onlyRefreshRevertUnready() bool {
	un := h.unreadyChanges()
	if len(un) == 0 {
		return false
	}
	h.w.state.Lock()
	defer h.w.state.Unlock()
	for _, c := range un {
		if c.exclusive || c.exempt {
			return false
		}
		if k := c.chg.Kind(); k != "refresh-snap" && k != "revert-snap" {
			return false
		}
	}
	return true
}

// F-C14-2: changeIsSnapdDowngrade compares the change's target version with the
// version of snapd that is current *now*; once the downgrade change has linked its
// revision the two are equal and the still unfinished change stops being exclusive.
func (h *c14H) downgradesAlreadyLinked(ex []*c14Chg) bool {
	snapst, ok := h.w.snapState(c14Snapd)
	if !ok || len(ex) == 0 {
		return false
	}
	for _, c := range ex {
		if c.downRev == 0 || snapst.Current.N != c.downRev {
			return false
		}
	}
	return true
}

func c14Descs(cs []*c14Chg) string {
	var out []string
	for _, c := range cs {
		out = append(out, c.desc)
	}
	return strings.Join(out, "; ")
}

type c14Snapshot struct {
	changes, tasks, linked int
	all                    string
	ops                    int
}

func (h *c14H) effectOps() int {
	n := 0
	for _, op := range h.w.opsSince(0) {
		if !strings.HasPrefix(op.op, "storesvc-") {
			n++
		}
	}
	return n
}

func (h *c14H) snapshot() c14Snapshot {
	s := c14Snapshot{ops: h.effectOps()}
	st := h.w.state
	st.Lock()
	defer st.Unlock()
	s.changes, s.tasks, s.linked = len(st.Changes()), st.TaskCount(), len(st.Tasks())
	all, err := snapstate.All(st)
	if err != nil {
		panic("HARNESS: snapstate.All: " + err.Error())
	}
	b, _ := json.Marshal(all)
	s.all = string(b)
	return s
}

func (h *c14H) recordJSON(name string) string {
	snapst, ok := h.w.snapState(name)
	if !ok {
		return "absent"
	}
	b, _ := json.Marshal(snapst)
	return string(b)
}

func c14IsConflict(err error) bool {
	var ce *snapstate.ChangeConflictError
	return errors.As(err, &ce)
}

// observedSnaps reads, for every unready change of a non-exempt kind, the snaps named by
// the snap-setup of its tasks (directly or through snap-setup-task) from the state.
func (h *c14H) observedSnaps() map[string][]string {
	st := h.w.state
	st.Lock()
	defer st.Unlock()
	bySnap := map[string]map[string]bool{}
	for _, chg := range st.Changes() {
		if chg.Status().Ready() || chg.Kind() == "pre-download" || chg.Kind() == "become-operational" {
			continue
		}
		for _, t := range chg.Tasks() {
			var snapsup snapstate.SnapSetup
			err := t.Get("snap-setup", &snapsup)
			if err != nil {
				var id string
				if t.Get("snap-setup-task", &id) != nil {
					continue
				}
				ref := st.Task(id)
				if ref == nil || ref.Get("snap-setup", &snapsup) != nil {
					continue
				}
			}
			if snapsup.SideInfo == nil {
				continue
			}
			n := snapsup.InstanceName()
			if bySnap[n] == nil {
				bySnap[n] = map[string]bool{}
			}
			bySnap[n][chg.ID()+":"+chg.Kind()] = true
		}
	}
	out := map[string][]string{}
	for n, m := range bySnap {
		for id := range m {
			out[n] = append(out[n], id)
		}
		sort.Strings(out[n])
	}
	return out
}

// invariant (1)
func (h *c14H) checkDisjoint(when string) error {
	un := h.nonExemptUnready()
	for i := 0; i < len(un); i++ {
		for j := i + 1; j < len(un); j++ {
			for n := range un[i].snaps {
				if un[j].snaps[n] {
					return h.violatef("%s: two unfinished changes operate on snap %q: [%s] and [%s]", when, n, un[i].desc, un[j].desc)
				}
			}
		}
	}
	obs := h.observedSnaps()
	for _, n := range verifkit.SortedKeys(obs) {
		if len(obs[n]) > 1 {
			return h.violatef("%s: tasks of several unfinished changes carry a snap-setup for snap %q: changes %v", when, n, obs[n])
		}
	}
	return nil
}

// ---------------------------------------------------------------- issuing

type c14Expect struct {
	reject   bool   // the request must be refused
	conflict bool   // ... and the error must be a *ChangeConflictError
	why      string // which clause demands it
	overlap  bool
	excl     bool
	// fingerprint of a known finding that explains an acceptance against this expectation
	fp string
}

// expectation for a request that names `names`; operable: the subset the request
// would really act on given the recorded state; valid: the request is otherwise
// valid for the recorded state (then the refusal has to be the conflict error).
func (h *c14H) expectFor(operable []string, valid bool) c14Expect {
	var e c14Expect
	if ex := h.exclusiveUnready(); len(ex) > 0 && len(operable) > 0 {
		e.reject, e.excl = true, true
		e.conflict = valid
		e.why = fmt.Sprintf("(3) exclusive change in progress: %s", c14Descs(ex))
		if h.downgradesAlreadyLinked(ex) && len(h.blockers(operable)) == 0 {
			e.fp = "F-C14-2"
		}
		return e
	}
	if bl := h.blockers(operable); len(bl) > 0 {
		e.reject, e.overlap = true, true
		e.conflict = valid
		// with several names the conflict error is only certain if every operable name is blocked
		if len(operable) > 1 {
			for _, n := range operable {
				if len(h.blockers([]string{n})) == 0 {
					e.conflict = false
				}
			}
		}
		e.why = fmt.Sprintf("(2) unfinished change on the same snap: %s", c14Descs(bl))
	}
	return e
}

type c14Result struct {
	downRev int
	chg   *state.Change
	snaps []string // snaps the accepted request operates on
	err   error
}

// judge applies clauses (2)/(3)/(4) to the outcome of one request and records an
// accepted change.
func (h *c14H) judge(what string, exp c14Expect, before c14Snapshot, strictTasks bool, res c14Result, exclusive bool) error {
	after := h.snapshot()
	if res.err != nil {
		h.logf("%s -> refused: %v", what, res.err)
		h.o.Extra["requests_refused"]++
		if c14IsConflict(res.err) {
			h.o.Extra["requests_refused_conflict"]++
			var diffs []string
			if after.changes != before.changes {
				diffs = append(diffs, fmt.Sprintf("changes %d -> %d", before.changes, after.changes))
			}
			if after.linked != before.linked {
				diffs = append(diffs, fmt.Sprintf("tasks linked to changes %d -> %d", before.linked, after.linked))
			}
			if strictTasks && after.tasks != before.tasks {
				diffs = append(diffs, fmt.Sprintf("task count %d -> %d", before.tasks, after.tasks))
			} else if after.tasks != before.tasks {
				h.o.Extra["refused_many_orphan_tasks"] += int64(after.tasks - before.tasks)
			}
			if after.all != before.all {
				diffs = append(diffs, fmt.Sprintf("snap records changed:\n      before %s\n      after  %s", before.all, after.all))
			}
			if after.ops != before.ops {
				diffs = append(diffs, fmt.Sprintf("backend operations %d -> %d", before.ops, after.ops))
			}
			if len(diffs) > 0 {
				return h.violatef("request %s was refused with a conflict error (%v) but left something behind: %s", what, res.err, strings.Join(diffs, "; "))
			}
		}
		if exp.reject && exp.conflict && !c14IsConflict(res.err) {
			return h.violatef("request %s had to be refused with a conflict error [%s] but the error is %T: %v", what, exp.why, res.err, res.err)
		}
		return nil
	}
	h.o.Extra["requests_accepted"]++
	if exp.reject && (len(res.snaps) > 0 || res.chg != nil) && exp.fp != "" {
		// a finding with a narrow fingerprint: once the lead has listed it as known the
		// case goes on (the accepted change is recorded like any other)
		h.logf("%s -> ACCEPTED against %s [%s]", what, exp.why, exp.fp)
		if !verifkit.IsKnown("C14", exp.fp) {
			return verifkit.Knownf(exp.fp, "C14: request %s was accepted although it had to be refused: %s\n  history (latest last):\n    %s", what, exp.why, h.tail())
		}
		h.o.Extra["known_"+exp.fp]++
	} else if exp.reject && (len(res.snaps) > 0 || res.chg != nil) {
		h.logf("%s -> ACCEPTED (change %v, snaps %v)", what, res.chg != nil, res.snaps)
		return h.violatef("request %s was accepted (operating on %v) although it had to be refused: %s", what, res.snaps, exp.why)
	}
	if res.chg == nil {
		h.logf("%s -> accepted, nothing to do", what)
		return nil
	}
	rec := &c14Chg{chg: res.chg, snaps: map[string]bool{}, exclusive: exclusive, downRev: res.downRev}
	h.w.state.Lock()
	rec.id = res.chg.ID()
	rec.desc = fmt.Sprintf("change %s %s %v", res.chg.ID(), res.chg.Kind(), res.snaps)
	h.w.state.Unlock()
	if exclusive {
		rec.desc += " EXCLUSIVE"
	}
	for _, n := range res.snaps {
		rec.snaps[n] = true
	}
	h.chgs = append(h.chgs, rec)
	h.logf("%s -> %s", what, rec.desc)
	return nil
}

// resolveOrRaw: the world's resolve decides whether the request is valid for the
// recorded state; an invalid one is still issued as drawn (it has to be refused anyway
// when it meets an unfinished change).
func (h *c14H) resolveOrRaw(r worldReq) (worldReq, bool) {
	rr, ok := h.w.resolve(r)
	if ok {
		return rr, true
	}
	if r.Op == "refresh" && r.Rev <= 0 {
		r.Rev = 20
	}
	if (r.Op == "revert-to" || r.Op == "refresh-kept" || r.Op == "remove-rev") && r.Rev <= 0 {
		r.Rev = 1 + r.Pick%3
		if r.Op == "refresh-kept" {
			r.ByRev = true
		}
	}
	return r, false
}

// isDowngrade: model of "snapd downgrade": the request moves snapd to a kept revision
// with a lower version than the current one (versions grow with revisions here).
func (h *c14H) isDowngrade(r worldReq, valid bool) bool {
	if r.Snap != c14Snapd || !valid {
		return false
	}
	snapst, ok := h.w.snapState(c14Snapd)
	if !ok {
		return false
	}
	switch r.Op {
	case "refresh-kept", "revert-to", "revert":
		return r.Rev > 0 && r.Rev < snapst.Current.N
	}
	return false
}

// adapt: when nothing stands in the way of the snap, an inapplicable request is turned
// into the nearest applicable one (the generator cannot know the recorded state), so
// that changes get started; requests that meet an unfinished change are issued as drawn.
func (h *c14H) adapt(r worldReq) worldReq {
	if r.Snap == c14Snapd {
		return r
	}
	if _, ok := h.w.resolve(r); ok {
		return r
	}
	if len(h.blockers([]string{r.Snap})) > 0 || len(h.exclusiveUnready()) > 0 {
		return r
	}
	present, active := h.present(r.Snap)
	switch {
	case !present:
		return worldReq{Op: "install", Snap: r.Snap, Channel: r.Channel, User: r.User}
	case r.Op == "install":
		r.Op, r.Rev = "refresh", 0
	case !active:
		return worldReq{Op: "enable", Snap: r.Snap}
	case r.Op == "enable":
		return worldReq{Op: "disable", Snap: r.Snap}
	default:
		// nothing to revert to / no other kept revision
		r.Op, r.Rev, r.ByRev = "refresh", 0, false
	}
	return r
}

func (h *c14H) doReq(r worldReq, stale string) error {
	if stale != "" {
		// a stale request needs a store round trip: install of an absent snap or refresh of an active one
		present, active := h.present(r.Snap)
		switch {
		case !present:
			r, stale = worldReq{Op: "install", Snap: r.Snap}, "install"
		case !active:
			stale = ""
		case r.Op == "install":
			r, stale = worldReq{Op: "refresh", Snap: r.Snap}, "inhibit"
		}
		if stale == "install" && present {
			stale = "inhibit"
		}
	} else {
		r = h.adapt(r)
	}
	rr, valid := h.resolveOrRaw(r)
	what := rr.String()
	compute := func() (c14Expect, bool) {
		exp := h.expectFor([]string{rr.Snap}, valid)
		down := h.isDowngrade(rr, valid)
		if down && !exp.reject {
			if un := h.nonExemptUnready(); len(un) > 0 {
				exp = c14Expect{reject: true, conflict: true, excl: true, why: fmt.Sprintf("(3) snapd downgrade is exclusive but other changes are in progress: %s", c14Descs(un))}
				if h.onlyRefreshRevertUnready() {
					exp.fp = "F-C14-1"
				}
			}
		}
		return exp, down
	}
	exp, down := compute()
	before := h.snapshot()
	staleFired, recordChanged := false, false
	if stale != "" {
		what = fmt.Sprintf("%s [record changed meanwhile by: %s]", what, stale)
		h.store.hook = func() {
			staleFired = true
			recBefore := h.recordJSON(rr.Snap)
			h.interfere(rr.Snap, stale)
			recordChanged = h.recordJSON(rr.Snap) != recBefore
			// the request resumes now: this is the state its checks see
			exp, down = compute()
			before = h.snapshot()
			if recordChanged {
				exp.reject, exp.conflict = true, true
				exp.why = "(4) the snap's record changed while the request was being prepared; " + exp.why
			}
		}
	}
	chg, err := h.w.request(rr)
	h.store.hook = nil
	if stale != "" {
		if staleFired && recordChanged {
			h.sawStale = true
			h.o.Extra["stale_requests"]++
		} else {
			h.o.Extra["stale_not_effective"]++
		}
	}
	h.noteExpect(exp)
	if down {
		h.sawDowngrade = true
	}
	res := c14Result{chg: chg, err: err}
	if err == nil {
		res.snaps = []string{rr.Snap}
	}
	if down {
		res.downRev = rr.Rev
	}
	return h.judge(what, exp, before, true, res, down)
}

func (h *c14H) noteExpect(e c14Expect) {
	if e.overlap {
		h.sawOverlap = true
		h.o.Extra["requests_overlapping"]++
	}
	if e.excl {
		h.sawExcl = true
		h.o.Extra["requests_vs_exclusive"]++
	}
}

// interfere changes the record of name while a request on it is at the store.
func (h *c14H) interfere(name, how string) {
	var r worldReq
	switch how {
	case "inhibit":
		// what a refresh attempt that finds the snap busy records
		if _, ok := h.w.snapState(name); ok {
			h.w.request(worldReq{Op: "mark-inhibited", Snap: name})
		}
		return
	case "switch":
		r = worldReq{Op: "switch", Snap: name, Channel: "latest/candidate"}
	case "disable":
		r = worldReq{Op: "disable", Snap: name}
	case "remove":
		r = worldReq{Op: "remove", Snap: name}
	case "install":
		r = worldReq{Op: "install", Snap: name}
	default:
		panic("HARNESS: unknown interference " + how)
	}
	chg, err := h.w.request(r)
	if err != nil {
		h.logf("  (meanwhile %s -> refused: %v)", r, err)
		return
	}
	rec := &c14Chg{chg: chg, snaps: map[string]bool{name: true}}
	h.w.state.Lock()
	rec.id = chg.ID()
	rec.desc = fmt.Sprintf("change %s %s [%s]", chg.ID(), chg.Kind(), name)
	h.w.state.Unlock()
	h.chgs = append(h.chgs, rec)
	h.logf("  (meanwhile %s -> %s, run to completion)", r, rec.desc)
	h.w.run()
}

func (h *c14H) present(name string) (present, active bool) {
	snapst, ok := h.w.snapState(name)
	if !ok {
		return false, false
	}
	return true, snapst.Active
}

func (h *c14H) doMany(op c14Op, stale bool) error {
	st := h.w.state
	names := append([]string(nil), op.Names...)
	what := fmt.Sprintf("%s %v", op.Many, names)
	compute := func() c14Expect {
		var operable []string
		valid := true
		for _, n := range names {
			p, a := h.present(n)
			switch op.Many {
			case "refresh-many":
				if p && a {
					operable = append(operable, n)
				} else {
					valid = false
				}
			case "install-many":
				if !p {
					operable = append(operable, n)
				}
			case "remove-many":
				if p {
					operable = append(operable, n)
				}
			}
		}
		return h.expectFor(operable, valid)
	}
	exp := compute()
	if op.Many == "refresh-many" {
		// the store offers a new revision for every installed app snap, none for snapd
		revnos := map[string]snap.Revision{}
		for _, n := range c14AppSnaps {
			// (instances of one snap share its id: one revision above all of them)
			if snapst, ok := h.w.snapState(n); ok {
				if r := worldMax(worldSeq(snapst), 0) + 1; r > revnos[worldSnapID(n)].N {
					revnos[worldSnapID(n)] = snap.R(r)
				}
			}
		}
		if snapst, ok := h.w.snapState(c14Snapd); ok {
			revnos["snapd-snap-id"] = snapst.Current
		}
		h.w.fakeStore.refreshRevnos = revnos
	}
	before := h.snapshot()
	staleFired, recordChanged := false, false
	if stale {
		what = fmt.Sprintf("%s [record of %s changed meanwhile by: %s]", what, op.Snap, op.Interf)
		// refresh-many leaves out snaps that are not active: the request operates on op.Snap
		// only if it was installed and active when the request was prepared
		_, staleOperable := h.present(op.Snap)
		h.store.hook = func() {
			staleFired = true
			recBefore := h.recordJSON(op.Snap)
			h.interfere(op.Snap, op.Interf)
			recordChanged = staleOperable && h.recordJSON(op.Snap) != recBefore
			exp = compute()
			before = h.snapshot()
			if recordChanged {
				exp.reject, exp.conflict = true, true
				exp.why = "(4) the snap's record changed while the request was being prepared; " + exp.why
			}
		}
	}
	var res c14Result
	func() {
		st.Lock()
		defer st.Unlock()
		var tss []*state.TaskSet
		var affected []string
		var err error
		var kind string
		switch op.Many {
		case "refresh-many":
			kind = "refresh-snap"
			affected, tss, err = snapstate.UpdateMany(context.Background(), st, names, nil, 0, &snapstate.Flags{})
		case "install-many":
			kind = "install-snap"
			affected, tss, err = snapstate.InstallMany(st, names, nil, 0, &snapstate.Flags{})
		case "remove-many":
			kind = "remove-snap"
			affected, tss, err = snapstate.RemoveMany(st, names, &snapstate.RemoveFlags{})
		default:
			panic("HARNESS: unknown many op " + op.Many)
		}
		res.err = err
		if err != nil {
			return
		}
		sort.Strings(affected)
		res.snaps = affected
		if len(tss) > 0 {
			// as the daemon does
			chg := st.NewChange(kind, fmt.Sprintf("verif: %s %v", op.Many, names))
			for _, ts := range tss {
				chg.AddAll(ts)
			}
			res.chg = chg
		}
	}()
	h.store.hook = nil
	if stale {
		if staleFired && recordChanged {
			h.sawStale = true
			h.o.Extra["stale_requests"]++
		} else {
			h.o.Extra["stale_not_effective"]++
		}
	}
	h.noteExpect(exp)
	h.sawMany = true
	// accepted with names reported: each reported snap must be free (invariant 1 at the source)
	if res.err == nil && !exp.reject && len(res.snaps) > 0 {
		if ex := h.exclusiveUnready(); len(ex) > 0 {
			h.logf("%s -> ACCEPTED for %v", what, res.snaps)
			if h.downgradesAlreadyLinked(ex) && len(h.blockers(res.snaps)) == 0 {
				if !verifkit.IsKnown("C14", "F-C14-2") {
					return verifkit.Knownf("F-C14-2", "C14: request %s was accepted for %v while an exclusive change is in progress: %s\n  history (latest last):\n    %s", what, res.snaps, c14Descs(ex), h.tail())
				}
				h.o.Extra["known_F-C14-2"]++
			} else {
				return h.violatef("request %s was accepted for %v while an exclusive change is in progress: %s", what, res.snaps, c14Descs(ex))
			}
		}
		if bl := h.blockers(res.snaps); len(bl) > 0 {
			h.logf("%s -> ACCEPTED for %v", what, res.snaps)
			return h.violatef("request %s was accepted for %v although unfinished changes operate on some of them: %s", what, res.snaps, c14Descs(bl))
		}
	}
	return h.judge(what, exp, before, false, res, false)
}

func (h *c14H) manualAliasOwner(alias string) string {
	for _, n := range c14AppSnaps {
		if snapst, ok := h.w.snapState(n); ok {
			if t := snapst.Aliases[alias]; t != nil && t.Manual != "" {
				return n
			}
		}
	}
	return ""
}

func (h *c14H) doAlias(op c14Op) error {
	st := h.w.state
	target := op.Snap
	valid := false
	what := ""
	switch op.Kind {
	case "alias":
		what = fmt.Sprintf("alias %s.cmd1 as %s-%s", op.Snap, op.Alias, op.Snap)
		valid, _ = h.present(op.Snap)
	case "disable-aliases":
		what = fmt.Sprintf("disable-aliases %s", op.Snap)
		valid, _ = h.present(op.Snap)
	case "unalias":
		// the snap is found through the alias
		alias := op.Alias + "-" + op.Snap
		what = fmt.Sprintf("unalias %s", alias)
		target = h.manualAliasOwner(alias)
		valid = target != ""
	}
	var exp c14Expect
	if target != "" {
		exp = h.expectFor([]string{target}, valid)
	}
	if !valid {
		// no such snap / alias: nothing the property says anything about unless it is refused anyway
		exp = c14Expect{}
	}
	before := h.snapshot()
	var res c14Result
	func() {
		st.Lock()
		defer st.Unlock()
		var ts *state.TaskSet
		var err error
		var kind string
		switch op.Kind {
		case "alias":
			kind = "alias"
			ts, err = snapstate.Alias(st, op.Snap, "cmd1", op.Alias+"-"+op.Snap)
		case "disable-aliases":
			kind = "unalias"
			ts, err = snapstate.DisableAllAliases(st, op.Snap)
		case "unalias":
			kind = "unalias"
			var owner string
			ts, owner, err = snapstate.RemoveManualAlias(st, op.Alias+"-"+op.Snap)
			if err == nil {
				target = owner
			}
		}
		res.err = err
		if err != nil {
			return
		}
		res.snaps = []string{target}
		chg := st.NewChange(kind, "verif: "+what)
		chg.AddAll(ts)
		res.chg = chg
	}()
	h.noteExpect(exp)
	if exp.overlap || exp.excl {
		h.sawAliasOverlap = true
	}
	return h.judge(what, exp, before, true, res, false)
}

func (h *c14H) doExclusive(op c14Op) error {
	st := h.w.state
	what := "exclusive request " + op.ExKind
	var exp c14Expect
	viaCheck := !strings.HasPrefix(op.ExKind, "transition-")
	if viaCheck {
		if un := h.nonExemptUnready(); len(un) > 0 {
			exp = c14Expect{reject: true, conflict: true, excl: true, why: fmt.Sprintf("(3) %s must run alone but other changes are in progress: %s", op.ExKind, c14Descs(un))}
			if h.onlyRefreshRevertUnready() {
				exp.fp = "F-C14-1"
			}
		}
	} else if len(h.nonExemptUnready()) > 0 {
		// the snap manager starts the transitions on its own only when nothing else is going on
		// in the scenarios of this harness
		h.o.Extra["transition_skipped_busy"]++
		return nil
	}
	before := h.snapshot()
	var res c14Result
	var gate *state.Task
	func() {
		st.Lock()
		defer st.Unlock()
		if viaCheck {
			// devicestate.Remodel / CreateRecoverySystem / RemoveRecoverySystem
			if err := snapstate.CheckChangeConflictRunExclusively(st, op.ExKind); err != nil {
				res.err = err
				return
			}
		}
		chg := st.NewChange(op.ExKind, "verif: "+what)
		gate = st.NewTask("c14-gate", "verif: body of "+op.ExKind)
		gate.At(time.Now().Add(10000 * time.Hour))
		chg.AddTask(gate)
		res.chg = chg
	}()
	h.noteExpect(exp)
	h.sawExcl = true
	if err := h.judge(what, exp, before, true, res, true); err != nil {
		return err
	}
	if res.chg != nil {
		h.chgs[len(h.chgs)-1].gate = gate
	}
	return nil
}

func (h *c14H) doExempt(op c14Op) error {
	st := h.w.state
	st.Lock()
	defer st.Unlock()
	chg := st.NewChange(op.ExKind, "verif: exempt change "+op.ExKind)
	rec := &c14Chg{chg: chg, id: chg.ID(), snaps: map[string]bool{}, exempt: true}
	var t *state.Task
	if op.ExKind == "pre-download" {
		// as the auto-refresh code builds it for a snap that is busy
		t = st.NewTask("pre-download-snap", fmt.Sprintf("verif: pre-download %s", op.Snap))
		_, key := snap.SplitInstanceName(op.Snap)
		t.Set("snap-setup", &snapstate.SnapSetup{SideInfo: c14SideInfo(op.Snap, 30), InstanceKey: key, Flags: snapstate.Flags{IsAutoRefresh: true}})
		t.Set("refresh-info", map[string]interface{}{})
		rec.snaps[op.Snap] = true
	} else {
		t = st.NewTask("c14-gate", "verif: body of become-operational")
	}
	t.At(time.Now().Add(10000 * time.Hour))
	chg.AddTask(t)
	rec.gate = t
	rec.desc = fmt.Sprintf("change %s %s %v EXEMPT", chg.ID(), chg.Kind(), verifkit.SortedKeys(rec.snaps))
	h.chgs = append(h.chgs, rec)
	h.hist = append(h.hist, fmt.Sprintf("exempt -> %s", rec.desc))
	h.sawExempt = true
	return nil
}

func (h *c14H) doProgress(k int) {
	for i := 0; i < k; i++ {
		h.w.se.Ensure()
		h.w.se.Wait()
	}
	h.w.fold()
}

func (h *c14H) statusLine() string {
	var out []string
	st := h.w.state
	st.Lock()
	defer st.Unlock()
	for _, c := range h.chgs {
		if s := c.chg.Status(); !s.Ready() {
			done := 0
			for _, t := range c.chg.Tasks() {
				if t.Status().Ready() {
					done++
				}
			}
			out = append(out, fmt.Sprintf("%s:%s(%d/%d tasks)", c.id, s, done, len(c.chg.Tasks())))
		}
	}
	return "unfinished: [" + strings.Join(out, " ") + "]"
}

// ---------------------------------------------------------------- run

func c14Run(c *check.C, cs c14Case) (verifkit.Outcome, error) {
	o := verifkit.Outcome{Extra: map[string]int64{}}
	if len(cs.Ops) == 0 {
		o.Skip = true
		return o, nil
	}
	h := c14NewHarness(c, cs, &o)
	defer h.close()

	for i, op := range cs.Ops {
		var err error
		switch op.Kind {
		case "req":
			if op.Req == nil {
				continue
			}
			h.hist = append(h.hist, fmt.Sprintf("-- %d", i))
			err = h.doReq(*op.Req, "")
		case "stale":
			h.hist = append(h.hist, fmt.Sprintf("-- %d", i))
			if op.Many != "" {
				if len(op.Names) == 0 || op.Snap == "" {
					continue
				}
				err = h.doMany(op, true)
			} else if op.Req != nil {
				err = h.doReq(*op.Req, op.Interf)
			}
		case "many":
			h.hist = append(h.hist, fmt.Sprintf("-- %d", i))
			err = h.doMany(op, false)
		case "alias", "unalias", "disable-aliases":
			h.hist = append(h.hist, fmt.Sprintf("-- %d", i))
			err = h.doAlias(op)
		case "excl":
			h.hist = append(h.hist, fmt.Sprintf("-- %d", i))
			err = h.doExclusive(op)
		case "exempt":
			err = h.doExempt(op)
		case "progress":
			nUn := len(h.unreadyChanges())
			h.doProgress(op.K)
			if nUn > 0 && len(h.nonExemptUnready()) > 0 {
				h.sawPartial = true
			}
			h.logf("-- %d progress %d rounds; %s", i, op.K, h.statusLine())
		case "finish":
			if serr := h.w.run(); serr != nil {
				// not this property's business (C11 checks that changes settle)
				o.Extra["settle_errors"]++
				h.logf("-- %d finish: settle error %v", i, serr)
			} else {
				h.logf("-- %d finish; %s", i, h.statusLine())
			}
		case "abort":
			un := h.nonExemptUnready()
			if len(un) == 0 {
				continue
			}
			t := un[op.K%len(un)]
			h.w.state.Lock()
			t.chg.Abort()
			h.w.state.Unlock()
			h.sawAbort = true
			h.logf("-- %d abort %s; %s", i, t.desc, h.statusLine())
		case "release":
			var held []*c14Chg
			for _, c := range h.unreadyChanges() {
				if c.gate != nil && !c.exempt {
					held = append(held, c)
				}
			}
			if len(held) == 0 {
				continue
			}
			t := held[op.K%len(held)]
			h.w.state.Lock()
			t.gate.At(time.Time{})
			h.w.state.EnsureBefore(0)
			h.w.state.Unlock()
			t.gate = nil
			h.logf("-- %d release %s", i, t.desc)
		default:
			panic("HARNESS: unknown op kind " + op.Kind)
		}
		if err != nil {
			return o, err
		}
		if err := h.checkDisjoint(fmt.Sprintf("after step %d (%s)", i, op.Kind)); err != nil {
			return o, err
		}
	}

	o.NonTrivial = h.sawOverlap
	add := func(b bool, l string) {
		if b {
			o.Labels = append(o.Labels, l)
		}
	}
	add(h.sawOverlap, "overlapping-request")
	add(h.sawExcl, "exclusive")
	add(h.sawStale, "stale")
	add(h.sawExempt, "exempt")
	add(h.sawPartial, "partial-progress")
	add(h.sawAbort, "abort")
	add(h.sawMany, "many")
	add(h.sawDowngrade, "snapd-downgrade")
	add(h.sawAliasOverlap, "alias-vs-change")
	add(o.Extra["known_F-C14-2"] > 0, "continued-past-known:F-C14-2")
	add(o.Extra["known_F-C14-1"] > 0, "continued-past-known:F-C14-1")
	o.Desc = fmt.Sprintf("%d ops: %d accepted, %d refused (%d conflict), %d overlapping, %d vs exclusive, %d stale; last: %s",
		len(cs.Ops), o.Extra["requests_accepted"], o.Extra["requests_refused"], o.Extra["requests_refused_conflict"],
		o.Extra["requests_overlapping"], o.Extra["requests_vs_exclusive"], o.Extra["stale_requests"], strings.Join(h.hist[c14Max(0, len(h.hist)-3):], " | "))
	return o, nil
}

func c14Max(a, b int) int {
	if a > b {
		return a
	}
	return b
}

func TestVerifC14(t *testing.T) {
	worldRun(t, func(c *check.C) {
		verifkit.Check(t, verifkit.Spec[c14Case]{
			ID: "C14", Engine: "histories",
			Gen:             c14Gen,
			Run:             func(cs c14Case) (verifkit.Outcome, error) { return c14Run(c, cs) },
			Floors:          map[string]float64{"overlapping-request": 0.30, "exclusive": 0.05, "stale": 0.05, "partial-progress": 0.2, "many": 0.2},
			NonTrivialFloor: 0.3,
		})
	})
}
