package snapstate_test

// C10 — a failed install, refresh or revert leaves the snap exactly as it was.
//
// A case is (snap, prior history, final operation).  The history is run through
// the real snapstate entry points (so sequences with current-not-last, gaps,
// NotBlocked marks, per-revision config snapshots arise by running snapd).  Then
// the final operation is attempted once per failure point:
//
//	every task of the generated change (an always-failing task wired in front of it), and
//	every applicable fault inside the fake backend (link, copy-data, unlink, profiles, ...),
//
// and after each failed attempt the snapshot of everything the statement lists
// (worldView) must equal the snapshot taken right before the attempt, and the
// recorded state must agree with the world model (C11 cross-check).  The attempts of
// one case run on the same world (the property says the state is unchanged, and it
// is checked to be); the world is rebuilt from the history when an attempt left a
// tolerated (known-finding) difference behind.
//
// Known findings (narrow predicates, see c10Judge): F-C10-1, F-C10-2.

import (
	"encoding/json"
	"fmt"
	"sort"
	"strings"
	"testing"

	"gopkg.in/check.v1"
	"pgregory.net/rapid"

	"github.com/snapcore/snapd/overlord/snapstate"
	"github.com/snapcore/snapd/overlord/state"
	"github.com/snapcore/snapd/verifkit"
)

type c10Case struct {
	Snap    string     `json:"snap"`
	Aliases bool       `json:"aliases,omitempty"`
	History []worldReq `json:"history"`
	Final   worldReq   `json:"final"`
	// NoTolerance: do not compare modulo known findings (witness engine / replays of findings)
	NoTolerance bool `json:"no_tolerance,omitempty"`
}

// ---------------------------------------------------------------- generator

var c10HistoryKinds = []string{
	"refresh", "refresh", "refresh", "refresh", "refresh", "refresh-kept", "refresh-kept",
	"revert", "revert", "revert-to", "remove-rev", "switch", "set-config", "set-config", "set-config",
	"set-retain", "mark-inhibited", "remove", "disable", "enable",
}

var c10FinalKinds = []string{
	"install", "refresh", "refresh", "refresh", "refresh",
	"refresh-kept", "refresh-kept", "refresh-kept", "refresh-kept", "revert", "revert", "revert-to", "revert-to",
}

func c10Gen(t *rapid.T) c10Case {
	c := c10Case{Snap: rapid.SampledFrom([]string{"some-snap", "some-snap", "some-snap", "services-snap", "some-snap_foo"}).Draw(t, "snap")}
	c.Aliases = rapid.IntRange(0, 2).Draw(t, "aliases") == 0
	c.Final = worldGenReq(t, c.Snap, c10FinalKinds)
	n := rapid.SampledFrom([]int{1, 2, 3, 4, 4, 5, 5, 6, 6, 7, 7}).Draw(t, "nhist")
	if verifkit.Thorough() {
		n += rapid.IntRange(0, 2).Draw(t, "nhist-more")
	}
	if c.Final.Op == "install" {
		n = rapid.IntRange(0, 3).Draw(t, "nhist-install")
	}
	// shape: install, often a larger refresh.retain (so more than two revisions pile
	// up), a refresh-heavy middle, often a revert at the end (current not last)
	tailRevert := n >= 3 && rapid.IntRange(0, 9).Draw(t, "tailrevert") < 4
	for i := 0; i < n; i++ {
		switch {
		case i == 0:
			c.History = append(c.History, worldGenReq(t, c.Snap, []string{"install"}))
		case i == 1 && n >= 3 && rapid.IntRange(0, 9).Draw(t, "retain-first") < 6:
			c.History = append(c.History, worldReq{Op: "set-retain", Snap: c.Snap, Retain: rapid.IntRange(3, 5).Draw(t, "retain")})
		case i == n-1 && tailRevert:
			c.History = append(c.History, worldGenReq(t, c.Snap, []string{"revert", "revert", "revert-to"}))
		case i <= 3:
			c.History = append(c.History, worldGenReq(t, c.Snap, []string{"refresh"}))
		default:
			c.History = append(c.History, worldGenReq(t, c.Snap, c10HistoryKinds))
		}
	}
	// a shape the plain draw rarely reaches: many kept revisions (large retain), then a
	// small retain, then a refresh to a kept revision in the middle - the refresh
	// garbage-collects revisions that sit before the target
	if c.Final.Op != "install" && rapid.IntRange(0, 9).Draw(t, "deep-gc") == 0 {
		c.History = []worldReq{worldGenReq(t, c.Snap, []string{"install"}), {Op: "set-retain", Snap: c.Snap, Retain: 5}}
		k := rapid.IntRange(3, 4).Draw(t, "deep-n")
		for i := 0; i < k; i++ {
			c.History = append(c.History, worldGenReq(t, c.Snap, []string{"refresh"}))
		}
		if rapid.IntRange(0, 2).Draw(t, "deep-revert") == 0 {
			c.History = append(c.History, worldGenReq(t, c.Snap, []string{"revert", "revert-to"}))
		}
		c.History = append(c.History, worldReq{Op: "set-retain", Snap: c.Snap, Retain: rapid.SampledFrom([]int{2, 2, 3}).Draw(t, "deep-retain")})
		c.Final = worldGenReq(t, c.Snap, []string{"refresh-kept", "refresh-kept", "refresh-kept", "refresh"})
	}
	// configuration written between operations, so that per-revision snapshots differ
	if len(c.History) >= 2 {
		for _, pos := range []int{1, len(c.History) - 1} {
			if rapid.IntRange(0, 9).Draw(t, "cfg") < 4 {
				cfg := worldGenReq(t, c.Snap, []string{"set-config"})
				h := append([]worldReq(nil), c.History[:pos]...)
				h = append(h, cfg)
				c.History = append(h, c.History[pos:]...)
			}
		}
	}
	return c
}

// ---------------------------------------------------------------- applying requests with fallbacks

// c10Apply issues r, falling back to simpler variants when the present state makes
// it inapplicable or snapstate refuses it (the generator cannot know the run-time
// state).  Returns the change and the request that was accepted.
func c10Apply(w *world, r worldReq, allowInstall bool) (*state.Change, worldReq, error) {
	try := func(r worldReq) (*state.Change, worldReq, error) {
		rr, ok := w.resolve(r)
		if !ok {
			return nil, rr, fmt.Errorf("inapplicable")
		}
		chg, err := w.request(rr)
		return chg, rr, err
	}
	chg, rr, err := try(r)
	if err == nil {
		return chg, rr, nil
	}
	firstErr := err
	var alts []worldReq
	plain := r
	plain.DevMode, plain.JailMode, plain.Classic = false, false, false
	alts = append(alts, plain)
	switch r.Op {
	case "refresh-kept", "revert", "revert-to", "remove-rev", "refresh":
		// nothing kept to address / target blocked or refused: refresh to a brand new revision
		nr := plain
		nr.Op, nr.Rev, nr.ByRev, nr.Pick, nr.NotBlocked = "refresh", 0, false, 0, false
		alts = append(alts, nr)
		if allowInstall {
			in := nr
			in.Op, in.LeaveCohort = "install", false
			alts = append(alts, in)
		}
	}
	for _, a := range alts {
		if chg, rr, err := try(a); err == nil {
			return chg, rr, nil
		}
	}
	return nil, r, firstErr
}

// ---------------------------------------------------------------- oracle

func c10RevKeys(a, b map[string]string) []string {
	seen := map[string]bool{}
	var out []string
	for k := range a {
		if !seen[k] {
			seen[k] = true
			out = append(out, k)
		}
	}
	for k := range b {
		if !seen[k] {
			seen[k] = true
			out = append(out, k)
		}
	}
	sort.Strings(out)
	return out
}

// c10Compare lists the fields of the statement that differ between the snapshot
// taken before the operation (b) and after its failure (a).
func c10Compare(b, a worldView) []string {
	var d []string
	add := func(field string, bv, av interface{}) {
		d = append(d, fmt.Sprintf("%s: before %v, after %v", field, bv, av))
	}
	if b.Present != a.Present {
		add("installed", b.Present, a.Present)
	}
	if b.Current != a.Current {
		add("current revision", b.Current, a.Current)
	}
	if !worldIntsEqual(b.Seq, a.Seq) {
		add("ordered kept revisions", b.Seq, a.Seq)
	}
	if b.Active != a.Active {
		add("active", b.Active, a.Active)
	}
	if b.Channel != a.Channel {
		add("tracking channel", b.Channel, a.Channel)
	}
	if b.DevMode != a.DevMode {
		add("devmode", b.DevMode, a.DevMode)
	}
	if b.JailMode != a.JailMode {
		add("jailmode", b.JailMode, a.JailMode)
	}
	if b.Classic != a.Classic {
		add("classic", b.Classic, a.Classic)
	}
	if b.TryMode != a.TryMode {
		add("trymode", b.TryMode, a.TryMode)
	}
	if b.IgnoreValidation != a.IgnoreValidation {
		add("ignore-validation", b.IgnoreValidation, a.IgnoreValidation)
	}
	if b.Cohort != a.Cohort {
		add("cohort", b.Cohort, a.Cohort)
	}
	if b.LastRefresh != a.LastRefresh {
		add("last refresh time", b.LastRefresh, a.LastRefresh)
	}
	if b.Inhibited != a.Inhibited {
		add("refresh inhibited time", b.Inhibited, a.Inhibited)
	}
	if !worldIntsEqual(b.Block, a.Block) {
		add("revisions blocked from automatic refresh", b.Block, a.Block)
	}
	if b.Config != a.Config {
		add("configuration", b.Config, a.Config)
	}
	// per-revision config snapshots are internal bookkeeping: pre-existing ones must be
	// unchanged; the one of the revision that was current may be created or refreshed
	// with the snap's (restored) configuration
	for _, k := range c10RevKeys(b.RevConfig, a.RevConfig) {
		bv, bok := b.RevConfig[k]
		av, aok := a.RevConfig[k]
		if bok == aok && bv == av {
			continue
		}
		if b.Present && k == fmt.Sprint(b.Current) && aok && av == b.Config {
			continue
		}
		add("saved configuration of revision "+k, fmt.Sprintf("%q (present %v)", bv, bok), fmt.Sprintf("%q (present %v)", av, aok))
	}
	if b.Linked != a.Linked {
		add("revision linked as current", b.Linked, a.Linked)
	}
	if !worldIntsEqual(b.Mounted, a.Mounted) {
		add("revisions present on the system", b.Mounted, a.Mounted)
	}
	if strings.Join(b.Aliases, ",") != strings.Join(a.Aliases, ",") {
		add("aliases", b.Aliases, a.Aliases)
	}
	return d
}

func c10Without(xs []int, drop []int) []int {
	var out []int
	for _, x := range xs {
		if !worldContains(drop, x) {
			out = append(out, x)
		}
	}
	return out
}

// c10DropRevs: the before-snapshot as it would look had the revisions in drop
// never been kept (tolerance for F-C10-2).
func c10DropRevs(b worldView, drop []int) worldView {
	b.Seq = c10Without(b.Seq, drop)
	b.Block = c10Without(b.Block, drop)
	b.NotBlocked = c10Without(b.NotBlocked, drop)
	b.Mounted = c10Without(b.Mounted, drop)
	if len(b.RevConfig) > 0 {
		rc := map[string]string{}
		for k, v := range b.RevConfig {
			keep := true
			for _, r := range drop {
				if k == fmt.Sprint(r) {
					keep = false
				}
			}
			if keep {
				rc[k] = v
			}
		}
		b.RevConfig = rc
	}
	return b
}

// c10BlockWith: Block() of the before-snapshot if target lost its NotBlocked mark
// (tolerance for F-C10-1).
func c10BlockWith(b worldView, target int) worldView {
	var blk []int
	after := false
	for _, r := range b.Seq {
		if after && (worldContains(b.Block, r) || r == target) {
			blk = append(blk, r)
		}
		if r == b.Current {
			after = true
		}
	}
	b.Block = blk
	return b
}

type c10Attempt struct {
	before, after worldView
	nTasks        int
	linkIdx       int // index of the first link-snap task among the fault tasks, -1 if none
	status        state.Status
	unready       []string
	taskLines     []string
	removed       []int // revisions of the snap whose files were removed from the system during the attempt
	target        int   // revision the operation was moving to (from the change's snap-setup)
	fired         bool
	settleErr     error
	problems      []string
	chgErr        string
}

// c10Try runs one attempt of req with the given failure point.
// taskIdx >= 0: fail before that task; backendOp != "": arm that backend fault.
func c10Try(w *world, req worldReq, taskIdx int, backendOp string) (*c10Attempt, error) {
	w.pruneChanges() // earlier attempts' changes: keeps the state (and every checkpoint) small
	a := &c10Attempt{before: w.view(req.Snap), linkIdx: -1}
	opsFrom := w.opCount()
	chg, err := w.request(req)
	if err != nil {
		return nil, verifkit.Violatef("C10: request %s was accepted before and is refused now although the failed attempts in between left the compared state unchanged: %v", req, err)
	}
	tasks := worldFaultTasks(w.state, chg)
	a.nTasks = len(tasks)
	w.state.Lock()
	for i, t := range tasks {
		if t.Kind() == "link-snap" && a.linkIdx < 0 {
			a.linkIdx = i
		}
	}
	if snapsup, err := snapstate.TaskSnapSetup(tasks[0]); err == nil {
		a.target = snapsup.Revision().N
	}
	w.state.Unlock()
	if taskIdx >= 0 {
		if taskIdx >= len(tasks) {
			panic(fmt.Sprintf("HARNESS: failure point %d beyond the %d tasks of the change", taskIdx, len(tasks)))
		}
		w.failBefore(chg, tasks[taskIdx])
	}
	if backendOp != "" {
		w.failBackend(backendOp, req.Snap, a.target)
	}
	a.settleErr = w.run()
	a.fired = w.clearFaults(opsFrom)
	a.status, a.unready, a.taskLines = w.changeReport(chg)
	a.chgErr = w.changeErr(chg)
	for _, op := range w.opsSince(opsFrom) {
		if op.op == "remove-snap-files" {
			name, rev := worldSplitMountDir(op.path)
			if name == req.Snap && !worldContains(a.removed, rev) {
				a.removed = append(a.removed, rev)
			}
		}
	}
	a.after = w.view(req.Snap)
	a.problems = w.consistency()
	return a, nil
}

// c10Judge decides one failed attempt.  Returns (fingerprints of known findings
// that exactly explain the difference, violation).
func c10Judge(req worldReq, a *c10Attempt, where string) ([]string, error) {
	ctx := func() string {
		return fmt.Sprintf("\n  operation: %s\n  failure point: %s\n  before: %s\n  after:  %s\n  tasks: %s\n  change error: %s",
			req, where, a.before, a.after, strings.Join(a.taskLines, " "), strings.ReplaceAll(a.chgErr, "\n", " | "))
	}
	if a.settleErr != nil {
		return nil, verifkit.Violatef("C10: the failed change does not settle: %v%s", a.settleErr, ctx())
	}
	if a.status != state.ErrorStatus {
		return nil, verifkit.Violatef("C10: a step failed but the change ended %s, not Error%s", a.status, ctx())
	}
	if len(a.unready) > 0 {
		return nil, verifkit.Violatef("C10: tasks left pending after the failed change settled: %v%s", a.unready, ctx())
	}
	diffs := c10Compare(a.before, a.after)
	var fps []string
	if len(diffs) > 0 {
		// F-C10-2: kept revisions garbage-collected by discard-snap (which has no undo)
		// before a later task failed are gone.  Predicate: the only difference is that
		// exactly the revisions whose files were removed during this attempt — kept
		// before, neither the old current nor the target — are missing everywhere.
		b := a.before
		var gone []int
		for _, r := range a.removed {
			if worldContains(a.before.Seq, r) && r != a.before.Current && r != a.target {
				gone = append(gone, r)
			}
		}
		isRefresh := req.Op == "refresh" || req.Op == "refresh-kept"
		if len(gone) > 0 && isRefresh {
			b = c10DropRevs(b, gone)
			fps = append(fps, "F-C10-2")
		}
		rest := c10Compare(b, a.after)
		// F-C10-1: a refresh to a kept revision deletes that revision's NotBlocked mark
		// and its undo does not put it back.  Predicate: refresh (not revert) whose
		// target was kept and carried the mark; the only difference is that the target
		// is now reported as blocked.
		if len(rest) > 0 && isRefresh && worldContains(a.before.NotBlocked, a.target) {
			b = c10BlockWith(b, a.target)
			if r2 := c10Compare(b, a.after); len(r2) == 0 {
				fps = append(fps, "F-C10-1")
				rest = nil
			}
		}
		if len(rest) > 0 {
			return nil, verifkit.Violatef("C10: state after the failed operation differs from the state before it:\n    %s%s", strings.Join(diffs, "\n    "), ctx())
		}
	}
	if len(a.problems) > 0 && len(fps) == 0 {
		return nil, verifkit.Violatef("C10: recorded state and system disagree after the failed operation: %s%s", strings.Join(a.problems, "; "), ctx())
	}
	if len(a.problems) > 0 {
		// with a tolerated difference the cross-check must still hold
		return nil, verifkit.Violatef("C10: recorded state and system disagree after the failed operation (on top of %v): %s%s", fps, strings.Join(a.problems, "; "), ctx())
	}
	return fps, nil
}

func c10KnownMsg(fp string, req worldReq, a *c10Attempt, where string) error {
	what := map[string]string{
		"F-C10-1": "the NotBlocked mark of the refresh target is not restored (Block() differs)",
		"F-C10-2": "kept revisions discarded by discard-snap before the failing task are not restored",
	}[fp]
	return verifkit.Knownf(fp, "C10: %s\n  operation: %s\n  failure point: %s\n  before: %s\n  after:  %s\n  differences: %s", what, req, where, a.before, a.after,
		strings.Join(c10Compare(a.before, a.after), "; "))
}

// ---------------------------------------------------------------- run

type c10Built struct {
	w        *world
	applied  []string
	rejected int
	reasons  []string
}

func c10Build(c *check.C, cs c10Case) (*c10Built, error) {
	opts := worldOpts{ParallelInstances: strings.Contains(cs.Snap, "_")}
	if cs.Aliases {
		opts.AliasSnaps = []string{cs.Snap}
	}
	b := &c10Built{w: newWorld(c, opts)}
	w := b.w
	for _, h := range cs.History {
		h.Snap = cs.Snap
		var chg *state.Change
		var rr worldReq
		var err error
		switch h.Op {
		case "set-config", "set-retain", "mark-inhibited", "switch", "remove", "disable", "enable":
			var ok bool
			rr, ok = w.resolve(h)
			if !ok {
				b.rejected++
				continue
			}
			chg, err = w.request(rr)
		default:
			chg, rr, err = c10Apply(w, h, true)
		}
		if err != nil {
			b.rejected++
			b.reasons = append(b.reasons, fmt.Sprintf("%s: %v", h, err))
			continue
		}
		b.applied = append(b.applied, rr.Op)
		if chg == nil {
			continue
		}
		if err := w.run(); err != nil {
			w.close()
			return nil, verifkit.Violatef("C10: history operation %s does not settle: %v", rr, err)
		}
		if st, _, lines := w.changeReport(chg); st != state.DoneStatus {
			msg := w.changeErr(chg)
			w.close()
			return nil, verifkit.Violatef("C10: history operation %s (no failure injected) ended %s: %s\n  tasks: %v", rr, st, msg, lines)
		}
		if p := w.consistency(); len(p) > 0 {
			w.close()
			return nil, verifkit.Violatef("C10: recorded state and system disagree after history operation %s: %s", rr, strings.Join(p, "; "))
		}
	}
	// the final operation needs an enabled snap (or none at all for an install)
	if cs.Final.Op == "install" {
		if _, present := w.snapState(cs.Snap); present {
			chg, err := w.request(worldReq{Op: "remove", Snap: cs.Snap})
			if err == nil && chg != nil {
				w.run()
				b.applied = append(b.applied, "remove")
			}
		}
	} else if snapst, present := w.snapState(cs.Snap); present && !snapst.Active {
		chg, err := w.request(worldReq{Op: "enable", Snap: cs.Snap})
		if err == nil && chg != nil {
			w.run()
			b.applied = append(b.applied, "enable")
		}
	}
	return b, nil
}

func c10Run(c *check.C, cs c10Case) (verifkit.Outcome, error) {
	o := verifkit.Outcome{Extra: map[string]int64{}}
	if cs.Snap == "" || cs.Final.Op == "" {
		o.Skip = true
		return o, nil
	}
	cs.Final.Snap = cs.Snap
	b, err := c10Build(c, cs)
	if err != nil {
		return o, err
	}
	w := b.w
	defer func() { w.close() }()

	// resolve the final request once: every attempt issues the same concrete request
	chg, req, err := c10Apply(w, cs.Final, true)
	if err != nil {
		o.Skip = true
		return o, nil
	}
	// that probing change is thrown away unrun: abort it and let it settle (all tasks go on hold)
	w.state.Lock()
	chg.Abort()
	w.state.Unlock()
	if err := w.run(); err != nil {
		return o, verifkit.Violatef("C10: aborted unrun change does not settle: %v", err)
	}
	first := w.view(cs.Snap)

	tolerated := func(fp string) bool {
		return !cs.NoTolerance && (verifkit.IsKnown("C10", fp) || worldAssumeKnown("C10", fp))
	}
	rebuild := func() error {
		w.close()
		nb, err := c10Build(c, cs)
		if err != nil {
			return err
		}
		w = nb.w
		o.Extra["world_rebuilds"]++
		if now := w.view(cs.Snap); c10Timeless(now) != c10Timeless(first) {
			panic(fmt.Sprintf("HARNESS: rebuilding the history is not deterministic:\n first %s\n now   %s", first, now))
		}
		return nil
	}
	gcSeen, postLink := false, false
	handle := func(a *c10Attempt, where string) error {
		fps, err := c10Judge(req, a, where)
		if err != nil {
			return err
		}
		if len(a.removed) > 0 {
			gcSeen = true
		}
		if len(fps) == 0 {
			return nil
		}
		for _, fp := range fps {
			if !tolerated(fp) {
				return c10KnownMsg(fp, req, a, where)
			}
			o.Extra["known_"+fp+"_points"]++
		}
		return rebuild()
	}

	// 1. every task of the change as failure point
	n := -1
	for k := 0; n < 0 || k < n; k++ {
		a, err := c10Try(w, req, k, "")
		if err != nil {
			return o, err
		}
		if n < 0 {
			n = a.nTasks
		} else if a.nTasks != n {
			return o, verifkit.Violatef("C10: the same request on the same compared state now generates %d tasks instead of %d (operation %s, before %s)", a.nTasks, n, req, a.before)
		}
		o.Extra["fault_points"]++
		where := fmt.Sprintf("before task %d of %d (%s)", k, n, c10TaskKind(a, k))
		if a.linkIdx >= 0 && k > a.linkIdx {
			o.Extra["fault_points_post_link"]++
			postLink = true
		}
		if err := handle(a, where); err != nil {
			return o, err
		}
	}
	// 2. faults inside the backend
	for _, bop := range worldBackendFaults {
		if bop == "unlink-snap" && req.Op == "install" {
			continue
		}
		if bop == "start-snap-services" && cs.Snap != "services-snap" {
			continue
		}
		if bop == "update-aliases" && !cs.Aliases {
			continue
		}
		if bop == "copy-data" && (req.Op == "revert" || req.Op == "revert-to") {
			continue
		}
		a, err := c10Try(w, req, -1, bop)
		if err != nil {
			return o, err
		}
		if !a.fired || a.status == state.DoneStatus {
			// the op does not occur in this change: the operation went through
			if a.status != state.DoneStatus {
				return o, verifkit.Violatef("C10: no fault fired (%s) but the change ended %s: %s", bop, a.status, a.chgErr)
			}
			o.Extra["backend_faults_inapplicable"]++
			if err := rebuild(); err != nil {
				return o, err
			}
			continue
		}
		o.Extra["backend_fault_points"]++
		if bop == "link-snap" || bop == "unlink-snap" {
			postLink = true
		}
		if err := handle(a, "backend op "+bop+" fails"); err != nil {
			return o, err
		}
	}

	// classification
	o.NonTrivial = postLink
	label := req.Op
	if req.Op == "refresh" {
		if worldContains(first.Seq, req.Rev) {
			label = "refresh-kept"
		} else {
			label = "refresh-new"
		}
	}
	if label == "revert-to" {
		label = "revert"
	}
	o.Labels = append(o.Labels, label)
	if first.Present && len(first.Seq) > 0 && first.Seq[len(first.Seq)-1] != first.Current {
		o.Labels = append(o.Labels, "current-not-last")
	}
	if len(first.NotBlocked) > 0 {
		o.Labels = append(o.Labels, "notblocked-mark")
	}
	if gcSeen {
		o.Labels = append(o.Labels, "gc-before-failure")
		if label == "refresh-kept" {
			o.Labels = append(o.Labels, "refresh-kept-with-gc")
		}
	}
	if first.Config != "" {
		o.Labels = append(o.Labels, "with-config")
	}
	if len(first.RevConfig) > 0 {
		o.Labels = append(o.Labels, "with-revision-config")
	}
	if req.Channel != "" || req.Cohort != "" || req.LeaveCohort || req.DevMode || req.JailMode || req.Classic || req.IgnoreValidation {
		o.Labels = append(o.Labels, "flags-or-channel")
	}
	if len(first.Aliases) > 0 {
		o.Labels = append(o.Labels, "aliases")
	}
	if len(first.Seq) >= 3 {
		o.Labels = append(o.Labels, "seq>=3")
	}
	o.Desc = fmt.Sprintf("%s; history %v (%d refused); %s; %d task failure points; before: %s", cs.Snap, b.applied, b.rejected, req, n, first)
	return o, nil
}

// c10Timeless: the snapshot without the absolute clock readings (the mocked clock
// advances once per reading and the number of readings depends on scheduling).
func c10Timeless(v worldView) string {
	v.LastRefresh, v.Inhibited = "", ""
	return v.String()
}

func c10TaskKind(a *c10Attempt, k int) string {
	// taskLines also lists check-rerefresh and the error-trigger; recover the k-th fault task
	i := 0
	for _, l := range a.taskLines {
		kind := strings.SplitN(l, ":", 2)[0]
		if kind == "check-rerefresh" || kind == "error-trigger" {
			continue
		}
		if i == k {
			return kind
		}
		i++
	}
	return "?"
}

// c10Floors: generator-health floors.  The quick tier has only ~50 cases, so its
// floors sit ~3 sigma below the rates the generator aims at (refresh-kept ~27 %,
// refresh-new ~40 %, revert ~15 %, install ~15 %, current-not-last ~30 %).
func c10Floors() map[string]float64 {
	if verifkit.Thorough() {
		return map[string]float64{"refresh-kept": 0.15, "refresh-new": 0.15, "revert": 0.08, "install": 0.05, "current-not-last": 0.15, "refresh-kept-with-gc": 0.03}
	}
	return map[string]float64{"refresh-kept": 0.08, "refresh-new": 0.12, "revert": 0.03, "install": 0.03, "current-not-last": 0.08}
}

func TestVerifC10(t *testing.T) {
	worldRun(t, func(c *check.C) {
		verifkit.Check(t, verifkit.Spec[c10Case]{
			ID: "C10", Engine: "faults",
			Gen:             c10Gen,
			Run:             func(cs c10Case) (verifkit.Outcome, error) { return c10Run(c, cs) },
			Floors:          c10Floors(),
			NonTrivialFloor: 0.9,
		})
	})
}

// ---------------------------------------------------------------- witnesses of the known findings

type c10Witness struct {
	fp string
	cs c10Case
}

var c10Witnesses = []c10Witness{
	{"F-C10-1", c10Case{Snap: "some-snap", NoTolerance: true,
		History: []worldReq{{Op: "install", Rev: 1}, {Op: "refresh", Rev: 2}, {Op: "revert", NotBlocked: true}},
		Final:   worldReq{Op: "refresh-kept", Pick: 0}}},
	{"F-C10-2", c10Case{Snap: "some-snap", NoTolerance: true,
		History: []worldReq{{Op: "install", Rev: 1}, {Op: "refresh", Rev: 2}},
		Final:   worldReq{Op: "refresh", Rev: 3}}},
}

// TestVerifC10Witness runs the minimal case of each known finding without any
// tolerance, so that a run reports how (and whether) each still reproduces.
func TestVerifC10Witness(t *testing.T) {
	worldRun(t, func(c *check.C) {
		e := verifkit.NewEnum(t, "C10", "witness")
		defer e.Done()
		if raw, ok := e.Replaying(); ok {
			var cs c10Case
			if err := json.Unmarshal(raw, &cs); err != nil {
				t.Fatalf("cannot decode replay: %v", err)
			}
			if _, err := c10Run(c, cs); err != nil {
				if v, ok := err.(*verifkit.Violation); !ok || !(e.Known(v.Fingerprint) || worldAssumeKnown("C10", v.Fingerprint)) {
					e.Fail(cs, "%v", err)
				}
			}
			return
		}
		for _, wit := range c10Witnesses {
			o, err := c10Run(c, wit.cs)
			key := fmt.Sprintf("%s: %s", wit.fp, o.Desc)
			if err == nil {
				// no longer reproduces (fixed): nothing to tolerate any more
				e.Extra("witness_"+wit.fp+"_reproduces", 0)
				e.Case(key, o.NonTrivial, "not-reproduced")
				continue
			}
			v, ok := err.(*verifkit.Violation)
			if !ok || v.Fingerprint != wit.fp {
				e.Fail(wit.cs, "witness of %s fails differently: %v", wit.fp, err)
			}
			if !(e.Known(wit.fp) || worldAssumeKnown("C10", wit.fp)) {
				e.Fail(wit.cs, "%v", err)
			}
			e.Extra("witness_"+wit.fp+"_reproduces", 1)
			e.Case(wit.fp+": "+v.Msg, true, "reproduced")
		}
	})
}
