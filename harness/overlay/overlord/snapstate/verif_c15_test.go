package snapstate_test

// C15 — snap-initiated refresh holds are bounded (DESIGN.md §3 C15).
//
// State-level machine over a mocked clock: a bare state.State whose snap states
// are set directly, driven through the exported gating API exactly as its callers
// use it:
//
//   hold       snapstate.HoldRefresh(st, HoldAutoRefresh, gatingSnap, 0, affecting...)
//              (hookstate/ctlcmd/refresh.go:hold and hookstate/hooks.go:Error — both
//              always pass duration 0 = "maximum allowed" and level HoldAutoRefresh)
//   proceed    snapstate.ProceedWithRefresh(st, gatingSnap, nil | subset)
//   syshold    snapstate.HoldRefreshesBySystem(st, level, "forever" | RFC3339, snaps)
//   sysunhold  snapstate.ProceedWithRefresh(st, "system", snaps)       (daemon unhold)
//   refresh    ResetGatingForRefreshed(st, snap) + LastRefreshTime = now (doInstall / link-snap)
//   prune      PruneGating(st, candidates)                              (auto-refresh phase 1)
//   remove     PruneSnapsHold(st, snap) + snap state deleted            (discard of last revision)
//   install    snap state created with LastRefreshTime = now
//   advance / tobound   clock moves (minutes … 100 days, or to a bound -1s/0/+1s)
//
// Helpers of the package's export_test.go used: MockTimeNow, ResetGatingForRefreshed,
// PruneGating, PruneSnapsHold, RefreshCandidate.
//
// Oracle (reference model written from the property statement and the doc comments
// of HoldRefresh / ProceedWithRefresh / HeldSnaps / resetGatingForRefreshed — the
// numbers 48 h and 90 d are taken from the statement, not from the package):
//  per (held snap, holding snap) the model keeps the start of the current hold
//  episode (first successful hold since the last refresh of the held snap /
//  proceed / prune / refused hold / removal) and per snap its last refresh time.
//  allowedUntil(held, holder) = lastRefresh(held)+90d, and for holder != held also
//  at most episodeStart+48h.
//  After every operation HeldSnaps is queried at both levels:
//   bound-48h   holder != held is not reported after episodeStart+48h
//   bound-90d   nobody is reported held by a snap after lastRefresh(held)+90d
//   dropped     no hold in force (never held, proceeded, refreshed, pruned, refused,
//               removed) => not reported
//   effective   a granted hold is reported while its allowance lasts (duration 0 is
//               documented as "maximum allowed hold time")
//   level       snap holds (level auto-refresh) are not reported for level general
//   system      an administrator hold is reported strictly before its time (forever:
//               always), not after it, at its level and below only, whatever
//               refreshes/prunes/proceeds of snaps happened
//  For every hold request:
//   refusal     HoldError exactly when some requested snap has no allowance left
//               (reached bounds count as exhausted), naming exactly those snaps, and
//               then (all-or-nothing rule) none of the requested snaps stays held by
//               the requester
//   remaining   on success the returned duration equals the minimum allowance left
//               over the requested snaps
//  The single instant now == bound is treated as "either answer is fine" for
//  reporting (the statement says "more than 48 hours after"/"beyond 90 days").

import (
	"errors"
	"fmt"
	"sort"
	"strings"
	"testing"
	"time"

	"pgregory.net/rapid"

	"github.com/snapcore/snapd/overlord/snapstate"
	"github.com/snapcore/snapd/overlord/snapstate/snapstatetest"
	"github.com/snapcore/snapd/overlord/state"
	"github.com/snapcore/snapd/snap"
	"github.com/snapcore/snapd/verifkit"
)

const (
	c15MaxOther = 48 * time.Hour      // statement: 48 hours for other snaps per hold episode
	c15MaxAny   = 90 * 24 * time.Hour // statement: 90 days after the held snap's last refresh
	c15Day      = 24 * 3600
)

var c15Names = []string{"snap-a", "snap-b", "snap-c", "snap-d"}

var c15Start = time.Date(2021, 5, 10, 10, 0, 0, 0, time.UTC)

type c15Op struct {
	Op      string `json:"op"`                // hold proceed syshold sysunhold refresh prune remove install advance tobound
	G       int    `json:"g,omitempty"`       // gating snap / single snap index
	Snaps   []int  `json:"snaps,omitempty"`   // affecting snaps / subset / candidates (indexes, in call order)
	Level   int    `json:"level,omitempty"`   // syshold: 0 auto-refresh, 1 general
	Forever bool   `json:"forever,omitempty"` // syshold
	Secs    int64  `json:"secs,omitempty"`    // advance: seconds; syshold: until = now+secs; tobound: offset
	Pick    int    `json:"pick,omitempty"`    // tobound: which of the upcoming bounds
}

type c15Case struct {
	AgeSecs []int64 `json:"age_secs"` // per snap: last refresh = start - age
	Ops     []c15Op `json:"ops"`
}

// ---------------------------------------------------------------- generator

func c15GenAge() *rapid.Generator[int64] {
	return rapid.OneOf(
		rapid.SampledFrom([]int64{3600, c15Day, 10 * c15Day, 60 * c15Day, 85 * c15Day, 88 * c15Day,
			90*c15Day - 3600, 90*c15Day - 1, 90 * c15Day, 90*c15Day + 1, 91 * c15Day, 94 * c15Day,
			95*c15Day - 1, 95 * c15Day, 95*c15Day + 1, 100 * c15Day, 200 * c15Day}),
		rapid.Int64Range(0, 30*c15Day),
		rapid.Int64Range(80*c15Day, 100*c15Day),
	)
}

func c15GenSubset(t *rapid.T, n int, label string) []int {
	mask := rapid.IntRange(1, (1<<uint(n))-1).Draw(t, label)
	var out []int
	for i := 0; i < n; i++ {
		if mask&(1<<uint(i)) != 0 {
			out = append(out, i)
		}
	}
	if len(out) > 1 && rapid.IntRange(0, 3).Draw(t, label+"-rev") == 0 {
		for i, j := 0, len(out)-1; i < j; i, j = i+1, j-1 {
			out[i], out[j] = out[j], out[i]
		}
	}
	return out
}

func c15GenAdvance(t *rapid.T) int64 {
	switch k := rapid.IntRange(0, 99).Draw(t, "advkind"); {
	case k < 30:
		return rapid.Int64Range(60, 3599).Draw(t, "secs")
	case k < 68:
		return rapid.Int64Range(1, 47).Draw(t, "hours") * 3600
	case k < 76:
		return 48*3600 + rapid.Int64Range(-1, 1).Draw(t, "off")
	case k < 92:
		return rapid.Int64Range(2*c15Day, 10*c15Day).Draw(t, "secs")
	default:
		return rapid.Int64Range(11, 100).Draw(t, "days") * c15Day
	}
}

func c15GenCase(t *rapid.T) c15Case {
	n := rapid.IntRange(2, 4).Draw(t, "nsnaps")
	c := c15Case{}
	for i := 0; i < n; i++ {
		c.AgeSecs = append(c.AgeSecs, c15GenAge().Draw(t, "age"))
	}
	nops := rapid.IntRange(8, 40).Draw(t, "nops")
	var holds []c15Op // hold requests so far: gating snaps tend to repeat their request
	for i := 0; i < nops; i++ {
		var op c15Op
		switch k := rapid.IntRange(0, 99).Draw(t, "opkind"); {
		case k < 34:
			if len(holds) > 0 && rapid.IntRange(0, 9).Draw(t, "again") < 6 {
				prev := holds[rapid.IntRange(0, len(holds)-1).Draw(t, "which")]
				op = c15Op{Op: "hold", G: prev.G, Snaps: append([]int(nil), prev.Snaps...)}
			} else {
				op = c15Op{Op: "hold", G: rapid.IntRange(0, n-1).Draw(t, "g"), Snaps: c15GenSubset(t, n, "affecting")}
			}
			holds = append(holds, op)
		case k < 52:
			op = c15Op{Op: "advance", Secs: c15GenAdvance(t)}
		case k < 61:
			op = c15Op{Op: "tobound", Pick: rapid.IntRange(0, 5).Draw(t, "pick"), Secs: rapid.Int64Range(-1, 1).Draw(t, "off")}
		case k < 74:
			op = c15Op{Op: "refresh", G: rapid.IntRange(0, n-1).Draw(t, "snap")}
			if len(holds) > 0 && rapid.IntRange(0, 9).Draw(t, "heldone") < 7 {
				// refresh one of the snaps of an earlier hold request
				prev := holds[rapid.IntRange(0, len(holds)-1).Draw(t, "which")]
				op.G = prev.Snaps[rapid.IntRange(0, len(prev.Snaps)-1).Draw(t, "whichsnap")]
				if rapid.IntRange(0, 9).Draw(t, "holdagain") < 4 {
					// ... whose gating snap runs its hook again at the next auto-refresh
					c.Ops = append(c.Ops, op, c15Op{Op: "advance", Secs: c15GenAdvance(t)})
					op = c15Op{Op: "hold", G: prev.G, Snaps: append([]int(nil), prev.Snaps...)}
				}
			}
		case k < 78:
			op = c15Op{Op: "proceed", G: rapid.IntRange(0, n-1).Draw(t, "g")}
			if rapid.IntRange(0, 2).Draw(t, "subset") == 0 {
				op.Snaps = c15GenSubset(t, n, "unhold")
			}
		case k < 86:
			op = c15Op{Op: "syshold", Level: rapid.IntRange(0, 1).Draw(t, "level"), Snaps: c15GenSubset(t, n, "snaps")}
			switch rapid.IntRange(0, 3).Draw(t, "until") {
			case 0:
				op.Forever = true
			case 1:
				op.Secs = rapid.SampledFrom([]int64{-3600, -1, 1, 60, 3600}).Draw(t, "secs")
			default:
				op.Secs = rapid.Int64Range(3600, 200*c15Day).Draw(t, "secs")
			}
		case k < 89:
			op = c15Op{Op: "sysunhold", Snaps: c15GenSubset(t, n, "snaps")}
		case k < 94:
			op = c15Op{Op: "prune"}
			if rapid.IntRange(0, 3).Draw(t, "anycand") != 0 {
				op.Snaps = c15GenSubset(t, n, "candidates")
			}
		case k < 96:
			op = c15Op{Op: "remove", G: rapid.IntRange(0, n-1).Draw(t, "snap")}
		default:
			op = c15Op{Op: "install", G: rapid.IntRange(0, n-1).Draw(t, "snap")}
		}
		c.Ops = append(c.Ops, op)
	}
	return c
}

// ---------------------------------------------------------------- model

type c15Pair struct{ held, holder int }

type c15Hold struct {
	start    time.Time // start of the current hold episode
	lastHold time.Time // clock reading of the latest successful hold
}

type c15Sys struct {
	until   time.Time
	forever bool
	level   int
}

type c15Run struct {
	st   *state.State
	n    int
	now  time.Time
	inst []bool
	last []time.Time // last refresh
	typ  []string    // snap type per snap (all "app" in the state-level machine)
	hold map[c15Pair]*c15Hold
	sys  map[int]*c15Sys
	// pairs that were held when the held snap got refreshed (for the label)
	refreshedSince map[c15Pair]bool
	labels         map[string]bool
	extra          map[string]int64
}

func (r *c15Run) label(l string) { r.labels[l] = true }

// allowedUntil is the statement's bound for holder's hold on held, for an episode
// that started at start.
func (r *c15Run) allowedUntil(held, holder int, start time.Time) time.Time {
	u := r.last[held].Add(c15MaxAny)
	if held != holder {
		if e := start.Add(c15MaxOther); e.Before(u) {
			u = e
		}
	}
	return u
}

func (r *c15Run) idx(name string) int {
	for i := 0; i < r.n; i++ {
		if c15Names[i] == name {
			return i
		}
	}
	return -1
}

func (r *c15Run) names(idx []int) []string {
	out := make([]string, 0, len(idx))
	for _, i := range idx {
		out = append(out, c15Names[i])
	}
	return out
}

// norm maps generated indexes into range, drops duplicates, keeps order.
func (r *c15Run) norm(idx []int, installedOnly bool) []int {
	seen := map[int]bool{}
	var out []int
	for _, i := range idx {
		if i < 0 {
			i = -i
		}
		i %= r.n
		if seen[i] || (installedOnly && !r.inst[i]) {
			continue
		}
		seen[i] = true
		out = append(out, i)
	}
	return out
}

func (r *c15Run) setSnap(i int, lastRefresh time.Time) {
	name := c15Names[i]
	si := &snap.SideInfo{RealName: name, SnapID: name + "-id", Revision: snap.R(1)}
	lr := lastRefresh
	snapstate.Set(r.st, name, &snapstate.SnapState{
		Active:          true,
		Sequence:        snapstatetest.NewSequenceFromSnapSideInfos([]*snap.SideInfo{si}),
		Current:         si.Revision,
		SnapType:        r.snapType(i),
		LastRefreshTime: &lr,
	})
}

func (r *c15Run) snapType(i int) string {
	if i < len(r.typ) && r.typ[i] != "" {
		return r.typ[i]
	}
	return "app"
}

func c15T(t time.Time) string { return t.UTC().Format("2006-01-02T15:04:05Z") }

// check queries HeldSnaps at both levels and compares with the model.
func (r *c15Run) check(when string) error {
	for level := 0; level <= 1; level++ {
		got, err := snapstate.HeldSnaps(r.st, snapstate.HoldLevel(level))
		if err != nil {
			return verifkit.Violatef("%s: HeldSnaps(level %d) failed: %v", when, level, err)
		}
		heldNames := make([]string, 0, len(got))
		for k := range got {
			heldNames = append(heldNames, k)
		}
		sort.Strings(heldNames)
		for _, hn := range heldNames {
			hi := r.idx(hn)
			if hi < 0 || !r.inst[hi] {
				return verifkit.Violatef("%s: HeldSnaps(level %d) reports %q which is not an installed snap", when, level, hn)
			}
			seen := map[string]bool{}
			for _, g := range got[hn] {
				if seen[g] {
					return verifkit.Violatef("%s: HeldSnaps(level %d) reports holder %q of %q twice", when, level, g, hn)
				}
				seen[g] = true
				if g != "system" && r.idx(g) < 0 {
					return verifkit.Violatef("%s: HeldSnaps(level %d) reports unknown holder %q of %q", when, level, g, hn)
				}
			}
		}
		for hi := 0; hi < r.n; hi++ {
			if !r.inst[hi] {
				continue
			}
			hn := c15Names[hi]
			rep := map[string]bool{}
			for _, g := range got[hn] {
				rep[g] = true
			}
			// administrator hold
			if s := r.sys[hi]; s != nil && s.level >= level {
				switch {
				case s.forever || r.now.Before(s.until):
					if !rep["system"] {
						return verifkit.Violatef("%s: system: administrator hold on %s (level %d, until %s forever=%v) is not reported at %s for level %d",
							when, hn, s.level, c15T(s.until), s.forever, c15T(r.now), level)
					}
					if s.forever {
						r.label("sys-forever-reported")
					}
				case r.now.After(s.until):
					if rep["system"] {
						return verifkit.Violatef("%s: system: administrator hold on %s until %s is still reported at %s",
							when, hn, c15T(s.until), c15T(r.now))
					}
					r.label("sys-expired")
				}
			} else if rep["system"] {
				return verifkit.Violatef("%s: system: %s reported held by system at level %d but the model has %+v", when, hn, level, r.sys[hi])
			}
			// snap holds
			for gi := 0; gi < r.n; gi++ {
				gn := c15Names[gi]
				h := r.hold[c15Pair{hi, gi}]
				if h == nil {
					if rep[gn] {
						return verifkit.Violatef("%s: dropped: %s is reported held by %s at %s (level %d) but no hold of that snap is in force",
							when, hn, gn, c15T(r.now), level)
					}
					continue
				}
				if level > 0 {
					if rep[gn] {
						return verifkit.Violatef("%s: level: auto-refresh level hold of %s by %s is reported for level general", when, hn, gn)
					}
					continue
				}
				until := r.allowedUntil(hi, gi, h.start)
				switch {
				case r.now.After(until):
					by90 := r.now.After(r.last[hi].Add(c15MaxAny))
					if rep[gn] {
						if by90 {
							return verifkit.Violatef("%s: bound-90d: %s is still reported held by %s at %s, more than 90 days after its last refresh %s",
								when, hn, gn, c15T(r.now), c15T(r.last[hi]))
						}
						return verifkit.Violatef("%s: bound-48h: %s is still reported held by %s at %s, more than 48h after the episode start %s",
							when, hn, gn, c15T(r.now), c15T(h.start))
					}
					if by90 {
						r.label("expired-90d")
					} else {
						r.label("expired-48h")
					}
				case r.now.Before(until):
					if !rep[gn] {
						return verifkit.Violatef("%s: effective: hold of %s by %s (episode start %s, last refresh %s, allowed until %s) is not reported at %s",
							when, hn, gn, c15T(h.start), c15T(r.last[hi]), c15T(until), c15T(r.now))
					}
				}
			}
		}
	}
	return nil
}

func (r *c15Run) upcomingBounds() []time.Time {
	var ts []time.Time
	add := func(t time.Time) {
		if t.After(r.now) {
			ts = append(ts, t)
		}
	}
	pairs := make([]c15Pair, 0, len(r.hold))
	for p := range r.hold {
		pairs = append(pairs, p)
	}
	sort.Slice(pairs, func(i, j int) bool {
		if pairs[i].held != pairs[j].held {
			return pairs[i].held < pairs[j].held
		}
		return pairs[i].holder < pairs[j].holder
	})
	for _, p := range pairs {
		add(r.hold[p].start.Add(c15MaxOther))
	}
	for i := 0; i < r.n; i++ {
		if r.inst[i] {
			add(r.last[i].Add(c15MaxAny))
		}
		if s := r.sys[i]; s != nil && !s.forever {
			add(s.until)
		}
	}
	sort.Slice(ts, func(i, j int) bool { return ts[i].Before(ts[j]) })
	var out []time.Time
	for _, t := range ts {
		if len(out) == 0 || !out[len(out)-1].Equal(t) {
			out = append(out, t)
		}
	}
	return out
}

// c15HoldPlan is what the model expects of one hold request with the default
// (maximum) duration.
type c15HoldPlan struct {
	g       int
	aff     []int
	bad     map[string]bool // requested snaps whose allowance is exhausted
	minLeft time.Duration   // minimum allowance left (when bad is empty)
}

func (r *c15Run) planHold(g int, aff []int) c15HoldPlan {
	p := c15HoldPlan{g: g, aff: aff, bad: map[string]bool{}}
	first := true
	for _, a := range aff {
		start := r.now
		if h := r.hold[c15Pair{a, g}]; h != nil {
			start = h.start
		}
		left := r.allowedUntil(a, g, start).Sub(r.now)
		if left <= 0 {
			p.bad[c15Names[a]] = true
			if !r.now.Before(r.last[a].Add(c15MaxAny)) {
				r.label("refused-90d")
			} else {
				r.label("refused-48h")
			}
			continue
		}
		if first || left < p.minLeft {
			p.minLeft, first = left, false
		}
	}
	return p
}

// judgeHold compares the result of a hold request with the plan (when the caller
// could observe the result) and updates the model.
func (r *c15Run) judgeHold(when string, p c15HoldPlan, observed bool, rem time.Duration, err error) error {
	g, aff := p.g, p.aff
	if len(p.bad) > 0 {
		r.label("past-bound")
		if len(p.bad) < len(aff) {
			r.label("partial-refusal")
		}
		if observed {
			var herr *snapstate.HoldError
			if !errors.As(err, &herr) {
				return verifkit.Violatef("%s: refusal: %s holding %v at %s: allowance of %v is exhausted but the request returned (%v, %v), want a HoldError",
					when, c15Names[g], r.names(aff), c15T(r.now), verifkit.SortedKeys(p.bad), rem, err)
			}
			gotBad := verifkit.SortedKeys(herr.SnapsInError)
			if strings.Join(gotBad, ",") != strings.Join(verifkit.SortedKeys(p.bad), ",") {
				return verifkit.Violatef("%s: refusal: %s holding %v at %s: HoldError names %v, exhausted snaps are %v",
					when, c15Names[g], r.names(aff), c15T(r.now), gotBad, verifkit.SortedKeys(p.bad))
			}
		}
		for _, a := range aff {
			delete(r.hold, c15Pair{a, g})
			delete(r.refreshedSince, c15Pair{a, g})
		}
		return nil
	}
	if observed {
		if err != nil {
			return verifkit.Violatef("%s: refusal: %s holding %v at %s refused although every snap has allowance left (min %v): %v",
				when, c15Names[g], r.names(aff), c15T(r.now), p.minLeft, err)
		}
		if rem != p.minLeft {
			return verifkit.Violatef("%s: remaining: %s holding %v at %s: got remaining hold time %v, minimum allowance left is %v",
				when, c15Names[g], r.names(aff), c15T(r.now), rem, p.minLeft)
		}
	}
	rehold := false
	for _, a := range aff {
		pr := c15Pair{a, g}
		if h := r.hold[pr]; h != nil {
			if r.now.After(h.lastHold) {
				rehold = true
			}
			h.lastHold = r.now
		} else {
			r.hold[pr] = &c15Hold{start: r.now, lastHold: r.now}
			if r.refreshedSince[pr] {
				r.label("refresh-between")
				delete(r.refreshedSince, pr)
			}
		}
		if a == g {
			r.label("self-hold")
		}
	}
	if rehold {
		r.label("rehold")
	}
	return nil
}

func (r *c15Run) apply(i int, op c15Op) error {
	when := fmt.Sprintf("op %d (%s)", i, op.Op)
	g := op.G
	if g < 0 {
		g = -g
	}
	g %= r.n
	switch op.Op {
	case "advance":
		d := op.Secs
		if d <= 0 {
			d = 1
		}
		r.now = r.now.Add(time.Duration(d) * time.Second)
	case "tobound":
		bs := r.upcomingBounds()
		if len(bs) == 0 {
			r.now = r.now.Add(time.Hour)
			break
		}
		p := op.Pick
		if p < 0 {
			p = -p
		}
		off := op.Secs
		if off < -1 || off > 1 {
			off = 0
		}
		target := bs[p%len(bs)].Add(time.Duration(off) * time.Second)
		if !target.After(r.now) {
			target = r.now.Add(time.Second)
		}
		r.now = target
		r.label("tobound")
	case "hold":
		aff := r.norm(op.Snaps, true)
		if !r.inst[g] || len(aff) == 0 {
			return nil
		}
		plan := r.planHold(g, aff)
		rem, err := snapstate.HoldRefresh(r.st, snapstate.HoldAutoRefresh, c15Names[g], 0, r.names(aff)...)
		if verr := r.judgeHold(when, plan, true, rem, err); verr != nil {
			return verr
		}
	case "proceed":
		sub := r.norm(op.Snaps, false)
		if !r.inst[g] {
			return nil
		}
		var names []string
		if len(sub) > 0 {
			names = r.names(sub)
		}
		if err := snapstate.ProceedWithRefresh(r.st, c15Names[g], names); err != nil {
			return verifkit.Violatef("%s: ProceedWithRefresh failed: %v", when, err)
		}
		for p := range r.hold {
			if p.holder != g {
				continue
			}
			if len(sub) > 0 {
				in := false
				for _, s := range sub {
					if s == p.held {
						in = true
					}
				}
				if !in {
					continue
				}
			}
			delete(r.hold, p)
			r.label("proceed-unholds")
		}
	case "syshold":
		snaps := r.norm(op.Snaps, true)
		if len(snaps) == 0 {
			return nil
		}
		level := 0
		if op.Level != 0 {
			level = 1
		}
		secs := op.Secs
		if secs == 0 {
			// a request for exactly the current instant cannot happen with a
			// running clock; keep it out of the domain
			secs = 1
		}
		until := r.now.Add(time.Duration(secs) * time.Second)
		arg := "forever"
		if !op.Forever {
			arg = until.Format(time.RFC3339)
		}
		if err := snapstate.HoldRefreshesBySystem(r.st, snapstate.HoldLevel(level), arg, r.names(snaps)); err != nil {
			return verifkit.Violatef("%s: system: HoldRefreshesBySystem(%d, %s, %v) failed: %v", when, level, arg, r.names(snaps), err)
		}
		for _, s := range snaps {
			r.sys[s] = &c15Sys{until: until, forever: op.Forever, level: level}
		}
		r.label("syshold")
	case "sysunhold":
		snaps := r.norm(op.Snaps, false)
		if len(snaps) == 0 {
			return nil
		}
		if err := snapstate.ProceedWithRefresh(r.st, "system", r.names(snaps)); err != nil {
			return verifkit.Violatef("%s: ProceedWithRefresh(system) failed: %v", when, err)
		}
		for _, s := range snaps {
			delete(r.sys, s)
		}
	case "refresh":
		if !r.inst[g] {
			return nil
		}
		if err := snapstate.ResetGatingForRefreshed(r.st, c15Names[g]); err != nil {
			return verifkit.Violatef("%s: resetGatingForRefreshed failed: %v", when, err)
		}
		r.setSnap(g, r.now)
		r.last[g] = r.now
		for p := range r.hold {
			if p.held == g {
				delete(r.hold, p)
				r.refreshedSince[p] = true
			}
		}
		if s := r.sys[g]; s != nil && (s.forever || s.until.After(r.now)) {
			r.label("sys-survives-refresh")
		}
	case "prune":
		cand := map[int]bool{}
		for _, s := range r.norm(op.Snaps, true) {
			cand[s] = true
		}
		// pruneGating overwrites its "changed" flag per visited snap (DESIGN.md §4
		// (obs) C15): when a snap with only an administrator hold is visited after
		// a snap whose holds were pruned, the pruning is not stored; which one is
		// visited last depends on map iteration order.  That does not contradict
		// the stated bounds (the older, stricter episode survives) but makes the
		// history non-deterministic, so such candidate sets are completed with the
		// administrator-only snaps (they then have an update pending, which is as
		// plausible).
		prunes, sysOnly := false, []int{}
		for s := 0; s < r.n; s++ {
			if !r.inst[s] || cand[s] {
				continue
			}
			has := false
			for p := range r.hold {
				if p.held == s {
					has = true
				}
			}
			if has {
				prunes = true
			} else if r.sys[s] != nil {
				sysOnly = append(sysOnly, s)
			}
		}
		if prunes && len(sysOnly) > 0 {
			for _, s := range sysOnly {
				cand[s] = true
			}
			r.extra["prune-candidates-completed"]++
		}
		cmap := map[string]*snapstate.RefreshCandidate{}
		for s := range cand {
			cmap[c15Names[s]] = &snapstate.RefreshCandidate{}
		}
		if err := snapstate.PruneGating(r.st, cmap); err != nil {
			return verifkit.Violatef("%s: pruneGating failed: %v", when, err)
		}
		for p := range r.hold {
			if !cand[p.held] {
				delete(r.hold, p)
				r.label("prune-unholds")
			}
		}
	case "remove":
		if !r.inst[g] {
			return nil
		}
		if err := snapstate.PruneSnapsHold(r.st, c15Names[g]); err != nil {
			return verifkit.Violatef("%s: pruneSnapsHold failed: %v", when, err)
		}
		snapstate.Set(r.st, c15Names[g], nil)
		r.inst[g] = false
		delete(r.sys, g)
		for p := range r.hold {
			if p.held == g || p.holder == g {
				delete(r.hold, p)
			}
		}
		for p := range r.refreshedSince {
			if p.held == g || p.holder == g {
				delete(r.refreshedSince, p)
			}
		}
	case "install":
		if r.inst[g] {
			return nil
		}
		r.setSnap(g, r.now)
		r.inst[g] = true
		r.last[g] = r.now
	default:
		return nil
	}
	return r.check(when)
}

func c15Desc(c c15Case) string {
	var sb strings.Builder
	fmt.Fprintf(&sb, "%d snaps, last refreshed", len(c.AgeSecs))
	for _, a := range c.AgeSecs {
		fmt.Fprintf(&sb, " %s", (time.Duration(a) * time.Second).String())
	}
	sb.WriteString(" ago;")
	nm := func(i int) string { return string(rune('a' + i%len(c15Names))) }
	for _, op := range c.Ops {
		switch op.Op {
		case "advance":
			fmt.Fprintf(&sb, " +%s", (time.Duration(op.Secs) * time.Second).String())
		case "tobound":
			fmt.Fprintf(&sb, " ->bound#%d%+ds", op.Pick, op.Secs)
		case "hold", "proceed":
			fmt.Fprintf(&sb, " %s:%s[", nm(op.G), op.Op)
			for _, s := range op.Snaps {
				sb.WriteString(nm(s))
			}
			sb.WriteString("]")
		case "syshold":
			fmt.Fprintf(&sb, " syshold(L%d", op.Level)
			if op.Forever {
				sb.WriteString(",forever")
			} else {
				fmt.Fprintf(&sb, ",%+ds", op.Secs)
			}
			sb.WriteString(")[")
			for _, s := range op.Snaps {
				sb.WriteString(nm(s))
			}
			sb.WriteString("]")
		case "sysunhold", "prune":
			fmt.Fprintf(&sb, " %s[", op.Op)
			for _, s := range op.Snaps {
				sb.WriteString(nm(s))
			}
			sb.WriteString("]")
		default:
			fmt.Fprintf(&sb, " %s(%s)", op.Op, nm(op.G))
		}
	}
	return sb.String()
}

func c15RunCase(c c15Case) (verifkit.Outcome, error) {
	o := verifkit.Outcome{}
	if len(c.AgeSecs) < 2 || len(c.AgeSecs) > len(c15Names) {
		o.Skip = true
		return o, nil
	}
	st := state.New(nil)
	st.Lock()
	defer st.Unlock()
	r := &c15Run{st: st, n: len(c.AgeSecs), now: c15Start,
		hold: map[c15Pair]*c15Hold{}, sys: map[int]*c15Sys{}, refreshedSince: map[c15Pair]bool{},
		labels: map[string]bool{}, extra: map[string]int64{}}
	restore := snapstate.MockTimeNow(func() time.Time { return r.now })
	defer restore()
	for i, a := range c.AgeSecs {
		if a < 0 {
			a = -a
		}
		lr := c15Start.Add(-time.Duration(a) * time.Second)
		r.inst = append(r.inst, true)
		r.last = append(r.last, lr)
		r.setSnap(i, lr)
	}
	var verr error
	if err := r.check("initially"); err != nil {
		verr = err
	}
	for i, op := range c.Ops {
		if verr != nil {
			break
		}
		verr = r.apply(i, op)
	}
	for _, l := range verifkit.SortedKeys(r.labels) {
		o.Labels = append(o.Labels, l)
	}
	o.Extra = r.extra
	o.NonTrivial = r.labels["rehold"] || r.labels["past-bound"] || r.labels["refresh-between"]
	o.Desc = c15Desc(c)
	return o, verr
}

// TestVerifC15Holds: generated hold/proceed/refresh/clock histories against the
// bound model.
func TestVerifC15Holds(t *testing.T) {
	verifkit.Check(t, verifkit.Spec[c15Case]{
		ID: "C15", Engine: "holds",
		Gen: c15GenCase,
		Run: c15RunCase,
		Floors: map[string]float64{
			"rehold": 0.25, "past-bound": 0.25, "refresh-between": 0.25,
			"refused-48h": 0.10, "refused-90d": 0.10, "expired-48h": 0.10, "expired-90d": 0.10,
			"partial-refusal": 0.05, "self-hold": 0.25, "sys-survives-refresh": 0.05, "sys-expired": 0.05,
		},
		NonTrivialFloor: 0.5,
	})
}
