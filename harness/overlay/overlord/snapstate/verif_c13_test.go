package snapstate_test

// C13 — revert switches to a kept revision in place and blocks the reverted-from
// revisions.
//
// A case is a history over one snap, run through the real snapstate entry points on
// the shared world harness: install, refreshes to new / kept revisions (with a larger
// refresh.retain so that revisions pile up), removal of single revisions,
// disable/enable — interleaved with *revert probes*.  A probe is a revert request with
//
//	target ∈ {default (previous), a kept revision (before or after current), the current revision, a revision that is not kept}
//	× {blocking, NotBlocked} × {snap active, snap disabled} (+ devmode/jailmode flags),
//
// followed by a look at the next "refresh everything" request.
//
// Oracle (from the statement; c13Model is the small reference model of NotBlocked marks):
//
//	accepted  iff  snap active ∧ target kept ∧ target ≠ current  (default = entry before current; none ⇒ refused)
//	refused   ⇒  error returned, no task created, no backend call, snapshot (recorded state + world) unchanged
//	accepted  ⇒  change settles Done; ordered kept revisions identical; current = target; target linked;
//	             revisions present on the system unchanged; no copy-data call; no data copy appears or disappears;
//	             Block() = revisions after the new current minus the NotBlocked-marked ones, where a mark is
//	             set by a NotBlocked revert *from* that revision and cleared when that revision is linked again
//	             by a refresh to it or by enabling the snap while it is current, reverted from with a blocking
//	             revert, or discarded
//	next refresh ⇒ the store request built by a refresh of everything carries exactly Block() for this snap, and
//	             the snap is refreshed to the offered revision iff that revision is not in Block() (and not current).
//
// Block() is compared with the model after *every* step of the history, not only after probes.

import (
	"context"
	"fmt"
	"sort"
	"strings"
	"testing"

	"gopkg.in/check.v1"
	"pgregory.net/rapid"

	"github.com/snapcore/snapd/overlord/snapstate"
	"github.com/snapcore/snapd/overlord/state"
	"github.com/snapcore/snapd/snap"
	"github.com/snapcore/snapd/verifkit"
)

type c13Probe struct {
	Target     string `json:"target"` // default | kept | next (the one after current, else as kept) | current | absent
	Pick       int    `json:"pick,omitempty"`
	NotBlocked bool   `json:"notblocked,omitempty"`
	Disabled   bool   `json:"disabled,omitempty"` // the snap is disabled when the request arrives (enabled again afterwards)
	DevMode    bool   `json:"devmode,omitempty"`
	JailMode   bool   `json:"jailmode,omitempty"`
	// the next refresh of everything: which revision the store offers
	Offer     string `json:"offer,omitempty"` // from (the reverted-from revision) | after (a revision after current) | kept | new | "" (no look)
	OfferPick int    `json:"offerpick,omitempty"`
	Run       bool   `json:"run,omitempty"` // run that refresh if the snap is in it (it becomes part of the history)
}

type c13Step struct {
	Req   *worldReq `json:"req,omitempty"`
	Probe *c13Probe `json:"probe,omitempty"`
}

type c13Case struct {
	Snap  string    `json:"snap"`
	Steps []c13Step `json:"steps"`
}

// ---------------------------------------------------------------- generator

func c13GenProbe(t *rapid.T) *c13Probe {
	p := &c13Probe{
		Target:     rapid.SampledFrom([]string{"default", "default", "default", "kept", "kept", "kept", "next", "next", "current", "absent"}).Draw(t, "target"),
		Pick:       rapid.IntRange(0, 7).Draw(t, "pick"),
		NotBlocked: rapid.Bool().Draw(t, "notblocked"),
		Disabled:   rapid.IntRange(0, 7).Draw(t, "disabled") == 0,
		Offer:      rapid.SampledFrom([]string{"from", "from", "from", "after", "after", "kept", "new", ""}).Draw(t, "offer"),
		OfferPick:  rapid.IntRange(0, 7).Draw(t, "offerpick"),
		Run:        rapid.IntRange(0, 2).Draw(t, "run") == 0,
	}
	switch rapid.IntRange(0, 9).Draw(t, "mode") {
	case 0:
		p.DevMode = true
	case 1:
		p.JailMode = true
	}
	return p
}

func c13Gen(t *rapid.T) c13Case {
	cs := c13Case{Snap: rapid.SampledFrom([]string{"some-snap", "some-snap", "services-snap", "some-snap_foo"}).Draw(t, "snap")}
	add := func(r worldReq) {
		r.Snap = cs.Snap
		cs.Steps = append(cs.Steps, c13Step{Req: &r})
	}
	add(worldReq{Op: "install", Rev: rapid.IntRange(1, 3).Draw(t, "first")})
	if rapid.IntRange(0, 9).Draw(t, "retain") < 8 {
		add(worldReq{Op: "set-retain", Retain: rapid.IntRange(3, 6).Draw(t, "retain-val")})
	}
	for i, n := 0, rapid.IntRange(1, 4).Draw(t, "nrefresh"); i < n; i++ {
		add(worldReq{Op: "refresh"})
	}
	n := rapid.IntRange(2, verifkit.Size(8, 12)).Draw(t, "nsteps")
	for i := 0; i < n; i++ {
		kind := rapid.SampledFrom([]string{"probe", "probe", "probe", "probe", "probe", "there-and-back", "refresh", "refresh", "refresh-kept", "refresh-kept", "remove-rev", "disable-enable", "set-retain"}).Draw(t, "kind")
		if i == n-1 {
			kind = "probe"
		}
		switch kind {
		case "probe":
			cs.Steps = append(cs.Steps, c13Step{Probe: c13GenProbe(t)})
		case "there-and-back":
			// revert, go forward again to the reverted-from revision, revert once more:
			// the second revert decides anew whether that revision is blocked
			for _, target := range []string{"default", "next", "default"} {
				p := c13GenProbe(t)
				p.Target, p.Disabled, p.Run = target, false, false
				cs.Steps = append(cs.Steps, c13Step{Probe: p})
			}
		case "refresh":
			r := worldReq{Op: "refresh"}
			if rapid.IntRange(0, 3).Draw(t, "anyrev") == 0 {
				r.Rev = rapid.IntRange(1, 12).Draw(t, "rev")
			}
			r.ByRev = rapid.IntRange(0, 2).Draw(t, "byrev") == 0
			add(r)
		case "refresh-kept", "remove-rev":
			add(worldReq{Op: kind, Pick: rapid.IntRange(0, 7).Draw(t, "pick")})
		case "disable-enable":
			add(worldReq{Op: "disable"})
			add(worldReq{Op: "enable"})
		case "set-retain":
			add(worldReq{Op: "set-retain", Retain: rapid.IntRange(2, 6).Draw(t, "retain-val")})
		}
	}
	return cs
}

func c13Index(xs []int, x int) int {
	for i, y := range xs {
		if y == x {
			return i
		}
	}
	return -1
}

func c13ContainsStr(xs []string, x string) bool {
	for _, y := range xs {
		if y == x {
			return true
		}
	}
	return false
}

// ---------------------------------------------------------------- reference model of the NotBlocked marks

type c13Model struct{ marks map[int]bool }

func (m *c13Model) block(seq []int, current int) []int {
	var out []int
	after := false
	for _, r := range seq {
		if after && !m.marks[r] {
			out = append(out, r)
		}
		if r == current {
			after = true
		}
	}
	return out
}

func (m *c13Model) reverted(from int, notBlocked bool) {
	if notBlocked {
		m.marks[from] = true
	} else {
		delete(m.marks, from)
	}
}

// refreshed: target linked again; revisions that are gone lose their marks.
func (m *c13Model) refreshed(target int, before, after []int) {
	delete(m.marks, target)
	m.gone(before, after)
}

func (m *c13Model) gone(before, after []int) {
	for _, r := range before {
		if !worldContains(after, r) {
			delete(m.marks, r)
		}
	}
}

func (m *c13Model) String() string {
	var ks []int
	for k := range m.marks {
		ks = append(ks, k)
	}
	sort.Ints(ks)
	return fmt.Sprint(ks)
}

// ---------------------------------------------------------------- run

type c13Run struct {
	w       *world
	cs      c13Case
	o       *verifkit.Outcome
	model   *c13Model
	classes map[string]bool
	trail   []string
	reverts int
}

func (r *c13Run) taskCount() int {
	r.w.state.Lock()
	defer r.w.state.Unlock()
	return r.w.state.TaskCount()
}

func (r *c13Run) changeCount() int {
	r.w.state.Lock()
	defer r.w.state.Unlock()
	return len(r.w.state.Changes())
}

func (r *c13Run) dataOf() []int { return worldSortedSet(r.w.data[r.cs.Snap]) }

// settle runs chg to completion and requires Done.
func (r *c13Run) settle(chg *state.Change, what string) error {
	if err := r.w.run(); err != nil {
		return verifkit.Violatef("C13: %s does not settle: %v", what, err)
	}
	if st, _, lines := r.w.changeReport(chg); st != state.DoneStatus {
		return verifkit.Violatef("C13: %s (nothing made to fail) ended %s: %s\n  tasks: %v", what, st, strings.ReplaceAll(r.w.changeErr(chg), "\n", " | "), lines)
	}
	if p := r.w.consistency(); len(p) > 0 {
		return verifkit.Violatef("C13: after %s recorded state and system disagree: %s", what, strings.Join(p, "; "))
	}
	return nil
}

func (r *c13Run) checkBlock(when string) error {
	v := r.w.view(r.cs.Snap)
	if !v.Present {
		return nil
	}
	want := r.model.block(v.Seq, v.Current)
	if !worldIntsEqual(v.Block, want) {
		return verifkit.Violatef("C13: %s: revisions excluded from refreshes are %v, expected %v\n  kept %v, current %d, revisions reverted from without blocking (model): %s\n  history: %s",
			when, v.Block, want, v.Seq, v.Current, r.model, strings.Join(r.trail, " "))
	}
	return nil
}

func (r *c13Run) history(req worldReq) error {
	w := r.w
	req.Snap = r.cs.Snap
	rr, ok := w.resolve(req)
	if !ok {
		r.o.Extra["inapplicable_steps"]++
		return nil
	}
	before := w.view(r.cs.Snap)
	chg, err := w.request(rr)
	if err != nil {
		r.o.Extra["refused_steps"]++
		r.trail = append(r.trail, rr.Op+":refused")
		return nil
	}
	if chg == nil {
		r.trail = append(r.trail, fmt.Sprintf("%s=%d", rr.Op, rr.Retain))
		return nil
	}
	if err := r.settle(chg, fmt.Sprintf("history operation %s", rr)); err != nil {
		return err
	}
	after := w.view(r.cs.Snap)
	switch rr.Op {
	case "refresh", "refresh-kept":
		r.model.refreshed(rr.Rev, before.Seq, after.Seq)
	case "enable":
		// enabling links the current revision again
		r.model.refreshed(after.Current, before.Seq, after.Seq)
	default:
		r.model.gone(before.Seq, after.Seq)
	}
	r.trail = append(r.trail, fmt.Sprintf("%s(%d)->%v@%d", rr.Op, rr.Rev, after.Seq, after.Current))
	return r.checkBlock(fmt.Sprintf("after %s", rr))
}

func (r *c13Run) probe(p c13Probe) error {
	w := r.w
	name := r.cs.Snap
	v0 := w.view(name)
	if !v0.Present {
		r.o.Extra["inapplicable_steps"]++
		return nil
	}
	// the snap disabled?
	if p.Disabled && v0.Active {
		chg, err := w.request(worldReq{Op: "disable", Snap: name})
		if err != nil {
			return verifkit.Violatef("C13: cannot disable %s: %v", name, err)
		}
		if err := r.settle(chg, "disable"); err != nil {
			return err
		}
	}
	before := w.view(name)
	others := w.keptNotCurrent(name)
	ci := c13Index(before.Seq, before.Current)

	// concrete target and expectation
	target, reason := 0, ""
	switch p.Target {
	case "default":
		if ci > 0 {
			target = before.Seq[ci-1]
		} else {
			reason = "no-previous"
		}
	case "next":
		// the revision right after current (a forward revert, possible after an earlier revert)
		if ci+1 < len(before.Seq) {
			target = before.Seq[ci+1]
			break
		}
		fallthrough
	case "kept":
		if len(others) == 0 {
			p.Target, target, reason = "current", before.Current, "current"
		} else {
			target = others[p.Pick%len(others)]
		}
	case "current":
		target, reason = before.Current, "current"
	case "absent":
		target, reason = worldMax(before.Seq, 0)+1+p.Pick, "not-kept"
	default:
		panic("HARNESS: unknown revert target kind " + p.Target)
	}
	if !before.Active && reason == "" {
		reason = "disabled"
	}
	if !before.Active {
		r.classes["probe-on-disabled"] = true
	}

	tasks0, changes0, ops0, data0 := r.taskCount(), r.changeCount(), w.opCount(), r.dataOf()
	req := worldReq{Op: "revert-to", Snap: name, Rev: target, NotBlocked: p.NotBlocked, DevMode: p.DevMode, JailMode: p.JailMode}
	if p.Target == "default" {
		req.Op = "revert"
	}
	desc := fmt.Sprintf("revert request %s on kept %v current %d active %v", req, before.Seq, before.Current, before.Active)
	chg, err := w.request(req)

	if reason != "" {
		// must be refused without effect
		if err == nil {
			return verifkit.Violatef("C13: %s is accepted although it must be refused (%s)", desc, reason)
		}
		if n := r.taskCount(); n != tasks0 {
			return verifkit.Violatef("C13: refused %s (%v) created %d tasks", desc, err, n-tasks0)
		}
		if n := r.changeCount(); n != changes0 {
			return verifkit.Violatef("C13: refused %s (%v) created a change", desc, err)
		}
		if n := w.opCount(); n != ops0 {
			return verifkit.Violatef("C13: refused %s (%v) made %d backend calls", desc, err, n-ops0)
		}
		if after := w.view(name); after.String() != before.String() {
			return verifkit.Violatef("C13: refused %s (%v) changed the snap:\n  before %s\n  after  %s", desc, err, before, after)
		}
		r.classes["refused-"+reason] = true
		r.trail = append(r.trail, fmt.Sprintf("revert(%s:%d):refused-%s", p.Target, target, reason))
	} else {
		if err != nil {
			return verifkit.Violatef("C13: %s is refused (%v) although the target is kept, not current and the snap is active", desc, err)
		}
		if err := r.settle(chg, desc); err != nil {
			return err
		}
		after := w.view(name)
		var diffs []string
		if !worldIntsEqual(after.Seq, before.Seq) {
			diffs = append(diffs, fmt.Sprintf("the ordered kept revisions changed from %v to %v", before.Seq, after.Seq))
		}
		if after.Current != target {
			diffs = append(diffs, fmt.Sprintf("current revision is %d, not the target %d", after.Current, target))
		}
		if !after.Active {
			diffs = append(diffs, "the snap is not active")
		}
		if after.Linked != target {
			diffs = append(diffs, fmt.Sprintf("revision %d is linked as current on the system, not the target %d", after.Linked, target))
		}
		if !worldIntsEqual(after.Mounted, before.Mounted) {
			diffs = append(diffs, fmt.Sprintf("revisions present on the system changed from %v to %v", before.Mounted, after.Mounted))
		}
		for _, op := range w.opsSince(ops0) {
			if strings.HasPrefix(op.op, "copy-data") {
				diffs = append(diffs, fmt.Sprintf("snap data was copied (backend call %s %s)", op.op, op.path))
			}
		}
		if d := r.dataOf(); !worldIntsEqual(d, data0) {
			diffs = append(diffs, fmt.Sprintf("revisions with a data copy changed from %v to %v", data0, d))
		}
		if len(diffs) > 0 {
			return verifkit.Violatef("C13: %s did not switch in place:\n    %s\n  before %s\n  after  %s", desc, strings.Join(diffs, "\n    "), before, after)
		}
		if r.model.marks[before.Current] && !p.NotBlocked {
			// the reverted-from revision still carries the mark of an earlier NotBlocked revert
			r.classes["blocking-revert-from-marked"] = true
		}
		r.model.reverted(before.Current, p.NotBlocked)
		r.trail = append(r.trail, fmt.Sprintf("revert(%s:%d,nb=%v)->%v@%d", p.Target, target, p.NotBlocked, after.Seq, after.Current))
		if err := r.checkBlock("after " + desc); err != nil {
			return err
		}
		// (only a backward revert leaves the reverted-from revision after the new current)
		if c13Index(before.Seq, target) < ci && worldContains(after.Block, before.Current) == p.NotBlocked {
			return verifkit.Violatef("C13: after %s the reverted-from revision %d blocked=%v, requested NotBlocked=%v", desc, before.Current, !p.NotBlocked, p.NotBlocked)
		}
		// classes
		r.classes["accepted"] = true
		if p.NotBlocked {
			r.classes["accepted-notblocked"] = true
		} else {
			r.classes["accepted-blocking"] = true
		}
		ti := c13Index(before.Seq, target)
		if len(before.Seq) >= 3 && ti != ci-1 && ti != ci+1 {
			r.classes["nonadjacent"] = true
		}
		if ti > ci {
			r.classes["forward"] = true
		}
		r.reverts++
		if r.reverts >= 2 {
			r.classes["second-revert"] = true
		}
		if len(r.model.marks) > 0 && len(after.Block) > 0 {
			r.classes["mixed-blocked-and-not"] = true
		}
		r.o.Extra["reverts_accepted"]++
	}
	r.o.Extra["probes"]++

	// enable again
	if !before.Active {
		chg, err := w.request(worldReq{Op: "enable", Snap: name})
		if err != nil {
			return verifkit.Violatef("C13: cannot enable %s again: %v", name, err)
		}
		if err := r.settle(chg, "enable"); err != nil {
			return err
		}
		// enabling links the current revision again
		delete(r.model.marks, w.view(name).Current)
		if err := r.checkBlock("after enabling again"); err != nil {
			return err
		}
	}
	if p.Offer == "" {
		return nil
	}
	return r.nextRefresh(p, before.Current)
}

// nextRefresh: a refresh of everything with the store offering one chosen revision.
func (r *c13Run) nextRefresh(p c13Probe, revertedFrom int) error {
	w := r.w
	name := r.cs.Snap
	v := w.view(name)
	if !v.Active {
		return nil
	}
	if v.DevMode {
		// snaps in devmode are left out of a refresh of everything altogether
		r.o.Extra["next_refresh_skipped_devmode"]++
		return nil
	}
	ci := c13Index(v.Seq, v.Current)
	offer := 0
	switch p.Offer {
	case "from":
		offer = revertedFrom
	case "after":
		if rest := v.Seq[ci+1:]; len(rest) > 0 {
			offer = rest[p.OfferPick%len(rest)]
		}
	case "kept":
		if others := w.keptNotCurrent(name); len(others) > 0 {
			offer = others[p.OfferPick%len(others)]
		}
	}
	if offer == 0 || offer == v.Current {
		offer = worldMax(v.Seq, 0) + 1 + p.OfferPick%3
	}
	wantBlock := r.model.block(v.Seq, v.Current)
	expectUpdated := !worldContains(wantBlock, offer)

	ops0 := w.opCount()
	w.fakeStore.refreshRevnos = map[string]snap.Revision{worldSnapID(name): snap.R(offer)}
	w.state.Lock()
	updated, tss, err := snapstate.UpdateMany(context.Background(), w.state, nil, nil, 0, &snapstate.Flags{})
	var chg *state.Change
	if err == nil && p.Run && len(tss) > 0 && c13ContainsStr(updated, name) {
		chg = w.state.NewChange("refresh-snap", "verif: refresh everything")
		for _, ts := range tss {
			chg.AddAll(ts)
		}
	}
	w.state.Unlock()
	if err != nil {
		return verifkit.Violatef("C13: refresh of everything fails: %v", err)
	}
	// the request the store received
	found := false
	for _, op := range w.opsSince(ops0) {
		if op.op != "storesvc-snap-action" {
			continue
		}
		for _, cur := range op.curSnaps {
			if cur.InstanceName != name {
				continue
			}
			found = true
			var got []int
			for _, b := range cur.Block {
				got = append(got, b.N)
			}
			a, b := append([]int(nil), got...), append([]int(nil), wantBlock...)
			sort.Ints(a)
			sort.Ints(b)
			if !worldIntsEqual(a, b) {
				return verifkit.Violatef("C13: the refresh request sent to the store lists %v as blocked for %s, expected %v\n  kept %v current %d; history: %s", got, name, wantBlock, v.Seq, v.Current, strings.Join(r.trail, " "))
			}
		}
	}
	if !found {
		return verifkit.Violatef("C13: the refresh of everything sent no store request naming %s", name)
	}
	if got := c13ContainsStr(updated, name); got != expectUpdated {
		return verifkit.Violatef("C13: store offers revision %d of %s; kept %v current %d, excluded from refreshes (model) %v: refreshed=%v, expected %v\n  history: %s",
			offer, name, v.Seq, v.Current, wantBlock, got, expectUpdated, strings.Join(r.trail, " "))
	}
	r.o.Extra["next_refresh_looks"]++
	if expectUpdated {
		r.classes["offer-taken"] = true
		if r.model.marks[offer] && c13Index(v.Seq, offer) > ci {
			r.classes["offer-taken-notblocked-revision"] = true
		}
	} else {
		r.classes["offer-blocked"] = true
	}
	if chg == nil {
		r.trail = append(r.trail, fmt.Sprintf("refresh-all(offer %d):%v", offer, expectUpdated))
		return nil
	}
	if err := r.settle(chg, fmt.Sprintf("refresh of everything (store offers %d)", offer)); err != nil {
		return err
	}
	after := w.view(name)
	if after.Current != offer {
		return verifkit.Violatef("C13: refresh of everything with the store offering %d left %s at revision %d", offer, name, after.Current)
	}
	r.model.refreshed(offer, v.Seq, after.Seq)
	r.trail = append(r.trail, fmt.Sprintf("refresh-all(%d)->%v@%d", offer, after.Seq, after.Current))
	return r.checkBlock("after the refresh of everything")
}

func c13RunCase(c *check.C, cs c13Case) (verifkit.Outcome, error) {
	o := verifkit.Outcome{Extra: map[string]int64{}}
	if cs.Snap == "" || len(cs.Steps) == 0 {
		o.Skip = true
		return o, nil
	}
	w := newWorld(c, worldOpts{ParallelInstances: strings.Contains(cs.Snap, "_")})
	defer w.close()
	r := &c13Run{w: w, cs: cs, o: &o, model: &c13Model{marks: map[int]bool{}}, classes: map[string]bool{}}
	for _, st := range cs.Steps {
		var err error
		switch {
		case st.Req != nil:
			err = r.history(*st.Req)
		case st.Probe != nil:
			err = r.probe(*st.Probe)
		}
		if err != nil {
			return o, err
		}
	}
	for cl := range r.classes {
		o.Labels = append(o.Labels, cl)
	}
	sort.Strings(o.Labels)
	o.NonTrivial = r.classes["nonadjacent"] || r.classes["second-revert"]
	o.Desc = fmt.Sprintf("%s: %s", cs.Snap, strings.Join(r.trail, " "))
	return o, nil
}

func TestVerifC13(t *testing.T) {
	worldRun(t, func(c *check.C) {
		verifkit.Check(t, verifkit.Spec[c13Case]{
			ID: "C13", Engine: "reverts",
			Gen: c13Gen,
			Run: func(cs c13Case) (verifkit.Outcome, error) { return c13RunCase(c, cs) },
			Floors: map[string]float64{"accepted": 0.6, "accepted-notblocked": 0.3, "accepted-blocking": 0.3, "nonadjacent": 0.15, "second-revert": 0.3, "forward": 0.10, "blocking-revert-from-marked": 0.02,
				"refused-current": 0.08, "refused-not-kept": 0.08, "refused-disabled": 0.05, "refused-no-previous": 0.03,
				"offer-blocked": 0.2, "offer-taken": 0.2, "offer-taken-notblocked-revision": 0.1},
			NonTrivialFloor: 0.3,
		})
	})
}
