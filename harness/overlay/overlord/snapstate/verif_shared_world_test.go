package snapstate_test

// Shared "world" harness (DESIGN.md §2.2): snapstate driven through its public
// entry points on top of the package's own fixture (snapmgrBaseTest =
// overlord.Mock + fakeSnappyBackend + fakeStore), with a model of the system
// ("world") folded from the fake backend's operation log.  Used by C10 and C11;
// meant to be reused by C12..C15.  Everything shared is prefixed `world`.
//
// API (keep it small):
//
//	worldRun(t, func(c *check.C){...})   run body with a live *check.C (the fixture needs one);
//	                                     body runs on the test's own goroutine
//	w := newWorld(c, worldOpts{...})     fresh fixture (SetUpTest) + world model; w.close() tears down
//	req, ok := w.resolve(req)            turn run-time picks (Pick) into concrete revisions
//	chg, err := w.request(req)           issue one request exactly like the daemon does: entry point
//	                                     under the state lock, then NewChange+AddAll; nil change for
//	                                     the non-change requests (set-config, set-retain, mark-inhibited)
//	worldFaultTasks(chg)                 the tasks of chg usable as failure points (all but check-rerefresh)
//	w.failBefore(chg, t)                 wire an always-failing task in front of t ("t failed before doing anything")
//	w.failBackend(op, name, rev)         arm a one-shot fault inside the fake backend (see worldBackendFaults)
//	w.run(chg)                           settle (lock NOT held by the caller), fold new backend ops into the model
//	w.pruneChanges()                     drop ready changes from the state (what the overlord's periodic Prune does)
//	w.view(name)                         snapshot of recorded state + world for one snap (C10 oracle input)
//	w.consistency()                      cross-check of snapstate.All against the world model (C11 oracle)
//	w.aliasLeftovers()                   aliases whose snap is not installed (observation only)
//	w.mounted / w.current / w.aliases / w.data   the model itself
//	worldGenReq(t, snap, kinds)          rapid generator of one request (flags, channel, cohort, picks)
//
// Locking: callers of the world methods never hold the state lock.
//
// What is trusted: each fake backend method logs an op when it is called and the
// logged op carries the snap/revision it was called for.  A backend op that was made
// to fail by w.failBackend is logged as "<op>.failed" and is folded as "had no effect"
// (the real backend's mutating calls clean up after themselves on error).
//
// Unexported identifiers of the package's test files used: snapmgrBaseTest (+ fields
// state, o, fakeBackend, fakeStore, user), fakeSnappyBackend.{ops,mu,maybeInjectErr,
// linkSnapFailTrigger,copySnapDataFailTrigger,ReadInfo}, fakeStore.refreshRevnos, fakeOp.

import (
	"context"
	"encoding/json"
	"errors"
	"fmt"
	"os"
	"path/filepath"
	"sort"
	"strings"
	"sync"
	"testing"
	"time"

	"gopkg.in/check.v1"
	"pgregory.net/rapid"

	"github.com/snapcore/snapd/overlord/configstate/config"
	"github.com/snapcore/snapd/overlord/snapstate"
	"github.com/snapcore/snapd/overlord/state"
	"github.com/snapcore/snapd/release"
	"github.com/snapcore/snapd/snap"
	"github.com/snapcore/snapd/verifkit"
)

// ---------------------------------------------------------------- gocheck bridge

type worldSuite struct{ body func(c *check.C) }

func (s *worldSuite) TestVerifWorldBody(c *check.C) { s.body(c) }

// worldRun obtains a live *check.C from a tiny gocheck run and executes body with
// it on the calling (testing) goroutine; the gocheck method is parked meanwhile.
func worldRun(t *testing.T, body func(c *check.C)) {
	cch := make(chan *check.C)
	park := make(chan struct{})
	finished := make(chan *check.Result, 1)
	go func() {
		finished <- check.Run(&worldSuite{body: func(c *check.C) { cch <- c; <-park }}, &check.RunConf{Filter: "TestVerifWorldBody"})
	}()
	var c *check.C
	select {
	case c = <-cch:
	case res := <-finished:
		t.Fatalf("HARNESS: gocheck did not run the world body: %v", res)
	}
	defer func() { close(park); <-finished }()
	body(c)
}

// ---------------------------------------------------------------- requests

// worldReq is one request as a client of the daemon would issue it.  Pure data.
type worldReq struct {
	// install | refresh | refresh-kept | revert | revert-to | remove | remove-rev |
	// enable | disable | switch | set-config | set-retain | mark-inhibited
	Op   string `json:"op"`
	Snap string `json:"snap,omitempty"` // instance name
	// Rev: target revision. refresh: the revision the store offers (and, with ByRev,
	// the one asked for); install: 0 = whatever the store has.  For the ops that
	// address a kept revision (refresh-kept, revert-to, remove-rev) it is filled in
	// by resolve() from Pick.
	Rev   int  `json:"rev,omitempty"`
	Pick  int  `json:"pick,omitempty"`  // index into the kept revisions other than current, modulo their number
	ByRev bool `json:"byrev,omitempty"` // pass the revision explicitly (snap refresh --revision=N)
	// remove-rev only: PickAny lets Pick range over all kept revisions including the
	// current one; PickCurrent addresses the current revision itself (snapstate accepts
	// that for a disabled snap and has to choose a new current)
	PickAny     bool `json:"pickany,omitempty"`
	PickCurrent bool `json:"pickcurrent,omitempty"`

	Channel          string `json:"channel,omitempty"`
	Cohort           string `json:"cohort,omitempty"`
	LeaveCohort      bool   `json:"leavecohort,omitempty"`
	DevMode          bool   `json:"devmode,omitempty"`
	JailMode         bool   `json:"jailmode,omitempty"`
	Classic          bool   `json:"classic,omitempty"`
	IgnoreValidation bool   `json:"ignorevalidation,omitempty"`
	NotBlocked       bool   `json:"notblocked,omitempty"` // revert with RevertStatus: NotBlocked (what validation-set enforcement issues)
	Purge            bool   `json:"purge,omitempty"`
	User             bool   `json:"user,omitempty"` // issued by a logged-in user

	Key    string `json:"key,omitempty"` // set-config
	Val    int    `json:"val,omitempty"` // set-config: 0 = unset the key
	Retain int    `json:"retain,omitempty"`
}

func (r worldReq) String() string {
	b, _ := json.Marshal(r)
	return string(b)
}

// worldOpts configures a fresh world.
type worldOpts struct {
	// AliasSnaps: snaps that get an app "cmd1" and the automatic alias "<snap>-alias1"
	AliasSnaps []string
	// ParallelInstances enables experimental.parallel-instances
	ParallelInstances bool
}

type worldBackendFault struct {
	op    string
	fired bool
}

type world struct {
	snapmgrBaseTest
	c *check.C

	mu      sync.Mutex
	folded  int
	mounted map[string]map[int]bool // instance name -> revisions present on the system
	current map[string]int          // instance name -> revision linked as current
	aliases map[string]string       // alias -> target ("snap.app")
	data    map[string]map[int]bool // instance name -> revisions with a data copy
	fault   *worldBackendFault
	clock   int64
	opts    worldOpts
	closed  bool
}

var worldBaseTime = time.Date(2024, 3, 1, 12, 0, 0, 0, time.UTC)

func newWorld(c *check.C, opts worldOpts) *world {
	w := &world{c: c, opts: opts, mounted: map[string]map[int]bool{}, current: map[string]int{},
		aliases: map[string]string{}, data: map[string]map[int]bool{}}
	w.SetUpTest(c)
	w.AddCleanup(release.MockOnClassic(true))
	// deterministic, strictly increasing clock for LastRefreshTime & co
	w.AddCleanup(snapstate.MockTimeNow(func() time.Time {
		w.mu.Lock()
		defer w.mu.Unlock()
		w.clock++
		return worldBaseTime.Add(time.Duration(w.clock) * time.Second)
	}))
	w.fakeBackend.maybeInjectErr = w.backendHook
	if len(opts.AliasSnaps) > 0 {
		alias := map[string]bool{}
		for _, n := range opts.AliasSnaps {
			alias[n] = true
		}
		// give those snaps an app.  (Not via fakeSnappyBackend.addSnapApp: that makes
		// ReadInfo hand out one shared, mutated *snap.Info for all revisions.)
		w.AddCleanup(snapstate.MockSnapReadInfo(func(name string, si *snap.SideInfo) (*snap.Info, error) {
			info, err := w.fakeBackend.ReadInfo(name, si)
			if err == nil && alias[name] {
				if info.Apps == nil {
					info.Apps = map[string]*snap.AppInfo{}
				}
				info.Apps["cmd1"] = &snap.AppInfo{Snap: info, Name: "cmd1"}
			}
			return info, err
		}))
		snapstate.AutoAliases = func(st *state.State, info *snap.Info) (map[string]string, error) {
			if alias[info.InstanceName()] {
				return map[string]string{info.InstanceName() + "-alias1": "cmd1"}, nil
			}
			return nil, nil
		}
	}
	if opts.ParallelInstances {
		w.state.Lock()
		tr := config.NewTransaction(w.state)
		tr.Set("core", "experimental.parallel-instances", true)
		tr.Commit()
		w.state.Unlock()
	}
	return w
}

func (w *world) close() {
	if w.closed {
		return
	}
	w.closed = true
	w.fakeBackend.maybeInjectErr = nil
	w.TearDownTest(w.c)
}

// backendHook is called by the fake backend right after it logged an op (for the
// ops that support failure injection).  It mirrors what the real backend does to
// the per-revision data directories (undoUnlinkSnap looks at them) and fires the
// armed one-shot fault.
func (w *world) backendHook(op *fakeOp) error {
	w.mu.Lock()
	f := w.fault
	fire := f != nil && !f.fired && op.op == f.op
	if fire {
		f.fired = true
	}
	w.mu.Unlock()
	if fire {
		op.op += ".failed"
		return errors.New("verif: injected backend failure")
	}
	switch op.op {
	case "copy-data":
		name, rev := worldSplitMountDir(op.path)
		os.MkdirAll(snap.DataDir(name, snap.R(rev)), 0755)
		os.MkdirAll(snap.CommonDataDir(name), 0755)
	case "undo-copy-snap-data", "remove-snap-data":
		name, rev := worldSplitMountDir(op.path)
		os.RemoveAll(snap.DataDir(name, snap.R(rev)))
	case "remove-snap-common-data":
		name, _ := worldSplitMountDir(op.path)
		os.RemoveAll(snap.CommonDataDir(name))
	}
	return nil
}

// worldSplitMountDir: <root>/snap/<instance>/<rev> -> (instance, rev)
func worldSplitMountDir(p string) (string, int) {
	rev, err := snap.ParseRevision(filepath.Base(p))
	if err != nil {
		panic(fmt.Sprintf("HARNESS: cannot parse mount dir %q: %v", p, err))
	}
	return filepath.Base(filepath.Dir(p)), rev.N
}

func worldSetAdd(m map[string]map[int]bool, name string, rev int) {
	if m[name] == nil {
		m[name] = map[int]bool{}
	}
	m[name][rev] = true
}

func worldSetDel(m map[string]map[int]bool, name string, rev int) {
	delete(m[name], rev)
	if len(m[name]) == 0 {
		delete(m, name)
	}
}

func worldAliasSnap(target string) string {
	if i := strings.IndexByte(target, '.'); i >= 0 {
		return target[:i]
	}
	return target
}

// fold applies the backend ops logged since the last fold to the model.
func (w *world) fold() {
	w.fakeBackend.mu.Lock()
	ops := append(fakeOps(nil), w.fakeBackend.ops[w.folded:]...)
	w.folded = len(w.fakeBackend.ops)
	w.fakeBackend.mu.Unlock()
	for _, op := range ops {
		switch op.op {
		case "setup-snap":
			worldSetAdd(w.mounted, op.name, op.revno.N)
		case "undo-setup-snap", "remove-snap-files":
			name, rev := worldSplitMountDir(op.path)
			worldSetDel(w.mounted, name, rev)
		case "link-snap":
			name, rev := worldSplitMountDir(op.path)
			w.current[name] = rev
		case "unlink-snap":
			// the real backend removes the current symlinks of the snap, whatever they point to
			name, _ := worldSplitMountDir(op.path)
			delete(w.current, name)
		case "copy-data":
			name, rev := worldSplitMountDir(op.path)
			worldSetAdd(w.data, name, rev)
		case "undo-copy-snap-data", "remove-snap-data":
			name, rev := worldSplitMountDir(op.path)
			worldSetDel(w.data, name, rev)
		case "update-aliases":
			for _, a := range op.rmAliases {
				if w.aliases[a.Name] == a.Target {
					delete(w.aliases, a.Name)
				}
			}
			for _, a := range op.aliases {
				w.aliases[a.Name] = a.Target
			}
		case "remove-snap-aliases":
			for al, target := range w.aliases {
				if worldAliasSnap(target) == op.name {
					delete(w.aliases, al)
				}
			}
		}
	}
}

// opsSince returns the names of the backend ops logged from index from on.
func (w *world) opsSince(from int) []fakeOp {
	w.fakeBackend.mu.Lock()
	defer w.fakeBackend.mu.Unlock()
	return append([]fakeOp(nil), w.fakeBackend.ops[from:]...)
}

func (w *world) opCount() int {
	w.fakeBackend.mu.Lock()
	defer w.fakeBackend.mu.Unlock()
	return len(w.fakeBackend.ops)
}

// ---------------------------------------------------------------- reading the recorded state

func (w *world) snapState(name string) (*snapstate.SnapState, bool) {
	w.state.Lock()
	defer w.state.Unlock()
	var snapst snapstate.SnapState
	err := snapstate.Get(w.state, name, &snapst)
	if errors.Is(err, state.ErrNoState) {
		return nil, false
	}
	if err != nil {
		panic(fmt.Sprintf("HARNESS: snapstate.Get(%q): %v", name, err))
	}
	return &snapst, true
}

func worldSeq(snapst *snapstate.SnapState) []int {
	var out []int
	for _, rs := range snapst.Sequence.Revisions {
		out = append(out, rs.Snap.Revision.N)
	}
	return out
}

// kept returns the kept revisions other than current, in sequence order.
func (w *world) keptNotCurrent(name string) []int {
	snapst, ok := w.snapState(name)
	if !ok {
		return nil
	}
	var out []int
	for _, r := range worldSeq(snapst) {
		if r != snapst.Current.N {
			out = append(out, r)
		}
	}
	return out
}

func worldCanon(raw *json.RawMessage) string {
	if raw == nil {
		return ""
	}
	var v interface{}
	if err := json.Unmarshal(*raw, &v); err != nil {
		return string(*raw)
	}
	b, _ := json.Marshal(v) // map keys sorted
	return string(b)
}

// configDocs returns the canonical config document and per-revision config
// documents of every snap that has any (state lock taken here).
func (w *world) configDocs() (cfg map[string]string, revCfg map[string]map[string]string) {
	w.state.Lock()
	defer w.state.Unlock()
	cfg, revCfg = map[string]string{}, map[string]map[string]string{}
	var c map[string]*json.RawMessage
	if err := w.state.Get("config", &c); err == nil {
		for name, raw := range c {
			cfg[name] = worldCanon(raw)
		}
	}
	var rc map[string]map[string]*json.RawMessage
	if err := w.state.Get("revision-config", &rc); err == nil {
		for name, m := range rc {
			revCfg[name] = map[string]string{}
			for rev, raw := range m {
				revCfg[name][rev] = worldCanon(raw)
			}
		}
	}
	return cfg, revCfg
}

// worldView is everything the C10 statement lists for one snap: the recorded state
// and the system-visible side.  Fields the statement does not list (UserID, Required,
// aux store info, migration flags, alias bookkeeping, services lists) are not in it.
type worldView struct {
	Present          bool              `json:"present"`
	Current          int               `json:"current,omitempty"`
	Seq              []int             `json:"seq,omitempty"`
	Active           bool              `json:"active,omitempty"`
	Channel          string            `json:"channel,omitempty"`
	DevMode          bool              `json:"devmode,omitempty"`
	JailMode         bool              `json:"jailmode,omitempty"`
	Classic          bool              `json:"classic,omitempty"`
	TryMode          bool              `json:"trymode,omitempty"`
	IgnoreValidation bool              `json:"ignorevalidation,omitempty"`
	Cohort           string            `json:"cohort,omitempty"`
	LastRefresh      string            `json:"lastrefresh,omitempty"`
	Inhibited        string            `json:"inhibited,omitempty"`
	Block            []int             `json:"block,omitempty"`      // SnapState.Block()
	NotBlocked       []int             `json:"notblocked,omitempty"` // kept revisions carrying a NotBlocked mark (informational, not compared)
	Config           string            `json:"config,omitempty"`
	RevConfig        map[string]string `json:"revconfig,omitempty"`
	// system-visible side
	Linked  int      `json:"linked,omitempty"`
	Mounted []int    `json:"mounted,omitempty"`
	Aliases []string `json:"aliases,omitempty"`
}

func worldTime(t *time.Time) string {
	if t == nil {
		return ""
	}
	return t.UTC().Format(time.RFC3339Nano)
}

func worldSortedSet(m map[int]bool) []int {
	var out []int
	for r := range m {
		out = append(out, r)
	}
	sort.Ints(out)
	return out
}

func (w *world) view(name string) worldView {
	var v worldView
	if snapst, ok := w.snapState(name); ok {
		v.Present = true
		v.Current = snapst.Current.N
		v.Seq = worldSeq(snapst)
		v.Active = snapst.Active
		v.Channel = snapst.TrackingChannel
		v.DevMode, v.JailMode, v.Classic, v.TryMode = snapst.DevMode, snapst.JailMode, snapst.Classic, snapst.TryMode
		v.IgnoreValidation = snapst.IgnoreValidation
		v.Cohort = snapst.CohortKey
		v.LastRefresh = worldTime(snapst.LastRefreshTime)
		v.Inhibited = worldTime(snapst.RefreshInhibitedTime)
		for _, r := range snapst.Block() {
			v.Block = append(v.Block, r.N)
		}
		for _, r := range v.Seq {
			if snapst.RevertStatus[r] == snapstate.NotBlocked {
				v.NotBlocked = append(v.NotBlocked, r)
			}
		}
	}
	cfg, revCfg := w.configDocs()
	v.Config = cfg[name]
	if len(revCfg[name]) > 0 {
		v.RevConfig = revCfg[name]
	}
	v.Linked = w.current[name]
	v.Mounted = worldSortedSet(w.mounted[name])
	for al, target := range w.aliases {
		if worldAliasSnap(target) == name {
			v.Aliases = append(v.Aliases, al+"->"+target)
		}
	}
	sort.Strings(v.Aliases)
	return v
}

func (v worldView) String() string {
	b, _ := json.Marshal(v)
	return string(b)
}

// consistency is the C11 oracle: recorded state vs. world model, for every snap
// either side knows about.  The fixture's pre-seeded "core" record was written
// straight into the state (it never went through the backend) and is left out.
func (w *world) consistency() []string {
	var problems []string
	w.state.Lock()
	all, err := snapstate.All(w.state)
	w.state.Unlock()
	if err != nil {
		return []string{fmt.Sprintf("snapstate.All fails: %v", err)}
	}
	cfg, revCfg := w.configDocs()
	names := map[string]bool{}
	for n := range all {
		names[n] = true
	}
	for n := range w.mounted {
		names[n] = true
	}
	for n := range w.current {
		names[n] = true
	}
	for n := range cfg {
		names[n] = true
	}
	for n := range revCfg {
		names[n] = true
	}
	delete(names, "core")
	sorted := make([]string, 0, len(names))
	for n := range names {
		sorted = append(sorted, n)
	}
	sort.Strings(sorted)
	for _, n := range sorted {
		snapst, present := all[n]
		mounted := worldSortedSet(w.mounted[n])
		linked, isLinked := w.current[n]
		if present && len(snapst.Sequence.Revisions) == 0 {
			problems = append(problems, fmt.Sprintf("%s: a record with no kept revisions persists in the state (current %v, active %v)", n, snapst.Current, snapst.Active))
			present = false
		}
		if !present {
			if len(mounted) > 0 {
				problems = append(problems, fmt.Sprintf("%s: not recorded as installed but revisions %v are still present on the system", n, mounted))
			}
			if isLinked {
				problems = append(problems, fmt.Sprintf("%s: not recorded as installed but revision %d is still linked as current", n, linked))
			}
			if c, ok := cfg[n]; ok {
				problems = append(problems, fmt.Sprintf("%s: not recorded as installed but configuration %s is left behind", n, c))
			}
			if rc, ok := revCfg[n]; ok {
				problems = append(problems, fmt.Sprintf("%s: not recorded as installed but per-revision configuration %v is left behind", n, rc))
			}
			continue
		}
		seq := worldSeq(snapst)
		inSeq := map[int]bool{}
		for _, r := range seq {
			inSeq[r] = true
		}
		if !inSeq[snapst.Current.N] {
			problems = append(problems, fmt.Sprintf("%s: current revision %d is not one of the kept revisions %v", n, snapst.Current.N, seq))
		}
		for _, r := range seq {
			if !w.mounted[n][r] {
				problems = append(problems, fmt.Sprintf("%s: kept revision %d (of %v) is not present on the system (present: %v)", n, r, seq, mounted))
			}
		}
		for _, r := range mounted {
			if !inSeq[r] {
				problems = append(problems, fmt.Sprintf("%s: revision %d is present on the system but not kept (kept: %v)", n, r, seq))
			}
		}
		if snapst.Active {
			if !isLinked {
				problems = append(problems, fmt.Sprintf("%s: recorded active with current %d but no revision is linked", n, snapst.Current.N))
			} else if linked != snapst.Current.N {
				problems = append(problems, fmt.Sprintf("%s: recorded active with current %d but revision %d is linked", n, snapst.Current.N, linked))
			}
		} else if isLinked {
			problems = append(problems, fmt.Sprintf("%s: recorded inactive but revision %d is linked as current", n, linked))
		}
	}
	return problems
}

// aliasLeftovers lists aliases on the system whose snap is not recorded as installed.
// The C11 statement does not mention aliases, so this is an observation, not part
// of consistency().
func (w *world) aliasLeftovers() []string {
	w.state.Lock()
	all, _ := snapstate.All(w.state)
	w.state.Unlock()
	var out []string
	for al, target := range w.aliases {
		if _, ok := all[worldAliasSnap(target)]; !ok {
			out = append(out, al+"->"+target)
		}
	}
	sort.Strings(out)
	return out
}

// ---------------------------------------------------------------- issuing requests

func worldSnapID(instance string) string { return snap.InstanceSnap(instance) + "-id" }

func worldMax(xs []int, floor int) int {
	m := floor
	for _, x := range xs {
		if x > m {
			m = x
		}
	}
	return m
}

// resolve turns a generated request into one that is applicable to the present
// state: picks become concrete kept revisions, a refresh never targets the
// current revision.  ok=false: the request cannot apply at all right now (no
// such snap, nothing to revert to, ...); callers skip it or fall back.
func (w *world) resolve(r worldReq) (worldReq, bool) {
	snapst, present := w.snapState(r.Snap)
	others := w.keptNotCurrent(r.Snap)
	pick := func() int {
		p := r.Pick
		if p < 0 {
			p = -p
		}
		return others[p%len(others)]
	}
	switch r.Op {
	case "install":
		return r, !present
	case "refresh":
		if !present || !snapst.Active {
			return r, false
		}
		if r.Rev <= 0 || r.Rev == snapst.Current.N {
			r.Rev = worldMax(worldSeq(snapst), 0) + 1
		}
		return r, true
	case "refresh-kept", "revert-to":
		if !present || !snapst.Active || len(others) == 0 {
			return r, false
		}
		r.Rev = pick()
		r.ByRev = true
		return r, true
	case "revert":
		if !present || !snapst.Active {
			return r, false
		}
		seq := worldSeq(snapst)
		for i, rev := range seq {
			if rev == snapst.Current.N && i > 0 {
				r.Rev = seq[i-1] // informational: snapstate.Revert picks it itself
				return r, true
			}
		}
		return r, false
	case "remove-rev":
		if present && r.PickCurrent {
			r.Rev = snapst.Current.N
			return r, true
		}
		if present && r.PickAny {
			seq := worldSeq(snapst)
			p := r.Pick
			if p < 0 {
				p = -p
			}
			r.Rev = seq[p%len(seq)]
			return r, true
		}
		if !present || len(others) == 0 {
			return r, false
		}
		r.Rev = pick()
		return r, true
	case "remove":
		return r, present
	case "enable":
		return r, present && !snapst.Active
	case "disable":
		return r, present && snapst.Active
	case "switch", "set-config", "mark-inhibited":
		return r, present
	case "set-retain":
		return r, true
	}
	return r, false
}

// request issues r the way the daemon's API handlers do.
func (w *world) request(r worldReq) (*state.Change, error) {
	st := w.state
	st.Lock()
	defer st.Unlock()
	uid := 0
	if r.User {
		uid = w.user.ID
	}
	flags := snapstate.Flags{DevMode: r.DevMode, JailMode: r.JailMode, Classic: r.Classic, IgnoreValidation: r.IgnoreValidation}
	var ts *state.TaskSet
	var err error
	var kind string
	switch r.Op {
	case "install":
		opts := &snapstate.RevisionOptions{Channel: r.Channel, CohortKey: r.Cohort}
		if r.Rev > 0 {
			opts.Revision = snap.R(r.Rev)
		}
		kind = "install-snap"
		ts, err = snapstate.Install(context.Background(), st, r.Snap, opts, uid, flags)
	case "refresh", "refresh-kept":
		opts := &snapstate.RevisionOptions{Channel: r.Channel, CohortKey: r.Cohort, LeaveCohort: r.LeaveCohort}
		if r.ByRev {
			opts.Revision = snap.R(r.Rev)
		}
		w.fakeStore.refreshRevnos = map[string]snap.Revision{worldSnapID(r.Snap): snap.R(r.Rev)}
		kind = "refresh-snap"
		ts, err = snapstate.Update(st, r.Snap, opts, uid, flags)
	case "revert", "revert-to":
		if r.NotBlocked {
			flags.RevertStatus = snapstate.NotBlocked
		}
		kind = "revert-snap"
		if r.Op == "revert" {
			ts, err = snapstate.Revert(st, r.Snap, flags, "")
		} else {
			ts, err = snapstate.RevertToRevision(st, r.Snap, snap.R(r.Rev), flags, "")
		}
	case "remove":
		kind = "remove-snap"
		ts, err = snapstate.Remove(st, r.Snap, snap.R(0), &snapstate.RemoveFlags{Purge: r.Purge})
	case "remove-rev":
		kind = "remove-snap"
		ts, err = snapstate.Remove(st, r.Snap, snap.R(r.Rev), &snapstate.RemoveFlags{Purge: r.Purge})
	case "enable":
		kind = "enable-snap"
		ts, err = snapstate.Enable(st, r.Snap)
	case "disable":
		kind = "disable-snap"
		ts, err = snapstate.Disable(st, r.Snap)
	case "switch":
		kind = "switch-snap"
		ts, err = snapstate.Switch(st, r.Snap, &snapstate.RevisionOptions{Channel: r.Channel, CohortKey: r.Cohort, LeaveCohort: r.LeaveCohort})
	case "set-config":
		tr := config.NewTransaction(st)
		var val interface{}
		if r.Val != 0 {
			val = r.Val
		}
		if err := tr.Set(r.Snap, r.Key, val); err != nil {
			return nil, err
		}
		tr.Commit()
		return nil, nil
	case "set-retain":
		tr := config.NewTransaction(st)
		var val interface{}
		if r.Retain != 0 {
			val = r.Retain
		}
		if err := tr.Set("core", "refresh.retain", val); err != nil {
			return nil, err
		}
		tr.Commit()
		return nil, nil
	case "mark-inhibited":
		// what inhibitRefresh records when a refresh found the snap busy
		var snapst snapstate.SnapState
		if err := snapstate.Get(st, r.Snap, &snapst); err != nil {
			return nil, err
		}
		w.mu.Lock()
		w.clock++
		t := worldBaseTime.Add(time.Duration(w.clock) * time.Second)
		w.mu.Unlock()
		snapst.RefreshInhibitedTime = &t
		snapstate.Set(st, r.Snap, &snapst)
		return nil, nil
	default:
		panic("HARNESS: unknown world op " + r.Op)
	}
	if err != nil {
		return nil, err
	}
	chg := st.NewChange(kind, fmt.Sprintf("verif: %s %s", r.Op, r.Snap))
	chg.AddAll(ts)
	return chg, nil
}

// worldFaultTasks lists the tasks of chg that serve as failure points, in the
// order the change lists them.  check-rerefresh is left out: it is no step of
// the operation (it only watches the change) and must not gain dependents.
func worldFaultTasks(st *state.State, chg *state.Change) []*state.Task {
	st.Lock()
	defer st.Unlock()
	var out []*state.Task
	for _, t := range chg.Tasks() {
		if t.Kind() == "check-rerefresh" || t.Kind() == "error-trigger" {
			continue
		}
		out = append(out, t)
	}
	return out
}

// failBefore makes t fail before it does anything: an always-failing task
// (fixture kind "error-trigger") that waits for all of t's prerequisites, sits in
// t's lanes, and that t waits for.
func (w *world) failBefore(chg *state.Change, t *state.Task) {
	st := w.state
	st.Lock()
	defer st.Unlock()
	et := st.NewTask("error-trigger", fmt.Sprintf("verif: fail before %s", t.Kind()))
	for _, wt := range t.WaitTasks() {
		et.WaitFor(wt)
	}
	t.WaitFor(et)
	for _, l := range t.Lanes() {
		if l != 0 {
			et.JoinLane(l)
		}
	}
	chg.AddTask(et)
}

// worldBackendFaults are the backend ops that can be made to fail on the do path
// of install/refresh/revert; "link-snap" and "copy-data" use the fake backend's own
// triggers (keyed by the target's mount dir), the others fail the first time the
// op is logged.
var worldBackendFaults = []string{"link-snap", "copy-data", "unlink-snap", "setup-profiles:Doing", "auto-connect:Doing", "start-snap-services", "update-aliases"}

func (w *world) failBackend(op, name string, rev int) {
	switch op {
	case "link-snap":
		w.fakeBackend.linkSnapFailTrigger = snap.MountDir(name, snap.R(rev))
	case "copy-data":
		w.fakeBackend.copySnapDataFailTrigger = snap.MountDir(name, snap.R(rev))
	default:
		w.mu.Lock()
		w.fault = &worldBackendFault{op: op}
		w.mu.Unlock()
	}
}

// clearFaults disarms backend faults; reports whether the armed one fired.
func (w *world) clearFaults(opsFrom int) (fired bool) {
	if w.fakeBackend.linkSnapFailTrigger != "" || w.fakeBackend.copySnapDataFailTrigger != "" {
		for _, op := range w.opsSince(opsFrom) {
			if op.op == "link-snap.failed" || op.op == "copy-data.failed" {
				fired = true
			}
		}
	}
	w.fakeBackend.linkSnapFailTrigger = ""
	w.fakeBackend.copySnapDataFailTrigger = ""
	w.mu.Lock()
	if w.fault != nil && w.fault.fired {
		fired = true
	}
	w.fault = nil
	w.mu.Unlock()
	return fired
}

// run settles everything and folds the new backend ops into the model.
func (w *world) run() error {
	err := w.o.Settle(5 * time.Minute)
	w.fold()
	return err
}

// pruneChanges removes the ready changes (and their tasks) from the state, as the
// overlord's periodic State.Prune does with old changes.  Long enumerations on one
// world call it between operations: every state checkpoint marshals all changes.
func (w *world) pruneChanges() {
	w.state.Lock()
	defer w.state.Unlock()
	w.state.Prune(time.Time{}, 24*time.Hour, 10*365*24*time.Hour, 0)
}

// worldChangeReport: status of a settled change and its tasks.
func (w *world) changeReport(chg *state.Change) (st state.Status, unready []string, lines []string) {
	w.state.Lock()
	defer w.state.Unlock()
	st = chg.Status()
	for _, t := range chg.Tasks() {
		lines = append(lines, fmt.Sprintf("%s:%s", t.Kind(), t.Status()))
		if !t.Status().Ready() {
			unready = append(unready, fmt.Sprintf("%s:%s", t.Kind(), t.Status()))
		}
	}
	return st, unready, lines
}

func (w *world) changeErr(chg *state.Change) string {
	w.state.Lock()
	defer w.state.Unlock()
	if err := chg.Err(); err != nil {
		return err.Error()
	}
	return ""
}

// worldIntsEqual compares two revision lists.
func worldIntsEqual(a, b []int) bool {
	if len(a) != len(b) {
		return false
	}
	for i := range a {
		if a[i] != b[i] {
			return false
		}
	}
	return true
}

func worldContains(xs []int, x int) bool {
	for _, y := range xs {
		if x == y {
			return true
		}
	}
	return false
}

// worldAssumeKnown: only KNOWN_FINDINGS.jsonl decides what is known (no env switch).
func worldAssumeKnown(id, fp string) bool {
	return verifkit.IsKnown(id, fp)
}

// ---------------------------------------------------------------- request generator (shared)

// worldGenReq draws one request of one of the given kinds for snapName.  Revisions
// that address kept revisions are drawn as Pick and resolved at run time.
var worldChannels = []string{"", "", "", "edge", "beta", "latest/candidate", "2.0/stable"}
var worldCohorts = []string{"", "", "", "cohort-a", "cohort-b"}

func worldGenFlags(t *rapid.T, r *worldReq) {
	r.Channel = rapid.SampledFrom(worldChannels).Draw(t, "channel")
	r.Cohort = rapid.SampledFrom(worldCohorts).Draw(t, "cohort")
	if r.Cohort == "" && rapid.IntRange(0, 7).Draw(t, "leave") == 0 {
		r.LeaveCohort = true
	}
	switch rapid.IntRange(0, 11).Draw(t, "mode") {
	case 0:
		r.DevMode = true
	case 1:
		r.JailMode = true
	case 2:
		r.Classic = true
	}
	r.IgnoreValidation = rapid.IntRange(0, 5).Draw(t, "ignval") == 0
	r.User = rapid.IntRange(0, 2).Draw(t, "user") == 0
}

func worldGenReq(t *rapid.T, snapName string, kinds []string) worldReq {
	r := worldReq{Op: rapid.SampledFrom(kinds).Draw(t, "op"), Snap: snapName}
	switch r.Op {
	case "install":
		r.Rev = rapid.IntRange(0, 6).Draw(t, "rev")
		worldGenFlags(t, &r)
		r.LeaveCohort = false
		if r.Cohort != "" {
			r.Rev = 0 // snapstate refuses revision + cohort
		}
	case "refresh":
		r.Rev = rapid.IntRange(1, 12).Draw(t, "rev")
		r.ByRev = rapid.IntRange(0, 2).Draw(t, "byrev") == 0
		worldGenFlags(t, &r)
		if r.ByRev {
			r.Cohort = ""
		}
	case "refresh-kept":
		r.Pick = rapid.IntRange(0, 5).Draw(t, "pick")
		worldGenFlags(t, &r)
		r.Cohort = ""
	case "revert":
		r.NotBlocked = rapid.Bool().Draw(t, "notblocked")
		worldGenRevertFlags(t, &r)
	case "revert-to":
		r.Pick = rapid.IntRange(0, 5).Draw(t, "pick")
		r.NotBlocked = rapid.Bool().Draw(t, "notblocked")
		worldGenRevertFlags(t, &r)
	case "remove-rev":
		r.Pick = rapid.IntRange(0, 5).Draw(t, "pick")
	case "remove":
		r.Purge = rapid.Bool().Draw(t, "purge")
	case "switch":
		r.Channel = rapid.SampledFrom([]string{"edge", "beta", "stable", "latest/candidate", "2.0/stable"}).Draw(t, "channel")
		r.Cohort = rapid.SampledFrom(worldCohorts).Draw(t, "cohort")
	case "set-config":
		r.Key = rapid.SampledFrom([]string{"a", "b", "c.d"}).Draw(t, "key")
		r.Val = rapid.IntRange(0, 4).Draw(t, "val")
	case "set-retain":
		r.Retain = rapid.SampledFrom([]int{0, 2, 2, 3, 4, 5}).Draw(t, "retain")
	}
	return r
}

func worldGenRevertFlags(t *rapid.T, r *worldReq) {
	switch rapid.IntRange(0, 9).Draw(t, "mode") {
	case 0:
		r.DevMode = true
	case 1:
		r.JailMode = true
	}
}

