package state

// C03 — changes settle; status is the documented aggregate; ready is monotone;
// the reported error names every failed task.
// Online observations are made after every scheduler action in
// schedRun.observe (reference aggregate refChangeStatus, ready monotonicity).

import (
	"fmt"
	"sort"
	"strings"
	"testing"

	"github.com/snapcore/snapd/verifkit"
	"pgregory.net/rapid"
)

func c03Judge(c schedCase, res *schedResult) error {
	h := res.h
	if res.known != nil {
		return verifkit.Knownf("F-C03-1", "C03: Change.Abort() panicked with 'unexpectedly became unready': every unready task was in Do and listed before the completed ones, so the change was momentarily reported ready (ready time set, notification sent) and then went to Undo\n%s", res.describe())
	}
	if len(h.statusViol) > 0 {
		return verifkit.Violatef("%s\n%s", h.statusViol[0], res.describe())
	}
	if !res.settled {
		return verifkit.Violatef("C03: change did not settle within the step bound\n%s", res.describe())
	}
	// every handler that returned an error makes its task a failed task (added
	// after a second-round seeded change turned errors of aborted tasks into retries)
	for i := range c.Tasks {
		if len(h.cnt.failedMsg[i]) > 0 && res.final[i] != ErrorStatus {
			return verifkit.Violatef("C03: a handler of task %d failed with %q but the task ended %s and is not reported as failed\n%s", i, h.cnt.failedMsg[i][len(h.cnt.failedMsg[i])-1], res.final[i], res.describe())
		}
	}
	for ci := range h.chgs {
		if len(h.chgs[ci].taskIDs) == 0 {
			continue
		}
		if !res.chgFinal[ci].Ready() {
			return verifkit.Violatef("C03: change %d ended in %s\n%s", ci, res.chgFinal[ci], res.describe())
		}
		// error report
		var want []string
		for i, ts := range c.Tasks {
			if ts.Chg == ci && res.final[i] == ErrorStatus {
				msgs := h.cnt.failedMsg[i]
				if len(msgs) == 0 {
					return verifkit.Violatef("C03: task %d is in Error but none of its handlers failed\n%s", i, res.describe())
				}
				want = append(want, fmt.Sprintf("- task-%d (%s)", i, msgs[len(msgs)-1]))
			}
		}
		err := res.chgErr[ci]
		if res.chgFinal[ci] == ErrorStatus {
			if err == nil {
				return verifkit.Violatef("C03: change %d is in Error but Err() is nil\n%s", ci, res.describe())
			}
			lines := strings.Split(err.Error(), "\n")
			var got []string
			for _, l := range lines[1:] {
				got = append(got, l)
			}
			sort.Strings(got)
			sort.Strings(want)
			if strings.Join(got, "|") != strings.Join(want, "|") {
				return verifkit.Violatef("C03: change %d reports errors %q, failed tasks are %q\n%s", ci, got, want, res.describe())
			}
		} else if err != nil {
			return verifkit.Violatef("C03: change %d ended %s but Err()=%v\n%s", ci, res.chgFinal[ci], err, res.describe())
		} else if len(want) > 0 {
			return verifkit.Violatef("C03: change %d has failed tasks %q but ended %s\n%s", ci, want, res.chgFinal[ci], res.describe())
		}
	}
	return nil
}

func TestVerifC03(t *testing.T) {
	verifkit.Check(t, verifkit.Spec[schedCase]{
		ID: "C03", Engine: "sched",
		Gen: func(t *rapid.T) schedCase {
			return schedGen(t, schedGenOpts{maxTasks: verifkit.Size(8, 14), failures: 2, undoFail: true, retries: true, delays: true, waits: true, aborts: true, twoChanges: true})
		},
		Run: func(c schedCase) (verifkit.Outcome, error) {
			if !schedValidate(c) {
				return verifkit.Outcome{Skip: true}, nil
			}
			res := schedExec(c, false)
			defer res.h.close()
			o := verifkit.Outcome{}
			h := res.h
			if h.abortsDone > 0 {
				o.Labels = append(o.Labels, "user-abort")
			}
			if h.abortIdle {
				o.Labels = append(o.Labels, "abort-while-nothing-running")
			}
			anyErr, anyDoneAtEvent := false, false
			for _, s := range res.final {
				if s == ErrorStatus {
					anyErr = true
				}
			}
			for i := range c.Tasks {
				if h.cnt.doOK[i] > 0 {
					anyDoneAtEvent = true
				}
			}
			if anyErr {
				o.Labels = append(o.Labels, "task-error")
			}
			for _, ts := range c.Tasks {
				for _, d := range ts.Do {
					if d.K == "wait" {
						o.Labels = append(o.Labels, "wait-outcome")
						break
					}
				}
			}
			o.NonTrivial = (anyErr || h.abortsDone > 0) && anyDoneAtEvent
			return o, c03Judge(c, res)
		},
		Floors:          map[string]float64{"user-abort": 0.25, "abort-while-nothing-running": 0.05, "task-error": 0.2},
		NonTrivialFloor: 0.3,
	})
}
