package state

// C02 — tasks never start before what they wait for (and not before their
// scheduled time, nor while a prerequisite is in Wait).
// The start-time checks run inside the blocking handlers at the instant the
// runner started them (schedRun.onStart, under the state lock).

import (
	"testing"

	"github.com/snapcore/snapd/verifkit"
	"pgregory.net/rapid"
)

func c02Judge(c schedCase, res *schedResult) error {
	h := res.h
	if len(h.violations) > 0 {
		return verifkit.Violatef("%s\n%s", h.violations[0], res.describe())
	}
	if !res.settled {
		return verifkit.Violatef("C02: runnable work left: change did not settle within the step bound\n%s", res.describe())
	}
	// bounded progress: nothing is left in Do/Undo/Doing/Undoing/Wait when everything quiesced
	for i, s := range res.final {
		if !s.Ready() {
			return verifkit.Violatef("C02: task %d left in %s although nothing is running and its time has come\n%s", i, s, res.describe())
		}
	}
	return nil
}

func TestVerifC02(t *testing.T) {
	verifkit.Check(t, verifkit.Spec[schedCase]{
		ID: "C02", Engine: "sched",
		Gen: func(t *rapid.T) schedCase {
			return schedGen(t, schedGenOpts{maxTasks: verifkit.Size(8, 14), failures: 2, undoFail: true, retries: true, delays: true, waits: true, twoChanges: true})
		},
		Run: func(c schedCase) (verifkit.Outcome, error) {
			if !schedValidate(c) {
				return verifkit.Outcome{Skip: true}, nil
			}
			res := schedExec(c, true)
			defer res.h.close()
			o := verifkit.Outcome{}
			fanin, delayed, waited, undo := false, false, false, false
			for i, ts := range c.Tasks {
				if len(ts.Waits) >= 2 && res.h.cnt.doStarts[i] > 0 {
					fanin = true
				}
				for _, d := range ts.Do {
					if d.K == "retry" && d.After > 0 && res.h.cnt.attempts[res.h.key(i, "do")] > 1 {
						delayed = true
					}
					if d.K == "wait" && res.h.cnt.doOK[i] > 0 {
						waited = true
					}
				}
				if ts.At > 0 && res.h.cnt.doStarts[i] > 0 {
					delayed = true
				}
				if res.h.cnt.undoStart[i] > 0 {
					undo = true
				}
			}
			if fanin {
				o.Labels = append(o.Labels, "fan-in>=2")
			}
			if delayed {
				o.Labels = append(o.Labels, "delayed-retry-or-at")
			}
			if waited {
				o.Labels = append(o.Labels, "wait-status")
			}
			if undo {
				o.Labels = append(o.Labels, "undo-ran")
			}
			o.NonTrivial = fanin || delayed || waited
			return o, c02Judge(c, res)
		},
		Floors:          map[string]float64{"fan-in>=2": 0.20, "delayed-retry-or-at": 0.10, "wait-status": 0.10, "undo-ran": 0.10},
		NonTrivialFloor: 0.4,
	})
}
