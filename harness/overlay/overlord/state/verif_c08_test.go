package state

// C08 — notices are delivered exactly once to polling clients, only to their
// owner, and waiting clients are woken.
//
// Unexported identifiers used: timeNow (via MockTime); State.notices /
// Notice.lastRepeated are read in ONE place only (c08Exec.add, the documented
// "may" case where an occurrence falls exactly on lastRepeated+RepeatAfter).
//
// A case is pure data (c08Case): a set of clients with fixed filters and a
// history of operations
//
//	add    AddNotice(user?, type, key, {Data, RepeatAfter}) without explicit Time
//	bad    AddNotice with an invalid type/key (must be refused, nothing happens)
//	tick   time passes (no tick between adds = same clock reading)
//	step   the wall clock is stepped BACK (settimeofday/NTP step) while the process
//	       keeps running: the monotonic clock is unaffected
//	poll   client asks Notices(filter, After = max last-repeated it has seen)
//	wait   1..3 clients call WaitNotices in goroutines while nested adds/ticks run
//	reload the state is serialised and read back (daemon restart)
//
// Oracle (written from the property statement and the doc comments of
// notices.go, NOT from the timestamp arithmetic of the code): the model keeps
// an ordered log of *delivery events* (first occurrence of a (user,type,key),
// or a re-occurrence that is not suppressed by RepeatAfter).  Every client
// owns a cursor into that log (the log length at its previous poll).  What a
// poll must return is fully determined by log positions: the events after the
// cursor that match the client's filter, one entry per notice (its latest
// event), in log order — none missing, none twice, in occurrence order,
// nothing that did not occur or repeat since.  The implementation answers
// the same question with timestamps (`after`), which only works if occurrence
// times are strictly increasing and the filter/ordering use last-repeated.
// The clients are faithful /v2/notices clients: they see the JSON form of the
// notices and remember after = max "last-repeated" seen.
//
// Ownership: a notice with user id u may only appear in results of a client
// whose filter user id is u or that uses the admin "all users" view; public
// notices reach everyone.
//
// Waiting: a WaitNotices call that finds undelivered matching events returns
// them at once; otherwise it blocks, must return (with exactly the expected
// list) when a matching delivery event happens, and must not return a
// non-empty list for anything else (it is cancelled at the end of the op and
// must then report the context error and no notices).  Liveness is bounded by
// a 10 s watchdog; an expiry is re-tried 3 times on a fresh state and only a
// watchdog expiry in all re-tries is reported as a violation (anything else
// ends the process without a verdict: exit 2).

import (
	"bytes"
	"context"
	"encoding/json"
	"errors"
	"fmt"
	"os"
	"strings"
	"testing"
	"time"
	"unsafe"

	"github.com/snapcore/snapd/verifkit"
	"pgregory.net/rapid"
)

// ------------------------------------------------------------------ case data

type c08Client struct {
	UID   int64    `json:"uid"` // -1 = admin "users=all" view (no user filter), else the filter's user id
	Types []string `json:"types,omitempty"`
	Keys  []string `json:"keys,omitempty"`
}

type c08Op struct {
	K string `json:"k"` // add | bad | tick | poll | wait | reload

	// add / bad
	User   int64             `json:"user,omitempty"` // -1 = public notice, else owner uid
	Type   string            `json:"type,omitempty"`
	Key    string            `json:"key,omitempty"`
	Repeat int64             `json:"repeat,omitempty"` // RepeatAfter, ns
	Data   map[string]string `json:"data,omitempty"`

	// tick: ns that pass (>0); step: ns the wall clock is set back (>0)
	D int64 `json:"d,omitempty"`

	// poll
	Client int `json:"client,omitempty"`

	// wait; Drain: the waiters poll first (a long-polling client that is up to date)
	Waiters []int   `json:"waiters,omitempty"`
	Drain   bool    `json:"drain,omitempty"`
	During  []c08Op `json:"during,omitempty"` // add / tick only
}

type c08Case struct {
	// Base: start of the mocked clock, ns relative to the hour the case runs
	// in (expiry reads the real clock; margins are days).
	Base    int64       `json:"base"`
	Clients []c08Client `json:"clients"`
	Ops     []c08Op     `json:"ops"`
}

// ------------------------------------------------------------------ model

type c08Notice struct {
	id       string
	hasUser  bool
	uid      uint32
	typ, key string
	first    int64 // ns since base
	lastOcc  int64
	lastRep  int64
	occ      int
	data     map[string]string
}

func (n *c08Notice) String() string {
	u := "public"
	if n.hasUser {
		u = fmt.Sprint(n.uid)
	}
	return fmt.Sprintf("%s(%s:%s:%s)", n.id, u, n.typ, n.key)
}

type c08Event struct {
	n     *c08Notice
	at    int64 // occurrence time, ns since base
	clock int   // which clock reading it was added at (count of ticks/steps so far)
}

type c08ClientState struct {
	c08Client
	idx    int
	cursor int       // model side: number of delivery events that existed at the previous poll
	after  time.Time // client side: max last-repeated seen so far (zero: never saw anything)
}

func (cl *c08ClientState) matchesFilter(n *c08Notice) bool {
	if len(cl.Types) > 0 && !c08Has(cl.Types, n.typ) {
		return false
	}
	if len(cl.Keys) > 0 && !c08Has(cl.Keys, n.key) {
		return false
	}
	return true
}

func (cl *c08ClientState) mayView(n *c08Notice) bool {
	return cl.UID < 0 || !n.hasUser || int64(n.uid) == cl.UID
}

func c08Has(l []string, s string) bool {
	for _, x := range l {
		if x == s {
			return true
		}
	}
	return false
}

// view of a notice as an API client sees it
type c08View struct {
	ID           string            `json:"id"`
	UserID       *uint32           `json:"user-id"`
	Type         string            `json:"type"`
	Key          string            `json:"key"`
	First        time.Time         `json:"first-occurred"`
	LastOccurred time.Time         `json:"last-occurred"`
	LastRepeated time.Time         `json:"last-repeated"`
	Occurrences  int               `json:"occurrences"`
	LastData     map[string]string `json:"last-data"`
}

func (v c08View) String() string {
	u := "public"
	if v.UserID != nil {
		u = fmt.Sprint(*v.UserID)
	}
	return fmt.Sprintf("%s(%s:%s:%s)@%s", v.ID, u, v.Type, v.Key, v.LastRepeated.Format("15:04:05.000000000"))
}

func c08Views(ns []*Notice) ([]c08View, error) {
	raw, err := json.Marshal(ns)
	if err != nil {
		return nil, err
	}
	var vs []c08View
	if err := json.Unmarshal(raw, &vs); err != nil {
		return nil, err
	}
	return vs, nil
}

// ------------------------------------------------------------------ execution

const c08Watchdog = 10 * time.Second

// the model cannot follow the state any further (see steppedBack); no verdict
var errC08EndOfCase = errors.New("c08: end of case")

type c08Exec struct {
	st      *State
	base    time.Time
	clock   int64 // wall clock, ns since base
	mono    int64 // monotonic clock, ns since start
	gen     int   // number of ticks/steps so far: identifies a clock reading
	hasLast bool
	// for the narrow classification of F-C08-1 only
	addSinceReload bool // an occurrence time was assigned by this "process"
	stepSinceAdd   bool // the wall clock was stepped back since then
	lastTs         int64
	notices        map[string]*c08Notice
	ids            map[string]bool
	events         []c08Event
	clients        []*c08ClientState
	labels         map[string]bool
	stats          map[string]int
	trail          []string
	// watchdog expired (liveness verdicts need confirmation)
	timedOut bool
}

func (x *c08Exec) logf(format string, args ...interface{}) {
	x.trail = append(x.trail, fmt.Sprintf(format, args...))
}

func (x *c08Exec) tail() string {
	t := x.trail
	if len(t) > 40 {
		t = t[len(t)-40:]
	}
	return strings.Join(t, "\n")
}

func (x *c08Exec) violate(format string, args ...interface{}) error {
	return verifkit.Violatef("%s\n-- history (last steps):\n%s", fmt.Sprintf(format, args...), x.tail())
}

func (x *c08Exec) at(off int64) time.Time { return x.base.Add(time.Duration(off)) }

func (x *c08Exec) fmtOff(off int64) string {
	return fmt.Sprintf("T%+dns", off)
}

// The mocked clock returns what time.Now() returns in production: a wall
// clock reading together with a monotonic clock reading.
func (x *c08Exec) setClock() { MockTime(c08MonoTime(x.at(x.clock), c08MonoStart+x.mono)) }

const c08MonoStart = int64(5 * time.Second)

type c08TimeLayout struct {
	wall uint64
	ext  int64
	loc  *time.Location
}

var c08WallSecOffset int64 // seconds field of a monotonic-carrying Time minus Unix seconds

// c08MonoTime builds the Time a time.Now() call returns when the wall clock
// reads `wall` and the monotonic clock reads `mono` ns.  There is no public
// constructor for that (only time.Now makes such values), hence the layout
// knowledge; c08TimeSelfTest verifies it against the running toolchain.
func c08MonoTime(wall time.Time, mono int64) time.Time {
	var t time.Time
	p := (*c08TimeLayout)(unsafe.Pointer(&t))
	p.wall = 1<<63 | uint64(wall.Unix()+c08WallSecOffset)<<30 | uint64(wall.Nanosecond())
	p.ext = mono
	return t
}

func c08TimeSelfTest() error {
	if unsafe.Sizeof(time.Time{}) != unsafe.Sizeof(c08TimeLayout{}) {
		return fmt.Errorf("time.Time has an unexpected size")
	}
	now := time.Now()
	p := (*c08TimeLayout)(unsafe.Pointer(&now))
	if p.wall>>63 != 1 {
		return fmt.Errorf("time.Now() carries no monotonic reading")
	}
	c08WallSecOffset = int64((p.wall<<1)>>31) - now.Unix()
	w := time.Date(2031, 5, 6, 7, 8, 9, 123456789, time.UTC)
	a, b := c08MonoTime(w, 1000), c08MonoTime(w.Add(-time.Hour), 3000)
	switch {
	case !a.Round(0).Equal(w), !b.Round(0).Equal(w.Add(-time.Hour)), !a.UTC().Equal(w):
		return fmt.Errorf("crafted wall clock reading is off: %v / %v", a, b)
	case b.Sub(a) != 2000, !b.After(a), a.After(b), !a.Add(5).Round(0).Equal(w.Add(5)), a.Add(5).Sub(a) != 5:
		return fmt.Errorf("crafted monotonic reading is not honoured: %v / %v", a, b)
	}
	again := c08MonoTime(now.Round(0), p.ext)
	if q := (*c08TimeLayout)(unsafe.Pointer(&again)); q.wall != p.wall || q.ext != p.ext {
		return fmt.Errorf("cannot rebuild the value of time.Now()")
	}
	return nil
}

func c08NoticeKey(user int64, typ, key string) string {
	return fmt.Sprintf("%d|%s|%s", user, typ, key)
}

func c08ValidType(t string) bool {
	switch t {
	case "change-update", "warning", "refresh-inhibit", "snap-run-inhibit", "interfaces-requests-prompt", "interfaces-requests-rule-update":
		return true
	}
	return false
}

// documented validity of (type,key): ValidateNotice doc/messages and Notice.key doc.
func c08ValidAdd(op c08Op) bool {
	if !c08ValidType(op.Type) || op.Key == "" || len(op.Key) > 256 {
		return false
	}
	if op.Type == "refresh-inhibit" && op.Key != "-" {
		return false
	}
	return true
}

func c08CopyData(m map[string]string) map[string]string {
	if len(m) == 0 {
		return nil
	}
	out := make(map[string]string, len(m))
	for k, v := range m {
		out[k] = v
	}
	return out
}

func c08SameData(a, b map[string]string) bool {
	if len(a) != len(b) {
		return false
	}
	for k, v := range a {
		if w, ok := b[k]; !ok || w != v {
			return false
		}
	}
	return true
}

// add performs one AddNotice and updates the model; returns the delivery
// event it caused (nil if the occurrence was suppressed or refused).
func (x *c08Exec) add(op c08Op) (*c08Event, error) {
	var userID *uint32
	if op.User >= 0 {
		u := uint32(op.User)
		userID = &u
	}
	var opts *AddNoticeOptions
	if len(op.Data) > 0 || op.Repeat != 0 {
		opts = &AddNoticeOptions{Data: c08CopyData(op.Data), RepeatAfter: time.Duration(op.Repeat)}
	}
	x.st.Lock()
	id, err := x.st.AddNotice(userID, NoticeType(op.Type), op.Key, opts)
	x.st.Unlock()

	if !c08ValidAdd(op) {
		x.logf("bad add type=%q key=%.20q -> err=%v", op.Type, op.Key, err)
		if err == nil {
			return nil, x.violate("AddNotice accepted an invalid notice (type %q, key %.30q, %d bytes)", op.Type, op.Key, len(op.Key))
		}
		return nil, nil
	}
	if err != nil {
		return nil, x.violate("AddNotice(user %d, %s, %q) failed: %v", op.User, op.Type, op.Key, err)
	}

	// occurrence time: the clock reading, made strictly later than every
	// earlier occurrence ("two notices never have the same sent time")
	occ := x.clock
	if x.hasLast && occ <= x.lastTs {
		occ = x.lastTs + 1
		if x.addSinceReload && x.stepSinceAdd {
			// Wall clock set back below the previous occurrence time while
			// the process runs.  See steppedBack.
			if stop, err := x.steppedBack(op, id, occ); stop {
				return nil, err
			}
		}
	}
	x.hasLast, x.lastTs = true, occ
	x.addSinceReload, x.stepSinceAdd = true, false

	k := c08NoticeKey(op.User, op.Type, op.Key)
	n, ok := x.notices[k]
	delivered := false
	if !ok {
		if id == "" || x.ids[id] {
			return nil, x.violate("first occurrence of (%d,%s,%q) got id %q which is empty or already used", op.User, op.Type, op.Key, id)
		}
		x.ids[id] = true
		n = &c08Notice{id: id, hasUser: op.User >= 0, typ: op.Type, key: op.Key, first: occ, lastRep: occ, occ: 1}
		if n.hasUser {
			n.uid = uint32(op.User)
		}
		x.notices[k] = n
		delivered = true
	} else {
		if id != n.id {
			return nil, x.violate("re-occurrence of %v returned id %q", n, id)
		}
		n.occ++
		switch {
		case op.Repeat == 0 || occ > n.lastRep+op.Repeat:
			delivered = true
		case occ == n.lastRep+op.Repeat:
			// Exactly repeat-after later: Notice.lastRepeated's doc says "at
			// least repeatAfter after", AddNoticeOptions says "how long after
			// ... we should allow it to repeat".  Left open: follow what the
			// state did for this one decision.
			x.labels["boundary"] = true
			x.st.Lock()
			for _, sn := range x.st.notices {
				if sn.id == id {
					delivered = sn.lastRepeated.Equal(x.at(occ))
				}
			}
			x.st.Unlock()
		}
		if delivered {
			n.lastRep = occ
		}
	}
	n.lastOcc = occ
	n.data = c08CopyData(op.Data)
	if !delivered {
		x.labels["suppressed"] = true
		x.stats["suppressed"]++
		x.logf("add %v repeat-after=%v at %s: occurrence %d suppressed (last repeated %s)", n, time.Duration(op.Repeat), x.fmtOff(occ), n.occ, x.fmtOff(n.lastRep))
		return nil, nil
	}
	if len(x.events) > 0 && x.events[len(x.events)-1].clock == x.gen {
		x.labels["same-tick"] = true
		x.stats["same-tick"]++
	}
	x.events = append(x.events, c08Event{n: n, at: occ, clock: x.gen})
	x.stats["deliveries"]++
	x.logf("add %v repeat-after=%v at %s: delivery event #%d (occurrence %d)", n, time.Duration(op.Repeat), x.fmtOff(occ), len(x.events)-1, n.occ)
	return &x.events[len(x.events)-1], nil
}

// steppedBack handles the one situation in which the state is known to assign
// an occurrence time that is NOT later than the previous ones (F-C08-1): the
// wall clock was set back while snapd keeps running.  It looks at the
// occurrence time the state recorded (in-package access, classification only).
// If the state did what the model requires, the history simply goes on.  If
// not, the case ends here: as a known-finding hit when the loss is visible to
// a polling client, silently when it is not (the model cannot follow a time
// line that runs backwards).
func (x *c08Exec) steppedBack(op c08Op, id string, want int64) (stop bool, err error) {
	x.st.Lock()
	defer x.st.Unlock()
	var sn *Notice
	for _, n := range x.st.notices {
		if n.id == id {
			sn = n
		}
	}
	if sn == nil || sn.lastOccurred.Equal(x.at(want)) {
		return false, nil
	}
	x.logf("add (%d,%s,%q) at wall clock %s after a step back: recorded occurrence time %s, previous occurrence was at %s", op.User, op.Type, op.Key,
		x.fmtOff(x.clock), c08FmtAfter(sn.lastOccurred, x), x.fmtOff(x.lastTs))
	// A client that has seen everything so far asks for what is new.
	if len(x.events) == 0 || !sn.lastRepeated.Equal(sn.lastOccurred) {
		return true, errC08EndOfCase
	}
	lastSeen := x.events[len(x.events)-1]
	got := x.st.Notices(&NoticeFilter{After: x.at(lastSeen.at)})
	for _, n := range got {
		if n.id == id {
			return true, errC08EndOfCase
		}
	}
	return true, verifkit.Knownf("F-C08-1", "wall clock set back while running: notice %s (%d,%s,%q) occurred/repeated at wall clock %s and got last-repeated %s, "+
		"not later than the last-repeated %s of the previously delivered %v; a client polling with after=%s never receives it (got %d notices)\n-- history (last steps):\n%s",
		id, op.User, op.Type, op.Key, x.fmtOff(x.clock), sn.lastRepeated.Format(time.RFC3339Nano), x.at(lastSeen.at).Format(time.RFC3339Nano), lastSeen.n,
		x.at(lastSeen.at).Format(time.RFC3339Nano), len(got), x.tail())
}

// pending lists what the client must be given now: events after its cursor
// matching its filter and viewable by it, latest event per notice, log order.
func (x *c08Exec) pending(cl *c08ClientState) []c08Event {
	last := map[*c08Notice]int{}
	for i := cl.cursor; i < len(x.events); i++ {
		last[x.events[i].n] = i
	}
	var out []c08Event
	for i := cl.cursor; i < len(x.events); i++ {
		ev := x.events[i]
		if last[ev.n] != i || !cl.matchesFilter(ev.n) {
			continue
		}
		if !cl.mayView(ev.n) {
			x.labels["foreign-user"] = true
			continue
		}
		out = append(out, ev)
	}
	return out
}

func (x *c08Exec) filter(cl *c08ClientState) *NoticeFilter {
	f := &NoticeFilter{Keys: append([]string(nil), cl.Keys...), After: cl.after}
	if cl.UID >= 0 {
		u := uint32(cl.UID)
		f.UserID = &u
	}
	for _, t := range cl.Types {
		f.Types = append(f.Types, NoticeType(t))
	}
	return f
}

func (x *c08Exec) descClient(cl *c08ClientState) string {
	u := "all-users"
	if cl.UID >= 0 {
		u = fmt.Sprintf("uid=%d", cl.UID)
	}
	return fmt.Sprintf("client %d [%s types=%v keys=%v]", cl.idx, u, cl.Types, cl.Keys)
}

// judge compares one result list with what the client must get, then lets
// the client advance (model cursor and client-side `after`).
func (x *c08Exec) judge(cl *c08ClientState, got []c08View, how string) error {
	want := x.pending(cl)
	who := x.descClient(cl)
	x.logf("%s %s after=%s -> %v", how, who, c08FmtAfter(cl.after, x), got)

	// ownership and filter, stated on their own
	for _, v := range got {
		if v.UserID != nil && cl.UID >= 0 && int64(*v.UserID) != cl.UID {
			return x.violate("%s: %s was given notice %v which belongs to user %d", how, who, v, *v.UserID)
		}
		if len(cl.Types) > 0 && !c08Has(cl.Types, v.Type) {
			return x.violate("%s: %s was given notice %v of a type it did not ask for", how, who, v)
		}
		if len(cl.Keys) > 0 && !c08Has(cl.Keys, v.Key) {
			return x.violate("%s: %s was given notice %v with a key it did not ask for", how, who, v)
		}
	}
	// exactly once, in order
	wantIDs := map[string]int{}
	for i, ev := range want {
		wantIDs[ev.n.id] = i
	}
	gotIDs := map[string]bool{}
	for _, v := range got {
		if gotIDs[v.ID] {
			return x.violate("%s: %s got notice %v twice in one result", how, who, v)
		}
		gotIDs[v.ID] = true
		if _, ok := wantIDs[v.ID]; !ok {
			return x.violate("%s: %s was given notice %v which neither occurred nor repeated since its previous poll (or is not visible to it); expected %s", how, who, v, x.fmtEvents(want))
		}
	}
	for _, ev := range want {
		if !gotIDs[ev.n.id] {
			return x.violate("%s: %s did not get notice %v delivered at %s (delivery lost); got %v, expected %s", how, who, ev.n, x.fmtOff(ev.at), got, x.fmtEvents(want))
		}
	}
	for i, ev := range want {
		v := got[i]
		if v.ID != ev.n.id {
			return x.violate("%s: %s got notices out of occurrence order: got %v, expected %s", how, who, got, x.fmtEvents(want))
		}
		n := ev.n
		if !v.LastRepeated.Equal(x.at(ev.at)) {
			return x.violate("%s: notice %v reports last-repeated %s, its latest delivery was at %s", how, n, v.LastRepeated.Format(time.RFC3339Nano), x.at(ev.at).Format(time.RFC3339Nano))
		}
		var vu int64 = -1
		if v.UserID != nil {
			vu = int64(*v.UserID)
		}
		var nu int64 = -1
		if n.hasUser {
			nu = int64(n.uid)
		}
		if vu != nu || v.Type != n.typ || v.Key != n.key {
			return x.violate("%s: notice id %s is %v, was added as %v", how, n.id, v, n)
		}
		if v.Occurrences != n.occ {
			return x.violate("%s: notice %v reports %d occurrences, it occurred %d times", how, n, v.Occurrences, n.occ)
		}
		if !c08SameData(v.LastData, n.data) {
			return x.violate("%s: notice %v reports last-data %v, its last occurrence carried %v", how, n, v.LastData, n.data)
		}
		if !v.First.Equal(x.at(n.first)) || !v.LastOccurred.Equal(x.at(n.lastOcc)) {
			return x.violate("%s: notice %v reports first-occurred %s / last-occurred %s, expected %s / %s", how, n,
				v.First.Format(time.RFC3339Nano), v.LastOccurred.Format(time.RFC3339Nano), x.at(n.first).Format(time.RFC3339Nano), x.at(n.lastOcc).Format(time.RFC3339Nano))
		}
	}
	// same-tick-split: this result separates two deliveries made at one clock reading
	if cl.cursor > 0 && len(want) > 0 {
		prev := x.events[cl.cursor-1]
		if prev.clock == want[0].clock && cl.matchesFilter(prev.n) && cl.mayView(prev.n) {
			x.labels["same-tick-split"] = true
		}
	}
	if len(want) > 1 {
		x.labels["multi-result"] = true
	}
	// the client moves on
	cl.cursor = len(x.events)
	for _, v := range got {
		if v.LastRepeated.After(cl.after) {
			cl.after = v.LastRepeated
		}
	}
	return nil
}

func c08FmtAfter(t time.Time, x *c08Exec) string {
	if t.IsZero() {
		return "none"
	}
	return x.fmtOff(int64(t.Sub(x.base)))
}

func (x *c08Exec) fmtEvents(evs []c08Event) string {
	var parts []string
	for _, ev := range evs {
		parts = append(parts, fmt.Sprintf("%v@%s", ev.n, x.fmtOff(ev.at)))
	}
	return "[" + strings.Join(parts, " ") + "]"
}

func (x *c08Exec) poll(ci int) error {
	cl := x.clients[ci]
	f := x.filter(cl)
	x.st.Lock()
	ns := x.st.Notices(f)
	views, err := c08Views(ns)
	x.st.Unlock()
	if err != nil {
		return x.violate("cannot encode/decode notices as JSON: %v", err)
	}
	x.stats["polls"]++
	return x.judge(cl, views, "poll")
}

func (x *c08Exec) reload() error {
	x.st.Lock()
	data, err := json.Marshal(x.st)
	x.st.Unlock()
	if err != nil {
		return x.violate("cannot serialise state: %v", err)
	}
	st2, err := ReadState(nil, bytes.NewReader(data))
	if err != nil {
		return x.violate("cannot read back state: %v", err)
	}
	x.st = st2
	x.addSinceReload, x.stepSinceAdd = false, false
	x.labels["reload"] = true
	x.logf("reload (%d bytes)", len(data))
	return nil
}

func (x *c08Exec) tick(d int64) {
	if d <= 0 {
		return
	}
	x.clock += d
	x.mono += d
	x.gen++
	x.setClock()
	x.logf("tick %v -> clock %s", time.Duration(d), x.fmtOff(x.clock))
}

// c08StepElapsed is the time that passes while the wall clock is being set.
const c08StepElapsed = int64(time.Millisecond)

// step sets the wall clock back by d; the monotonic clock just goes on.
func (x *c08Exec) step(d int64) {
	// keep well inside the non-expiring region whatever the history does
	if d <= 0 || x.clock+c08StepElapsed-d < -int64(12*time.Hour) {
		return
	}
	x.clock += c08StepElapsed - d
	x.mono += c08StepElapsed
	x.gen++
	x.stepSinceAdd = true
	x.labels["wall-step-back"] = true
	x.setClock()
	x.logf("step: wall clock set back by %v -> clock %s (monotonic clock unaffected)", time.Duration(d), x.fmtOff(x.clock))
}

type c08WaitRes struct {
	views    []c08View
	err      error
	panicked interface{}
}

type c08Waiter struct {
	cl     *c08ClientState
	cancel context.CancelFunc
	res    chan c08WaitRes
	done   bool
}

// collect waits for the waiter's result under the watchdog.
func (x *c08Exec) collect(w *c08Waiter, why string) (c08WaitRes, error) {
	tm := time.NewTimer(c08Watchdog)
	defer tm.Stop()
	select {
	case r := <-w.res:
		w.done = true
		if r.panicked != nil {
			return r, x.violate("WaitNotices of %s panicked: %v", x.descClient(w.cl), r.panicked)
		}
		return r, nil
	case <-tm.C:
	}
	// watchdog: cancel, give the goroutine the same time again to go away
	x.timedOut = true
	w.cancel()
	leaked := ""
	tm2 := time.NewTimer(c08Watchdog)
	defer tm2.Stop()
	select {
	case <-w.res:
	case <-tm2.C:
		leaked = " (and it did not return after its context was cancelled either)"
	}
	w.done = true
	return c08WaitRes{}, x.violate("waiting %s was not woken within %v: %s%s", x.descClient(w.cl), c08Watchdog, why, leaked)
}

func (x *c08Exec) wait(op c08Op) error {
	var ws []*c08Waiter
	defer func() {
		for _, w := range ws {
			w.cancel()
		}
		// no goroutine outlives the case: everything not yet collected was
		// cancelled just now and is collected here (bounded by the watchdog)
		for _, w := range ws {
			if !w.done {
				tm := time.NewTimer(c08Watchdog)
				select {
				case <-w.res:
				case <-tm.C:
					x.timedOut = true
				}
				tm.Stop()
			}
		}
	}()
	seen := map[int]bool{}
	for _, ci := range op.Waiters {
		if ci < 0 || ci >= len(x.clients) || seen[ci] {
			continue
		}
		seen[ci] = true
		cl := x.clients[ci]
		if op.Drain {
			if err := x.poll(ci); err != nil {
				return err
			}
		}
		ctx, cancel := context.WithCancel(context.Background())
		w := &c08Waiter{cl: cl, cancel: cancel, res: make(chan c08WaitRes, 1)}
		ws = append(ws, w)
		f := x.filter(cl)
		st := x.st
		locked := make(chan struct{})
		go func() {
			var r c08WaitRes
			defer func() { w.res <- r }()
			st.Lock()
			defer st.Unlock()
			close(locked)
			defer func() {
				if p := recover(); p != nil {
					r.panicked = p
				}
			}()
			ns, err := st.WaitNotices(ctx, f)
			r.err = err
			if vs, jerr := c08Views(ns); jerr != nil {
				r.err = jerr
			} else {
				r.views = vs
			}
		}()
		// the next state lock can only be taken once this waiter has either
		// returned or parked itself on the condition variable
		<-locked
		x.stats["waits"]++
		x.logf("wait: %s starts waiting, after=%s", x.descClient(cl), c08FmtAfter(cl.after, x))
		if want := x.pending(cl); len(want) > 0 {
			r, err := x.collect(w, "matching notices existed already: "+x.fmtEvents(want))
			if err != nil {
				return err
			}
			if r.err != nil {
				return x.violate("WaitNotices of %s failed although matching notices exist: %v", x.descClient(cl), r.err)
			}
			x.labels["wait-immediate"] = true
			if err := x.judge(cl, r.views, "wait(immediate)"); err != nil {
				return err
			}
		}
	}
	active := func() int {
		n := 0
		for _, w := range ws {
			if !w.done {
				n++
			}
		}
		return n
	}
	if active() > 1 {
		x.labels["multi-waiter"] = true
	}
	for _, sub := range op.During {
		switch sub.K {
		case "tick":
			x.tick(sub.D)
			continue
		case "step":
			x.step(sub.D)
			continue
		case "add":
		default:
			continue
		}
		waiting := active() > 0
		ev, err := x.add(sub)
		if err != nil {
			return err
		}
		if !waiting {
			continue
		}
		if ev == nil {
			x.labels["wait-suppressed-add"] = true
		}
		for _, w := range ws {
			if w.done {
				continue
			}
			if ev == nil || !w.cl.matchesFilter(ev.n) || !w.cl.mayView(ev.n) {
				if ev != nil {
					x.labels["wait-nonmatching-add"] = true
				}
				continue
			}
			evc := *ev
			r, err := x.collect(w, fmt.Sprintf("matching notice %v was delivered at %s (occurrence %d) while it waited", evc.n, x.fmtOff(evc.at), evc.n.occ))
			if err != nil {
				return err
			}
			if r.err != nil {
				return x.violate("WaitNotices of %s failed: %v (a matching notice %v had been delivered)", x.descClient(w.cl), r.err, evc.n)
			}
			x.labels["wait-woken"] = true
			if evc.n.occ > 1 {
				x.labels["wake-by-repeat"] = true
			}
			if err := x.judge(w.cl, r.views, "wait(woken)"); err != nil {
				return err
			}
		}
	}
	// whoever still waits saw nothing matching: end of request
	for _, w := range ws {
		if w.done {
			continue
		}
		w.cancel()
		r, err := x.collect(w, "its context was cancelled")
		if err != nil {
			return err
		}
		x.labels["wait-cancelled"] = true
		x.logf("wait: %s cancelled -> %v, %v", x.descClient(w.cl), r.views, r.err)
		if len(r.views) > 0 {
			return x.violate("waiting %s returned %v although nothing matching occurred or repeated while it waited", x.descClient(w.cl), r.views)
		}
		if !errors.Is(r.err, context.Canceled) {
			return x.violate("waiting %s returned no notices and error %v before/at cancellation (want the context's error)", x.descClient(w.cl), r.err)
		}
		// an empty result teaches the client nothing; the model cursor stays
	}
	return nil
}

func c08NewExec(c c08Case) *c08Exec {
	x := &c08Exec{
		st:      New(nil),
		notices: map[string]*c08Notice{},
		ids:     map[string]bool{},
		labels:  map[string]bool{},
		stats:   map[string]int{},
	}
	// The only use of the wall clock: place the mocked time line where
	// nothing expires (7 days) whenever the case is (re)played.
	x.base = time.Now().UTC().Truncate(time.Hour).Add(time.Duration(c.Base))
	for i, cc := range c.Clients {
		x.clients = append(x.clients, &c08ClientState{c08Client: cc, idx: i})
	}
	return x
}

func (x *c08Exec) apply(op c08Op) error {
	switch op.K {
	case "add", "bad":
		_, err := x.add(op)
		return err
	case "tick":
		x.tick(op.D)
	case "step":
		x.step(op.D)
	case "poll":
		if op.Client >= 0 && op.Client < len(x.clients) {
			return x.poll(op.Client)
		}
	case "wait":
		return x.wait(op)
	case "reload":
		return x.reload()
	}
	return nil
}

// c08ExecCase runs the history once on a fresh state.
func c08ExecCase(c c08Case) (x *c08Exec, err error) {
	x = c08NewExec(c)
	defer func() { timeNow = time.Now }()
	defer func() {
		if p := recover(); p != nil {
			err = x.violate("panic: %v", p)
		}
	}()
	x.setClock()
	for _, op := range c.Ops {
		if err := x.apply(op); err != nil {
			return x, err
		}
	}
	// every delivery is eventually checked against every client
	for i := range x.clients {
		if err := x.poll(i); err != nil {
			return x, err
		}
	}
	return x, nil
}

func c08Valid(c c08Case) bool {
	if len(c.Clients) == 0 || c.Base < -int64(50*time.Hour) || c.Base > int64(26*time.Hour) {
		return false
	}
	var chk func(ops []c08Op, nested bool) bool
	chk = func(ops []c08Op, nested bool) bool {
		for _, op := range ops {
			switch op.K {
			case "add", "bad":
				if op.User < -1 || op.User > 1<<32-1 || op.Repeat < 0 || op.Repeat > int64(48*time.Hour) {
					return false
				}
			case "tick", "step":
				if op.D < 0 || op.D > int64(6*time.Hour) {
					return false
				}
			case "wait":
				if nested || !chk(op.During, true) {
					return false
				}
			case "poll", "reload":
				if nested {
					return false
				}
			default:
				return false
			}
		}
		return true
	}
	return len(c.Ops) <= 400 && chk(c.Ops, false)
}

func c08Run(c c08Case) (verifkit.Outcome, error) {
	o := verifkit.Outcome{}
	if !c08Valid(c) {
		o.Skip = true
		return o, nil
	}
	x, err := c08ExecCase(c)
	if x.timedOut {
		// liveness verdicts are confirmed in isolation before they count
		confirmed := 0
		for i := 0; i < 3; i++ {
			x2, err2 := c08ExecCase(c)
			if x2.timedOut {
				confirmed++
			} else if err2 != nil && !errors.Is(err2, errC08EndOfCase) {
				return o, err2
			}
		}
		if confirmed < 3 {
			fmt.Fprintf(os.Stderr, "HARNESS: C08 watchdog expired once but only %d of 3 re-runs of the same case did; no verdict (machine overloaded?)\n%v\n", confirmed, err)
			os.Exit(3)
		}
		return o, verifkit.Violatef("%v\n(watchdog expiry confirmed in 3 of 3 re-runs on a fresh state)", err)
	}
	if errors.Is(err, errC08EndOfCase) {
		o.Skip = true
		o.Extra = map[string]int64{"ended_at_stepped_back_time_not_visible_to_clients": 1}
		return o, nil
	}
	if err != nil {
		return o, err
	}
	for _, l := range verifkit.SortedKeys(x.labels) {
		o.Labels = append(o.Labels, l)
	}
	o.NonTrivial = x.labels["same-tick"] || x.labels["suppressed"] || x.labels["foreign-user"]
	o.Desc = fmt.Sprintf("%d clients, %d ops: %d delivery events (%d at an already used clock reading), %d suppressed repeats, %d polls, %d waiters; classes %v",
		len(c.Clients), len(c.Ops), x.stats["deliveries"], x.stats["same-tick"], x.stats["suppressed"], x.stats["polls"], x.stats["waits"], o.Labels)
	return o, nil
}

// ------------------------------------------------------------------ generator

var c08AllTypes = []string{"change-update", "warning", "refresh-inhibit", "snap-run-inhibit", "interfaces-requests-prompt", "interfaces-requests-rule-update"}
var c08AllKeys = []string{"a", "b", "snap.app", "-", "42"}
var c08Users = []int64{-1, -1, 0, 1000, 1001}
var c08ClientUIDs = []int64{-1, 0, 1000, 1000, 1001, 1002}
var c08Repeats = []int64{0, 0, 0, 1, 5, int64(time.Microsecond), int64(time.Second), int64(time.Minute), int64(time.Hour), int64(24 * time.Hour)}
var c08Ticks = []int64{1, 1, 2, 10, int64(time.Microsecond), int64(time.Millisecond), int64(time.Second), int64(time.Second), int64(time.Minute), int64(time.Hour), int64(3 * time.Hour)}
var c08Datas = []map[string]string{nil, nil, {"k": "v1"}, {"k": "v2"}, {"k": "v1", "x": "y"}}

type c08Universe struct {
	types, keys []string
	users       []int64
}

func c08Subset(t *rapid.T, label string, from []string, min, max int) []string {
	n := rapid.IntRange(min, max).Draw(t, label+"-n")
	var out []string
	for i := 0; i < n; i++ {
		s := rapid.SampledFrom(from).Draw(t, label)
		if !c08Has(out, s) {
			out = append(out, s)
		}
	}
	return out
}

func c08GenAdd(t *rapid.T, u c08Universe, target *c08Client) c08Op {
	op := c08Op{K: "add"}
	if rapid.IntRange(0, 9).Draw(t, "wild") == 0 {
		op.Type = rapid.SampledFrom(c08AllTypes).Draw(t, "type")
		op.Key = rapid.SampledFrom(c08AllKeys).Draw(t, "key")
		op.User = rapid.SampledFrom(c08Users).Draw(t, "user")
	} else {
		op.Type = rapid.SampledFrom(u.types).Draw(t, "type")
		op.Key = rapid.SampledFrom(u.keys).Draw(t, "key")
		op.User = rapid.SampledFrom(u.users).Draw(t, "user")
	}
	if target != nil {
		// aim at a client's filter (used for adds made while it waits)
		if len(target.Types) > 0 {
			op.Type = rapid.SampledFrom(target.Types).Draw(t, "ttype")
		}
		if len(target.Keys) > 0 {
			op.Key = rapid.SampledFrom(target.Keys).Draw(t, "tkey")
		}
		if target.UID >= 0 && rapid.Bool().Draw(t, "tuser") {
			op.User = target.UID
		}
	}
	op.Repeat = rapid.SampledFrom(c08Repeats).Draw(t, "repeat")
	if target != nil && rapid.Bool().Draw(t, "trepeat") {
		op.Repeat = 0
	}
	if op.Type == "refresh-inhibit" {
		op.Key = "-"
	}
	op.Data = c08CopyData(rapid.SampledFrom(c08Datas).Draw(t, "data"))
	return op
}

func c08GenTick(t *rapid.T) c08Op {
	if rapid.IntRange(0, 24).Draw(t, "back") == 13 { // (rapid over-draws range ends)
		return c08Op{K: "step", D: rapid.SampledFrom([]int64{int64(2 * time.Millisecond), int64(time.Second), int64(time.Minute), int64(time.Hour)}).Draw(t, "backd")}
	}
	return c08Op{K: "tick", D: rapid.SampledFrom(c08Ticks).Draw(t, "d")}
}

func c08GenBad(t *rapid.T, u c08Universe) c08Op {
	op := c08Op{K: "bad", User: rapid.SampledFrom(u.users).Draw(t, "user"), Type: rapid.SampledFrom(u.types).Draw(t, "type"), Key: rapid.SampledFrom(u.keys).Draw(t, "key")}
	switch rapid.IntRange(0, 3).Draw(t, "how") {
	case 0:
		op.Type = rapid.SampledFrom([]string{"", "bogus", "Warning", "change-update "}).Draw(t, "badtype")
	case 1:
		op.Key = ""
	case 2:
		op.Key = strings.Repeat("k", 257)
	default:
		op.Type = "refresh-inhibit"
		op.Key = rapid.SampledFrom([]string{"a", "--", "snap"}).Draw(t, "badkey")
	}
	return op
}

func c08Gen(t *rapid.T) c08Case {
	maxOps := verifkit.Size(40, 150)
	c := c08Case{}
	// anywhere from two days ago to a day ahead, with odd nanoseconds
	c.Base = rapid.Int64Range(-int64(48*time.Hour), int64(24*time.Hour)).Draw(t, "base")
	u := c08Universe{
		types: c08Subset(t, "utype", c08AllTypes, 1, 3),
		keys:  c08Subset(t, "ukey", c08AllKeys, 1, 3),
	}
	nu := rapid.IntRange(1, 3).Draw(t, "nusers")
	for i := 0; i < nu; i++ {
		u.users = append(u.users, rapid.SampledFrom(c08Users).Draw(t, "uuser"))
	}
	nc := rapid.IntRange(1, 4).Draw(t, "nclients")
	for i := 0; i < nc; i++ {
		cl := c08Client{UID: rapid.SampledFrom(c08ClientUIDs).Draw(t, "cuid")}
		if rapid.IntRange(0, 2).Draw(t, "ctypes?") == 0 {
			cl.Types = c08Subset(t, "ctype", append(append([]string{}, u.types...), rapid.SampledFrom(c08AllTypes).Draw(t, "cxtype")), 1, 2)
		}
		if rapid.IntRange(0, 2).Draw(t, "ckeys?") == 0 {
			cl.Keys = c08Subset(t, "ckey", append(append([]string{}, u.keys...), rapid.SampledFrom(c08AllKeys).Draw(t, "cxkey")), 1, 2)
		}
		c.Clients = append(c.Clients, cl)
	}
	n := rapid.IntRange(1, maxOps).Draw(t, "nops")
	count := 0
	for count < n {
		switch k := rapid.IntRange(0, 99).Draw(t, "op"); {
		case k < 40:
			c.Ops = append(c.Ops, c08GenAdd(t, u, nil))
		case k < 54:
			c.Ops = append(c.Ops, c08GenTick(t))
		case k < 78:
			c.Ops = append(c.Ops, c08Op{K: "poll", Client: rapid.IntRange(0, nc-1).Draw(t, "client")})
		case k < 93:
			op := c08Op{K: "wait", Drain: rapid.IntRange(0, 3).Draw(t, "drain") > 0}
			nw := rapid.SampledFrom([]int{1, 1, 2, 2, 3}).Draw(t, "nwaiters")
			for i := 0; i < nw; i++ {
				w := rapid.IntRange(0, nc-1).Draw(t, "waiter")
				dup := false
				for _, o := range op.Waiters {
					dup = dup || o == w
				}
				if !dup {
					op.Waiters = append(op.Waiters, w)
				}
			}
			nd := rapid.IntRange(0, 4).Draw(t, "nduring")
			for i := 0; i < nd; i++ {
				switch rapid.IntRange(0, 4).Draw(t, "during") {
				case 0:
					op.During = append(op.During, c08GenTick(t))
				case 1:
					op.During = append(op.During, c08GenAdd(t, u, nil))
				default:
					tc := c.Clients[op.Waiters[rapid.IntRange(0, len(op.Waiters)-1).Draw(t, "aim")]]
					op.During = append(op.During, c08GenAdd(t, u, &tc))
				}
			}
			count += len(op.During)
			c.Ops = append(c.Ops, op)
		case k < 97:
			c.Ops = append(c.Ops, c08Op{K: "reload"})
		default:
			c.Ops = append(c.Ops, c08GenBad(t, u))
		}
		count++
	}
	return c
}

func TestVerifC08(t *testing.T) {
	if err := c08TimeSelfTest(); err != nil {
		t.Fatalf("HARNESS: cannot build monotonic-carrying time values with this toolchain: %v", err)
	}
	verifkit.Check(t, verifkit.Spec[c08Case]{
		ID: "C08", Engine: "history",
		Gen: c08Gen,
		Run: c08Run,
		Floors: map[string]float64{
			"same-tick": 0.15, "suppressed": 0.15, "foreign-user": 0.15,
			"same-tick-split": 0.10, "wait-woken": 0.10, "wake-by-repeat": 0.04,
			"wait-cancelled": 0.10, "reload": 0.10, "multi-result": 0.15,
			"multi-waiter": 0.05, "wall-step-back": 0.003,
		},
		NonTrivialFloor: 0.5,
	})
}
