package state

// C09 — pruning removes only finished changes together with all their tasks;
// old unready changes are aborted unless a predicate shields them; expired
// notices and warnings disappear.
//
// Unexported identifiers used: State.tasks, State.changes (presence of task and
// change ids, also of tasks not linked to any change which State.Task hides),
// State.notices, State.warnings, noticeKey, Notice.lastOccurred/expireAfter,
// Warning.lastAdded/expireAfter (State.Notices/AllWarnings already hide
// expired entries, so whether Prune really dropped them is only visible in the
// maps), MockTime.
//
// A case is pure data (c09Case): a population of changes (ready at generated
// ages, unready in progress / being undone, empty), tasks not linked to any
// change, notices, warnings, and 1-3 Prune calls with their parameters.  Every
// time is "real now minus (k minutes + 30 s)", every threshold is a whole
// number of minutes, so every comparison Prune makes with the real clock is
// at least 30 s away from its boundary and the verdict is a function of the
// case only.
//
// Oracle = c09Expect, written from the property statement and the doc comment
// of State.Prune (not from its body):
//   ready changes     removed iff ready longer than pruneWait, or among the
//                     oldest of the remaining ones while these outnumber the
//                     limit (ties in ready time: only the number removed out
//                     of the tie group is fixed)
//   tasks             all tasks of a removed change are gone, every task of a
//                     kept change is still there
//   unready changes   never removed, except empty ones older than pruneWait
//   abort             iff max(spawn, startOfOperation) older than abortWait and
//                     no registered predicate of an attribute the change
//                     carries answers "pending"; seen as Do->Hold,
//                     Doing->Abort, Done->Undo; otherwise statuses untouched
//   predicates        only consulted for changes carrying their attribute
//   unlinked tasks    removed iff spawned longer than pruneWait ago
//   notices/warnings  gone iff last occurrence + expire-after is in the past

import (
	"encoding/json"
	"fmt"
	"sort"
	"strings"
	"testing"
	"time"

	"github.com/snapcore/snapd/verifkit"
	"pgregory.net/rapid"
)

// ---------------------------------------------------------------- case data

type c09Task struct {
	St    string `json:"st"`              // do doing done undo undoing abort hold error undone wait-done wait-undone
	Lanes []int  `json:"lanes,omitempty"` // lane numbers 1..3 (per change) in JoinLane order; none = default lane
	Waits []int  `json:"waits,omitempty"` // indexes of earlier tasks of the same change
}

type c09Change struct {
	SpawnMin int       `json:"spawn"`              // spawned SpawnMin minutes + 30 s ago
	ReadyMin int       `json:"ready"`              // became ready ReadyMin minutes + 30 s ago; -1 = not ready
	Explicit string    `json:"explicit,omitempty"` // ready change without tasks: status given with Change.SetStatus
	Tasks    []c09Task `json:"tasks,omitempty"`
	Attrs    []int     `json:"attrs,omitempty"`   // attributes 0..2 set on the change (no predicate is registered for 2)
	Pending  [2]bool   `json:"pending,omitempty"` // what the predicate of attribute 0 / 1 answers for this change
}

type c09Loose struct {
	SpawnMin int    `json:"spawn"`
	St       string `json:"st"`
}

type c09Notice struct {
	Type      int   `json:"type"`
	Key       int   `json:"key"`
	User      int   `json:"user"`             // 0 = public, else user id
	Ages      []int `json:"ages"`             // occurrences, oldest first (minutes + 30 s ago)
	ExpireMin int   `json:"expire,omitempty"` // 0 = the default (7 days), else expire-after in minutes
}

type c09Warning struct {
	Msg       int   `json:"msg"`
	Ages      []int `json:"ages"`
	ExpireMin int   `json:"expire,omitempty"` // 0 = the default (28 days)
}

type c09Call struct {
	StartMin int `json:"start"` // startOfOperation: minutes + 30 s ago; -1 = zero time
	PruneMin int `json:"prune"` // pruneWait in minutes
	AbortMin int `json:"abort"` // abortWait in minutes
	Max      int `json:"max"`   // maxReadyChanges
}

type c09Case struct {
	Changes  []c09Change  `json:"changes"`
	Loose    []c09Loose   `json:"loose,omitempty"`
	Notices  []c09Notice  `json:"notices,omitempty"`
	Warnings []c09Warning `json:"warnings,omitempty"`
	Calls    []c09Call    `json:"calls"`
}

const (
	c09NoticeDefaultMin  = 7 * 24 * 60  // documented default expiry of notices
	c09WarningDefaultMin = 28 * 24 * 60 // documented default expiry of warnings
)

var c09NoticeTypes = []NoticeType{WarningNotice, SnapRunInhibitNotice, InterfacesRequestsPromptNotice, ChangeUpdateNotice}

var c09AttrNames = []string{"c09-attr-0", "c09-attr-1", "c09-attr-2"}

var c09ReadySt = map[string]bool{"done": true, "undone": true, "hold": true, "error": true}
var c09ProgressSt = map[string]bool{"do": true, "doing": true, "done": true, "wait-done": true}
var c09AnySt = map[string]bool{"do": true, "doing": true, "done": true, "wait-done": true, "undone": true, "undoing": true, "undo": true, "hold": true, "error": true, "abort": true, "wait-undone": true}

func c09SetStatus(t *Task, st string) {
	switch st {
	case "do":
	case "doing":
		t.SetStatus(DoingStatus)
	case "done":
		t.SetStatus(DoneStatus)
	case "undo":
		t.SetStatus(UndoStatus)
	case "undoing":
		t.SetStatus(UndoingStatus)
	case "abort":
		t.SetStatus(AbortStatus)
	case "hold":
		t.SetStatus(HoldStatus)
	case "error":
		t.SetStatus(ErrorStatus)
	case "undone":
		t.SetStatus(UndoneStatus)
	case "wait-done":
		t.SetToWait(DoneStatus)
	case "wait-undone":
		t.SetToWait(UndoneStatus)
	default:
		panic("HARNESS: unknown status " + st)
	}
}

func c09StatusOf(t *Task) string {
	s := t.Status()
	if s == WaitStatus {
		return "wait-" + strings.ToLower(t.WaitedStatus().String())
	}
	return strings.ToLower(s.String())
}

// c09Validate guards replay files and shrunk cases: only populations that the
// generator can produce (see c09Gen for why these and not others) are run.
func c09Validate(c c09Case) bool {
	if len(c.Calls) == 0 || len(c.Calls) > 4 || len(c.Changes) > 64 {
		return false
	}
	for _, cl := range c.Calls {
		if cl.StartMin < -1 || cl.PruneMin < 0 || cl.AbortMin < 0 || cl.Max < 0 {
			return false
		}
	}
	for _, ch := range c.Changes {
		if ch.SpawnMin < 0 || ch.ReadyMin < -1 || ch.ReadyMin > ch.SpawnMin {
			return false
		}
		for _, a := range ch.Attrs {
			if a < 0 || a > 2 {
				return false
			}
		}
		if len(ch.Tasks) == 0 {
			if ch.ReadyMin >= 0 != (ch.Explicit != "") {
				return false
			}
			if ch.Explicit != "" && !c09ReadySt[ch.Explicit] {
				return false
			}
			continue
		}
		if ch.Explicit != "" {
			return false
		}
		progress, ready := true, true
		lanes := false
		for i, ts := range ch.Tasks {
			progress = progress && c09ProgressSt[ts.St]
			ready = ready && c09ReadySt[ts.St]
			if !c09AnySt[ts.St] {
				return false
			}
			for _, l := range ts.Lanes {
				if l < 1 || l > 3 {
					return false
				}
				lanes = true
			}
			for _, w := range ts.Waits {
				if w < 0 || w >= i {
					return false
				}
			}
		}
		if ch.ReadyMin >= 0 {
			if !ready {
				return false
			}
			continue
		}
		if ready {
			return false // all tasks ready but the change is not: not a state the system produces
		}
		if lanes {
			// unready changes whose tasks joined lanes: only changes that are
			// making forward progress (see c09Gen)
			if !progress {
				return false
			}
			// a task that has started has all its prerequisites done
			for _, ts := range ch.Tasks {
				for _, w := range ts.Waits {
					if ts.St != "do" && ch.Tasks[w].St != "done" {
						return false
					}
				}
			}
		}
	}
	for _, l := range c.Loose {
		if l.SpawnMin < 0 || !(l.St == "do" || c09ReadySt[l.St]) {
			return false
		}
	}
	seenN := map[string]bool{}
	for _, n := range c.Notices {
		k := fmt.Sprint(n.Type, "/", n.Key, "/", n.User)
		if n.Type < 0 || n.Type >= len(c09NoticeTypes) || n.Key < 0 || n.User < 0 || len(n.Ages) == 0 || n.ExpireMin < 0 || seenN[k] {
			return false
		}
		seenN[k] = true
		for i, a := range n.Ages {
			if a < 0 || (i > 0 && a > n.Ages[i-1]) {
				return false
			}
		}
	}
	seenW := map[int]bool{}
	for _, w := range c.Warnings {
		if w.Msg < 0 || len(w.Ages) == 0 || w.ExpireMin < 0 || seenW[w.Msg] {
			return false
		}
		seenW[w.Msg] = true
		for i, a := range w.Ages {
			if a < 0 || (i > 0 && a > w.Ages[i-1]) {
				return false
			}
		}
	}
	return true
}

// ---------------------------------------------------------------- reference model

// c09Pop is what the model knows about one change before a call.
type c09Pop struct {
	present  bool
	readyMin int // -1 = not ready
	spawnMin int
	ntasks   int
	shielded bool
}

type c09Expect struct {
	mustRemove map[int]bool
	mayRemove  map[int]bool // statement leaves it open
	tie        []int        // changes sharing the ready time at which the limit is reached ...
	tieRemove  int          // ... of which exactly this many go
	abort      map[int]bool
	byAge      int
	byLimit    int
	disagree   bool
	shieldHit  []int // would be aborted but for the predicate
	startSaves []int // spawned long enough ago, but snapd was not running that long
}

// older reports whether something that happened ageMin minutes + 30 s ago lies
// further back than a period of waitMin minutes.
func c09Older(ageMin, waitMin int) bool { return ageMin >= waitMin }

func c09Model(pop []c09Pop, cl c09Call) c09Expect {
	e := c09Expect{mustRemove: map[int]bool{}, mayRemove: map[int]bool{}, abort: map[int]bool{}}
	type ra struct{ idx, age int }
	var ready, young []ra
	for i, p := range pop {
		if !p.present {
			continue
		}
		if p.readyMin >= 0 {
			ready = append(ready, ra{i, p.readyMin})
			continue
		}
		// not finished: counts as existing since snapd start at the earliest
		age := p.spawnMin
		if cl.StartMin >= 0 && cl.StartMin < age {
			age = cl.StartMin
		}
		if p.ntasks == 0 {
			if c09Older(p.spawnMin, cl.PruneMin) {
				if c09Older(age, cl.PruneMin) {
					e.mustRemove[i] = true
				} else {
					e.mayRemove[i] = true // statement does not say from when retention of an empty change counts
				}
			}
			continue
		}
		if c09Older(age, cl.AbortMin) {
			if p.shielded {
				e.shieldHit = append(e.shieldHit, i)
			} else {
				e.abort[i] = true
			}
		} else if c09Older(p.spawnMin, cl.AbortMin) {
			e.startSaves = append(e.startSaves, i)
		}
	}
	// retention period
	for _, r := range ready {
		if c09Older(r.age, cl.PruneMin) {
			e.mustRemove[r.idx] = true
			e.byAge++
		} else {
			young = append(young, r)
		}
	}
	// limit, oldest first
	if excess := len(young) - cl.Max; excess > 0 {
		e.byLimit = excess
		sort.SliceStable(young, func(a, b int) bool { return young[a].age > young[b].age })
		edge := young[excess-1].age
		n := 0
		for _, y := range young {
			if y.age > edge {
				e.mustRemove[y.idx] = true
				n++
			} else if y.age == edge {
				e.tie = append(e.tie, y.idx)
			}
		}
		e.tieRemove = excess - n
		if e.tieRemove == len(e.tie) {
			for _, i := range e.tie {
				e.mustRemove[i] = true
			}
			e.tie, e.tieRemove = nil, 0
		}
	}
	// do the limit alone and the retention period alone disagree about some change?
	sort.SliceStable(ready, func(a, b int) bool { return ready[a].age < ready[b].age })
	for pos, r := range ready {
		if (pos >= cl.Max) != c09Older(r.age, cl.PruneMin) {
			e.disagree = true
		}
	}
	return e
}

// ---------------------------------------------------------------- execution

type c09Backend struct{}

func (c09Backend) Checkpoint([]byte) error    { return nil }
func (c09Backend) EnsureBefore(time.Duration) {}

type c09World struct {
	c         c09Case
	st        *State
	base      time.Time
	restore   func()
	chgs      []*Change
	chgID     []string
	chgIdx    map[string]int
	taskIDs   [][]string
	hasLanes  []bool
	looseIDs  []string
	pop       []c09Pop
	looseHere []bool
	predBad   []string
}

func (w *c09World) at(min int) time.Time {
	return w.base.Add(-(time.Duration(min)*time.Minute + 30*time.Second))
}

func (w *c09World) clock(t time.Time) {
	if w.restore != nil {
		w.restore()
	}
	w.restore = MockTime(t)
}

func (w *c09World) close() {
	if w.restore != nil {
		w.restore()
		w.restore = nil
	}
}

func c09NoticeKeyOf(n c09Notice) (noticeKey, *uint32, string) {
	key := fmt.Sprintf("c09-key-%d", n.Key)
	if c09NoticeTypes[n.Type] == WarningNotice {
		key = fmt.Sprintf("c09 warning notice %d", n.Key)
	}
	if n.User == 0 {
		return noticeKey{false, 0, c09NoticeTypes[n.Type], key}, nil, key
	}
	uid := uint32(n.User)
	return noticeKey{true, uid, c09NoticeTypes[n.Type], key}, &uid, key
}

func (w *c09World) build() {
	c, st := w.c, w.st
	for a := 0; a < 2; a++ {
		a := a
		st.RegisterPendingChangeByAttr(c09AttrNames[a], func(chg *Change) bool {
			i, ok := w.chgIdx[chg.ID()]
			if !ok {
				w.predBad = append(w.predBad, fmt.Sprintf("predicate of %s consulted for unknown change %s", c09AttrNames[a], chg.ID()))
				return false
			}
			if !chg.Has(c09AttrNames[a]) {
				w.predBad = append(w.predBad, fmt.Sprintf("predicate of %s consulted for change #%d which does not carry that attribute", c09AttrNames[a], i))
			}
			return c.Changes[i].Pending[a]
		})
	}
	n := len(c.Changes)
	w.chgs = make([]*Change, n)
	w.chgID = make([]string, n)
	w.taskIDs = make([][]string, n)
	w.hasLanes = make([]bool, n)
	w.pop = make([]c09Pop, n)
	// oldest first, as they would have come into being
	order := make([]int, n)
	for i := range order {
		order[i] = i
	}
	sort.SliceStable(order, func(a, b int) bool { return c.Changes[order[a]].SpawnMin > c.Changes[order[b]].SpawnMin })
	for _, i := range order {
		ch := c.Changes[i]
		w.clock(w.at(ch.SpawnMin))
		chg := st.NewChange(fmt.Sprintf("c09-kind-%d", i), "...")
		w.chgs[i], w.chgID[i] = chg, chg.ID()
		w.chgIdx[chg.ID()] = i
		shielded := false
		for _, a := range ch.Attrs {
			chg.Set(c09AttrNames[a], true)
			if a < 2 && ch.Pending[a] {
				shielded = true
			}
		}
		lanes := map[int]int{}
		var tasks []*Task
		for j, ts := range ch.Tasks {
			t := st.NewTask("c09-task", fmt.Sprintf("task %d of change #%d", j, i))
			for _, l := range ts.Lanes {
				if lanes[l] == 0 {
					lanes[l] = st.NewLane()
				}
				t.JoinLane(lanes[l])
				w.hasLanes[i] = true
			}
			for _, wt := range ts.Waits {
				t.WaitFor(tasks[wt])
			}
			chg.AddTask(t)
			tasks = append(tasks, t)
			w.taskIDs[i] = append(w.taskIDs[i], t.ID())
		}
		if ch.ReadyMin >= 0 {
			w.clock(w.at(ch.ReadyMin))
		}
		// unready final statuses first: the change turns ready exactly when
		// its last task does
		for pass := 0; pass < 2; pass++ {
			for j, ts := range ch.Tasks {
				if c09ReadySt[ts.St] == (pass == 1) {
					c09SetStatus(tasks[j], ts.St)
				}
			}
		}
		if ch.Explicit != "" {
			chg.SetStatus(map[string]Status{"done": DoneStatus, "undone": UndoneStatus, "hold": HoldStatus, "error": ErrorStatus}[ch.Explicit])
		}
		if chg.IsReady() != (ch.ReadyMin >= 0) || !chg.SpawnTime().Equal(w.at(ch.SpawnMin)) ||
			(ch.ReadyMin >= 0 && !chg.ReadyTime().Equal(w.at(ch.ReadyMin))) || (ch.ReadyMin < 0 && !chg.ReadyTime().IsZero()) {
			panic(fmt.Sprintf("HARNESS: change #%d not built as described: ready=%v spawn=%v readyTime=%v", i, chg.IsReady(), chg.SpawnTime(), chg.ReadyTime()))
		}
		w.pop[i] = c09Pop{present: true, readyMin: ch.ReadyMin, spawnMin: ch.SpawnMin, ntasks: len(ch.Tasks), shielded: shielded}
	}
	for i, l := range c.Loose {
		w.clock(w.at(l.SpawnMin))
		t := st.NewTask("c09-loose", fmt.Sprintf("unlinked task %d", i))
		c09SetStatus(t, l.St)
		w.looseIDs = append(w.looseIDs, t.ID())
		w.looseHere = append(w.looseHere, true)
	}
	w.clock(w.at(0))
	for _, n := range c.Notices {
		nk, uid, key := c09NoticeKeyOf(n)
		for _, a := range n.Ages {
			if _, err := st.AddNotice(uid, nk.noticeType, key, &AddNoticeOptions{Time: w.at(a)}); err != nil {
				panic("HARNESS: AddNotice: " + err.Error())
			}
		}
		if n.ExpireMin > 0 {
			st.notices[nk].expireAfter = time.Duration(n.ExpireMin) * time.Minute
		}
	}
	for _, wn := range c.Warnings {
		msg := fmt.Sprintf("c09 warning %d", wn.Msg)
		for _, a := range wn.Ages {
			st.AddWarning(msg, &AddWarningOptions{Time: w.at(a), RepeatAfter: time.Hour})
		}
		if wn.ExpireMin > 0 {
			st.warnings[msg].expireAfter = time.Duration(wn.ExpireMin) * time.Minute
		}
	}
}

type c09Stamp struct {
	expired bool
	last    time.Time
}

// c09Expired decides "last occurrence + expire-after lies in the past" from
// the stored times; by construction the answer is >= 30 s away from flipping.
func (w *c09World) c09Expired(last time.Time, expireAfter time.Duration) bool {
	over := w.base.Sub(last) - expireAfter
	if over > -20*time.Second && over < 20*time.Second {
		panic(fmt.Sprintf("HARNESS: expiry within 20s of the boundary (last %v expire-after %v)", last, expireAfter))
	}
	return over > 0
}

func c09NoticeName(k noticeKey) string {
	u := "public"
	if k.hasUserID {
		u = fmt.Sprint(k.userID)
	}
	return fmt.Sprintf("%s/%s/%s", u, k.noticeType, k.key)
}

type c09CallStats struct {
	both, disagree, shield, abort, startSaves, emptyGone, emptyMay, tie, looseGone, noticeGone, warningGone, limitOnlyTasks bool
}

// call runs one Prune and judges it against the model.
func (w *c09World) call(ci int, cl c09Call) (c09CallStats, error) {
	st, c := w.st, w.c
	var cs c09CallStats
	fail := func(format string, args ...interface{}) (c09CallStats, error) {
		return cs, verifkit.Violatef("call %d Prune(start=%s, pruneWait=%dm, abortWait=%dm, max=%d): %s", ci, c09StartDesc(cl), cl.PruneMin, cl.AbortMin, cl.Max, fmt.Sprintf(format, args...))
	}
	exp := c09Model(w.pop, cl)

	// observed state before the call
	pre := map[string]string{}
	for i, p := range w.pop {
		if p.present {
			for _, tid := range w.taskIDs[i] {
				pre[tid] = c09StatusOf(st.tasks[tid])
			}
		}
	}
	preNotices := map[noticeKey]c09Stamp{}
	for k, n := range st.notices {
		preNotices[k] = c09Stamp{w.c09Expired(n.lastOccurred, n.expireAfter), n.lastOccurred}
	}
	preWarnings := map[string]bool{}
	for m, wn := range st.warnings {
		preWarnings[m] = w.c09Expired(wn.lastAdded, wn.expireAfter)
	}
	// what the case says about the harness's own notices and warnings must agree with what is stored
	for _, n := range c.Notices {
		nk, _, _ := c09NoticeKeyOf(n)
		em := n.ExpireMin
		if em == 0 {
			em = c09NoticeDefaultMin
		}
		want := c09Older(n.Ages[len(n.Ages)-1], em)
		if s, ok := preNotices[nk]; ok && s.expired != want {
			panic(fmt.Sprintf("HARNESS: notice %s stored expiry %v, case says %v", c09NoticeName(nk), s.expired, want))
		}
	}
	for _, wn := range c.Warnings {
		em := wn.ExpireMin
		if em == 0 {
			em = c09WarningDefaultMin
		}
		want := c09Older(wn.Ages[len(wn.Ages)-1], em)
		if got, ok := preWarnings[fmt.Sprintf("c09 warning %d", wn.Msg)]; ok && got != want {
			panic(fmt.Sprintf("HARNESS: warning %d stored expiry %v, case says %v", wn.Msg, got, want))
		}
	}

	start := time.Time{}
	if cl.StartMin >= 0 {
		start = w.at(cl.StartMin)
	}
	w.predBad = nil
	st.Prune(start, time.Duration(cl.PruneMin)*time.Minute, time.Duration(cl.AbortMin)*time.Minute, cl.Max)

	if len(w.predBad) > 0 {
		return fail("%s", w.predBad[0])
	}

	// ---- changes
	gone := func(i int) bool { return st.Change(w.chgID[i]) == nil }
	nKept := 0
	tieGone := 0
	inTie := map[int]bool{}
	for _, i := range exp.tie {
		inTie[i] = true
	}
	for i, p := range w.pop {
		if !p.present {
			if !gone(i) {
				return fail("change #%d removed by an earlier call is back", i)
			}
			continue
		}
		g := gone(i)
		if _, inMap := st.changes[w.chgID[i]]; inMap == g {
			panic("HARNESS: State.Change and State.changes disagree")
		}
		switch {
		case exp.mustRemove[i]:
			if !g {
				if p.readyMin >= 0 {
					return fail("ready change #%d (ready %dm30s ago) is kept; %d ready changes are past the retention period and %d more exceed the limit, oldest first", i, p.readyMin, exp.byAge, exp.byLimit)
				}
				return fail("empty unready change #%d (spawned %dm30s ago) is kept past the retention period", i, p.spawnMin)
			}
		case exp.mayRemove[i]:
			cs.emptyMay = true
		case inTie[i]:
			if g {
				tieGone++
			}
		default:
			if g {
				if p.readyMin >= 0 {
					return fail("ready change #%d (ready %dm30s ago) was removed although it is within the retention period and among the %d newest ready changes", i, p.readyMin, cl.Max)
				}
				return fail("unfinished change #%d (spawned %dm30s ago, %d tasks) was removed", i, p.spawnMin, p.ntasks)
			}
		}
		if !g {
			nKept++
		}
	}
	if len(exp.tie) > 0 {
		cs.tie = true
		if tieGone != exp.tieRemove {
			return fail("%d of the %d ready changes sharing the ready time at the limit were removed, the limit asks for %d", tieGone, len(exp.tie), exp.tieRemove)
		}
	}
	if got := len(st.Changes()); got != nKept {
		return fail("state lists %d changes, %d expected", got, nKept)
	}

	// ---- tasks
	nTasks := 0
	for i, p := range w.pop {
		if !p.present {
			continue
		}
		g := gone(i)
		for j, tid := range w.taskIDs[i] {
			_, here := st.tasks[tid]
			if g && here {
				return fail("change #%d was removed but its task %d (id %s) is still in the state", i, j, tid)
			}
			if !g && !here {
				return fail("change #%d is kept but its task %d (id %s) was removed", i, j, tid)
			}
			if here {
				nTasks++
				if st.Task(tid) == nil {
					return fail("task %d of kept change #%d is no longer reachable through State.Task", j, i)
				}
			}
		}
		if g && p.readyMin >= 0 && !c09Older(p.readyMin, cl.PruneMin) && p.ntasks > 0 {
			cs.limitOnlyTasks = true
		}
		if g && p.readyMin < 0 {
			cs.emptyGone = true
		}
	}
	for k, l := range c.Loose {
		if !w.looseHere[k] {
			if _, here := st.tasks[w.looseIDs[k]]; here {
				return fail("unlinked task %d removed earlier is back", k)
			}
			continue
		}
		_, here := st.tasks[w.looseIDs[k]]
		if want := !c09Older(l.SpawnMin, cl.PruneMin); want != here {
			return fail("unlinked task %d (spawned %dm30s ago): present=%v, expected %v", k, l.SpawnMin, here, want)
		}
		if here {
			nTasks++
		} else {
			cs.looseGone = true
			w.looseHere[k] = false
		}
	}
	if got := st.TaskCount(); got != nTasks {
		return fail("state holds %d tasks, %d expected (tasks of kept changes + unlinked tasks within the retention period)", got, nTasks)
	}

	// ---- abort of old unready changes, everything else untouched
	for i, p := range w.pop {
		if !p.present || gone(i) {
			continue
		}
		chg := w.chgs[i]
		for j, tid := range w.taskIDs[i] {
			was, now := pre[tid], c09StatusOf(st.tasks[tid])
			if !exp.abort[i] {
				if was != now {
					why := "is not old enough to be aborted"
					if p.readyMin >= 0 {
						why = "is ready"
					} else if p.shielded {
						why = "is declared pending by a registered predicate"
					}
					return fail("task %d of change #%d went %s -> %s although the change %s (spawned %dm30s ago)", j, i, was, now, why, p.spawnMin)
				}
				continue
			}
			switch was {
			case "do":
				if now != "hold" {
					return fail("change #%d (spawned %dm30s ago) must be aborted: task %d was do, now %s, expected hold", i, p.spawnMin, j, now)
				}
			case "doing":
				if now != "abort" {
					return fail("change #%d (spawned %dm30s ago) must be aborted: task %d was doing, now %s, expected abort", i, p.spawnMin, j, now)
				}
			case "done", "wait-done":
				if now != "undo" && (now != was || !w.hasLanes[i]) {
					return fail("change #%d (spawned %dm30s ago) must be aborted: task %d was %s, now %s, expected undo", i, p.spawnMin, j, was, now)
				}
			default:
				if now != was {
					return fail("abort of change #%d moved task %d %s -> %s", i, j, was, now)
				}
			}
			if was != now {
				cs.abort = true
			}
		}
		// a change whose last unready task was put on hold is finished now
		allReady := len(w.taskIDs[i]) > 0
		for _, tid := range w.taskIDs[i] {
			allReady = allReady && st.tasks[tid].Status().Ready()
		}
		if p.readyMin < 0 && p.ntasks > 0 {
			if chg.IsReady() != allReady {
				return fail("change #%d after abort: all tasks ready=%v but IsReady=%v", i, allReady, chg.IsReady())
			}
			if allReady {
				if !chg.ReadyTime().Equal(w.at(0)) {
					return fail("change #%d became ready during Prune with ready time %v, clock said %v", i, chg.ReadyTime(), w.at(0))
				}
				w.pop[i].readyMin = 0
			}
		}
	}
	for _, i := range exp.shieldHit {
		for _, tid := range w.taskIDs[i] {
			if s := pre[tid]; s == "do" || s == "doing" || s == "done" || s == "wait-done" {
				cs.shield = true
			}
		}
	}
	for _, i := range exp.startSaves {
		for _, tid := range w.taskIDs[i] {
			if s := pre[tid]; s == "do" || s == "doing" || s == "done" || s == "wait-done" {
				cs.startSaves = true
			}
		}
	}

	// ---- notices
	for k, s := range preNotices {
		n, here := st.notices[k]
		if !s.expired {
			if !here {
				return fail("notice %s has not expired but is gone", c09NoticeName(k))
			}
			continue
		}
		if here {
			// a change-update notice comes back when Prune itself changes the change
			if _, isChg := w.chgIdx[k.key]; !(isChg && k.noticeType == ChangeUpdateNotice && !n.lastOccurred.Before(w.at(0))) {
				return fail("notice %s expired (last occurred %v) but is still stored", c09NoticeName(k), s.last)
			}
		} else {
			cs.noticeGone = true
		}
	}
	for k, n := range st.notices {
		if _, ok := preNotices[k]; !ok {
			// (the change-update notice of a change may have been pruned by an earlier call)
			if _, isChg := w.chgIdx[k.key]; !(isChg && k.noticeType == ChangeUpdateNotice && !n.lastOccurred.Before(w.at(0))) {
				return fail("Prune created notice %s", c09NoticeName(k))
			}
		}
	}
	visible := map[noticeKey]bool{}
	for _, n := range st.Notices(nil) {
		uid, has := n.UserID()
		visible[noticeKey{has, uid, n.Type(), n.key}] = true
	}
	for k, s := range preNotices {
		if !s.expired && !visible[k] {
			return fail("notice %s has not expired but State.Notices does not list it", c09NoticeName(k))
		}
	}
	// ---- warnings
	for m, expired := range preWarnings {
		_, here := st.warnings[m]
		if expired == here {
			return fail("warning %q: expired=%v, still stored=%v", m, expired, here)
		}
		if expired {
			cs.warningGone = true
		}
	}
	if got, want := len(st.AllWarnings()), len(st.warnings); got != want || len(st.warnings) > len(preWarnings) {
		return fail("%d warnings stored, %d listed, %d before the call", want, got, len(preWarnings))
	}

	// ---- adopt the outcome as the next call's population
	for i := range w.pop {
		if w.pop[i].present && gone(i) {
			w.pop[i].present = false
		}
	}
	cs.both = exp.byAge > 0 && exp.byLimit > 0
	cs.disagree = exp.disagree
	return cs, nil
}

func c09StartDesc(cl c09Call) string {
	if cl.StartMin < 0 {
		return "zero"
	}
	return fmt.Sprintf("%dm30s ago", cl.StartMin)
}

func c09Desc(c c09Case) string {
	var ready, unready, empty, tasks int
	for _, ch := range c.Changes {
		tasks += len(ch.Tasks)
		switch {
		case ch.ReadyMin >= 0:
			ready++
		case len(ch.Tasks) == 0:
			empty++
		default:
			unready++
		}
	}
	var calls []string
	for _, cl := range c.Calls {
		calls = append(calls, fmt.Sprintf("Prune(start=%s,pruneWait=%dm,abortWait=%dm,max=%d)", c09StartDesc(cl), cl.PruneMin, cl.AbortMin, cl.Max))
	}
	var ages []string
	for _, ch := range c.Changes {
		if ch.ReadyMin >= 0 {
			ages = append(ages, fmt.Sprint(ch.ReadyMin))
		}
	}
	return fmt.Sprintf("%d ready (ready ages min: %s) + %d unready + %d empty changes, %d tasks, %d unlinked tasks, %d notices, %d warnings; %s",
		ready, strings.Join(ages, ","), unready, empty, tasks, len(c.Loose), len(c.Notices), len(c.Warnings), strings.Join(calls, "; "))
}

func c09Run(c c09Case) (verifkit.Outcome, error) {
	o := verifkit.Outcome{}
	if !c09Validate(c) {
		o.Skip = true
		return o, nil
	}
	w := &c09World{c: c, st: New(c09Backend{}), chgIdx: map[string]int{}}
	w.base = time.Now()
	defer w.close()
	w.st.Lock()
	defer w.st.Unlock()
	w.build()
	// whatever becomes ready or is noticed during Prune happens "30 s ago"
	w.clock(w.at(0))
	labels := map[string]bool{}
	for ci, cl := range c.Calls {
		cs, err := w.call(ci, cl)
		if time.Since(w.base) > 15*time.Second {
			// the machine stalled: the 30 s margins no longer protect the
			// verdict, so there is none
			return verifkit.Outcome{Skip: true}, nil
		}
		if err != nil {
			o.Desc = c09Desc(c)
			return o, err
		}
		for name, v := range map[string]bool{"both-reasons": cs.both, "limit-age-disagree": cs.disagree, "shielded": cs.shield, "aborted": cs.abort,
			"start-of-operation-saves": cs.startSaves, "empty-removed": cs.emptyGone, "empty-open": cs.emptyMay, "limit-tie": cs.tie,
			"unlinked-removed": cs.looseGone, "notice-expired": cs.noticeGone, "warning-expired": cs.warningGone, "limit-removes-tasks": cs.limitOnlyTasks} {
			if v {
				labels[name] = true
			}
		}
	}
	if len(c.Calls) > 1 {
		labels["several-calls"] = true
	}
	for l := range labels {
		o.Labels = append(o.Labels, l)
	}
	sort.Strings(o.Labels)
	o.NonTrivial = labels["both-reasons"] || labels["limit-age-disagree"] || labels["shielded"]
	o.Desc = c09Desc(c)
	return o, nil
}

// ---------------------------------------------------------------- generator

var c09Thresholds = []int{0, 1, 2, 3, 5, 10, 60, 1440, 4320, c09NoticeDefaultMin, c09WarningDefaultMin}

func c09GenAge(t *rapid.T, marks []int, label string) int {
	switch rapid.IntRange(0, 9).Draw(t, label+"-how") {
	case 0, 1, 2:
		return rapid.IntRange(0, 12).Draw(t, label)
	case 3:
		return rapid.IntRange(0, 60000).Draw(t, label)
	default:
		m := rapid.SampledFrom(marks).Draw(t, label+"-mark")
		a := m + rapid.IntRange(-3, 3).Draw(t, label+"-delta")
		if a < 0 {
			a = 0
		}
		return a
	}
}

func c09GenAges(t *rapid.T, marks []int, label string) []int {
	n := rapid.SampledFrom([]int{1, 1, 1, 2, 3}).Draw(t, label+"-n")
	ages := make([]int, n)
	for i := range ages {
		ages[i] = c09GenAge(t, marks, label)
	}
	sort.Sort(sort.Reverse(sort.IntSlice(ages)))
	return ages
}

func c09Gen(t *rapid.T) c09Case {
	var c c09Case
	ncalls := rapid.SampledFrom([]int{1, 1, 1, 2, 2, 3}).Draw(t, "ncalls")
	small := rapid.Bool().Draw(t, "small-periods")
	marks := []int{}
	for i := 0; i < ncalls; i++ {
		th := c09Thresholds
		if small {
			th = c09Thresholds[:6]
		}
		cl := c09Call{PruneMin: rapid.SampledFrom(th).Draw(t, "prune"), AbortMin: rapid.SampledFrom(th).Draw(t, "abort"), StartMin: -1}
		if rapid.IntRange(0, 3).Draw(t, "abort-vs-prune") == 0 {
			cl.AbortMin = cl.PruneMin + rapid.IntRange(-2, 4).Draw(t, "abort-delta")
			if cl.AbortMin < 0 {
				cl.AbortMin = 0
			}
		}
		marks = append(marks, cl.PruneMin, cl.AbortMin)
		c.Calls = append(c.Calls, cl)
	}
	for i := range c.Calls {
		if rapid.IntRange(0, 4).Draw(t, "start-zero") != 0 {
			c.Calls[i].StartMin = c09GenAge(t, marks, "start")
		}
	}
	nmax := verifkit.Size(30, 30)
	nchg := rapid.IntRange(0, nmax).Draw(t, "nchanges")
	if rapid.IntRange(0, 3).Draw(t, "few") == 0 {
		nchg = rapid.IntRange(0, 6).Draw(t, "nchanges-few")
	}
	genTasks := func(sts []string, lanesOK bool, progress bool) []c09Task {
		n := rapid.IntRange(1, 5).Draw(t, "ntasks")
		useLanes := lanesOK && rapid.IntRange(0, 2).Draw(t, "use-lanes") == 0
		tasks := make([]c09Task, n)
		for j := range tasks {
			tasks[j].St = rapid.SampledFrom(sts).Draw(t, "st")
			if useLanes {
				switch rapid.IntRange(0, 3).Draw(t, "nlanes") {
				case 1, 2:
					tasks[j].Lanes = []int{rapid.IntRange(1, 3).Draw(t, "lane")}
				case 3:
					p := rapid.Permutation([]int{1, 2, 3}).Draw(t, "lanes")
					tasks[j].Lanes = p[:2]
				}
			}
			for k := 0; k < j; k++ {
				if rapid.IntRange(0, 3).Draw(t, "edge") == 0 {
					if progress && tasks[j].St != "do" && tasks[k].St != "done" {
						continue
					}
					tasks[j].Waits = append(tasks[j].Waits, k)
				}
			}
		}
		return tasks
	}
	for i := 0; i < nchg; i++ {
		ch := c09Change{ReadyMin: -1}
		if rapid.IntRange(0, 2).Draw(t, "has-attr") == 0 {
			ch.Attrs = []int{rapid.IntRange(0, 2).Draw(t, "attr")}
			if rapid.IntRange(0, 4).Draw(t, "two-attrs") == 0 {
				ch.Attrs = append(ch.Attrs, (ch.Attrs[0]+1)%3)
			}
			ch.Pending[0] = rapid.IntRange(0, 2).Draw(t, "pending0") != 0
			ch.Pending[1] = rapid.IntRange(0, 2).Draw(t, "pending1") != 0
		}
		kind := rapid.SampledFrom([]string{"ready", "ready", "ready", "ready", "ready", "ready-empty", "progress", "progress", "progress", "mixed", "empty"}).Draw(t, "kind")
		switch kind {
		case "ready", "ready-empty":
			ch.ReadyMin = c09GenAge(t, marks, "ready-age")
			ch.SpawnMin = ch.ReadyMin + rapid.SampledFrom([]int{0, 0, 1, 2, 5, 60, 20000}).Draw(t, "ran-for")
			if kind == "ready" {
				ch.Tasks = genTasks([]string{"done", "done", "done", "undone", "hold", "error"}, true, false)
			} else {
				ch.Explicit = rapid.SampledFrom([]string{"done", "done", "error", "hold"}).Draw(t, "explicit")
			}
		case "progress":
			ch.SpawnMin = c09GenAge(t, marks, "spawn-age")
			ch.Tasks = genTasks([]string{"done", "done", "doing", "do", "do", "wait-done"}, true, true)
			unready := false
			for _, ts := range ch.Tasks {
				unready = unready || ts.St != "done"
			}
			if !unready {
				last := &ch.Tasks[len(ch.Tasks)-1]
				last.St = "do"
			}
		case "mixed":
			// no lanes: any mix of statuses, e.g. a change that is being undone
			ch.SpawnMin = c09GenAge(t, marks, "spawn-age")
			ch.Tasks = genTasks([]string{"undone", "undoing", "undo", "undo", "hold", "error", "abort", "wait-undone", "do", "doing", "done"}, false, false)
			unready := false
			for _, ts := range ch.Tasks {
				unready = unready || !c09ReadySt[ts.St]
			}
			if !unready {
				ch.Tasks[0].St = "undo"
			}
		case "empty":
			ch.SpawnMin = c09GenAge(t, marks, "spawn-age")
		}
		c.Changes = append(c.Changes, ch)
	}
	nready := 0
	for _, ch := range c.Changes {
		if ch.ReadyMin >= 0 {
			nready++
		}
	}
	for i := range c.Calls {
		// mostly near the number of ready changes that are within the
		// retention period, so that both rules have something to say
		young := 0
		for _, ch := range c.Changes {
			if ch.ReadyMin >= 0 && !c09Older(ch.ReadyMin, c.Calls[i].PruneMin) {
				young++
			}
		}
		m := 0
		switch rapid.IntRange(0, 5).Draw(t, "max-how") {
		case 0:
			m = rapid.IntRange(0, 40).Draw(t, "max")
		case 1:
			m = nready + rapid.IntRange(-6, 2).Draw(t, "max-delta")
		default:
			m = young + rapid.IntRange(-4, 1).Draw(t, "max-delta")
		}
		if m < 0 {
			m = 0
		}
		c.Calls[i].Max = m
	}
	for i, n := 0, rapid.IntRange(0, 4).Draw(t, "nloose"); i < n; i++ {
		c.Loose = append(c.Loose, c09Loose{SpawnMin: c09GenAge(t, marks, "loose-age"), St: rapid.SampledFrom([]string{"do", "do", "done", "hold"}).Draw(t, "loose-st")})
	}
	nmarks := append(append([]int{}, marks...), c09NoticeDefaultMin, c09NoticeDefaultMin, 7, 30)
	seenN := map[string]bool{}
	for i, n := 0, rapid.IntRange(0, 5).Draw(t, "nnotices"); i < n; i++ {
		nt := c09Notice{Type: rapid.IntRange(0, len(c09NoticeTypes)-1).Draw(t, "ntype"), Key: rapid.IntRange(0, 3).Draw(t, "nkey"), User: rapid.SampledFrom([]int{0, 0, 1000}).Draw(t, "nuser")}
		k := fmt.Sprint(nt.Type, "/", nt.Key, "/", nt.User)
		if seenN[k] {
			continue
		}
		seenN[k] = true
		nt.Ages = c09GenAges(t, nmarks, "nage")
		nt.ExpireMin = rapid.SampledFrom([]int{0, 0, 0, 7, 30}).Draw(t, "nexpire")
		c.Notices = append(c.Notices, nt)
	}
	wmarks := append(append([]int{}, marks...), c09WarningDefaultMin, c09WarningDefaultMin, 7, 30)
	seenW := map[int]bool{}
	for i, n := 0, rapid.IntRange(0, 4).Draw(t, "nwarnings"); i < n; i++ {
		wn := c09Warning{Msg: rapid.IntRange(0, 5).Draw(t, "wmsg")}
		if seenW[wn.Msg] {
			continue
		}
		seenW[wn.Msg] = true
		wn.Ages = c09GenAges(t, wmarks, "wage")
		wn.ExpireMin = rapid.SampledFrom([]int{0, 0, 0, 7, 30}).Draw(t, "wexpire")
		c.Warnings = append(c.Warnings, wn)
	}
	return c
}

// TestVerifC09Prune: generated populations and Prune parameters against the
// reference model.
func TestVerifC09Prune(t *testing.T) {
	verifkit.Check(t, verifkit.Spec[c09Case]{
		ID: "C09", Engine: "prune",
		Gen: c09Gen,
		Run: c09Run,
		Floors: map[string]float64{"both-reasons": 0.10, "limit-age-disagree": 0.20, "shielded": 0.05, "aborted": 0.15,
			"start-of-operation-saves": 0.03, "limit-removes-tasks": 0.10, "empty-removed": 0.05, "unlinked-removed": 0.10,
			"notice-expired": 0.10, "warning-expired": 0.10, "limit-tie": 0.03},
		NonTrivialFloor: 0.2,
	})
}

// TestVerifC09Examples runs the worked examples of the package's own Prune
// tests (state_test.go: TestPrune, TestPruneEmptyChange,
// TestPruneMaxChangesHappy/SomeNotReady/Honored, TestPruneHonorsStartOperationTime,
// TestRegisterPendingChangeByAttr) through the same model and judge, in minutes
// instead of hours/seconds: a unit test of the reference model on documented
// behaviour.
func TestVerifC09Examples(t *testing.T) {
	e := verifkit.NewEnum(t, "C09", "examples")
	defer e.Done()
	if raw, ok := e.Replaying(); ok {
		var c c09Case
		if err := json.Unmarshal(raw, &c); err != nil {
			t.Fatalf("cannot decode replay case: %v", err)
		}
		if _, err := c09Run(c); err != nil {
			e.Fail(c, "%v", err)
		}
		return
	}
	one := func(st string) []c09Task { return []c09Task{{St: st}} }
	year := 525600
	var happy, notReady, honored c09Case
	for i := 0; i < 10; i++ {
		happy.Changes = append(happy.Changes, c09Change{SpawnMin: i, ReadyMin: i, Tasks: one("done")})
		notReady.Changes = append(notReady.Changes, c09Change{SpawnMin: 0, ReadyMin: -1, Tasks: one("do")})
	}
	for i := 0; i < 5; i++ {
		happy.Changes = append(happy.Changes, c09Change{SpawnMin: 0, ReadyMin: -1, Tasks: one("do")})
	}
	happy.Calls = []c09Call{{StartMin: year, PruneMin: 60, AbortMin: 180, Max: 100}, {StartMin: year, PruneMin: 60, AbortMin: 180, Max: 5}}
	notReady.Calls = []c09Call{{StartMin: year, PruneMin: 60, AbortMin: 180, Max: 5}}
	honored.Changes = append(append([]c09Change{}, notReady.Changes...), c09Change{SpawnMin: 0, ReadyMin: 0, Tasks: one("done")})
	honored.Calls = []c09Call{{StartMin: year, PruneMin: 60, AbortMin: 180, Max: 10}}
	cases := []struct {
		name   string
		c      c09Case
		kept   []bool   // per change after the last call
		status []string // first task of each kept change
	}{
		{"TestPrune", c09Case{
			Changes: []c09Change{
				{SpawnMin: 180, ReadyMin: -1, Tasks: one("do")},
				{SpawnMin: 60, ReadyMin: 60, Tasks: one("done")},
				{SpawnMin: 60, ReadyMin: 30, Tasks: one("done")},
				{SpawnMin: 30, ReadyMin: -1, Tasks: one("do")}},
			Loose:    []c09Loose{{SpawnMin: 60, St: "do"}},
			Warnings: []c09Warning{{Msg: 0, Ages: []int{c09WarningDefaultMin}}, {Msg: 1, Ages: []int{0}}},
			Calls:    []c09Call{{StartMin: year, PruneMin: 60, AbortMin: 180, Max: 100}}},
			[]bool{true, false, true, true}, []string{"hold", "", "done", "do"}},
		{"TestPruneEmptyChange", c09Case{
			Changes: []c09Change{{SpawnMin: 60, ReadyMin: -1}},
			Calls:   []c09Call{{StartMin: year, PruneMin: 60, AbortMin: 180, Max: 100}}},
			[]bool{false}, nil},
		{"TestPruneMaxChangesHappy", happy,
			[]bool{true, true, true, true, true, false, false, false, false, false, true, true, true, true, true}, nil},
		{"TestPruneMaxChangesSomeNotReady", notReady, []bool{true, true, true, true, true, true, true, true, true, true}, nil},
		{"TestPruneMaxChangesHonored", honored, []bool{true, true, true, true, true, true, true, true, true, true, true}, nil},
		{"TestPruneHonorsStartOperationTime", c09Case{
			Changes: []c09Change{{SpawnMin: 600, ReadyMin: -1, Tasks: one("do")}},
			Calls:   []c09Call{{StartMin: 120, PruneMin: 60, AbortMin: 180, Max: 100}}},
			[]bool{true}, []string{"do"}},
		{"TestPruneHonorsStartOperationTime/2", c09Case{
			Changes: []c09Change{{SpawnMin: 600, ReadyMin: -1, Tasks: one("do")}},
			Calls:   []c09Call{{StartMin: 120, PruneMin: 60, AbortMin: 180, Max: 100}, {StartMin: 540, PruneMin: 60, AbortMin: 180, Max: 100}}},
			[]bool{true}, []string{"hold"}},
		{"TestRegisterPendingChangeByAttr", c09Case{
			Changes: []c09Change{
				{SpawnMin: 180, ReadyMin: -1, Tasks: []c09Task{{St: "do"}, {St: "do"}}},
				{SpawnMin: 180, ReadyMin: -1, Tasks: []c09Task{{St: "hold"}, {St: "do"}}, Attrs: []int{0}, Pending: [2]bool{true, false}}},
			Calls: []c09Call{{StartMin: year, PruneMin: 60, AbortMin: 180, Max: 100}}},
			[]bool{true, true}, []string{"hold", "hold"}},
	}
	for _, tc := range cases {
		// (1) the judge accepts what snapd does on the documented example
		if !c09Validate(tc.c) {
			t.Fatalf("HARNESS: example %s is outside the harness's domain", tc.name)
		}
		if _, err := c09Run(tc.c); err != nil {
			e.Fail(tc.c, "%s: %v", tc.name, err)
		}
		// (2) the model alone predicts the documented outcome
		pop := make([]c09Pop, len(tc.c.Changes))
		for i, ch := range tc.c.Changes {
			sh := false
			for _, a := range ch.Attrs {
				sh = sh || (a < 2 && ch.Pending[a])
			}
			pop[i] = c09Pop{present: true, readyMin: ch.ReadyMin, spawnMin: ch.SpawnMin, ntasks: len(ch.Tasks), shielded: sh}
		}
		aborted := make([]bool, len(pop))
		for _, cl := range tc.c.Calls {
			exp := c09Model(pop, cl)
			if len(exp.tie) > 0 || len(exp.mayRemove) > 0 {
				t.Fatalf("HARNESS: example %s is not decided by the model", tc.name)
			}
			for i := range pop {
				if exp.mustRemove[i] {
					pop[i].present = false
				}
				if exp.abort[i] {
					aborted[i] = true
				}
			}
		}
		for i := range pop {
			if pop[i].present != tc.kept[i] {
				t.Fatalf("HARNESS: reference model disagrees with documented example %s: change #%d kept=%v, documented %v", tc.name, i, pop[i].present, tc.kept[i])
			}
			if tc.status != nil && pop[i].present {
				want := tc.c.Changes[i].Tasks[0].St
				if aborted[i] && want == "do" {
					want = "hold"
				}
				if want != tc.status[i] {
					t.Fatalf("HARNESS: reference model disagrees with documented example %s: first task of change #%d %s, documented %s", tc.name, i, want, tc.status[i])
				}
			}
		}
		e.Case(tc.name, true, "documented-example")
	}
}
